"""Sidecar contracts for the dense ("full format") Chebyshev routines of teneva/func_full.py (C12): func_int_full, func_sum_full,
func_get_full, func_gets_full, for the concrete numbers of dimensions d = 1, 2, 3.
Model-table entries and spec symbols: ttvc/mx_rest.py; standard-model interpretations: lemmas/spotcheck_ext_rest.py."""
import z3
from ttvc.units import unit
from ttvc.symex import VOpt, VStr, VRec, VSeq, VArr, VFunc, VTuple, VRef, VList, VSym, NONE, Z
from ttvc import models as M, theory as T, vec as V, pt as PT
from ttvc import mx_func as XF
from ttvc import mx_rest as XR
from contracts import spec as S
from contracts import grid as CG
from contracts import func_more as CF

ff_IA, ff_RA = XR.ff_IA, XR.ff_RA
ff_HALF = z3.RealVal('1/2')


# ----------------------------------------------------------------------------------------------
# func_full.func_int_full: interpolation coefficients of a dense array of grid values, d = 1, 2, 3
#
# The function applies, mode by mode (k = 0, .., d-1), ONE AND THE SAME 1-D transform along axis k: the array is brought to the form
# (n_k) x (everything else) by np.swapaxes(A, 0, k) and a Fortran-order reshape, every COLUMN x (length m = n_k = size of the CURRENT
# mode) is replaced by
#       c_i = w_i / (m - 1) * DCT-I(x)_i,     w_0 = w_{m-1} = 1/2, w_i = 1 otherwise,   DCT-I(x)_i = x_0 + (-1)^i x_{m-1} + 2 sum_{0<l<m-1} x_l cos(pi i l / (m-1))
# (computed as the first m rows of the real part of the FFT of the even extension [x_0 .. x_{m-1}, x_{m-2} .. x_1]; that this is the
# DCT-I - the operator dct1 of mx_func with its defining sum, group 'dct1' - is the spot-checked axiom rest_dense[17]), and the array is
# folded back.  This is the 1-D operator of func.func_int (unit func.func_int: A[k][:, j, :] = w_j/(n-1) dct1(Y[k])[:, j, :]) applied to
# the matrix as a 3-D array with one leading index (rest_lift).
#
# The contract does not fix the code-level term: it reads off, per mode k, the EXECUTED column transform W_k (the term the code built
# over the unfolded array, as a function of that matrix) and proves about it (so independent statements may be reordered, but a wrong
# constant, a missing halving or the size of another mode is a failed obligation):
#   lemma `columns` (schema, arbitrary matrix M with m = n_k >= 2 rows): W_k(M) has the shape of M and
#         W_k(M)[i, c] = w_i * (1/(m-1) * dct1(lift(M))[0, i, c]),  lift(M)[0, l, c] = M[l, c], dct1(.)[0, i, c] written out by its defining sum;
#   d = 1:  result = column 0 of W_0(colm(Y))                  (so result[i] = w_i/(n_0-1) * DCT-I(Y)_i)
#   d = 2:  result = tr(W_1(tr(R0))),  R0 = W_0(Y)             (columns first, then rows - with the size n_1 of the SECOND mode)
#   d = 3:  result = stage2(stage1(stage0(Y))) where, slice by slice and entry by entry,
#           stage0(G)[:, j, :] = W_0(G[:, j, :])               (the columns of every slice G[:, j, :]: axis 0, size n_0)
#           stage1(G)[a, :, :] = W_1(G[a, :, :])               (the columns of every G[a, :, :]:       axis 1, size n_1)
#           stage2(G)[:, j, :] = tr(W_2(tr(G[:, j, :])))       (the rows of every slice G[:, j, :]:    axis 2, size n_2)
#           and every stage folds back to the shape of Y (the reshape gets the sizes with n_0 and n_k swapped);
#   result shape = shape of Y; Y is not rebound (A = Y.copy(); arrays are values in ttvc, aliasing is the business of frames / C09).
# Precondition: every n_k >= 2 (C12 quantifies n_k >= 2; m - 1 is a divisor, DCT-I needs two points).
# NOT covered: d >= 4; n_k = 1; rounding (A-REAL); that np.swapaxes / reshape return views or copies (frames).

ff_AXW = T.axioms('shape', 'sub', 'rest_dense', 'smul', 'entsub')
ff_AXS = T.axioms('shape', 'sub', 'mulI', 'unfold', 'rest_dense', 'rest_colsel')
ff_AXE = ff_AXS + T.axioms('centsl', 'entsub')          # element level (entries of slices / of transposed matrices)
ff_AXD = T.axioms('shape', 'rest_dense', 'dct1')        # the defining sum of the DCT-I


def ff_is(t, decl):
    return z3.is_app(t) and t.decl().eq(decl)


def ff_find_ext(Xt):
    """The matrix U whose even extension vcat(U, U[lo:hi:-1]) is transformed inside the term Xt (outermost occurrence)."""
    queue, seen = [Xt], set()
    while queue:
        t = queue.pop(0)
        if t.get_id() in seen:
            continue
        seen.add(t.get_id())
        if ff_is(t, T.vcat) and ff_is(t.arg(1), XR.rest_revrows) and z3.eq(t.arg(1).arg(0), t.arg(0)):
            return t.arg(0)
        if z3.is_app(t):
            queue.extend(t.children())
    raise M.ContractMismatch('func_int_full(): no even extension np.vstack([A, A[lo:hi:-1, :]]) in the transformed matrix')


def ff_executed(Xt):
    """(U, W): the executed column transform as a function of the matrix it acts on: W(U) is the term Xt."""
    U_ = ff_find_ext(Xt)
    return U_, (lambda Mt: z3.substitute(Xt, (U_, Mt)))


def ff_wgt(i, m):
    return z3.If(z3.Or(i == 0, i == m - 1), ff_HALF, z3.RealVal(1))


def ff_D(Mt, i, c):
    """DCT-I of the column c of the matrix Mt at the index i: the 1-D operator dct1 of mx_func on the lifted matrix."""
    return T.centry(XF.dct1(XR.rest_lift(Mt)), 0, i, c)


def ff_wform(i, m, Mt, c):
    return ff_wgt(i, m) * ((1 / z3.ToReal(m - 1)) * ff_D(Mt, i, c))


def ff_column_lemma(U, k, W, m, sizes):
    """Lemma schema `columns` for the executed transform W of mode k (m = n_k), proved for an ARBITRARY matrix M0 with m rows (only the
    size precondition in the context); returned as quantified facts (shape, entries) usable for any matrix term."""
    M0 = z3.Const('M!ffl', T.Mat)
    i0, c0 = z3.Ints('i!ffl c!ffl')
    ctx = list(sizes) + [T.rows(M0) == m, T.cols(M0) >= 0]
    U.lemma(f'mode-{k}.columns: the-transformed-matrix-has-the-shape-of-the-matrix', ctx, z3.And(T.rows(W(M0)) == m, T.cols(W(M0)) == T.cols(M0)),
            axioms=ff_AXW, mode='ematch')
    U.lemma(f'mode-{k}.columns: entry[i, c] = w_i * (1/(n_{k}-1) * DCT-I(column c)_i), w = 1/2 at both ends', ctx + [0 <= i0, i0 < m, 0 <= c0, c0 < T.cols(M0)],
            T.ent(W(M0), i0, c0) == ff_wform(i0, m, M0, c0), axioms=ff_AXW, mode='ematch')
    U.canary(f'canary-mode-{k}.columns: no-halving-at-the-ends', ctx + [i0 == 0, 0 <= c0, c0 < T.cols(M0)],
             T.ent(W(M0), i0, c0) == (1 / z3.ToReal(m - 1)) * ff_D(M0, i0, c0), axioms=ff_AXW)
    Mq, iq, cq = z3.Const('M!ffq', T.Mat), z3.Int('i!ffq'), z3.Int('c!ffq')
    shape_fact = z3.ForAll([Mq], z3.Implies(z3.And(T.rows(Mq) == m, T.cols(Mq) >= 0), z3.And(T.rows(W(Mq)) == m, T.cols(W(Mq)) == T.cols(Mq))), patterns=[W(Mq)])
    entry_fact = z3.ForAll([Mq, iq, cq], z3.Implies(z3.And(T.rows(Mq) == m, 0 <= iq, iq < m, 0 <= cq, cq < T.cols(Mq)),
                                                    T.ent(W(Mq), iq, cq) == ff_wform(iq, m, Mq, cq)), patterns=[T.ent(W(Mq), iq, cq)])
    return shape_fact, entry_fact


def ff_dct_written_out(U):
    """ff_D(M, i, c) is the defining sum of the DCT-I over the column c of an m-row matrix (group 'dct1' of mx_func at the lifted matrix)."""
    Mx, m = z3.Const('M!ffx', T.Mat), z3.Int('m!ffx')
    i0, c0 = z3.Ints('i!ffd c!ffd')
    Gl = XR.rest_lift(Mx)
    dsum = T.centry(Gl, 0, 0, c0) + T.rmul(XF.sgnpow(i0), T.centry(Gl, 0, m - 1, c0)) + 2 * XF.dct1sum(Gl, 0, i0, c0, m - 1)
    U.lemma('DCT-I(column c)_i = x_0 + (-1)^i x_{m-1} + 2 sum_{0<l<m-1} x_l cos(pi i l/(m-1)) over the fibre x_l = lift(M)[0, l, c] = M[l, c]',
            [T.rows(Mx) == m, m >= 2, 0 <= i0, i0 < m, 0 <= c0, c0 < T.cols(Mx)],
            z3.And(ff_D(Mx, i0, c0) == dsum, T.centry(Gl, 0, i0, c0) == T.ent(Mx, i0, c0)), axioms=ff_AXD, mode='ematch')


FF_SW = (None, XR.rest_sw01, XR.rest_sw02)
FF_SWF = ((lambda t: t), XR.rest_sw01, XR.rest_sw02)


def ff_peel3(t, k):
    """t = sw_k(foldR(X, p, q)) with X built over U = unfR(sw_k(inner)): returns (X, p, q, inner)."""
    if k > 0:
        if not ff_is(t, FF_SW[k]):
            raise M.ContractMismatch(f'func_int_full(): the result of mode {k} is not swapped back by np.swapaxes(A, 0, {k})')
        t = t.arg(0)
    if not ff_is(t, T.foldR):
        raise M.ContractMismatch(f'func_int_full(): the result of mode {k} is not folded back by a Fortran-order reshape')
    Xt, p_, q_ = t.children()
    U_ = ff_find_ext(Xt)
    if not ff_is(U_, T.unfR):
        raise M.ContractMismatch(f'func_int_full(): mode {k} does not transform the Fortran-order unfolding')
    inner = U_.arg(0)
    if k > 0:
        if not ff_is(inner, FF_SW[k]):
            raise M.ContractMismatch(f'func_int_full(): mode {k} is not brought to the front by np.swapaxes(A, 0, {k})')
        inner = inner.arg(0)
    return Xt, p_, q_, inner


def _int_full_unit(U, d):
    fn = U.func('func_full', 'func_int_full')
    st = U.state()
    i0, l0, a0, b0, j0 = z3.Ints('i!ffs l!ffs a!ffs b!ffs j!ffs')
    if d == 1:
        n = (z3.Int('n0'),)
        Yt = z3.Const('Y', ff_RA)
        Yv = V.RVec(n[0], Yt)
    elif d == 2:
        Yv, Yt = S.mat_param('Y')
        n = (T.rows(Yt), T.cols(Yt))
    else:
        Yv, Yt = S.core_param('Y')
        n = (T.d0(Yt), T.d1(Yt), T.d2(Yt))
    sizes = [x >= 2 for x in n]
    ex = U.executor(fn, axioms=ff_AXS)
    ex.mode = 'ematch'
    ex.rest_ff = True
    st.vars.update(Y=Yv)
    res = U.run(ex, st, pre=sizes)
    U.cover('precondition-satisfiable', U.pre, axioms=ff_AXS)
    ff_dct_written_out(U)
    if len(res) != 1:
        raise M.ContractMismatch('func_int_full(): one path expected')
    for p, o in res:
        if o.kind != 'return':
            U.post('no-exception', p, False, axioms=ff_AXS, mode='ematch')
            continue
        R = p.deref(o.value)
        ok = (XF.is_vec(R, 'rvec'), XR.ff_is_mat(R), XR.ff_is_core(R))[d - 1]
        U.post(f'returns-a-{d}-D-array-with-a-denotation', p, z3.BoolVal(bool(ok)))
        if not ok:
            continue
        U.post('same-shape-as-Y', p, z3.And(*[Z(R.shape[k]) == n[k] for k in range(d)]), axioms=ff_AXS, mode='ematch')
        U.post('argument-is-not-rebound (A = Y.copy())', p, z3.BoolVal(p.vars.get('Y') is Yv))
        hyp = list(p.pc)
        from ttvc.symex import quick_unsat
        if not quick_unsat(list(ff_AXS) + hyp + [z3.Not(z3.And(*[Z(R.shape[k]) == n[k] for k in range(d)]))]):
            continue            # a wrong result shape is reported by the post above; the structure below is not looked at
        if d == 1:
            if not ff_is(R.t, XR.rest_col0):
                raise M.ContractMismatch('func_int_full(): the 1-D result is not the column of the transformed one-column matrix')
            U0, W0 = ff_executed(R.t.arg(0))
            U.post('mode-0: the-transformed-matrix-is-the-column-of-values', p, U0 == XR.rest_colm(Yt, n[0]), axioms=ff_AXS, mode='ematch')
            sf, ef = ff_column_lemma(U, 0, W0, n[0], sizes)
            Yc = XR.rest_colm(Yt, n[0])
            U.post('entry[i] = w_i/(n_0-1) * DCT-I(Y)_i', hyp + [U0 == Yc, ef, 0 <= i0, i0 < n[0]],
                   z3.And(R.t[i0] == ff_wform(i0, n[0], Yc, 0), z3.Implies(z3.And(0 <= l0, l0 < n[0]), T.ent(Yc, l0, 0) == Yt[l0])), axioms=ff_AXE, mode='ematch')
            U.canary('canary-entries-are-zero', hyp + [U0 == Yc, ef, 0 <= i0, i0 < n[0]], R.t[i0] == 0, axioms=ff_AXE)
            U.canary('canary-the-context-of-the-entry-post-is-consistent', hyp + [U0 == Yc, ef, sf, 0 <= i0, i0 < n[0]], False, axioms=ff_AXE)
        elif d == 2:
            if not ff_is(R.t, T.tr):
                raise M.ContractMismatch('func_int_full(): the 2-D result is not swapped back by np.swapaxes(A, 0, 1)')
            U1, W1 = ff_executed(R.t.arg(0))
            if not ff_is(U1, T.tr):
                raise M.ContractMismatch('func_int_full(): mode 1 is not brought to the front by np.swapaxes(A, 0, 1)')
            U0, W0 = ff_executed(U1.arg(0))
            U.post('mode-0: the-transformed-matrix-is-Y-itself (columns first)', p, U0 == Yt, axioms=ff_AXS, mode='ematch')
            sf0, ef0 = ff_column_lemma(U, 0, W0, n[0], sizes)
            sf1, ef1 = ff_column_lemma(U, 1, W1, n[1], sizes)
            G0 = z3.Const('G!ffl', T.Mat)
            gctx = [T.rows(G0) == n[0], T.cols(G0) == n[1]] + sizes
            s1 = T.tr(W1(T.tr(G0)))
            U.lemma('mode-1: the-ROWS-are-transformed-with-the-size-n_1-of-the-second-mode: entry[a, i] = w_i/(n_1-1) * DCT-I(row a)_i',
                    gctx + [sf1, ef1, 0 <= a0, a0 < n[0], 0 <= i0, i0 < n[1]],
                    z3.And(T.ent(s1, a0, i0) == ff_wform(i0, n[1], T.tr(G0), a0), T.rows(s1) == n[0], T.cols(s1) == n[1]), axioms=ff_AXE, mode='ematch')
            U.lemma('mode-1: the-transformed-fibre-is-the-row: tr(G)[l, a] = G[a, l]', gctx + [0 <= a0, a0 < n[0], 0 <= l0, l0 < n[1]],
                    T.ent(T.tr(G0), l0, a0) == T.ent(G0, a0, l0), axioms=ff_AXE, mode='ematch')
            U.post('mode-0-result-has-the-shape-of-Y (input of mode 1)', hyp + [sf0, U0 == Yt], z3.And(T.rows(U1.arg(0)) == n[0], T.cols(U1.arg(0)) == n[1]),
                   axioms=ff_AXS, mode='ematch')
            U.canary('canary-the-context-of-the-stage-lemmas-is-consistent', gctx + [sf0, ef0, sf1, ef1, 0 <= a0, a0 < n[0], 0 <= i0, i0 < n[1]], False, axioms=ff_AXE)
            U.canary('canary-mode-1-entry-uses-the-size-of-mode-0', gctx + [sf1, ef1, 0 <= a0, a0 < n[0], 0 <= i0, i0 < n[1]],
                     T.ent(s1, a0, i0) == ff_wform(i0, n[0], T.tr(G0), a0), axioms=ff_AXE)
        else:
            # peel the three stages off the result (the executed terms), innermost last
            X2, p2, q2, R1t = ff_peel3(R.t, 2)
            X1, p1, q1, R0t = ff_peel3(R1t, 1)
            X0, p0, q0, Y0t = ff_peel3(R0t, 0)
            U.post('mode-0-acts-on-Y, mode-1-on-its-result, mode-2-on-that (order 0-1-2)', p, Y0t == Yt, axioms=ff_AXS, mode='ematch')
            U.post('every-stage-folds-back-with-the-sizes-of-the-other-two-modes (n with n_0 and n_k swapped)', p,
                   z3.And(p0 == n[1], q0 == n[2], p1 == n[0], q1 == n[2], p2 == n[1], q2 == n[0]), axioms=ff_AXS, mode='ematch')
            Ws, facts = [], []
            for k, Xk in enumerate((X0, X1, X2)):
                Wk = ff_executed(Xk)[1]
                Ws.append(Wk)
                facts.append(ff_column_lemma(U, k, Wk, n[k], sizes))
            # the three per-mode stages, slice by slice and entry by entry (lemma schemas for an ARBITRARY 3-D array of the shape of Y)
            G0 = z3.Const('G!ffl', T.Core)
            gctx = [T.d0(G0) == n[0], T.d1(G0) == n[1], T.d2(G0) == n[2]] + sizes
            perm = lambda k: [n[k]] + [n[t] if t != k else n[0] for t in (1, 2)]
            stage = lambda Gt, k: FF_SWF[k](T.foldR(Ws[k](T.unfR(FF_SWF[k](Gt))), perm(k)[1], perm(k)[2]))
            st0, st1, st2 = stage(G0, 0), stage(G0, 1), stage(G0, 2)
            same_shape = lambda t: z3.And(T.d0(t) == n[0], T.d1(t) == n[1], T.d2(t) == n[2])
            sl_0 = z3.And(T.sl(st0, j0) == Ws[0](T.sl(G0, j0)), same_shape(st0))
            sl_1 = z3.And(XR.rest_sl0(st1, a0) == Ws[1](XR.rest_sl0(G0, a0)), same_shape(st1))
            sl_2 = z3.And(T.sl(st2, j0) == T.tr(Ws[2](T.tr(T.sl(G0, j0)))), same_shape(st2))
            U.lemma('mode-0: every-slice-[:, j, :]-has-its-COLUMNS-transformed-with-the-size-n_0', gctx + [facts[0][0], 0 <= j0, j0 < n[1]], sl_0, axioms=ff_AXS, mode='ematch')
            U.lemma('mode-1: every-[a, :, :]-has-its-COLUMNS-transformed-with-the-size-n_1', gctx + [facts[1][0], 0 <= a0, a0 < n[0]], sl_1, axioms=ff_AXS, mode='ematch')
            U.lemma('mode-2: every-slice-[:, j, :]-has-its-ROWS-transformed-with-the-size-n_2', gctx + [facts[2][0], 0 <= j0, j0 < n[1]], sl_2, axioms=ff_AXS, mode='ematch')
            dom = [0 <= a0, a0 < n[0], 0 <= j0, j0 < n[1], 0 <= b0, b0 < n[2]]
            U.lemma('mode-0: entry[i, j, b] = w_i/(n_0-1) * DCT-I(fibre [:, j, b])_i', gctx + [facts[0][1], sl_0, 0 <= i0, i0 < n[0]] + dom,
                    T.centry(st0, i0, j0, b0) == ff_wform(i0, n[0], T.sl(G0, j0), b0), axioms=ff_AXE, mode='ematch')
            U.lemma('mode-1: entry[a, i, b] = w_i/(n_1-1) * DCT-I(fibre [a, :, b])_i', gctx + [facts[1][1], sl_1, 0 <= i0, i0 < n[1]] + dom,
                    T.centry(st1, a0, i0, b0) == ff_wform(i0, n[1], XR.rest_sl0(G0, a0), b0), axioms=ff_AXE, mode='ematch')
            U.lemma('mode-2: entry[a, j, i] = w_i/(n_2-1) * DCT-I(fibre [a, j, :])_i', gctx + [facts[2][1], sl_2, 0 <= i0, i0 < n[2]] + dom,
                    T.centry(st2, a0, j0, i0) == ff_wform(i0, n[2], T.tr(T.sl(G0, j0)), a0), axioms=ff_AXE, mode='ematch')
            U.lemma('the-transformed-fibres-are-the-fibres-of-the-array-along-the-mode', gctx + dom + [0 <= l0],
                    z3.And(z3.Implies(l0 < n[0], T.ent(T.sl(G0, j0), l0, b0) == T.centry(G0, l0, j0, b0)),
                           z3.Implies(l0 < n[1], T.ent(XR.rest_sl0(G0, a0), l0, b0) == T.centry(G0, a0, l0, b0)),
                           z3.Implies(l0 < n[2], T.ent(T.tr(T.sl(G0, j0)), l0, a0) == T.centry(G0, a0, j0, l0))), axioms=ff_AXE, mode='ematch')
            U.post('the-result-is-stage2(stage1(stage0(Y)))', hyp + [Y0t == Yt, p0 == n[1], q0 == n[2], p1 == n[0], q1 == n[2], p2 == n[1], q2 == n[0]],
                   R.t == stage(stage(stage(Yt, 0), 1), 2), axioms=ff_AXS, mode='ematch')
            U.canary('canary-the-context-of-the-stage-lemmas-is-consistent', gctx + [f for pr in facts for f in pr] + [sl_0, sl_1, sl_2, 0 <= i0, i0 < 2] + dom,
                     False, axioms=ff_AXE)
            U.canary('canary-mode-1-entry-uses-the-size-of-mode-0', gctx + [facts[1][1], sl_1, 0 <= i0, i0 < n[1]] + dom,
                     T.centry(st1, a0, i0, b0) == ff_wform(i0, n[0], XR.rest_sl0(G0, a0), b0), axioms=ff_AXE)


for _ff_d in (1, 2, 3):
    def _ff_mk_int(d=_ff_d):
        @unit(f'func_full.func_int_full.d{d}', props=('C12',))
        def u(U):
            _int_full_unit(U, d)
    _ff_mk_int()


# ----------------------------------------------------------------------------------------------
# grid.grid_prep_opt / grid.grid_prep_opts for a TUPLE of mode sizes (the dense routines hand `A.shape` through grid_prep_opts)
#
# grid_prep_opt(n, d, int) for a tuple n of integers: the integer vector with the same entries, whatever d (a tuple is neither a number
# nor None; np.asanyarray(tuple, dtype=int)).  grid_prep_opts(a, b, n, d) with such a tuple: the length test of the loop only looks at
# lists and arrays (a tuple is skipped), ValueError iff a list-like a / b has a length other than d, otherwise the three options
# normalised by grid_prep_opt with the kinds float, float, int and the same d, in the order a, b, n.

def ff_tuple_to_vec(st, v):
    w = st.deref(v)
    if isinstance(w, VTuple) and XR.ff_int_items(st, w) is not None:
        return XR.FFIVec(w.items)
    return v


def ff_call_grid_prep_opt(ex, st, args, kwargs, node):
    """grid_prep_opt by its units (grid.grid_prep_opt.* of contracts/misc.py / func_more.py; a tuple of integers: grid.grid_prep_opt.int_tuple.*)."""
    args = [ff_tuple_to_vec(st, args[0])] + list(args[1:])
    return CF.call_grid_prep_opt_any(ex, st, args, kwargs, node)


def ff_call_grid_prep_opts(ex, st, args, kwargs, node):
    """grid_prep_opts(a, b, n, d) where n may be the tuple A.shape (units grid.grid_prep_opts.tuple_n.* below, grid.grid_prep_opts.values.* otherwise)."""
    if kwargs or len(args) != 4:
        raise M.Unsupported('grid_prep_opts: only the call (a, b, n, d) is under this call-site contract')
    return CF.call_grid_prep_opts(ex, st, [args[0], args[1], ff_tuple_to_vec(st, args[2]), args[3]], kwargs, node)


for _ff_d in (1, 2, 3):
    def _ff_mk_tuple(d=_ff_d):
        @unit(f'grid.grid_prep_opt.int_tuple.d{d}', props=('C12', 'C18'))
        def u(U):
            fn = U.func('grid', 'grid_prep_opt')
            ex = U.executor(fn)
            ex.rest_ff = True
            st = U.state()
            items = [z3.Int(f'n{k}') for k in range(d)]
            st.vars.update(opt=VTuple(items), d=S.opt_int('d'), kind=M.TypeVal('int'), reps=NONE)
            res = U.run(ex, st, pre=[])
            U.cover('reachable', U.pre)
            for p, o in res:
                R = p.deref(o.value) if o.kind == 'return' else None
                ok = isinstance(R, XR.FFIVec) and len(R.items) == d and all(x is y for x, y in zip(R.items, items)) and R.dtype == 'i'
                U.post('the-integer-vector-with-the-entries-of-the-tuple-whatever-the-dimension-argument', p, z3.BoolVal(ok))
                if ok:
                    U.post('entries', p, z3.And(*[R.t[k] == items[k] for k in range(d)]))
                    U.canary('canary-entries-are-zero', p, R.t[0] == 0)
            U.post('no-fork-on-the-dimension', [], z3.BoolVal(len(res) == 1))
    _ff_mk_tuple()


def _ff_prep_opts_tuple_unit(U, akind, bkind):
    fn = U.func('grid', 'grid_prep_opts')
    st = U.state()
    d, La, Lb = z3.Ints('d len_a len_b')

    def rec(ex, s, args, kwargs, node):
        out = ff_call_grid_prep_opt(ex, s, args, kwargs, node)
        s.ghost['gpo'] = s.ghost.get('gpo', []) + [(args, dict(kwargs), out)]
        return out

    ex = U.executor(fn, callees={'grid.grid_prep_opt': rec})
    ex.rest_ff = True
    a, b = CF._opts_kind(st, 'a', akind, La), CF._opts_kind(st, 'b', bkind, Lb)
    items = [z3.Int(f'n{k}') for k in range(3)]
    n = VTuple(items)
    st.vars.update(a=a, b=b, n=n, d=d, reps=NONE)
    res = U.run(ex, st, pre=[d >= 1, La >= 0, Lb >= 0])
    U.assumed.append('grid.grid_prep_opt (units grid.grid_prep_opt.*, grid.grid_prep_opt.int_tuple.*)')
    U.cover('precondition-satisfiable', U.pre)
    bad = z3.Or([L != d for L, k in ((La, akind), (Lb, bkind)) if k == 'list'] + [z3.BoolVal(False)])
    for p, o in res:
        if o.kind == 'raise':
            U.raise_iff('raises-only-if-a-list-like-bound-has-a-length-other-than-d (the tuple is not tested)', p, bad)
            U.raise_iff('raises-ValueError', p, o.exc == 'ValueError')
            continue
        U.raise_iff('returns-only-if-all-list-like-bounds-have-length-d', p, z3.Not(bad))
        cs = p.ghost.get('gpo', [])
        ok = isinstance(o.value, VTuple) and len(o.value.items) == 3 and len(cs) == 3 and all(x is c[2] for x, c in zip(o.value.items, cs))
        U.post('returns-the-three-normalised-options-in-the-order-a-b-n', p, z3.BoolVal(ok))
        if not ok:
            continue
        for (args, kw, out), src, knd, nm in zip(cs, (a, b, n), ('float', 'float', 'int'), 'abn'):
            good = len(args) == 4 and not kw and args[0] is src and isinstance(args[2], M.TypeVal) and args[2].name == knd and args[3] is NONE
            U.post(f'option-{nm}-is-normalised-by-grid_prep_opt-with-kind-{knd}-and-no-repetition', p, z3.BoolVal(good))
            if good:
                U.post(f'option-{nm}-is-normalised-with-the-dimension-d', p, Z(args[1]) == d)
        nv = p.deref(o.value.items[2])
        U.post('the-sizes-come-back-as-the-integer-vector-of-the-tuple', p, z3.BoolVal(isinstance(nv, XR.FFIVec) and all(x is y for x, y in zip(nv.items, items))))
        U.canary('canary-never-returns', p, False)


for _ff_ak, _ff_bk in (('number', 'number'), ('list', 'list')):
    def _ff_mk_po(ak=_ff_ak, bk=_ff_bk):
        @unit(f'grid.grid_prep_opts.tuple_n.{ak}_{bk}', props=('C12', 'C18'))
        def u(U):
            _ff_prep_opts_tuple_unit(U, ak, bk)
    _ff_mk_po()


# ----------------------------------------------------------------------------------------------
# func_full.func_sum_full: the integral of the dense interpolant over a SYMMETRIC box (Clenshaw-Curtis), d = 1, 2, 3
#
# raise-iff: ValueError is raised iff for some mode | |b_k| - |a_k| | > 1e-16 (the box is not symmetric), before anything is computed.
# Otherwise the array is reduced mode by mode (k = 0, .., d-1): it is brought to the form (n_k) x (everything else) by a C-order reshape
# with the size n_k of the CURRENT mode, and every COLUMN x (length m = n_k) is replaced by the number
#       (b_k - a_k)/2 * sum_{i even, i < m} 2/(1 - i^2) * x_i        (Clenshaw-Curtis weights on the even coefficients, i = 2l),
# the 1-D operator of func.func_sum (unit func.func_sum.*: weights p[l] = 2/(1-(2l)^2), factor (b_k-a_k)/2 per mode).  Spec function
# rest_ccsum(M, c, k) = sum_{l<k} 2 M[2l, c]/(1-(2l)^2) (recursive definition, spot-checked); the code computes it as the column sum of
# M[::2, :] * 2. / (1. - P**2) - the equality of the two partial sums is proved by induction (lemma base / step) for the EXECUTED term.
#   lemma `columns` (schema, arbitrary matrix M with m = n_k rows): V_k(M) is a 1 x cols(M) row, V_k(M)[0, c] = (b_k-a_k)/2 * ccsum(M, c, (m+1)//2);
#   d = 1: result = V_0(colm(A))[0, 0];    d = 2: result = V_1(M1)[0, 0],  M1[j, 0] = V_0(A)[0, j];
#   d = 3: result = V_2(M2)[0, 0],  M2[b, 0] = V_1(M1)[0, b],  row j of M1 = V_0(A[:, j, :])   (every fold uses the size of the NEXT mode).
# By L-SUMPROD (cited) the nested sums are prod_k (b_k-a_k)/2 * sum over all even multi-indices of the weighted coefficients; by L-CC
# (cited) that is the integral of the interpolant.
# Precondition: every n_k >= 1; a, b numbers or per-mode lists of length d.  NOT covered: d >= 4, rounding, that the asymmetric box
# message is meaningful; (2l)^2 is kept in the engine's product abstraction mulI.

ff_AXQ = T.axioms('shape', 'sub', 'mulI', 'isq', 'smul', 'rest_dense', 'rest_cc', 'rest_corder', 'rest_cblk', 'entsub')
ff_EPS16 = Z(1.E-16)


def ff_find(Xt, decl, what):
    queue, seen = [Xt], set()
    while queue:
        t = queue.pop(0)
        if t.get_id() in seen:
            continue
        seen.add(t.get_id())
        if ff_is(t, decl):
            return t
        if z3.is_app(t):
            queue.extend(t.children())
    raise M.ContractMismatch(f'func_sum_full(): no {what} in the reduced row')


def ff_absr(x):
    return z3.If(x >= 0, x, -x)


def _sum_full_unit(U, d, okind):
    fn = U.func('func_full', 'func_sum_full')
    st = U.state()
    c0, l0, a0, b0, j0, kk = z3.Ints('c!ffs l!ffs a!ffs b!ffs j!ffs kk')
    if d == 1:
        n = (z3.Int('n0'),)
        At = z3.Const('A', ff_RA)
        Av = V.RVec(n[0], At)
    elif d == 2:
        Av, At = S.mat_param('A')
        n = (T.rows(At), T.cols(At))
    else:
        Av, At = S.core_param('A')
        n = (T.d0(At), T.d1(At), T.d2(At))
    sizes = [x >= 1 for x in n]
    a_in, b_in = CF._opts_kind(st, 'a', okind, z3.IntVal(d)), CF._opts_kind(st, 'b', okind, z3.IntVal(d))
    lo = (lambda k: M.to_real(a_in)) if okind != 'list' else (lambda k: st.heap[a_in.oid].arr[k])
    hi = (lambda k: M.to_real(b_in)) if okind != 'list' else (lambda k: st.heap[b_in.oid].arr[k])
    asym = lambda k: ff_absr(ff_absr(hi(k)) - ff_absr(lo(k))) > ff_EPS16
    bad = z3.Or([asym(k) for k in range(d)])
    ex = U.executor(fn, axioms=ff_AXQ, callees={'grid.grid_prep_opts': ff_call_grid_prep_opts})
    ex.mode = 'ematch'
    ex.rest_ff = True
    st.vars.update(A=Av, a=a_in, b=b_in)
    res = U.run(ex, st, pre=sizes)
    U.assumed += ['grid.grid_prep_opts (units grid.grid_prep_opts.tuple_n.*, grid.grid_prep_opt.int_tuple.*)']
    U.cover('precondition-satisfiable', U.pre, axioms=ff_AXQ)
    U.cover('asymmetric-box-reachable', U.pre + [bad], axioms=ff_AXQ)
    U.cover('symmetric-box-reachable', U.pre + [z3.Not(bad)], axioms=ff_AXQ)
    nret = 0
    for p, o in res:
        if o.kind == 'raise':
            U.raise_iff('raises-only-if-the-box-is-not-symmetric-in-some-mode: ||b_k|-|a_k|| > 1e-16', p, bad, axioms=ff_AXQ, mode='ematch')
            U.raise_iff('raises-ValueError', p, o.exc == 'ValueError')
            continue
        if o.kind != 'return':
            U.post('no-other-outcome', p, False)
            continue
        nret += 1
        U.raise_iff('returns-only-if-the-box-is-symmetric-in-every-mode', p, z3.Not(bad), axioms=ff_AXQ, mode='ematch')
        U.post('returns-a-number', p, z3.BoolVal(M.is_num(o.value)))
        U.post('argument-is-not-rebound (v = A.copy())', p, z3.BoolVal(p.vars.get('A') is Av))
        if not (M.is_num(o.value) and ff_is(Z(o.value), T.ent)):
            raise M.ContractMismatch('func_sum_full(): the result is not the single entry of the reduced row')
        hyp = list(p.pc)
        # peel the d reductions off the result (the executed terms), innermost last
        stages, cur = [], Z(o.value).arg(0)
        for k in reversed(range(d)):
            Uk = ff_find(cur, XR.rest_erows, 'even-row selection v[::2, :]').arg(0)
            stages.append((k, cur, Uk))
            if k > 0:
                if not ff_is(Uk, XR.rest_vfoldC):
                    raise M.ContractMismatch(f'func_sum_full(): mode {k} does not act on the C-order fold of the previous row')
                cur = Uk.arg(0)
        stages.reverse()
        U0 = stages[0][2]
        first = XR.rest_colm(At, n[0]) if d == 1 else (At if d == 2 else XR.rest_unfC(At))
        U.post('mode-0-acts-on-the-C-order-unfolding-of-A-along-its-first-axis', p, U0 == first, axioms=ff_AXQ, mode='ematch')
        for k, _, Uk in stages[1:]:
            U.post(f'mode-{k}: the-previous-row-is-folded-with-the-size-n_{k}-of-the-CURRENT-mode', p, Uk.arg(1) == n[k], axioms=ff_AXQ, mode='ematch')
        Vs, facts = [], []
        for k, Sk, Uk in stages:
            Vk = (lambda Mt, Sk=Sk, Uk=Uk: z3.substitute(Sk, (Uk, Mt)))
            Vs.append(Vk)
            m, hk = n[k], (hi(k) - lo(k)) / 2
            M0 = z3.Const('M!ffl', T.Mat)
            ctx = hyp + [T.rows(M0) == m, T.cols(M0) >= 0]
            X0 = ff_find(Vk(M0), XR.rest_colsum, 'column sum np.sum(.., axis=0)').arg(0)
            half = (m + 1) / 2
            P = lambda t: XR.rest_psum(X0, c0, t) == XR.rest_ccsum(M0, c0, t)
            cdom = [0 <= c0, c0 < T.cols(M0)]
            U.lemma(f'mode-{k}.columns: the-reduced-row-is-1-x-cols', ctx, z3.And(T.rows(Vk(M0)) == 1, T.cols(Vk(M0)) == T.cols(M0), T.rows(X0) == half, T.cols(X0) == T.cols(M0)),
                    axioms=ff_AXQ, mode='ematch')
            U.lemma(f'mode-{k}.columns: partial-column-sum-of-the-weighted-even-rows = partial-Clenshaw-Curtis-sum.base', ctx + cdom, P(z3.IntVal(0)), axioms=ff_AXQ, mode='ematch',
                    kind='lemma-base')
            U.lemma(f'mode-{k}.columns: partial-column-sum-of-the-weighted-even-rows = partial-Clenshaw-Curtis-sum.step',
                    ctx + cdom + [T.rows(X0) == half, T.cols(X0) == T.cols(M0), 0 <= kk, kk < half, P(kk)], P(kk + 1), axioms=ff_AXQ, mode='ematch', kind='lemma-step')
            U.lemma(f'mode-{k}.columns: entry[0, c] = (b_{k}-a_{k})/2 * sum_(i even < n_{k}) 2 x_i/(1-i^2)',
                    ctx + cdom + [T.rows(X0) == half, T.cols(X0) == T.cols(M0), P(half)], T.ent(Vk(M0), 0, c0) == hk * XR.rest_ccsum(M0, c0, half), axioms=ff_AXQ, mode='ematch')
            U.canary(f'canary-mode-{k}.columns: no-box-factor', ctx + cdom + [T.rows(X0) == half, T.cols(X0) == T.cols(M0), P(half)],
                     T.ent(Vk(M0), 0, c0) == XR.rest_ccsum(M0, c0, half), axioms=ff_AXQ)
            U.canary(f'canary-mode-{k}.columns: context-is-consistent', ctx + cdom + [T.rows(X0) == half, T.cols(X0) == T.cols(M0), P(half), 0 <= kk, kk < half, P(kk)], False,
                     axioms=ff_AXQ)
            Mq, cq = z3.Const('M!ffq', T.Mat), z3.Int('c!ffq')
            facts.append((z3.ForAll([Mq], z3.Implies(z3.And(T.rows(Mq) == m, T.cols(Mq) >= 0), z3.And(T.rows(Vk(Mq)) == 1, T.cols(Vk(Mq)) == T.cols(Mq))), patterns=[Vk(Mq)]),
                          z3.ForAll([Mq, cq], z3.Implies(z3.And(T.rows(Mq) == m, 0 <= cq, cq < T.cols(Mq)), T.ent(Vk(Mq), 0, cq) == hk * XR.rest_ccsum(Mq, cq, half)),
                                    patterns=[T.ent(Vk(Mq), 0, cq)])))
        if d == 1:
            U.post('result = (b_0-a_0)/2 * sum_(i even < n_0) 2 A[i]/(1-i^2)', hyp + [U0 == first, facts[0][1]],
                   z3.And(M.to_real(o.value) == ((hi(0) - lo(0)) / 2) * XR.rest_ccsum(first, 0, (n[0] + 1) / 2),
                          z3.Implies(z3.And(0 <= l0, l0 < n[0]), T.ent(first, l0, 0) == At[l0])), axioms=ff_AXQ, mode='ematch')
        else:
            # relations between the stages, stated for the executed reductions V_k and ARBITRARY arrays of the shape of A
            if d == 2:
                G0 = z3.Const('G!ffl', T.Mat)
                gctx = hyp + [T.rows(G0) == n[0], T.cols(G0) == n[1]]
                M1 = XR.rest_vfoldC(Vs[0](G0), n[1])
                U.lemma('mode-1-input: M1[j, 0] = V_0(G)[0, j]  (the row of the mode-0 results as a column)', gctx + [facts[0][0], 0 <= j0, j0 < n[1]],
                        z3.And(T.ent(M1, j0, 0) == T.ent(Vs[0](G0), 0, j0), T.rows(M1) == n[1], T.cols(M1) == 1), axioms=ff_AXQ, mode='ematch')
            else:
                G0 = z3.Const('G!ffl', T.Core)
                gctx = hyp + [T.d0(G0) == n[0], T.d1(G0) == n[1], T.d2(G0) == n[2]]
                S0 = Vs[0](XR.rest_unfC(G0))
                M1 = XR.rest_vfoldC(S0, n[1])
                U.lemma('mode-1-input: row j of M1 = V_0(G[:, j, :])  (the columns of every slice G[:, j, :] are reduced with the size n_0)',
                        gctx + [facts[0][0], 0 <= j0, j0 < n[1]],
                        z3.And(T.row(M1, j0) == Vs[0](T.sl(G0, j0)), T.rows(M1) == n[1], T.cols(M1) == n[2]), axioms=ff_AXQ, mode='ematch')
                H0 = z3.Const('H!ffl', T.Mat)
                M2 = XR.rest_vfoldC(Vs[1](H0), n[2])
                U.lemma('mode-2-input: M2[b, 0] = V_1(M1)[0, b]  (the row of the mode-1 results as a column)',
                        hyp + [T.rows(H0) == n[1], T.cols(H0) == n[2], facts[1][0], 0 <= b0, b0 < n[2]],
                        z3.And(T.ent(M2, b0, 0) == T.ent(Vs[1](H0), 0, b0), T.rows(M2) == n[2], T.cols(M2) == 1), axioms=ff_AXQ, mode='ematch')
            last = stages[-1]
            U.post(f'the-last-mode-acts-on-the-n_{d-1}-x-1-column-of-the-mode-{d-2}-results', hyp + [U0 == first] + [f[0] for f in facts],
                   z3.And(T.rows(last[2]) == n[d - 1], T.cols(last[2]) == 1), axioms=ff_AXQ, mode='ematch')
            U.post(f'result = (b_{d-1}-a_{d-1})/2 * sum_(i even < n_{d-1}) 2 x_i/(1-i^2) over the column of the mode-{d-2} results',
                   hyp + [facts[-1][1], T.rows(last[2]) == n[d - 1], T.cols(last[2]) == 1],
                   M.to_real(o.value) == ((hi(d - 1) - lo(d - 1)) / 2) * XR.rest_ccsum(last[2], 0, (n[d - 1] + 1) / 2), axioms=ff_AXQ, mode='ematch')
        U.canary('canary-result-is-zero', p, M.to_real(o.value) == 0, axioms=ff_AXQ)
    U.post('exactly-one-returning-path', [], z3.BoolVal(nret == 1))
    # the summands of rest_ccsum are the Clenshaw-Curtis weights of func.func_sum (CF.ccw(l) = 2/(1-(2l)^2)) times the even coefficients
    xw, den = z3.Real('x!ffw'), XR.ff_ccden(l0)
    U.lemma('the-denominators-1-(2l)^2-are-non-zero', [l0 >= 0], den != 0, axioms=T.axioms('isq'), mode='ematch')
    U.lemma('summand 2 x/(1-(2l)^2) = ccw(l) * x  (the weights of func.func_sum)', [den != 0], (2 * xw) / den == CF.ccw(l0) * xw, qf=True)
    U.lemmas += ['L-SUMPROD: nested weighted sums = sum over all multi-indices of the weighted entries (cited)',
                 'L-CC: sum over even i of 2/(1-i^2) c_i is the integral over [-1, 1] of sum_i c_i T_i (Clenshaw-Curtis; cited)']


for _ff_d in (1, 2, 3):
    for _ff_ok in ('number', 'list'):
        def _ff_mk_sum(d=_ff_d, ok=_ff_ok):
            @unit(f'func_full.func_sum_full.d{d}.{ok}', props=('C12',))
            def u(U):
                _sum_full_unit(U, d, ok)
        _ff_mk_sum()


# ----------------------------------------------------------------------------------------------
# func.func_basis for a 2-D batch of points (the dense evaluation hands the whole scaled batch to func_basis): the unit func.func_basis
# (contracts/func.py) observes a 1-D X at one generic position; this is the same statement for an X of shape (samples, d):
# T[l] = T_l(X) elementwise for 0 <= l < m, the basis array has the shape (m,) + X.shape.

from contracts import func as CFB


@unit('func.func_basis.batch', props=('C12',))
def u_basis_batch(U):
    fn = U.func('func', 'func_basis')
    st = U.state()
    m = z3.Int('m')
    x = z3.Real('x')
    sh = (z3.Int('s0'), z3.Int('s1'))
    Xp = PT.pt(sh, x)
    t = z3.Int('t!ffb')
    seen = []

    def ones_func(ex, s, args, kwargs, node):
        shp = args[0]
        ok = isinstance(shp, VTuple) and len(shp.items) == 3 and shp.items[1] is sh[0] and shp.items[2] is sh[1]
        ex.oblige(s, 'call-pre', 'basis-array-has-one-row-per-polynomial-and-the-shape-of-X', z3.BoolVal(ok), node)
        seen.append(shp)
        arr = ex.fresh('Tones', ff_RA)
        s.assume(z3.ForAll([t], arr[t] == 1, patterns=[arr[t]]))
        return s.alloc(VSeq(arr, Z(shp.items[0]), lambda e: e, tag='real'))

    def inv(ex, s, j):
        Ts = s.deref(s.vars['T'])
        return [('rows', Ts.n == m),
                ('rows-so-far-are-the-Chebyshev-polynomials', z3.ForAll([t], z3.Implies(z3.And(0 <= t, t < j + 2), Ts.arr[t] == CFB.cheb(t, x)), patterns=[Ts.arr[t]]))]

    ex = U.executor(fn, loops={0: {'inv': inv}}, axioms=CFB.CHEB)
    st.vars.update(X=Xp, m=m, kind=VStr('cheb'), ones_func=VFunc('ones_func', ones_func))
    res = U.run(ex, st, pre=[m >= 1, sh[0] >= 1, sh[1] >= 1])
    U.cover('precondition-satisfiable', U.pre, axioms=CFB.CHEB)
    kk = z3.Int('kk')
    for p, o in res:
        if o.kind != 'return':
            U.post('no-exception-for-the-Chebyshev-kind', p, False, axioms=CFB.CHEB)
            continue
        Ts = p.deref(o.value)
        U.post('one-layer-per-polynomial', p, Ts.n == m, axioms=CFB.CHEB)
        U.post('layer-l-is-T_l(X)-elementwise', p, z3.Implies(z3.And(0 <= kk, kk < m), Ts.arr[kk] == CFB.cheb(kk, x)), axioms=CFB.CHEB)
        U.canary('canary-all-layers-are-ones', p, z3.Implies(z3.And(0 <= kk, kk < m), Ts.arr[kk] == 1), axioms=CFB.CHEB)
    U.post('the-basis-array-is-allocated-once-with-the-shape-(m, samples, d)', [], z3.BoolVal(len(seen) >= 1 and all(len(s_.items) == 3 for s_ in seen)))


# ----------------------------------------------------------------------------------------------
# func_full.func_get_full: the dense interpolant at a batch of points, d = 1, 2, 3
#
# For every point s of the batch X (shape (m, d)), with the box [a_k, b_k] (numbers or per-mode lists):
#     result[s] = z                       if skip_out is True and the point is outside the box (some k: a_k - X[s,k] > 1e-99 or X[s,k] - b_k > 1e-99)
#     result[s] = the array contracted mode by mode, k = 0, .., d-1, ALWAYS along its (current) first axis with the weights
#                 w_k[l] = T_l(x_sk), l < n_k,   x_sk = clip((X[s,k] - (b_k+a_k)/2) * 2/(b_k-a_k), -1, 1)            otherwise:
#         d = 1:  sum_l A[l] w_0[l]
#         d = 2:  sum_j ( sum_l A[l, j] w_0[l] ) w_1[j]
#         d = 3:  sum_b ( sum_j ( sum_l A[l, j, b] w_0[l] ) w_1[j] ) w_2[b]
# written with the weighted mode sum wsum(G, w) = sum_m w[m] G[:, m, :] of the TT routine func_get (unit func.func_get.*: chain of
# sum_j A[k][:, j, :] T_j(x_k)) on the array with the contracted axis at position 1: wsum(sw01(A), w) (3-D), wsum(lift(M), w) (matrix).
# The weights are the fibre rest_tfib(Xs, s, k) of the basis array of func_basis(poi_scale(X, a, b, 'cheb'), max(n)) cut to the size
# n_k of ITS mode (T[:n[j], i, j]; max(n) basis functions are enough for every mode).  poi_scale / func_basis / grid_prep_opts by their
# call-site contracts (units grid.poi_scale.cheb, func.func_basis.batch, grid.grid_prep_opts.tuple_n.*).
# Precondition: m >= 1 points with d coordinates, a_k < b_k, n_k >= 1.  L-SUMPROD (cited) turns the nested sums into the sum over all
# multi-indices.  NOT covered: d >= 4, X given as a list, rounding; entry-level meaning of wsum is that of the TT units (einsum model).

from ttvc import mx_act as XACT
ff_AXGET = T.axioms('shape', 'wsum', 'rest_dense', 'rest_tfib', 'cheb', 'chebscale', 'sub')
ff_EPS99 = Z(1.E-99)
ff_i_, ff_k_, ff_j_ = z3.Ints('i!ffg k!ffg j!ffg')


def ff_call_poi_scale_pts(ex, st, args, kwargs, node):
    """poi_scale(X, a, b, 'cheb') for a 2-D batch X (m, d) and per-mode bounds a, b (1-D float arrays of length d): unit grid.poi_scale.cheb
    (pointwise tier, options broadcast per column) proves that entry [s, k] of the result is the clipped affine image of X[s, k] for the
    box [a_k, b_k] (= chebscale, theory group 'chebscale'), same shape; needs a_k < b_k."""
    Xv, av, bv = [st.deref(x) for x in args[:3]]
    kind = args[3].concrete() if len(args) > 3 and isinstance(args[3], VStr) else (kwargs['kind'].concrete() if isinstance(kwargs.get('kind'), VStr) else None)
    if set(kwargs) - {'kind'} or len(args) not in (3, 4) or kind != 'cheb' or not (isinstance(Xv, VArr) and Xv.tag == 'pts') \
            or not (XF.is_vec(av, 'rvec') and XF.is_vec(bv, 'rvec')):
        raise M.Unsupported("poi_scale: only the call (2-D batch, a vector, b vector, 'cheb') is under this call-site contract")
    dd = Z(Xv.shape[1])
    ex.oblige(st, 'call-pre', 'poi_scale: one lower and one upper bound per coordinate', z3.And(Z(av.shape[0]) == dd, Z(bv.shape[0]) == dd), node)
    ex.oblige(st, 'call-pre', 'poi_scale: a_k < b_k', z3.ForAll([ff_k_], z3.Implies(z3.And(0 <= ff_k_, ff_k_ < dd), av.t[ff_k_] < bv.t[ff_k_])), node)
    Xs = ex.fresh('Xscaled', XR.ff_WL)
    st.assume(z3.ForAll([ff_i_, ff_k_], z3.Implies(z3.And(0 <= ff_k_, ff_k_ < dd), Xs[ff_i_][ff_k_] == XF.chebscale(Xv.t[ff_i_][ff_k_], av.t[ff_k_], bv.t[ff_k_])),
                        patterns=[Xs[ff_i_][ff_k_]]))
    st.ghost['ff_scaled'] = st.ghost.get('ff_scaled', []) + [(Xv, av, bv, Xs)]
    return XF.pts(Xv.shape[0], Xv.shape[1], Xs)


def ff_call_func_basis_pts(ex, st, args, kwargs, node):
    """func_basis(X, m) (kind 'cheb') for a 2-D batch X: unit func.func_basis.batch proves (m >= 1, X non-empty) that the result has the shape
    (m,) + X.shape and layer l is T_l(X) elementwise: entry [l, s, k] = cheb(l, X[s, k]) - the fibre [:, s, k] is rest_tfib(X, s, k)."""
    Xv = st.deref(args[0])
    m = args[1] if len(args) > 1 else kwargs.get('m', 10)
    if set(kwargs) - {'m'} or len(args) > 2 or not (isinstance(Xv, VArr) and Xv.tag == 'pts'):
        raise M.Unsupported('func_basis: only the call (2-D batch, m) is under this call-site contract')
    m = ex.need_num(st, m, node)
    if not M.is_intsort(m):
        raise M.Unsupported('func_basis: non-integer number of basis functions')
    ex.oblige(st, 'call-pre', 'func_basis: at least one basis function and one point', z3.And(Z(m) >= 1, Z(Xv.shape[0]) >= 1, Z(Xv.shape[1]) >= 1), node)
    st.ghost['ff_basis'] = st.ghost.get('ff_basis', []) + [(Xv, m)]
    return VArr((m, Xv.shape[0], Xv.shape[1]), Xv.t, 'basis3')


def _get_full_unit(U, d, okind, skipping):
    fn = U.func('func_full', 'func_get_full')
    st = U.state()
    if d == 1:
        n = (z3.Int('n0'),)
        At = z3.Const('A', ff_RA)
        Av = V.RVec(n[0], At)
    elif d == 2:
        Av, At = S.mat_param('A')
        n = (T.rows(At), T.cols(At))
    else:
        Av, At = S.core_param('A')
        n = (T.d0(At), T.d1(At), T.d2(At))
    m = z3.Int('m')
    Xt = z3.Const('X', XR.ff_WL)
    zf = z3.Real('z')
    a_in, b_in = CF._opts_kind(st, 'a', okind, z3.IntVal(d)), CF._opts_kind(st, 'b', okind, z3.IntVal(d))
    lo = (lambda k: M.to_real(a_in)) if okind != 'list' else (lambda k: st.heap[a_in.oid].arr[k])
    hi = (lambda k: M.to_real(b_in)) if okind != 'list' else (lambda k: st.heap[b_in.oid].arr[k])
    Xv = XF.pts(m, d, Xt)
    OUT = z3.Function('outside', z3.IntSort(), z3.BoolSort())
    wk = z3.Function('outside!witness', z3.IntSort(), z3.IntSort())
    viol = lambda s, k: z3.Or(lo(k) - Xt[s][k] > ff_EPS99, Xt[s][k] - hi(k) > ff_EPS99)
    out_def = [z3.ForAll([ff_i_, ff_k_], z3.Implies(z3.And(0 <= ff_k_, ff_k_ < d, viol(ff_i_, ff_k_)), OUT(ff_i_)), patterns=[z3.MultiPattern(OUT(ff_i_), Xt[ff_i_][ff_k_])]),
               z3.ForAll([ff_i_], z3.Implies(OUT(ff_i_), z3.And(0 <= wk(ff_i_), wk(ff_i_) < d, viol(ff_i_, wk(ff_i_)))), patterns=[OUT(ff_i_)])]
    box = [lo(k) < hi(k) for k in range(d)]
    pre = [x >= 1 for x in n] + [m >= 1] + box + out_def

    def xs_of(s):
        sc = s.ghost.get('ff_scaled', [])
        if len(sc) != 1:
            raise M.ContractMismatch('func_get_full(): the batch is not scaled exactly once')
        return sc[0][3]

    def VAL(Xs, s):
        w = lambda k: XR.rest_tfib(Xs, s, k)
        if d == 1:
            return T.ent(T.wsum(XR.rest_lift(XR.rest_colm(At, n[0])), w(0)), 0, 0)
        if d == 2:
            return T.ent(T.wsum(XR.rest_lift(T.tr(T.wsum(XR.rest_lift(At), w(0)))), w(1)), 0, 0)
        return T.ent(T.wsum(XR.rest_lift(T.tr(T.wsum(XR.rest_lift(T.wsum(XR.rest_sw01(At), w(0))), w(1)))), w(2)), 0, 0)

    spec = lambda Xs, s: z3.If(OUT(s), zf, VAL(Xs, s)) if skipping else VAL(Xs, s)

    def inv(ex, s, j):
        y = s.vars.get('Y')
        if not XF.is_vec(y, 'rvec'):
            raise M.ContractMismatch('func_get_full(): Y is not the vector of results')
        Xs = xs_of(s)
        return [('one-result-per-point', Z(y.shape[0]) == m),
                ('finished-points-hold-the-fill-value-resp-the-contracted-value',
                 z3.ForAll([ff_i_], z3.Implies(z3.And(0 <= ff_i_, ff_i_ < j), y.t[ff_i_] == spec(Xs, ff_i_)), patterns=[y.t[ff_i_]])),
                ('remaining-points-still-hold-the-fill-value', z3.ForAll([ff_i_], z3.Implies(z3.And(j <= ff_i_, ff_i_ < m), y.t[ff_i_] == zf), patterns=[y.t[ff_i_]])),
                ('coefficient-array-untouched', z3.BoolVal(s.vars.get('A') is Av))]

    ex = U.executor(fn, loops={0: {'inv': inv}}, axioms=ff_AXGET,
                    callees={'grid.grid_prep_opts': ff_call_grid_prep_opts, 'grid.poi_scale': ff_call_poi_scale_pts, 'func.func_basis': ff_call_func_basis_pts})
    ex.mode = 'ematch'
    ex.functt = True
    ex.rest_ff = True
    st.vars.update(X=Xv, A=Av, a=a_in, b=b_in, z=zf, skip_out=skipping)
    res = U.run(ex, st, pre=pre)
    U.assumed += ['grid.grid_prep_opts (units grid.grid_prep_opts.tuple_n.*)', 'grid.poi_scale (unit grid.poi_scale.cheb)', 'func.func_basis (unit func.func_basis.batch)']
    U.cover('precondition-satisfiable', U.pre, axioms=ff_AXGET)
    s0, k0, j0 = z3.Ints('s0 k0 j0')
    for p, o in res:
        if o.kind != 'return':
            U.post('no-exception', p, False, axioms=ff_AXGET, mode='ematch')
            continue
        Xs = xs_of(p)
        hyp = list(p.pc)
        R = p.deref(o.value)
        ok = XF.is_vec(R, 'rvec')
        U.post('returns-a-vector', p, z3.BoolVal(ok))
        if not ok:
            continue
        bs = p.ghost.get('ff_basis', [])
        U.post('the-basis-is-built-once-on-the-scaled-batch-with-max(n)-functions', hyp,
               z3.And(z3.BoolVal(len(bs) == 1 and bs[0][0].t is Xs), *([Z(bs[0][1]) >= n[k] for k in range(d)] + [z3.Or([Z(bs[0][1]) == n[k] for k in range(d)])] if len(bs) == 1 else [])),
               axioms=ff_AXGET, mode='ematch')
        dom = [0 <= s0, s0 < m]
        U.post('one-value-per-point', hyp, Z(R.shape[0]) == m, axioms=ff_AXGET, mode='ematch')
        if skipping:
            U.post('points-outside-the-box-receive-the-fill-value', hyp + dom + [0 <= k0, k0 < d, viol(s0, k0)], R.t[s0] == zf, axioms=ff_AXGET, mode='ematch')
            U.post('points-inside-the-box-receive-the-contracted-value', hyp + dom + [z3.Not(viol(s0, k)) for k in range(d)], R.t[s0] == VAL(Xs, s0), axioms=ff_AXGET, mode='ematch')
        else:
            U.post('every-point-receives-the-contracted-value (no skipping)', hyp + dom, R.t[s0] == VAL(Xs, s0), axioms=ff_AXGET, mode='ematch')
        for k in range(d):
            xs = XF.chebscale(Xt[s0][k], lo(k), hi(k))
            U.post(f'weights-of-point-s-in-mode-{k}-are-T_l-at-the-scaled-coordinate', hyp + dom + [0 <= j0], XR.rest_tfib(Xs, s0, k)[j0] == XF.cheb(j0, xs),
                   axioms=ff_AXGET, mode='ematch')
        xr, ar, br = z3.Reals('x a!r b!r')
        U.post('the-scaled-coordinate-is-the-clipped-affine-image-of-the-box-onto-[-1,1]', [ar < br],
               XF.chebscale(xr, ar, br) == CG.spec_scale(xr, ar, br, 'cheb'), axioms=T.axioms('chebscale'))
        U.canary('canary-every-point-receives-the-fill-value', hyp + dom, R.t[s0] == zf, axioms=ff_AXGET)
        U.canary('canary-weights-are-ones', hyp + dom + [0 <= j0], XR.rest_tfib(Xs, s0, 0)[j0] == 1, axioms=ff_AXGET)
    U.lemmas.append('L-SUMPROD: nested weighted sums = sum over all multi-indices of the weighted entries (cited)')


for _ff_d, _ff_ok, _ff_sk in ((1, 'number', True), (2, 'number', True), (2, 'list', False), (3, 'number', True), (3, 'list', True)):
    def _ff_mk_get(d=_ff_d, ok=_ff_ok, sk=_ff_sk):
        @unit(f'func_full.func_get_full.d{d}.{ok}.skip_out_{sk}', props=('C12',))
        def u(U):
            _get_full_unit(U, d, ok, sk)
    _ff_mk_get()


# ----------------------------------------------------------------------------------------------
# func_full.func_gets_full: the dense interpolant on a whole new Chebyshev grid, d = 1, 2, 3  -  CONTROL level
#
# The function is a composition of five library calls; proved here (for m = None and m = an integer):
#   * the grid sizes are the mode sizes n of A when m is None, else grid_prep_opt(m, d, int) with d = the number of axes of A;
#   * grid_flat is called once with these sizes; ind_to_poi once with its result, the box [-1, +1], the SAME sizes and kind 'cheb';
#     func_get_full once with these points, the coefficient array A itself and the box -1., +1. (fill value and skip_out at their defaults);
#   * the flat result (one value per multi-index of the new grid, first index fastest - unit grid.grid_flat.*) is folded to the shape
#     `sizes` in FORTRAN order, so that the value of flat position t lands at the multi-index whose mixed-radix digits are t (model-table
#     fact about order='F'); result shape = sizes;
#   * value level through the call-site contracts (units grid.grid_flat.list/.array, grid.ind_to_poi.cheb, func_full.func_get_full.*):
#     flat[t] = the contraction of A with the weights T_l(clip(x_tk)), x_tk = cos(pi i_tk / (m_k - 1)), i_tk = (t div (m_0 .. m_{k-1})) mod m_k;
#     no point of the grid is skipped (every node lies in the box: |cos| <= 1).
# Precondition: every grid size >= 2 (ind_to_poi divides by m_k - 1), n_k >= 1.
# NOT covered: m given as a list / float; a tuple of sizes is handed to grid_flat when m is None (its units cover lists and arrays: the
# code path of a tuple is the same - len(n), iteration - but this is not a separate unit); element-level meaning of the F-order fold.

from ttvc import mx_misc as XM
ff_IAA = z3.ArraySort(z3.IntSort(), ff_IA)
ff_AXGS = T.axioms('shape', 'wsum', 'rest_dense', 'rest_tfib', 'cheb', 'chebscale', 'mulI', 'pprod') + list(PT.TRIG)


def _gets_full_unit(U, d, mkind):
    fn = U.func('func_full', 'func_gets_full')
    st = U.state()
    if d == 1:
        n = (z3.Int('n0'),)
        At = z3.Const('A', ff_RA)
        Av = V.RVec(n[0], At)
    elif d == 2:
        Av, At = S.mat_param('A')
        n = (T.rows(At), T.cols(At))
    else:
        Av, At = S.core_param('A')
        n = (T.d0(At), T.d1(At), T.d2(At))
    m0 = z3.Int('m')
    sizes = list(n) if mkind == 'none' else [m0] * d
    log = []
    s_, k_ = z3.Ints('s!ffgs k!ffgs')

    def size_items(s, v):
        v = s.deref(v)
        items = XR.ff_int_items(s, v)
        if items is None and XF.is_vec(v, 'ivec') and z3.is_int_value(z3.simplify(Z(v.shape[0]))):
            items = [v.t[k] for k in range(z3.simplify(Z(v.shape[0])).as_long())]
        if items is None:
            raise M.Unsupported('grid sizes: neither a tuple of integers nor an integer vector of concrete length')
        return items

    def rec_prep_opt(ex, s, args, kwargs, node):
        out = ff_call_grid_prep_opt(ex, s, args, kwargs, node)
        log.append(('grid_prep_opt', args, kwargs, out))
        return out

    def rec_grid_flat(ex, s, args, kwargs, node):
        """grid_flat(sizes) by the units grid.grid_flat.list / .array: (prod sizes) x d integer matrix, entry [t, k] = (t div prod(sizes[:k])) mod sizes[k]."""
        if kwargs or len(args) != 1:
            raise M.Unsupported('grid_flat: only the call (sizes) is under this call-site contract')
        items = size_items(s, args[0])
        vec = XR.FFIVec(items)
        ex.oblige(s, 'call-pre', 'grid_flat: at least one mode, all sizes >= 1', z3.And(*[Z(x) >= 1 for x in items]), node)
        Ig = ex.fresh('Igrid', ff_IAA)
        P = XM.pprod(vec.t, len(items))
        s.assume(P >= 1, z3.ForAll([s_, k_], z3.Implies(z3.And(0 <= s_, s_ < P, 0 <= k_, k_ < len(items)),
                                                       z3.And(Ig[s_][k_] == (s_ / XM.pprod(vec.t, k_)) % vec.t[k_], 0 <= Ig[s_][k_], Ig[s_][k_] < vec.t[k_])),
                                   patterns=[Ig[s_][k_]]))
        out = VArr((P, len(items)), Ig, 'ffgrid', 'i')
        log.append(('grid_flat', args, kwargs, out))
        return out

    def rec_ind_to_poi(ex, s, args, kwargs, node):
        """ind_to_poi(I, a, b, sizes, 'cheb') for an integer matrix I (t, d), numbers a < b and per-mode sizes >= 2 with 0 <= I[t, k] <= sizes[k] - 1:
        unit grid.ind_to_poi.cheb (pointwise, options per column): entry [t, k] is the node formula cos(pi I[t,k]/(m_k-1)) (b-a)/2 + (b+a)/2."""
        Iv = s.deref(args[0])
        kind = args[4].concrete() if len(args) > 4 and isinstance(args[4], VStr) else (kwargs['kind'].concrete() if isinstance(kwargs.get('kind'), VStr) else 'uni')
        if set(kwargs) - {'kind'} or len(args) < 4 or kind not in ('cheb', 'uni') or not (isinstance(Iv, VArr) and Iv.tag == 'ffgrid'):
            raise M.Unsupported("ind_to_poi: only the call (grid index matrix, a, b, sizes, 'cheb' / 'uni') is under this call-site contract")
        a, b = M.to_real(ex.need_num(s, args[1], node)), M.to_real(ex.need_num(s, args[2], node))
        items = size_items(s, args[3])
        ex.oblige(s, 'call-pre', 'ind_to_poi: a < b, one size per column, every size >= 2', z3.And(a < b, z3.BoolVal(len(items) == Iv.shape[1]), *[Z(x) >= 2 for x in items]), node)
        for k, x in enumerate(items):
            ex.oblige(s, 'call-pre', f'ind_to_poi: indices of column {k} within the grid',
                      z3.ForAll([s_], z3.Implies(z3.And(0 <= s_, s_ < Z(Iv.shape[0])), z3.And(Iv.t[s_][k] >= 0, Iv.t[s_][k] <= Z(x) - 1))), node)
        Xg = ex.fresh('Xgrid', XR.ff_WL)
        for k, x in enumerate(items):
            s.assume(z3.ForAll([s_], z3.Implies(z3.And(0 <= s_, s_ < Z(Iv.shape[0])), Xg[s_][k] == CG.spec_i2p(Iv.t[s_][k], a, b, Z(x), kind)), patterns=[Xg[s_][k]]))
        out = XF.pts(Iv.shape[0], Iv.shape[1], Xg)
        log.append(('ind_to_poi', args, kwargs, out, kind))
        return out

    OUTg = z3.Function('outside!g', z3.IntSort(), z3.BoolSort())

    def VALg(Xs, t):
        w = lambda k: XR.rest_tfib(Xs, t, k)
        if d == 1:
            return T.ent(T.wsum(XR.rest_lift(XR.rest_colm(At, n[0])), w(0)), 0, 0)
        if d == 2:
            return T.ent(T.wsum(XR.rest_lift(T.tr(T.wsum(XR.rest_lift(At), w(0)))), w(1)), 0, 0)
        return T.ent(T.wsum(XR.rest_lift(T.tr(T.wsum(XR.rest_lift(T.wsum(XR.rest_sw01(At), w(0))), w(1)))), w(2)), 0, 0)

    def rec_get_full(ex, s, args, kwargs, node):
        """func_get_full(X, A, a, b) (numbers a < b, z = 0., skip_out = True) by the units func_full.func_get_full.d*.number.skip_out_True: a vector
        with one value per point; a point inside the box gets the contraction of A with the weights T_l(scaled coordinate), a point outside z."""
        if kwargs or len(args) != 4:
            raise M.Unsupported('func_get_full: only the call (X, A, a, b) is under this call-site contract')
        Xv, Aq = s.deref(args[0]), s.deref(args[1])
        if not (isinstance(Xv, VArr) and Xv.tag == 'pts' and Aq is Av and M.is_num(args[2]) and M.is_num(args[3])):
            raise M.Unsupported('func_get_full: batch of points, the coefficient array, two numbers')
        a, b = M.to_real(args[2]), M.to_real(args[3])
        ex.oblige(s, 'call-pre', 'func_get_full: a < b, at least one point, one coordinate per axis of A', z3.And(a < b, Z(Xv.shape[0]) >= 1, z3.BoolVal(Xv.shape[1] == d)), node)
        Xs, Zt = ex.fresh('Xscaled', XR.ff_WL), ex.fresh('Zflat', ff_RA)
        viol = lambda t, k: z3.Or(a - Xv.t[t][k] > ff_EPS99, Xv.t[t][k] - b > ff_EPS99)
        s.assume(z3.ForAll([s_], z3.Implies(z3.And(0 <= s_, s_ < Z(Xv.shape[0])),
                                            z3.And(*[Xs[s_][k] == XF.chebscale(Xv.t[s_][k], a, b) for k in range(d)],
                                                   OUTg(s_) == z3.Or(*[viol(s_, k) for k in range(d)]),
                                                   Zt[s_] == z3.If(OUTg(s_), z3.RealVal(0), VALg(Xs, s_)))), patterns=[Zt[s_], Xs[s_]]))
        out = V.RVec(Xv.shape[0], Zt)
        log.append(('func_get_full', args, kwargs, out, Xs))
        return out

    ex = U.executor(fn, axioms=ff_AXGS, callees={'grid.grid_prep_opt': rec_prep_opt, 'grid.grid_flat': rec_grid_flat, 'grid.ind_to_poi': rec_ind_to_poi,
                                                  'func_full.func_get_full': rec_get_full})
    ex.mode = 'ematch'
    ex.functt = True
    ex.rest_ff = True
    ex.rest_ff_fold = True
    st.vars.update(A=Av, a=z3.Real('a'), b=z3.Real('b'), m=NONE if mkind == 'none' else m0)
    res = U.run(ex, st, pre=[x >= 1 for x in n] + [x >= 2 for x in sizes])
    U.assumed += ['grid.grid_prep_opt (units grid.grid_prep_opt.int.*, grid.grid_prep_opt.int_tuple.*)', 'grid.grid_flat (units grid.grid_flat.list / .array)',
                  'grid.ind_to_poi (unit grid.ind_to_poi.cheb)', 'func_full.func_get_full (units func_full.func_get_full.d*.number.skip_out_True)']
    U.cover('precondition-satisfiable', U.pre, axioms=ff_AXGS)
    t0 = z3.Int('t0')
    for p, o in res:
        if o.kind != 'return':
            U.post('no-exception', p, False, axioms=ff_AXGS, mode='ematch')
            continue
        hyp = list(p.pc)
        calls = [c[0] for c in log]
        want = (['grid_prep_opt'] if mkind != 'none' else []) + ['grid_flat', 'ind_to_poi', 'func_get_full']
        U.post('the-library-calls-are-made-once-each-in-the-order-(grid_prep_opt)-grid_flat-ind_to_poi-func_get_full', p, z3.BoolVal(calls == want))
        if calls != want:
            continue
        by = {c[0]: c for c in log}
        if mkind != 'none':
            pa = by['grid_prep_opt'][1]
            U.post('the-new-grid-sizes-are-grid_prep_opt(m, d, int)-with-d-the-number-of-axes-of-A', p,
                   z3.BoolVal(len(pa) == 3 and pa[0] is m0 and pa[1] == d and isinstance(pa[2], M.TypeVal) and pa[2].name == 'int' and not by['grid_prep_opt'][2]))
        gi = size_items(p, by['grid_flat'][1][0])
        U.post('grid_flat-gets-the-new-grid-sizes (the mode sizes of A when m is None)', hyp, z3.And(z3.BoolVal(len(gi) == d), *[Z(x) == sizes[k] for k, x in enumerate(gi[:d])]),
               axioms=ff_AXGS, mode='ematch')
        ia = by['ind_to_poi'][1]
        ii = size_items(p, ia[3]) if len(ia) > 3 else []
        U.post('ind_to_poi-gets-the-flat-grid, the-box-[-1, +1], the-SAME-sizes-and-the-Chebyshev-kind', hyp,
               z3.And(z3.BoolVal(len(ia) == 5 and p.deref(ia[0]) is by['grid_flat'][3] and len(ii) == d and by['ind_to_poi'][4] == 'cheb'), M.to_real(ia[1]) == -1, M.to_real(ia[2]) == 1,
                      *[Z(x) == sizes[k] for k, x in enumerate(ii[:d])]), axioms=ff_AXGS, mode='ematch')
        ga = by['func_get_full'][1]
        U.post('func_get_full-gets-these-points, the-coefficient-array-itself-and-the-box-[-1, +1]', hyp,
               z3.And(z3.BoolVal(p.deref(ga[0]) is by['ind_to_poi'][3] and p.deref(ga[1]) is Av), M.to_real(ga[2]) == -1, M.to_real(ga[3]) == 1), axioms=ff_AXGS, mode='ematch')
        R = p.deref(o.value)
        fold = getattr(R, 'ff_fold', None)
        U.post('the-flat-result-is-folded-in-FORTRAN-order', p, z3.BoolVal(fold is not None and fold[0] is by['func_get_full'][3] and fold[1] == 'F'))
        if fold is None:
            continue
        U.post('result-shape-is-the-new-grid', hyp, z3.And(z3.BoolVal(len(R.shape) == d), *[Z(R.shape[k]) == sizes[k] for k in range(min(d, len(R.shape)))]),
               axioms=ff_AXGS, mode='ematch')
        Ig, Xg, Zt, Xs = by['grid_flat'][3], by['ind_to_poi'][3], by['func_get_full'][3], by['func_get_full'][4]
        P = Z(Ig.shape[0])
        dom = [0 <= t0, t0 < P]
        svec = XR.FFIVec(sizes)
        U.post('one-value-per-multi-index-of-the-new-grid', hyp, z3.And(Z(Zt.shape[0]) == P, P == XM.pprod(svec.t, d)), axioms=ff_AXGS, mode='ematch')
        for k in range(d):
            dig = (t0 / XM.pprod(svec.t, k)) % sizes[k]
            node = PT.cosf(M.PI * (z3.ToReal(dig) / z3.ToReal(sizes[k] - 1)))
            U.post(f'coordinate-{k}-of-flat-position-t-is-the-Chebyshev-node-of-digit-{k}-of-t (first index fastest)', hyp + dom,
                   z3.And(Ig.t[t0][k] == dig, Xg.t[t0][k] == node), axioms=ff_AXGS, mode='ematch')
        U.post('no-grid-point-is-skipped: flat[t] = the-contraction-of-A-with-the-weights-T_l(scaled node)', hyp + dom, Zt.t[t0] == VALg(Xs, t0), axioms=ff_AXGS, mode='ematch')
        for k in range(d):
            U.post(f'the-scaled-coordinate-{k}-is-the-node-itself (the box is [-1, 1])', hyp + dom, Xs[t0][k] == Xg.t[t0][k], axioms=ff_AXGS, mode='ematch')
        U.canary('canary-all-values-are-the-fill-value', hyp + dom, Zt.t[t0] == 0, axioms=ff_AXGS)
        U.canary('canary-context-is-consistent', hyp + dom, False, axioms=ff_AXGS)


for _ff_d in (1, 2, 3):
    for _ff_mk in ('none', 'int'):
        def _ff_mk_gets(d=_ff_d, mk=_ff_mk):
            @unit(f'func_full.func_gets_full.d{d}.m_{mk}', props=('C12',))
            def u(U):
                _gets_full_unit(U, d, mk)
        _ff_mk_gets()


# ----------------------------------------------------------------------------------------------
# Hand-made mutants (MUT_BASE=/tmp/base tools/mut.sh func_full.py '<sed>' <units>) and the named obligation that reports each of them
#
# func_int_full  (units func_full.func_int_full.d1 / .d2 / .d3)
#   s/m = n\[k\]/m = n[0]/                                  call-pre reshape-first-dimension-is-the-size-of-the-first-axis (d2, d3), lemma mode-1.columns / mode-2.columns
#   s/A\[m-2 : 0 : -1, :\]/A[m-1 : 0 : -1, :]/              lemma mode-k.columns: entry[i, c] = w_i * (1/(n_k-1) * DCT-I(column c)_i) (all d, all k)
#   s/        A\[0, :\] \/= 2\./        pass/              lemma mode-k.columns: entry[i, c] = ..., w = 1/2 at both ends
#   s/A\[m-1, :\] \/= 2\./A[m-2, :] \/= 2./                 lemma mode-k.columns: entry[i, c] = ...
#   s/A\[:m, :\] \/ (m - 1)/A[:m, :] \/ m/                  lemma mode-k.columns: entry[i, c] = ...
#   s/n\[\[0, k\]\] = n\[\[k, 0\]\]/pass/                   call-pre reshape-preserves-size (d2, d3)
#   136s/A = np.swapaxes(A, 0, k)/pass/                     post same-shape-as-Y (d2, d3)
#   equivalent (quiet): the two halving statements in the other order.  `.real` -> `.imag`: Unsupported (undecided).
# func_sum_full  (units func_full.func_sum_full.d{1,2,3}.{number,list})
#   s/v = v.reshape(n\[k\], -1)/v = v.reshape(n[0], -1)/    call-pre reshape-first-dimension-is-the-size-of-the-next-axis (d2, d3)
#   s/2\. \/ (1\. - p\*\*2)/2. \/ (1. + p**2)/              lemma-step mode-k.columns: partial-column-sum-of-the-weighted-even-rows = partial-Clenshaw-Curtis-sum.step
#   s/v\[::2, :\] \* 2\./v[::2, :] * 1./                    lemma-step mode-k.columns: ...step
#   s/v \*= (b\[k\] - a\[k\]) \/ 2\./v *= (b[k] + a[k]) \/ 2./     lemma mode-k.columns: entry[0, c] = (b_k-a_k)/2 * sum_(i even < n_k) 2 x_i/(1-i^2)
#   s/if abs(abs(b\[k\]) - abs(a\[k\])) > 1.E-16/if abs(b[k]) - abs(a[k]) > 1.E-16/   raise-iff returns-only-if-the-box-is-symmetric-in-every-mode
#   s/raise ValueError('This function works only for symmetric grids')/pass/          raise-iff returns-only-if-the-box-is-symmetric-in-every-mode, post exactly-one-returning-path
#   s/p = np.arange(n\[k\])\[::2\]/p = np.arange(n[k])/     call-pre elementwise-shapes-agree
#   equivalent (quiet): refactorings/C12-r3 (broadcast column instead of np.repeat, zip(n, a, b) instead of indexing).
# func_get_full  (units func_full.func_get_full.d*)
#   s/T\[:n\[j\], i, j\]/T[:n[0], i, j]/                    call-pre tensordot-contracted-dims-agree (d2, d3)
#   s/T\[:n\[j\], i, j\]/T[:n[j], i, 0]/                    inv-keep loop0.finished-points-hold-the-fill-value-resp-the-contracted-value (d2, d3)
#   s/np.max(a - X\[i, :\])/np.max(X[i, :] - a)/            inv-keep loop0.finished-points-hold-the-fill-value-resp-the-contracted-value (skipping cases)
#   s/Y = np.ones(m) \* z/Y = np.ones(m) * 0./              inv-init loop0.remaining-points-still-hold-the-fill-value
#   s/max(n))/n[0])/                                        call-pre leading-count-within-the-number-of-basis-functions, post the-basis-is-built-once-...-with-max(n)-functions (d2, d3)
#   s/                continue/                pass/        inv-keep loop0.finished-points-hold-the-fill-value-resp-the-contracted-value
#   s/poi_scale(X, a, b, 'cheb')/poi_scale(X, b, a, 'cheb')/      call-pre poi_scale: a_k < b_k
#   s/np.max(X\[i, :\] - b) > 1.E-99/np.max(X[i, :] - b) > 1./    inv-keep loop0.finished-points-hold-...
# func_gets_full  (units func_full.func_gets_full.d*.m_*)
#   s/Z = Z.reshape(m, order='F')/Z = Z.reshape(m, order='C')/    post the-flat-result-is-folded-in-FORTRAN-order (refuted)
#   s/    Z = Z.reshape(m, order='F')/    pass/                    post the-flat-result-is-folded-in-FORTRAN-order
#   s/ind_to_poi(I, -1., +1., m, 'cheb')/ind_to_poi(I, -1., +1., m, 'uni')/    post ind_to_poi-gets-...-the-Chebyshev-kind, post coordinate-k-...-is-the-Chebyshev-node
#   s/ind_to_poi(I, -1., +1., m, 'cheb')/ind_to_poi(I, -1., +1., n, 'cheb')/   post ind_to_poi-gets-...-the-SAME-sizes, call-pre ind_to_poi: indices of column k within the grid (m_int)
#   s/Z = func_get_full(X, A, -1., +1.)/Z = func_get_full(X, A, 0., +1.)/      post func_get_full-gets-...-the-box-[-1, +1], post no-grid-point-is-skipped
#   s/Z = func_get_full(X, A, -1., +1.)/Z = func_get_full(X, A, +1., -1.)/     call-pre func_get_full: a < b ...
#   s/I = teneva.grid_flat(m)/I = teneva.grid_flat(n)/                         post grid_flat-gets-the-new-grid-sizes, call-pre reshape-preserves-size (m_int)
