"""Sidecar contracts for the exported functions that had no T1 unit (agent `rest`).  Four sections (each begins with a banner and its own
description; every section keeps its name prefix - ff_ / af_ / b2_ / sp_ - for module-level names):
  1. func_full (C12): func_int_full, func_sum_full, func_get_full, func_gets_full for d = 1, 2, 3; helper units for grid_prep_opt(s) /
     grid_flat with a tuple of sizes and func_basis on a 2-D batch                                         (gate ex.rest_ff)
  2. anova_func (C13, C10, C09): anova_func, ANOVA_func.__init__, ANOVA_func.coeffs                        (gate ex.rest_af)
  3. ANOVA.build_2 (C13, C10)                                                                              (gate ex.rest_b2)
  4. sample_rand_poi (C14, C10), cdf_confidence (C18, C10), cross_act control tier with _inter_update / _amen_z (C10)   (gate ex.rest_sp)
Model-table entries and spec symbols: ttvc/mx_rest.py; standard-model interpretations: lemmas/spotcheck_ext_rest.py.
The hand-made mutants are listed in a comment block at the end of each section."""
# ==================================================================================================
# SECTION func_full (dense Chebyshev routines)
# ==================================================================================================
"""Sidecar contracts for the dense ("full format") Chebyshev routines of teneva/func_full.py (C12): func_int_full, func_sum_full,
func_get_full, func_gets_full, for the concrete numbers of dimensions d = 1, 2, 3.
Model-table entries and spec symbols: ttvc/mx_rest.py; standard-model interpretations: lemmas/spotcheck_ext_rest.py."""
import z3
from ttvc.units import unit
from ttvc.symex import VOpt, VStr, VRec, VSeq, VArr, VFunc, VTuple, VRef, VList, VSym, NONE, Z
from ttvc import models as M, theory as T, vec as V, pt as PT
from ttvc import mx_func as XF
from ttvc import mx_rest as XR
from contracts import spec as S
from contracts import grid as CG
from contracts import func_more as CF

ff_IA, ff_RA = XR.ff_IA, XR.ff_RA
ff_HALF = z3.RealVal('1/2')


# ----------------------------------------------------------------------------------------------
# func_full.func_int_full: interpolation coefficients of a dense array of grid values, d = 1, 2, 3
#
# The function applies, mode by mode (k = 0, .., d-1), ONE AND THE SAME 1-D transform along axis k: the array is brought to the form
# (n_k) x (everything else) by np.swapaxes(A, 0, k) and a Fortran-order reshape, every COLUMN x (length m = n_k = size of the CURRENT
# mode) is replaced by
#       c_i = w_i / (m - 1) * DCT-I(x)_i,     w_0 = w_{m-1} = 1/2, w_i = 1 otherwise,   DCT-I(x)_i = x_0 + (-1)^i x_{m-1} + 2 sum_{0<l<m-1} x_l cos(pi i l / (m-1))
# (computed as the first m rows of the real part of the FFT of the even extension [x_0 .. x_{m-1}, x_{m-2} .. x_1]; that this is the
# DCT-I - the operator dct1 of mx_func with its defining sum, group 'dct1' - is the spot-checked axiom rest_dense[17]), and the array is
# folded back.  This is the 1-D operator of func.func_int (unit func.func_int: A[k][:, j, :] = w_j/(n-1) dct1(Y[k])[:, j, :]) applied to
# the matrix as a 3-D array with one leading index (rest_lift).
#
# The contract does not fix the code-level term: it reads off, per mode k, the EXECUTED column transform W_k (the term the code built
# over the unfolded array, as a function of that matrix) and proves about it (so independent statements may be reordered, but a wrong
# constant, a missing halving or the size of another mode is a failed obligation):
#   lemma `columns` (schema, arbitrary matrix M with m = n_k >= 2 rows): W_k(M) has the shape of M and
#         W_k(M)[i, c] = w_i * (1/(m-1) * dct1(lift(M))[0, i, c]),  lift(M)[0, l, c] = M[l, c], dct1(.)[0, i, c] written out by its defining sum;
#   d = 1:  result = column 0 of W_0(colm(Y))                  (so result[i] = w_i/(n_0-1) * DCT-I(Y)_i)
#   d = 2:  result = tr(W_1(tr(R0))),  R0 = W_0(Y)             (columns first, then rows - with the size n_1 of the SECOND mode)
#   d = 3:  result = stage2(stage1(stage0(Y))) where, slice by slice and entry by entry,
#           stage0(G)[:, j, :] = W_0(G[:, j, :])               (the columns of every slice G[:, j, :]: axis 0, size n_0)
#           stage1(G)[a, :, :] = W_1(G[a, :, :])               (the columns of every G[a, :, :]:       axis 1, size n_1)
#           stage2(G)[:, j, :] = tr(W_2(tr(G[:, j, :])))       (the rows of every slice G[:, j, :]:    axis 2, size n_2)
#           and every stage folds back to the shape of Y (the reshape gets the sizes with n_0 and n_k swapped);
#   result shape = shape of Y; Y is not rebound (A = Y.copy(); arrays are values in ttvc, aliasing is the business of frames / C09).
# Precondition: every n_k >= 2 (C12 quantifies n_k >= 2; m - 1 is a divisor, DCT-I needs two points).
# NOT covered: d >= 4; n_k = 1; rounding (A-REAL); that np.swapaxes / reshape return views or copies (frames).

ff_AXW = T.axioms('shape', 'sub', 'rest_dense', 'smul', 'entsub')
ff_AXS = T.axioms('shape', 'sub', 'mulI', 'unfold', 'rest_dense', 'rest_colsel')
ff_AXE = ff_AXS + T.axioms('centsl', 'entsub')          # element level (entries of slices / of transposed matrices)
ff_AXD = T.axioms('shape', 'rest_dense', 'dct1')        # the defining sum of the DCT-I


def ff_is(t, decl):
    return z3.is_app(t) and t.decl().eq(decl)


def ff_find_ext(Xt):
    """The matrix U whose even extension vcat(U, U[lo:hi:-1]) is transformed inside the term Xt (outermost occurrence)."""
    queue, seen = [Xt], set()
    while queue:
        t = queue.pop(0)
        if t.get_id() in seen:
            continue
        seen.add(t.get_id())
        if ff_is(t, T.vcat) and ff_is(t.arg(1), XR.rest_revrows) and z3.eq(t.arg(1).arg(0), t.arg(0)):
            return t.arg(0)
        if z3.is_app(t):
            queue.extend(t.children())
    raise M.ContractMismatch('func_int_full(): no even extension np.vstack([A, A[lo:hi:-1, :]]) in the transformed matrix')


def ff_executed(Xt):
    """(U, W): the executed column transform as a function of the matrix it acts on: W(U) is the term Xt."""
    U_ = ff_find_ext(Xt)
    return U_, (lambda Mt: z3.substitute(Xt, (U_, Mt)))


def ff_wgt(i, m):
    return z3.If(z3.Or(i == 0, i == m - 1), ff_HALF, z3.RealVal(1))


def ff_D(Mt, i, c):
    """DCT-I of the column c of the matrix Mt at the index i: the 1-D operator dct1 of mx_func on the lifted matrix."""
    return T.centry(XF.dct1(XR.rest_lift(Mt)), 0, i, c)


def ff_wform(i, m, Mt, c):
    return ff_wgt(i, m) * ((1 / z3.ToReal(m - 1)) * ff_D(Mt, i, c))


def ff_column_lemma(U, k, W, m, sizes):
    """Lemma schema `columns` for the executed transform W of mode k (m = n_k), proved for an ARBITRARY matrix M0 with m rows (only the
    size precondition in the context); returned as quantified facts (shape, entries) usable for any matrix term."""
    M0 = z3.Const('M!ffl', T.Mat)
    i0, c0 = z3.Ints('i!ffl c!ffl')
    ctx = list(sizes) + [T.rows(M0) == m, T.cols(M0) >= 0]
    U.lemma(f'mode-{k}.columns: the-transformed-matrix-has-the-shape-of-the-matrix', ctx, z3.And(T.rows(W(M0)) == m, T.cols(W(M0)) == T.cols(M0)),
            axioms=ff_AXW, mode='ematch')
    U.lemma(f'mode-{k}.columns: entry[i, c] = w_i * (1/(n_{k}-1) * DCT-I(column c)_i), w = 1/2 at both ends', ctx + [0 <= i0, i0 < m, 0 <= c0, c0 < T.cols(M0)],
            T.ent(W(M0), i0, c0) == ff_wform(i0, m, M0, c0), axioms=ff_AXW, mode='ematch')
    U.canary(f'canary-mode-{k}.columns: no-halving-at-the-ends', ctx + [i0 == 0, 0 <= c0, c0 < T.cols(M0)],
             T.ent(W(M0), i0, c0) == (1 / z3.ToReal(m - 1)) * ff_D(M0, i0, c0), axioms=ff_AXW)
    Mq, iq, cq = z3.Const('M!ffq', T.Mat), z3.Int('i!ffq'), z3.Int('c!ffq')
    shape_fact = z3.ForAll([Mq], z3.Implies(z3.And(T.rows(Mq) == m, T.cols(Mq) >= 0), z3.And(T.rows(W(Mq)) == m, T.cols(W(Mq)) == T.cols(Mq))), patterns=[W(Mq)])
    entry_fact = z3.ForAll([Mq, iq, cq], z3.Implies(z3.And(T.rows(Mq) == m, 0 <= iq, iq < m, 0 <= cq, cq < T.cols(Mq)),
                                                    T.ent(W(Mq), iq, cq) == ff_wform(iq, m, Mq, cq)), patterns=[T.ent(W(Mq), iq, cq)])
    return shape_fact, entry_fact


def ff_dct_written_out(U):
    """ff_D(M, i, c) is the defining sum of the DCT-I over the column c of an m-row matrix (group 'dct1' of mx_func at the lifted matrix)."""
    Mx, m = z3.Const('M!ffx', T.Mat), z3.Int('m!ffx')
    i0, c0 = z3.Ints('i!ffd c!ffd')
    Gl = XR.rest_lift(Mx)
    dsum = T.centry(Gl, 0, 0, c0) + T.rmul(XF.sgnpow(i0), T.centry(Gl, 0, m - 1, c0)) + 2 * XF.dct1sum(Gl, 0, i0, c0, m - 1)
    U.lemma('DCT-I(column c)_i = x_0 + (-1)^i x_{m-1} + 2 sum_{0<l<m-1} x_l cos(pi i l/(m-1)) over the fibre x_l = lift(M)[0, l, c] = M[l, c]',
            [T.rows(Mx) == m, m >= 2, 0 <= i0, i0 < m, 0 <= c0, c0 < T.cols(Mx)],
            z3.And(ff_D(Mx, i0, c0) == dsum, T.centry(Gl, 0, i0, c0) == T.ent(Mx, i0, c0)), axioms=ff_AXD, mode='ematch')


FF_SW = (None, XR.rest_sw01, XR.rest_sw02)
FF_SWF = ((lambda t: t), XR.rest_sw01, XR.rest_sw02)


def ff_peel3(t, k):
    """t = sw_k(foldR(X, p, q)) with X built over U = unfR(sw_k(inner)): returns (X, p, q, inner)."""
    if k > 0:
        if not ff_is(t, FF_SW[k]):
            raise M.ContractMismatch(f'func_int_full(): the result of mode {k} is not swapped back by np.swapaxes(A, 0, {k})')
        t = t.arg(0)
    if not ff_is(t, T.foldR):
        raise M.ContractMismatch(f'func_int_full(): the result of mode {k} is not folded back by a Fortran-order reshape')
    Xt, p_, q_ = t.children()
    U_ = ff_find_ext(Xt)
    if not ff_is(U_, T.unfR):
        raise M.ContractMismatch(f'func_int_full(): mode {k} does not transform the Fortran-order unfolding')
    inner = U_.arg(0)
    if k > 0:
        if not ff_is(inner, FF_SW[k]):
            raise M.ContractMismatch(f'func_int_full(): mode {k} is not brought to the front by np.swapaxes(A, 0, {k})')
        inner = inner.arg(0)
    return Xt, p_, q_, inner


def _int_full_unit(U, d):
    fn = U.func('func_full', 'func_int_full')
    st = U.state()
    i0, l0, a0, b0, j0 = z3.Ints('i!ffs l!ffs a!ffs b!ffs j!ffs')
    if d == 1:
        n = (z3.Int('n0'),)
        Yt = z3.Const('Y', ff_RA)
        Yv = V.RVec(n[0], Yt)
    elif d == 2:
        Yv, Yt = S.mat_param('Y')
        n = (T.rows(Yt), T.cols(Yt))
    else:
        Yv, Yt = S.core_param('Y')
        n = (T.d0(Yt), T.d1(Yt), T.d2(Yt))
    sizes = [x >= 2 for x in n]
    ex = U.executor(fn, axioms=ff_AXS)
    ex.mode = 'ematch'
    ex.rest_ff = True
    st.vars.update(Y=Yv)
    res = U.run(ex, st, pre=sizes)
    U.cover('precondition-satisfiable', U.pre, axioms=ff_AXS)
    ff_dct_written_out(U)
    if len(res) != 1:
        raise M.ContractMismatch('func_int_full(): one path expected')
    for p, o in res:
        if o.kind != 'return':
            U.post('no-exception', p, False, axioms=ff_AXS, mode='ematch')
            continue
        R = p.deref(o.value)
        ok = (XF.is_vec(R, 'rvec'), XR.ff_is_mat(R), XR.ff_is_core(R))[d - 1]
        U.post(f'returns-a-{d}-D-array-with-a-denotation', p, z3.BoolVal(bool(ok)))
        if not ok:
            continue
        U.post('same-shape-as-Y', p, z3.And(*[Z(R.shape[k]) == n[k] for k in range(d)]), axioms=ff_AXS, mode='ematch')
        U.post('argument-is-not-rebound (A = Y.copy())', p, z3.BoolVal(p.vars.get('Y') is Yv))
        hyp = list(p.pc)
        from ttvc.symex import quick_unsat
        if not quick_unsat(list(ff_AXS) + hyp + [z3.Not(z3.And(*[Z(R.shape[k]) == n[k] for k in range(d)]))]):
            continue            # a wrong result shape is reported by the post above; the structure below is not looked at
        if d == 1:
            if not ff_is(R.t, XR.rest_col0):
                raise M.ContractMismatch('func_int_full(): the 1-D result is not the column of the transformed one-column matrix')
            U0, W0 = ff_executed(R.t.arg(0))
            U.post('mode-0: the-transformed-matrix-is-the-column-of-values', p, U0 == XR.rest_colm(Yt, n[0]), axioms=ff_AXS, mode='ematch')
            sf, ef = ff_column_lemma(U, 0, W0, n[0], sizes)
            Yc = XR.rest_colm(Yt, n[0])
            U.post('entry[i] = w_i/(n_0-1) * DCT-I(Y)_i', hyp + [U0 == Yc, ef, 0 <= i0, i0 < n[0]],
                   z3.And(R.t[i0] == ff_wform(i0, n[0], Yc, 0), z3.Implies(z3.And(0 <= l0, l0 < n[0]), T.ent(Yc, l0, 0) == Yt[l0])), axioms=ff_AXE, mode='ematch')
            U.canary('canary-entries-are-zero', hyp + [U0 == Yc, ef, 0 <= i0, i0 < n[0]], R.t[i0] == 0, axioms=ff_AXE)
            U.canary('canary-the-context-of-the-entry-post-is-consistent', hyp + [U0 == Yc, ef, sf, 0 <= i0, i0 < n[0]], False, axioms=ff_AXE)
        elif d == 2:
            if not ff_is(R.t, T.tr):
                raise M.ContractMismatch('func_int_full(): the 2-D result is not swapped back by np.swapaxes(A, 0, 1)')
            U1, W1 = ff_executed(R.t.arg(0))
            if not ff_is(U1, T.tr):
                raise M.ContractMismatch('func_int_full(): mode 1 is not brought to the front by np.swapaxes(A, 0, 1)')
            U0, W0 = ff_executed(U1.arg(0))
            U.post('mode-0: the-transformed-matrix-is-Y-itself (columns first)', p, U0 == Yt, axioms=ff_AXS, mode='ematch')
            sf0, ef0 = ff_column_lemma(U, 0, W0, n[0], sizes)
            sf1, ef1 = ff_column_lemma(U, 1, W1, n[1], sizes)
            G0 = z3.Const('G!ffl', T.Mat)
            gctx = [T.rows(G0) == n[0], T.cols(G0) == n[1]] + sizes
            s1 = T.tr(W1(T.tr(G0)))
            U.lemma('mode-1: the-ROWS-are-transformed-with-the-size-n_1-of-the-second-mode: entry[a, i] = w_i/(n_1-1) * DCT-I(row a)_i',
                    gctx + [sf1, ef1, 0 <= a0, a0 < n[0], 0 <= i0, i0 < n[1]],
                    z3.And(T.ent(s1, a0, i0) == ff_wform(i0, n[1], T.tr(G0), a0), T.rows(s1) == n[0], T.cols(s1) == n[1]), axioms=ff_AXE, mode='ematch')
            U.lemma('mode-1: the-transformed-fibre-is-the-row: tr(G)[l, a] = G[a, l]', gctx + [0 <= a0, a0 < n[0], 0 <= l0, l0 < n[1]],
                    T.ent(T.tr(G0), l0, a0) == T.ent(G0, a0, l0), axioms=ff_AXE, mode='ematch')
            U.post('mode-0-result-has-the-shape-of-Y (input of mode 1)', hyp + [sf0, U0 == Yt], z3.And(T.rows(U1.arg(0)) == n[0], T.cols(U1.arg(0)) == n[1]),
                   axioms=ff_AXS, mode='ematch')
            U.canary('canary-the-context-of-the-stage-lemmas-is-consistent', gctx + [sf0, ef0, sf1, ef1, 0 <= a0, a0 < n[0], 0 <= i0, i0 < n[1]], False, axioms=ff_AXE)
            U.canary('canary-mode-1-entry-uses-the-size-of-mode-0', gctx + [sf1, ef1, 0 <= a0, a0 < n[0], 0 <= i0, i0 < n[1]],
                     T.ent(s1, a0, i0) == ff_wform(i0, n[0], T.tr(G0), a0), axioms=ff_AXE)
        else:
            # peel the three stages off the result (the executed terms), innermost last
            X2, p2, q2, R1t = ff_peel3(R.t, 2)
            X1, p1, q1, R0t = ff_peel3(R1t, 1)
            X0, p0, q0, Y0t = ff_peel3(R0t, 0)
            U.post('mode-0-acts-on-Y, mode-1-on-its-result, mode-2-on-that (order 0-1-2)', p, Y0t == Yt, axioms=ff_AXS, mode='ematch')
            U.post('every-stage-folds-back-with-the-sizes-of-the-other-two-modes (n with n_0 and n_k swapped)', p,
                   z3.And(p0 == n[1], q0 == n[2], p1 == n[0], q1 == n[2], p2 == n[1], q2 == n[0]), axioms=ff_AXS, mode='ematch')
            Ws, facts = [], []
            for k, Xk in enumerate((X0, X1, X2)):
                Wk = ff_executed(Xk)[1]
                Ws.append(Wk)
                facts.append(ff_column_lemma(U, k, Wk, n[k], sizes))
            # the three per-mode stages, slice by slice and entry by entry (lemma schemas for an ARBITRARY 3-D array of the shape of Y)
            G0 = z3.Const('G!ffl', T.Core)
            gctx = [T.d0(G0) == n[0], T.d1(G0) == n[1], T.d2(G0) == n[2]] + sizes
            perm = lambda k: [n[k]] + [n[t] if t != k else n[0] for t in (1, 2)]
            stage = lambda Gt, k: FF_SWF[k](T.foldR(Ws[k](T.unfR(FF_SWF[k](Gt))), perm(k)[1], perm(k)[2]))
            st0, st1, st2 = stage(G0, 0), stage(G0, 1), stage(G0, 2)
            same_shape = lambda t: z3.And(T.d0(t) == n[0], T.d1(t) == n[1], T.d2(t) == n[2])
            sl_0 = z3.And(T.sl(st0, j0) == Ws[0](T.sl(G0, j0)), same_shape(st0))
            sl_1 = z3.And(XR.rest_sl0(st1, a0) == Ws[1](XR.rest_sl0(G0, a0)), same_shape(st1))
            sl_2 = z3.And(T.sl(st2, j0) == T.tr(Ws[2](T.tr(T.sl(G0, j0)))), same_shape(st2))
            U.lemma('mode-0: every-slice-[:, j, :]-has-its-COLUMNS-transformed-with-the-size-n_0', gctx + [facts[0][0], 0 <= j0, j0 < n[1]], sl_0, axioms=ff_AXS, mode='ematch')
            U.lemma('mode-1: every-[a, :, :]-has-its-COLUMNS-transformed-with-the-size-n_1', gctx + [facts[1][0], 0 <= a0, a0 < n[0]], sl_1, axioms=ff_AXS, mode='ematch')
            U.lemma('mode-2: every-slice-[:, j, :]-has-its-ROWS-transformed-with-the-size-n_2', gctx + [facts[2][0], 0 <= j0, j0 < n[1]], sl_2, axioms=ff_AXS, mode='ematch')
            dom = [0 <= a0, a0 < n[0], 0 <= j0, j0 < n[1], 0 <= b0, b0 < n[2]]
            U.lemma('mode-0: entry[i, j, b] = w_i/(n_0-1) * DCT-I(fibre [:, j, b])_i', gctx + [facts[0][1], sl_0, 0 <= i0, i0 < n[0]] + dom,
                    T.centry(st0, i0, j0, b0) == ff_wform(i0, n[0], T.sl(G0, j0), b0), axioms=ff_AXE, mode='ematch')
            U.lemma('mode-1: entry[a, i, b] = w_i/(n_1-1) * DCT-I(fibre [a, :, b])_i', gctx + [facts[1][1], sl_1, 0 <= i0, i0 < n[1]] + dom,
                    T.centry(st1, a0, i0, b0) == ff_wform(i0, n[1], XR.rest_sl0(G0, a0), b0), axioms=ff_AXE, mode='ematch')
            U.lemma('mode-2: entry[a, j, i] = w_i/(n_2-1) * DCT-I(fibre [a, j, :])_i', gctx + [facts[2][1], sl_2, 0 <= i0, i0 < n[2]] + dom,
                    T.centry(st2, a0, j0, i0) == ff_wform(i0, n[2], T.tr(T.sl(G0, j0)), a0), axioms=ff_AXE, mode='ematch')
            U.lemma('the-transformed-fibres-are-the-fibres-of-the-array-along-the-mode', gctx + dom + [0 <= l0],
                    z3.And(z3.Implies(l0 < n[0], T.ent(T.sl(G0, j0), l0, b0) == T.centry(G0, l0, j0, b0)),
                           z3.Implies(l0 < n[1], T.ent(XR.rest_sl0(G0, a0), l0, b0) == T.centry(G0, a0, l0, b0)),
                           z3.Implies(l0 < n[2], T.ent(T.tr(T.sl(G0, j0)), l0, a0) == T.centry(G0, a0, j0, l0))), axioms=ff_AXE, mode='ematch')
            U.post('the-result-is-stage2(stage1(stage0(Y)))', hyp + [Y0t == Yt, p0 == n[1], q0 == n[2], p1 == n[0], q1 == n[2], p2 == n[1], q2 == n[0]],
                   R.t == stage(stage(stage(Yt, 0), 1), 2), axioms=ff_AXS, mode='ematch')
            U.canary('canary-the-context-of-the-stage-lemmas-is-consistent', gctx + [f for pr in facts for f in pr] + [sl_0, sl_1, sl_2, 0 <= i0, i0 < 2] + dom,
                     False, axioms=ff_AXE)
            U.canary('canary-mode-1-entry-uses-the-size-of-mode-0', gctx + [facts[1][1], sl_1, 0 <= i0, i0 < n[1]] + dom,
                     T.centry(st1, a0, i0, b0) == ff_wform(i0, n[0], XR.rest_sl0(G0, a0), b0), axioms=ff_AXE)


for _ff_d in (1, 2, 3):
    def _ff_mk_int(d=_ff_d):
        @unit(f'func_full.func_int_full.d{d}', props=('C12',))
        def u(U):
            _int_full_unit(U, d)
    _ff_mk_int()


# ----------------------------------------------------------------------------------------------
# grid.grid_prep_opt / grid.grid_prep_opts for a TUPLE of mode sizes (the dense routines hand `A.shape` through grid_prep_opts)
#
# grid_prep_opt(n, d, int) for a tuple n of integers: the integer vector with the same entries, whatever d (a tuple is neither a number
# nor None; np.asanyarray(tuple, dtype=int)).  grid_prep_opts(a, b, n, d) with such a tuple: the length test of the loop only looks at
# lists and arrays (a tuple is skipped), ValueError iff a list-like a / b has a length other than d, otherwise the three options
# normalised by grid_prep_opt with the kinds float, float, int and the same d, in the order a, b, n.

def ff_tuple_to_vec(st, v):
    w = st.deref(v)
    if isinstance(w, VTuple) and XR.ff_int_items(st, w) is not None:
        return XR.FFIVec(w.items)
    return v


def ff_call_grid_prep_opt(ex, st, args, kwargs, node):
    """grid_prep_opt by its units (grid.grid_prep_opt.* of contracts/misc.py / func_more.py; a tuple of integers: grid.grid_prep_opt.int_tuple.*)."""
    args = [ff_tuple_to_vec(st, args[0])] + list(args[1:])
    return CF.call_grid_prep_opt_any(ex, st, args, kwargs, node)


def ff_call_grid_prep_opts(ex, st, args, kwargs, node):
    """grid_prep_opts(a, b, n, d) where n may be the tuple A.shape (units grid.grid_prep_opts.tuple_n.* below, grid.grid_prep_opts.values.* otherwise)."""
    if kwargs or len(args) != 4:
        raise M.Unsupported('grid_prep_opts: only the call (a, b, n, d) is under this call-site contract')
    return CF.call_grid_prep_opts(ex, st, [args[0], args[1], ff_tuple_to_vec(st, args[2]), args[3]], kwargs, node)


for _ff_d in (1, 2, 3):
    def _ff_mk_tuple(d=_ff_d):
        @unit(f'grid.grid_prep_opt.int_tuple.d{d}', props=('C12', 'C18'))
        def u(U):
            fn = U.func('grid', 'grid_prep_opt')
            ex = U.executor(fn)
            ex.rest_ff = True
            st = U.state()
            items = [z3.Int(f'n{k}') for k in range(d)]
            st.vars.update(opt=VTuple(items), d=S.opt_int('d'), kind=M.TypeVal('int'), reps=NONE)
            res = U.run(ex, st, pre=[])
            U.cover('reachable', U.pre)
            for p, o in res:
                R = p.deref(o.value) if o.kind == 'return' else None
                ok = isinstance(R, XR.FFIVec) and len(R.items) == d and all(x is y for x, y in zip(R.items, items)) and R.dtype == 'i'
                U.post('the-integer-vector-with-the-entries-of-the-tuple-whatever-the-dimension-argument', p, z3.BoolVal(ok))
                if ok:
                    U.post('entries', p, z3.And(*[R.t[k] == items[k] for k in range(d)]))
                    U.canary('canary-entries-are-zero', p, R.t[0] == 0)
            U.post('no-fork-on-the-dimension', [], z3.BoolVal(len(res) == 1))
    _ff_mk_tuple()


def _ff_prep_opts_tuple_unit(U, akind, bkind):
    fn = U.func('grid', 'grid_prep_opts')
    st = U.state()
    d, La, Lb = z3.Ints('d len_a len_b')

    def rec(ex, s, args, kwargs, node):
        out = ff_call_grid_prep_opt(ex, s, args, kwargs, node)
        s.ghost['gpo'] = s.ghost.get('gpo', []) + [(args, dict(kwargs), out)]
        return out

    ex = U.executor(fn, callees={'grid.grid_prep_opt': rec})
    ex.rest_ff = True
    a, b = CF._opts_kind(st, 'a', akind, La), CF._opts_kind(st, 'b', bkind, Lb)
    items = [z3.Int(f'n{k}') for k in range(3)]
    n = VTuple(items)
    st.vars.update(a=a, b=b, n=n, d=d, reps=NONE)
    res = U.run(ex, st, pre=[d >= 1, La >= 0, Lb >= 0])
    U.assumed.append('grid.grid_prep_opt (units grid.grid_prep_opt.*, grid.grid_prep_opt.int_tuple.*)')
    U.cover('precondition-satisfiable', U.pre)
    bad = z3.Or([L != d for L, k in ((La, akind), (Lb, bkind)) if k == 'list'] + [z3.BoolVal(False)])
    for p, o in res:
        if o.kind == 'raise':
            U.raise_iff('raises-only-if-a-list-like-bound-has-a-length-other-than-d (the tuple is not tested)', p, bad)
            U.raise_iff('raises-ValueError', p, o.exc == 'ValueError')
            continue
        U.raise_iff('returns-only-if-all-list-like-bounds-have-length-d', p, z3.Not(bad))
        cs = p.ghost.get('gpo', [])
        ok = isinstance(o.value, VTuple) and len(o.value.items) == 3 and len(cs) == 3 and all(x is c[2] for x, c in zip(o.value.items, cs))
        U.post('returns-the-three-normalised-options-in-the-order-a-b-n', p, z3.BoolVal(ok))
        if not ok:
            continue
        for (args, kw, out), src, knd, nm in zip(cs, (a, b, n), ('float', 'float', 'int'), 'abn'):
            good = len(args) == 4 and not kw and args[0] is src and isinstance(args[2], M.TypeVal) and args[2].name == knd and args[3] is NONE
            U.post(f'option-{nm}-is-normalised-by-grid_prep_opt-with-kind-{knd}-and-no-repetition', p, z3.BoolVal(good))
            if good:
                U.post(f'option-{nm}-is-normalised-with-the-dimension-d', p, Z(args[1]) == d)
        nv = p.deref(o.value.items[2])
        U.post('the-sizes-come-back-as-the-integer-vector-of-the-tuple', p, z3.BoolVal(isinstance(nv, XR.FFIVec) and all(x is y for x, y in zip(nv.items, items))))
        U.canary('canary-never-returns', p, False)


for _ff_ak, _ff_bk in (('number', 'number'), ('list', 'list')):
    def _ff_mk_po(ak=_ff_ak, bk=_ff_bk):
        @unit(f'grid.grid_prep_opts.tuple_n.{ak}_{bk}', props=('C12', 'C18'))
        def u(U):
            _ff_prep_opts_tuple_unit(U, ak, bk)
    _ff_mk_po()


# ----------------------------------------------------------------------------------------------
# func_full.func_sum_full: the integral of the dense interpolant over a SYMMETRIC box (Clenshaw-Curtis), d = 1, 2, 3
#
# raise-iff: ValueError is raised iff for some mode | |b_k| - |a_k| | > 1e-16 (the box is not symmetric), before anything is computed.
# Otherwise the array is reduced mode by mode (k = 0, .., d-1): it is brought to the form (n_k) x (everything else) by a C-order reshape
# with the size n_k of the CURRENT mode, and every COLUMN x (length m = n_k) is replaced by the number
#       (b_k - a_k)/2 * sum_{i even, i < m} 2/(1 - i^2) * x_i        (Clenshaw-Curtis weights on the even coefficients, i = 2l),
# the 1-D operator of func.func_sum (unit func.func_sum.*: weights p[l] = 2/(1-(2l)^2), factor (b_k-a_k)/2 per mode).  Spec function
# rest_ccsum(M, c, k) = sum_{l<k} 2 M[2l, c]/(1-(2l)^2) (recursive definition, spot-checked); the code computes it as the column sum of
# M[::2, :] * 2. / (1. - P**2) - the equality of the two partial sums is proved by induction (lemma base / step) for the EXECUTED term.
#   lemma `columns` (schema, arbitrary matrix M with m = n_k rows): V_k(M) is a 1 x cols(M) row, V_k(M)[0, c] = (b_k-a_k)/2 * ccsum(M, c, (m+1)//2);
#   d = 1: result = V_0(colm(A))[0, 0];    d = 2: result = V_1(M1)[0, 0],  M1[j, 0] = V_0(A)[0, j];
#   d = 3: result = V_2(M2)[0, 0],  M2[b, 0] = V_1(M1)[0, b],  row j of M1 = V_0(A[:, j, :])   (every fold uses the size of the NEXT mode).
# By L-SUMPROD (cited) the nested sums are prod_k (b_k-a_k)/2 * sum over all even multi-indices of the weighted coefficients; by L-CC
# (cited) that is the integral of the interpolant.
# Precondition: every n_k >= 1; a, b numbers or per-mode lists of length d.  NOT covered: d >= 4, rounding, that the asymmetric box
# message is meaningful; (2l)^2 is kept in the engine's product abstraction mulI.

ff_AXQ = T.axioms('shape', 'sub', 'mulI', 'isq', 'smul', 'rest_dense', 'rest_cc', 'rest_corder', 'rest_cblk', 'entsub')
ff_EPS16 = Z(1.E-16)


def ff_find(Xt, decl, what):
    queue, seen = [Xt], set()
    while queue:
        t = queue.pop(0)
        if t.get_id() in seen:
            continue
        seen.add(t.get_id())
        if ff_is(t, decl):
            return t
        if z3.is_app(t):
            queue.extend(t.children())
    raise M.ContractMismatch(f'func_sum_full(): no {what} in the reduced row')


def ff_absr(x):
    return z3.If(x >= 0, x, -x)


def _sum_full_unit(U, d, okind):
    fn = U.func('func_full', 'func_sum_full')
    st = U.state()
    c0, l0, a0, b0, j0, kk = z3.Ints('c!ffs l!ffs a!ffs b!ffs j!ffs kk')
    if d == 1:
        n = (z3.Int('n0'),)
        At = z3.Const('A', ff_RA)
        Av = V.RVec(n[0], At)
    elif d == 2:
        Av, At = S.mat_param('A')
        n = (T.rows(At), T.cols(At))
    else:
        Av, At = S.core_param('A')
        n = (T.d0(At), T.d1(At), T.d2(At))
    sizes = [x >= 1 for x in n]
    a_in, b_in = CF._opts_kind(st, 'a', okind, z3.IntVal(d)), CF._opts_kind(st, 'b', okind, z3.IntVal(d))
    lo = (lambda k: M.to_real(a_in)) if okind != 'list' else (lambda k: st.heap[a_in.oid].arr[k])
    hi = (lambda k: M.to_real(b_in)) if okind != 'list' else (lambda k: st.heap[b_in.oid].arr[k])
    asym = lambda k: ff_absr(ff_absr(hi(k)) - ff_absr(lo(k))) > ff_EPS16
    bad = z3.Or([asym(k) for k in range(d)])
    ex = U.executor(fn, axioms=ff_AXQ, callees={'grid.grid_prep_opts': ff_call_grid_prep_opts})
    ex.mode = 'ematch'
    ex.rest_ff = True
    st.vars.update(A=Av, a=a_in, b=b_in)
    res = U.run(ex, st, pre=sizes)
    U.assumed += ['grid.grid_prep_opts (units grid.grid_prep_opts.tuple_n.*, grid.grid_prep_opt.int_tuple.*)']
    U.cover('precondition-satisfiable', U.pre, axioms=ff_AXQ)
    U.cover('asymmetric-box-reachable', U.pre + [bad], axioms=ff_AXQ)
    U.cover('symmetric-box-reachable', U.pre + [z3.Not(bad)], axioms=ff_AXQ)
    nret = 0
    for p, o in res:
        if o.kind == 'raise':
            U.raise_iff('raises-only-if-the-box-is-not-symmetric-in-some-mode: ||b_k|-|a_k|| > 1e-16', p, bad, axioms=ff_AXQ, mode='ematch')
            U.raise_iff('raises-ValueError', p, o.exc == 'ValueError')
            continue
        if o.kind != 'return':
            U.post('no-other-outcome', p, False)
            continue
        nret += 1
        U.raise_iff('returns-only-if-the-box-is-symmetric-in-every-mode', p, z3.Not(bad), axioms=ff_AXQ, mode='ematch')
        U.post('returns-a-number', p, z3.BoolVal(M.is_num(o.value)))
        U.post('argument-is-not-rebound (v = A.copy())', p, z3.BoolVal(p.vars.get('A') is Av))
        if not (M.is_num(o.value) and ff_is(Z(o.value), T.ent)):
            raise M.ContractMismatch('func_sum_full(): the result is not the single entry of the reduced row')
        hyp = list(p.pc)
        # peel the d reductions off the result (the executed terms), innermost last
        stages, cur = [], Z(o.value).arg(0)
        for k in reversed(range(d)):
            Uk = ff_find(cur, XR.rest_erows, 'even-row selection v[::2, :]').arg(0)
            stages.append((k, cur, Uk))
            if k > 0:
                if not ff_is(Uk, XR.rest_vfoldC):
                    raise M.ContractMismatch(f'func_sum_full(): mode {k} does not act on the C-order fold of the previous row')
                cur = Uk.arg(0)
        stages.reverse()
        U0 = stages[0][2]
        first = XR.rest_colm(At, n[0]) if d == 1 else (At if d == 2 else XR.rest_unfC(At))
        U.post('mode-0-acts-on-the-C-order-unfolding-of-A-along-its-first-axis', p, U0 == first, axioms=ff_AXQ, mode='ematch')
        for k, _, Uk in stages[1:]:
            U.post(f'mode-{k}: the-previous-row-is-folded-with-the-size-n_{k}-of-the-CURRENT-mode', p, Uk.arg(1) == n[k], axioms=ff_AXQ, mode='ematch')
        Vs, facts = [], []
        for k, Sk, Uk in stages:
            Vk = (lambda Mt, Sk=Sk, Uk=Uk: z3.substitute(Sk, (Uk, Mt)))
            Vs.append(Vk)
            m, hk = n[k], (hi(k) - lo(k)) / 2
            M0 = z3.Const('M!ffl', T.Mat)
            ctx = hyp + [T.rows(M0) == m, T.cols(M0) >= 0]
            X0 = ff_find(Vk(M0), XR.rest_colsum, 'column sum np.sum(.., axis=0)').arg(0)
            half = (m + 1) / 2
            P = lambda t: XR.rest_psum(X0, c0, t) == XR.rest_ccsum(M0, c0, t)
            cdom = [0 <= c0, c0 < T.cols(M0)]
            U.lemma(f'mode-{k}.columns: the-reduced-row-is-1-x-cols', ctx, z3.And(T.rows(Vk(M0)) == 1, T.cols(Vk(M0)) == T.cols(M0), T.rows(X0) == half, T.cols(X0) == T.cols(M0)),
                    axioms=ff_AXQ, mode='ematch')
            U.lemma(f'mode-{k}.columns: partial-column-sum-of-the-weighted-even-rows = partial-Clenshaw-Curtis-sum.base', ctx + cdom, P(z3.IntVal(0)), axioms=ff_AXQ, mode='ematch',
                    kind='lemma-base')
            U.lemma(f'mode-{k}.columns: partial-column-sum-of-the-weighted-even-rows = partial-Clenshaw-Curtis-sum.step',
                    ctx + cdom + [T.rows(X0) == half, T.cols(X0) == T.cols(M0), 0 <= kk, kk < half, P(kk)], P(kk + 1), axioms=ff_AXQ, mode='ematch', kind='lemma-step')
            U.lemma(f'mode-{k}.columns: entry[0, c] = (b_{k}-a_{k})/2 * sum_(i even < n_{k}) 2 x_i/(1-i^2)',
                    ctx + cdom + [T.rows(X0) == half, T.cols(X0) == T.cols(M0), P(half)], T.ent(Vk(M0), 0, c0) == hk * XR.rest_ccsum(M0, c0, half), axioms=ff_AXQ, mode='ematch')
            U.canary(f'canary-mode-{k}.columns: no-box-factor', ctx + cdom + [T.rows(X0) == half, T.cols(X0) == T.cols(M0), P(half)],
                     T.ent(Vk(M0), 0, c0) == XR.rest_ccsum(M0, c0, half), axioms=ff_AXQ)
            U.canary(f'canary-mode-{k}.columns: context-is-consistent', ctx + cdom + [T.rows(X0) == half, T.cols(X0) == T.cols(M0), P(half), 0 <= kk, kk < half, P(kk)], False,
                     axioms=ff_AXQ)
            Mq, cq = z3.Const('M!ffq', T.Mat), z3.Int('c!ffq')
            facts.append((z3.ForAll([Mq], z3.Implies(z3.And(T.rows(Mq) == m, T.cols(Mq) >= 0), z3.And(T.rows(Vk(Mq)) == 1, T.cols(Vk(Mq)) == T.cols(Mq))), patterns=[Vk(Mq)]),
                          z3.ForAll([Mq, cq], z3.Implies(z3.And(T.rows(Mq) == m, 0 <= cq, cq < T.cols(Mq)), T.ent(Vk(Mq), 0, cq) == hk * XR.rest_ccsum(Mq, cq, half)),
                                    patterns=[T.ent(Vk(Mq), 0, cq)])))
        if d == 1:
            U.post('result = (b_0-a_0)/2 * sum_(i even < n_0) 2 A[i]/(1-i^2)', hyp + [U0 == first, facts[0][1]],
                   z3.And(M.to_real(o.value) == ((hi(0) - lo(0)) / 2) * XR.rest_ccsum(first, 0, (n[0] + 1) / 2),
                          z3.Implies(z3.And(0 <= l0, l0 < n[0]), T.ent(first, l0, 0) == At[l0])), axioms=ff_AXQ, mode='ematch')
        else:
            # relations between the stages, stated for the executed reductions V_k and ARBITRARY arrays of the shape of A
            if d == 2:
                G0 = z3.Const('G!ffl', T.Mat)
                gctx = hyp + [T.rows(G0) == n[0], T.cols(G0) == n[1]]
                M1 = XR.rest_vfoldC(Vs[0](G0), n[1])
                U.lemma('mode-1-input: M1[j, 0] = V_0(G)[0, j]  (the row of the mode-0 results as a column)', gctx + [facts[0][0], 0 <= j0, j0 < n[1]],
                        z3.And(T.ent(M1, j0, 0) == T.ent(Vs[0](G0), 0, j0), T.rows(M1) == n[1], T.cols(M1) == 1), axioms=ff_AXQ, mode='ematch')
            else:
                G0 = z3.Const('G!ffl', T.Core)
                gctx = hyp + [T.d0(G0) == n[0], T.d1(G0) == n[1], T.d2(G0) == n[2]]
                S0 = Vs[0](XR.rest_unfC(G0))
                M1 = XR.rest_vfoldC(S0, n[1])
                U.lemma('mode-1-input: row j of M1 = V_0(G[:, j, :])  (the columns of every slice G[:, j, :] are reduced with the size n_0)',
                        gctx + [facts[0][0], 0 <= j0, j0 < n[1]],
                        z3.And(T.row(M1, j0) == Vs[0](T.sl(G0, j0)), T.rows(M1) == n[1], T.cols(M1) == n[2]), axioms=ff_AXQ, mode='ematch')
                H0 = z3.Const('H!ffl', T.Mat)
                M2 = XR.rest_vfoldC(Vs[1](H0), n[2])
                U.lemma('mode-2-input: M2[b, 0] = V_1(M1)[0, b]  (the row of the mode-1 results as a column)',
                        hyp + [T.rows(H0) == n[1], T.cols(H0) == n[2], facts[1][0], 0 <= b0, b0 < n[2]],
                        z3.And(T.ent(M2, b0, 0) == T.ent(Vs[1](H0), 0, b0), T.rows(M2) == n[2], T.cols(M2) == 1), axioms=ff_AXQ, mode='ematch')
            last = stages[-1]
            U.post(f'the-last-mode-acts-on-the-n_{d-1}-x-1-column-of-the-mode-{d-2}-results', hyp + [U0 == first] + [f[0] for f in facts],
                   z3.And(T.rows(last[2]) == n[d - 1], T.cols(last[2]) == 1), axioms=ff_AXQ, mode='ematch')
            U.post(f'result = (b_{d-1}-a_{d-1})/2 * sum_(i even < n_{d-1}) 2 x_i/(1-i^2) over the column of the mode-{d-2} results',
                   hyp + [facts[-1][1], T.rows(last[2]) == n[d - 1], T.cols(last[2]) == 1],
                   M.to_real(o.value) == ((hi(d - 1) - lo(d - 1)) / 2) * XR.rest_ccsum(last[2], 0, (n[d - 1] + 1) / 2), axioms=ff_AXQ, mode='ematch')
        U.canary('canary-result-is-zero', p, M.to_real(o.value) == 0, axioms=ff_AXQ)
    U.post('exactly-one-returning-path', [], z3.BoolVal(nret == 1))
    # the summands of rest_ccsum are the Clenshaw-Curtis weights of func.func_sum (CF.ccw(l) = 2/(1-(2l)^2)) times the even coefficients
    xw, den = z3.Real('x!ffw'), XR.ff_ccden(l0)
    U.lemma('the-denominators-1-(2l)^2-are-non-zero', [l0 >= 0], den != 0, axioms=T.axioms('isq'), mode='ematch')
    U.lemma('summand 2 x/(1-(2l)^2) = ccw(l) * x  (the weights of func.func_sum)', [den != 0], (2 * xw) / den == CF.ccw(l0) * xw, qf=True)
    U.lemmas += ['L-SUMPROD: nested weighted sums = sum over all multi-indices of the weighted entries (cited)',
                 'L-CC: sum over even i of 2/(1-i^2) c_i is the integral over [-1, 1] of sum_i c_i T_i (Clenshaw-Curtis; cited)']


for _ff_d in (1, 2, 3):
    for _ff_ok in ('number', 'list'):
        def _ff_mk_sum(d=_ff_d, ok=_ff_ok):
            @unit(f'func_full.func_sum_full.d{d}.{ok}', props=('C12',))
            def u(U):
                _sum_full_unit(U, d, ok)
        _ff_mk_sum()


# ----------------------------------------------------------------------------------------------
# func.func_basis for a 2-D batch of points (the dense evaluation hands the whole scaled batch to func_basis): the unit func.func_basis
# (contracts/func.py) observes a 1-D X at one generic position; this is the same statement for an X of shape (samples, d):
# T[l] = T_l(X) elementwise for 0 <= l < m, the basis array has the shape (m,) + X.shape.

from contracts import func as CFB


@unit('func.func_basis.batch', props=('C12',))
def u_basis_batch(U):
    fn = U.func('func', 'func_basis')
    st = U.state()
    m = z3.Int('m')
    x = z3.Real('x')
    sh = (z3.Int('s0'), z3.Int('s1'))
    Xp = PT.pt(sh, x)
    t = z3.Int('t!ffb')
    seen = []

    def ones_func(ex, s, args, kwargs, node):
        shp = args[0]
        ok = isinstance(shp, VTuple) and len(shp.items) == 3 and shp.items[1] is sh[0] and shp.items[2] is sh[1]
        ex.oblige(s, 'call-pre', 'basis-array-has-one-row-per-polynomial-and-the-shape-of-X', z3.BoolVal(ok), node)
        seen.append(shp)
        arr = ex.fresh('Tones', ff_RA)
        s.assume(z3.ForAll([t], arr[t] == 1, patterns=[arr[t]]))
        return s.alloc(VSeq(arr, Z(shp.items[0]), lambda e: e, tag='real'))

    def inv(ex, s, j):
        Ts = s.deref(s.vars['T'])
        return [('rows', Ts.n == m),
                ('rows-so-far-are-the-Chebyshev-polynomials', z3.ForAll([t], z3.Implies(z3.And(0 <= t, t < j + 2), Ts.arr[t] == CFB.cheb(t, x)), patterns=[Ts.arr[t]]))]

    ex = U.executor(fn, loops={0: {'inv': inv}}, axioms=CFB.CHEB)
    st.vars.update(X=Xp, m=m, kind=VStr('cheb'), ones_func=VFunc('ones_func', ones_func))
    res = U.run(ex, st, pre=[m >= 1, sh[0] >= 1, sh[1] >= 1])
    U.cover('precondition-satisfiable', U.pre, axioms=CFB.CHEB)
    kk = z3.Int('kk')
    for p, o in res:
        if o.kind != 'return':
            U.post('no-exception-for-the-Chebyshev-kind', p, False, axioms=CFB.CHEB)
            continue
        Ts = p.deref(o.value)
        U.post('one-layer-per-polynomial', p, Ts.n == m, axioms=CFB.CHEB)
        U.post('layer-l-is-T_l(X)-elementwise', p, z3.Implies(z3.And(0 <= kk, kk < m), Ts.arr[kk] == CFB.cheb(kk, x)), axioms=CFB.CHEB)
        U.canary('canary-all-layers-are-ones', p, z3.Implies(z3.And(0 <= kk, kk < m), Ts.arr[kk] == 1), axioms=CFB.CHEB)
    U.post('the-basis-array-is-allocated-once-with-the-shape-(m, samples, d)', [], z3.BoolVal(len(seen) >= 1 and all(len(s_.items) == 3 for s_ in seen)))


# ----------------------------------------------------------------------------------------------
# func_full.func_get_full: the dense interpolant at a batch of points, d = 1, 2, 3
#
# For every point s of the batch X (shape (m, d)), with the box [a_k, b_k] (numbers or per-mode lists):
#     result[s] = z                       if skip_out is True and the point is outside the box (some k: a_k - X[s,k] > 1e-99 or X[s,k] - b_k > 1e-99)
#     result[s] = the array contracted mode by mode, k = 0, .., d-1, ALWAYS along its (current) first axis with the weights
#                 w_k[l] = T_l(x_sk), l < n_k,   x_sk = clip((X[s,k] - (b_k+a_k)/2) * 2/(b_k-a_k), -1, 1)            otherwise:
#         d = 1:  sum_l A[l] w_0[l]
#         d = 2:  sum_j ( sum_l A[l, j] w_0[l] ) w_1[j]
#         d = 3:  sum_b ( sum_j ( sum_l A[l, j, b] w_0[l] ) w_1[j] ) w_2[b]
# written with the weighted mode sum wsum(G, w) = sum_m w[m] G[:, m, :] of the TT routine func_get (unit func.func_get.*: chain of
# sum_j A[k][:, j, :] T_j(x_k)) on the array with the contracted axis at position 1: wsum(sw01(A), w) (3-D), wsum(lift(M), w) (matrix).
# The weights are the fibre rest_tfib(Xs, s, k) of the basis array of func_basis(poi_scale(X, a, b, 'cheb'), max(n)) cut to the size
# n_k of ITS mode (T[:n[j], i, j]; max(n) basis functions are enough for every mode).  poi_scale / func_basis / grid_prep_opts by their
# call-site contracts (units grid.poi_scale.cheb, func.func_basis.batch, grid.grid_prep_opts.tuple_n.*).
# Precondition: m >= 1 points with d coordinates, a_k < b_k, n_k >= 1.  L-SUMPROD (cited) turns the nested sums into the sum over all
# multi-indices.  NOT covered: d >= 4, X given as a list, rounding; entry-level meaning of wsum is that of the TT units (einsum model).

from ttvc import mx_act as XACT
ff_AXGET = T.axioms('shape', 'wsum', 'rest_dense', 'rest_tfib', 'cheb', 'chebscale', 'sub')
ff_EPS99 = Z(1.E-99)
ff_i_, ff_k_, ff_j_ = z3.Ints('i!ffg k!ffg j!ffg')


def ff_call_poi_scale_pts(ex, st, args, kwargs, node):
    """poi_scale(X, a, b, 'cheb') for a 2-D batch X (m, d) and per-mode bounds a, b (1-D float arrays of length d): unit grid.poi_scale.cheb
    (pointwise tier, options broadcast per column) proves that entry [s, k] of the result is the clipped affine image of X[s, k] for the
    box [a_k, b_k] (= chebscale, theory group 'chebscale'), same shape; needs a_k < b_k."""
    Xv, av, bv = [st.deref(x) for x in args[:3]]
    kind = args[3].concrete() if len(args) > 3 and isinstance(args[3], VStr) else (kwargs['kind'].concrete() if isinstance(kwargs.get('kind'), VStr) else None)
    if set(kwargs) - {'kind'} or len(args) not in (3, 4) or kind != 'cheb' or not (isinstance(Xv, VArr) and Xv.tag == 'pts') \
            or not (XF.is_vec(av, 'rvec') and XF.is_vec(bv, 'rvec')):
        raise M.Unsupported("poi_scale: only the call (2-D batch, a vector, b vector, 'cheb') is under this call-site contract")
    dd = Z(Xv.shape[1])
    ex.oblige(st, 'call-pre', 'poi_scale: one lower and one upper bound per coordinate', z3.And(Z(av.shape[0]) == dd, Z(bv.shape[0]) == dd), node)
    ex.oblige(st, 'call-pre', 'poi_scale: a_k < b_k', z3.ForAll([ff_k_], z3.Implies(z3.And(0 <= ff_k_, ff_k_ < dd), av.t[ff_k_] < bv.t[ff_k_])), node)
    Xs = ex.fresh('Xscaled', XR.ff_WL)
    st.assume(z3.ForAll([ff_i_, ff_k_], z3.Implies(z3.And(0 <= ff_k_, ff_k_ < dd), Xs[ff_i_][ff_k_] == XF.chebscale(Xv.t[ff_i_][ff_k_], av.t[ff_k_], bv.t[ff_k_])),
                        patterns=[Xs[ff_i_][ff_k_]]))
    st.ghost['ff_scaled'] = st.ghost.get('ff_scaled', []) + [(Xv, av, bv, Xs)]
    return XF.pts(Xv.shape[0], Xv.shape[1], Xs)


def ff_call_func_basis_pts(ex, st, args, kwargs, node):
    """func_basis(X, m) (kind 'cheb') for a 2-D batch X: unit func.func_basis.batch proves (m >= 1, X non-empty) that the result has the shape
    (m,) + X.shape and layer l is T_l(X) elementwise: entry [l, s, k] = cheb(l, X[s, k]) - the fibre [:, s, k] is rest_tfib(X, s, k)."""
    Xv = st.deref(args[0])
    m = args[1] if len(args) > 1 else kwargs.get('m', 10)
    if set(kwargs) - {'m'} or len(args) > 2 or not (isinstance(Xv, VArr) and Xv.tag == 'pts'):
        raise M.Unsupported('func_basis: only the call (2-D batch, m) is under this call-site contract')
    m = ex.need_num(st, m, node)
    if not M.is_intsort(m):
        raise M.Unsupported('func_basis: non-integer number of basis functions')
    ex.oblige(st, 'call-pre', 'func_basis: at least one basis function and one point', z3.And(Z(m) >= 1, Z(Xv.shape[0]) >= 1, Z(Xv.shape[1]) >= 1), node)
    st.ghost['ff_basis'] = st.ghost.get('ff_basis', []) + [(Xv, m)]
    return VArr((m, Xv.shape[0], Xv.shape[1]), Xv.t, 'basis3')


def _get_full_unit(U, d, okind, skipping):
    fn = U.func('func_full', 'func_get_full')
    st = U.state()
    if d == 1:
        n = (z3.Int('n0'),)
        At = z3.Const('A', ff_RA)
        Av = V.RVec(n[0], At)
    elif d == 2:
        Av, At = S.mat_param('A')
        n = (T.rows(At), T.cols(At))
    else:
        Av, At = S.core_param('A')
        n = (T.d0(At), T.d1(At), T.d2(At))
    m = z3.Int('m')
    Xt = z3.Const('X', XR.ff_WL)
    zf = z3.Real('z')
    a_in, b_in = CF._opts_kind(st, 'a', okind, z3.IntVal(d)), CF._opts_kind(st, 'b', okind, z3.IntVal(d))
    lo = (lambda k: M.to_real(a_in)) if okind != 'list' else (lambda k: st.heap[a_in.oid].arr[k])
    hi = (lambda k: M.to_real(b_in)) if okind != 'list' else (lambda k: st.heap[b_in.oid].arr[k])
    Xv = XF.pts(m, d, Xt)
    OUT = z3.Function('outside', z3.IntSort(), z3.BoolSort())
    wk = z3.Function('outside!witness', z3.IntSort(), z3.IntSort())
    viol = lambda s, k: z3.Or(lo(k) - Xt[s][k] > ff_EPS99, Xt[s][k] - hi(k) > ff_EPS99)
    out_def = [z3.ForAll([ff_i_, ff_k_], z3.Implies(z3.And(0 <= ff_k_, ff_k_ < d, viol(ff_i_, ff_k_)), OUT(ff_i_)), patterns=[z3.MultiPattern(OUT(ff_i_), Xt[ff_i_][ff_k_])]),
               z3.ForAll([ff_i_], z3.Implies(OUT(ff_i_), z3.And(0 <= wk(ff_i_), wk(ff_i_) < d, viol(ff_i_, wk(ff_i_)))), patterns=[OUT(ff_i_)])]
    box = [lo(k) < hi(k) for k in range(d)]
    pre = [x >= 1 for x in n] + [m >= 1] + box + out_def

    def xs_of(s):
        sc = s.ghost.get('ff_scaled', [])
        if len(sc) != 1:
            raise M.ContractMismatch('func_get_full(): the batch is not scaled exactly once')
        return sc[0][3]

    def VAL(Xs, s):
        w = lambda k: XR.rest_tfib(Xs, s, k)
        if d == 1:
            return T.ent(T.wsum(XR.rest_lift(XR.rest_colm(At, n[0])), w(0)), 0, 0)
        if d == 2:
            return T.ent(T.wsum(XR.rest_lift(T.tr(T.wsum(XR.rest_lift(At), w(0)))), w(1)), 0, 0)
        return T.ent(T.wsum(XR.rest_lift(T.tr(T.wsum(XR.rest_lift(T.wsum(XR.rest_sw01(At), w(0))), w(1)))), w(2)), 0, 0)

    spec = lambda Xs, s: z3.If(OUT(s), zf, VAL(Xs, s)) if skipping else VAL(Xs, s)

    def inv(ex, s, j):
        y = s.vars.get('Y')
        if not XF.is_vec(y, 'rvec'):
            raise M.ContractMismatch('func_get_full(): Y is not the vector of results')
        Xs = xs_of(s)
        return [('one-result-per-point', Z(y.shape[0]) == m),
                ('finished-points-hold-the-fill-value-resp-the-contracted-value',
                 z3.ForAll([ff_i_], z3.Implies(z3.And(0 <= ff_i_, ff_i_ < j), y.t[ff_i_] == spec(Xs, ff_i_)), patterns=[y.t[ff_i_]])),
                ('remaining-points-still-hold-the-fill-value', z3.ForAll([ff_i_], z3.Implies(z3.And(j <= ff_i_, ff_i_ < m), y.t[ff_i_] == zf), patterns=[y.t[ff_i_]])),
                ('coefficient-array-untouched', z3.BoolVal(s.vars.get('A') is Av))]

    ex = U.executor(fn, loops={0: {'inv': inv}}, axioms=ff_AXGET,
                    callees={'grid.grid_prep_opts': ff_call_grid_prep_opts, 'grid.poi_scale': ff_call_poi_scale_pts, 'func.func_basis': ff_call_func_basis_pts})
    ex.mode = 'ematch'
    ex.functt = True
    ex.rest_ff = True
    st.vars.update(X=Xv, A=Av, a=a_in, b=b_in, z=zf, skip_out=skipping)
    res = U.run(ex, st, pre=pre)
    U.assumed += ['grid.grid_prep_opts (units grid.grid_prep_opts.tuple_n.*)', 'grid.poi_scale (unit grid.poi_scale.cheb)', 'func.func_basis (unit func.func_basis.batch)']
    U.cover('precondition-satisfiable', U.pre, axioms=ff_AXGET)
    s0, k0, j0 = z3.Ints('s0 k0 j0')
    for p, o in res:
        if o.kind != 'return':
            U.post('no-exception', p, False, axioms=ff_AXGET, mode='ematch')
            continue
        Xs = xs_of(p)
        hyp = list(p.pc)
        R = p.deref(o.value)
        ok = XF.is_vec(R, 'rvec')
        U.post('returns-a-vector', p, z3.BoolVal(ok))
        if not ok:
            continue
        bs = p.ghost.get('ff_basis', [])
        U.post('the-basis-is-built-once-on-the-scaled-batch-with-max(n)-functions', hyp,
               z3.And(z3.BoolVal(len(bs) == 1 and bs[0][0].t is Xs), *([Z(bs[0][1]) >= n[k] for k in range(d)] + [z3.Or([Z(bs[0][1]) == n[k] for k in range(d)])] if len(bs) == 1 else [])),
               axioms=ff_AXGET, mode='ematch')
        dom = [0 <= s0, s0 < m]
        U.post('one-value-per-point', hyp, Z(R.shape[0]) == m, axioms=ff_AXGET, mode='ematch')
        if skipping:
            U.post('points-outside-the-box-receive-the-fill-value', hyp + dom + [0 <= k0, k0 < d, viol(s0, k0)], R.t[s0] == zf, axioms=ff_AXGET, mode='ematch')
            U.post('points-inside-the-box-receive-the-contracted-value', hyp + dom + [z3.Not(viol(s0, k)) for k in range(d)], R.t[s0] == VAL(Xs, s0), axioms=ff_AXGET, mode='ematch')
        else:
            U.post('every-point-receives-the-contracted-value (no skipping)', hyp + dom, R.t[s0] == VAL(Xs, s0), axioms=ff_AXGET, mode='ematch')
        for k in range(d):
            xs = XF.chebscale(Xt[s0][k], lo(k), hi(k))
            U.post(f'weights-of-point-s-in-mode-{k}-are-T_l-at-the-scaled-coordinate', hyp + dom + [0 <= j0], XR.rest_tfib(Xs, s0, k)[j0] == XF.cheb(j0, xs),
                   axioms=ff_AXGET, mode='ematch')
        xr, ar, br = z3.Reals('x a!r b!r')
        U.post('the-scaled-coordinate-is-the-clipped-affine-image-of-the-box-onto-[-1,1]', [ar < br],
               XF.chebscale(xr, ar, br) == CG.spec_scale(xr, ar, br, 'cheb'), axioms=T.axioms('chebscale'))
        U.canary('canary-every-point-receives-the-fill-value', hyp + dom, R.t[s0] == zf, axioms=ff_AXGET)
        U.canary('canary-weights-are-ones', hyp + dom + [0 <= j0], XR.rest_tfib(Xs, s0, 0)[j0] == 1, axioms=ff_AXGET)
    U.lemmas.append('L-SUMPROD: nested weighted sums = sum over all multi-indices of the weighted entries (cited)')


for _ff_d, _ff_ok, _ff_sk in ((1, 'number', True), (2, 'number', True), (2, 'list', False), (3, 'number', True), (3, 'list', True)):
    def _ff_mk_get(d=_ff_d, ok=_ff_ok, sk=_ff_sk):
        @unit(f'func_full.func_get_full.d{d}.{ok}.skip_out_{sk}', props=('C12',))
        def u(U):
            _get_full_unit(U, d, ok, sk)
    _ff_mk_get()


# ----------------------------------------------------------------------------------------------
# grid.grid_flat for a TUPLE of sizes (func_gets_full hands `A.shape` to grid_flat when m is None): a tuple is not one of the number
# types of the first test, so the scalar branch is not taken and the function continues with `d = len(n)` and the iteration over n -
# from there on a tuple and a list of the same integers are indistinguishable (len, iteration), which is what the units
# grid.grid_flat.list / .array cover.  (The engine cannot run the mesh construction on a tuple of concrete length: this unit only
# closes the dispatch gap.)

@unit('grid.grid_flat.tuple_dispatch', props=('C12', 'C18'))
def u_grid_flat_tuple(U):
    import ast as _ast
    fn = U.func('grid', 'grid_flat')
    is_len = lambda s: isinstance(s, _ast.Assign) and _ast.unparse(s).replace(' ', '') == 'd=len(n)'
    stop = lambda s: is_len(s) or isinstance(s, _ast.Return)          # the scalar branch is the first `return`
    if not any(is_len(s) for s in fn.body):
        raise M.ContractMismatch('grid_flat(): no statement `d = len(n)` after the scalar branch')
    for dd in (1, 2, 3):
        ex = U.executor(fn, stop_at=stop)
        st = U.state()
        st.vars.update(n=VTuple([z3.Int(f'n{k}') for k in range(dd)]))
        res = U.run(ex, st, pre=[])
        U.post(f'a-tuple-of-{dd}-sizes-is-not-taken-for-a-number: one path, it reaches d = len(n)', [],
               z3.BoolVal(len(res) == 1 and res[0][1].kind == 'stop' and is_len(res[0][1].node)))
    ex = U.executor(fn, stop_at=stop)
    st = U.state()
    st.vars.update(n=z3.Int('n'))
    res = U.run(ex, st, pre=[])
    U.post('control: a-number-takes-the-scalar-branch', [], z3.BoolVal(len(res) == 1 and res[0][1].kind == 'stop' and isinstance(res[0][1].node, _ast.Return)))


# ----------------------------------------------------------------------------------------------
# func_full.func_gets_full: the dense interpolant on a whole new Chebyshev grid, d = 1, 2, 3  -  CONTROL level
#
# The function is a composition of five library calls; proved here (for m = None and m = an integer):
#   * the grid sizes are the mode sizes n of A when m is None, else grid_prep_opt(m, d, int) with d = the number of axes of A;
#   * grid_flat is called once with these sizes; ind_to_poi once with its result, the box [-1, +1], the SAME sizes and kind 'cheb';
#     func_get_full once with these points, the coefficient array A itself and the box -1., +1. (fill value and skip_out at their defaults);
#   * the flat result (one value per multi-index of the new grid, first index fastest - unit grid.grid_flat.*) is folded to the shape
#     `sizes` in FORTRAN order, so that the value of flat position t lands at the multi-index whose mixed-radix digits are t (model-table
#     fact about order='F'); result shape = sizes;
#   * value level through the call-site contracts (units grid.grid_flat.list/.array, grid.ind_to_poi.cheb, func_full.func_get_full.*):
#     flat[t] = the contraction of A with the weights T_l(clip(x_tk)), x_tk = cos(pi i_tk / (m_k - 1)), i_tk = (t div (m_0 .. m_{k-1})) mod m_k;
#     no point of the grid is skipped (every node lies in the box: |cos| <= 1).
# Precondition: every grid size >= 2 (ind_to_poi divides by m_k - 1), n_k >= 1.
# NOT covered: m given as a list / float; a tuple of sizes is handed to grid_flat when m is None (its units cover lists and arrays: the
# code path of a tuple is the same - len(n), iteration - but this is not a separate unit); element-level meaning of the F-order fold.

from ttvc import mx_misc as XM
ff_IAA = z3.ArraySort(z3.IntSort(), ff_IA)
ff_AXGS = T.axioms('shape', 'wsum', 'rest_dense', 'rest_tfib', 'cheb', 'chebscale', 'mulI', 'pprod') + list(PT.TRIG)


def _gets_full_unit(U, d, mkind):
    fn = U.func('func_full', 'func_gets_full')
    st = U.state()
    if d == 1:
        n = (z3.Int('n0'),)
        At = z3.Const('A', ff_RA)
        Av = V.RVec(n[0], At)
    elif d == 2:
        Av, At = S.mat_param('A')
        n = (T.rows(At), T.cols(At))
    else:
        Av, At = S.core_param('A')
        n = (T.d0(At), T.d1(At), T.d2(At))
    m0 = z3.Int('m')
    sizes = list(n) if mkind == 'none' else [m0] * d
    log = []
    s_, k_ = z3.Ints('s!ffgs k!ffgs')

    def size_items(s, v):
        v = s.deref(v)
        items = XR.ff_int_items(s, v)
        if items is None and XF.is_vec(v, 'ivec') and z3.is_int_value(z3.simplify(Z(v.shape[0]))):
            items = [v.t[k] for k in range(z3.simplify(Z(v.shape[0])).as_long())]
        if items is None:
            raise M.Unsupported('grid sizes: neither a tuple of integers nor an integer vector of concrete length')
        return items

    def rec_prep_opt(ex, s, args, kwargs, node):
        out = ff_call_grid_prep_opt(ex, s, args, kwargs, node)
        log.append(('grid_prep_opt', args, kwargs, out))
        return out

    def rec_grid_flat(ex, s, args, kwargs, node):
        """grid_flat(sizes) by the units grid.grid_flat.list / .array: (prod sizes) x d integer matrix, entry [t, k] = (t div prod(sizes[:k])) mod sizes[k]."""
        if kwargs or len(args) != 1:
            raise M.Unsupported('grid_flat: only the call (sizes) is under this call-site contract')
        items = size_items(s, args[0])
        vec = XR.FFIVec(items)
        ex.oblige(s, 'call-pre', 'grid_flat: at least one mode, all sizes >= 1', z3.And(*[Z(x) >= 1 for x in items]), node)
        Ig = ex.fresh('Igrid', ff_IAA)
        P = XM.pprod(vec.t, len(items))
        s.assume(P >= 1, z3.ForAll([s_, k_], z3.Implies(z3.And(0 <= s_, s_ < P, 0 <= k_, k_ < len(items)),
                                                       z3.And(Ig[s_][k_] == (s_ / XM.pprod(vec.t, k_)) % vec.t[k_], 0 <= Ig[s_][k_], Ig[s_][k_] < vec.t[k_])),
                                   patterns=[Ig[s_][k_]]))
        out = VArr((P, len(items)), Ig, 'ffgrid', 'i')
        log.append(('grid_flat', args, kwargs, out))
        return out

    def rec_ind_to_poi(ex, s, args, kwargs, node):
        """ind_to_poi(I, a, b, sizes, 'cheb') for an integer matrix I (t, d), numbers a < b and per-mode sizes >= 2 with 0 <= I[t, k] <= sizes[k] - 1:
        unit grid.ind_to_poi.cheb (pointwise, options per column): entry [t, k] is the node formula cos(pi I[t,k]/(m_k-1)) (b-a)/2 + (b+a)/2."""
        Iv = s.deref(args[0])
        kind = args[4].concrete() if len(args) > 4 and isinstance(args[4], VStr) else (kwargs['kind'].concrete() if isinstance(kwargs.get('kind'), VStr) else 'uni')
        if set(kwargs) - {'kind'} or len(args) < 4 or kind not in ('cheb', 'uni') or not (isinstance(Iv, VArr) and Iv.tag == 'ffgrid'):
            raise M.Unsupported("ind_to_poi: only the call (grid index matrix, a, b, sizes, 'cheb' / 'uni') is under this call-site contract")
        a, b = M.to_real(ex.need_num(s, args[1], node)), M.to_real(ex.need_num(s, args[2], node))
        items = size_items(s, args[3])
        ex.oblige(s, 'call-pre', 'ind_to_poi: a < b, one size per column, every size >= 2', z3.And(a < b, z3.BoolVal(len(items) == Iv.shape[1]), *[Z(x) >= 2 for x in items]), node)
        for k, x in enumerate(items):
            ex.oblige(s, 'call-pre', f'ind_to_poi: indices of column {k} within the grid',
                      z3.ForAll([s_], z3.Implies(z3.And(0 <= s_, s_ < Z(Iv.shape[0])), z3.And(Iv.t[s_][k] >= 0, Iv.t[s_][k] <= Z(x) - 1))), node)
        Xg = ex.fresh('Xgrid', XR.ff_WL)
        for k, x in enumerate(items):
            s.assume(z3.ForAll([s_], z3.Implies(z3.And(0 <= s_, s_ < Z(Iv.shape[0])), Xg[s_][k] == CG.spec_i2p(Iv.t[s_][k], a, b, Z(x), kind)), patterns=[Xg[s_][k]]))
        out = XF.pts(Iv.shape[0], Iv.shape[1], Xg)
        log.append(('ind_to_poi', args, kwargs, out, kind))
        return out

    OUTg = z3.Function('outside!g', z3.IntSort(), z3.BoolSort())

    def VALg(Xs, t):
        w = lambda k: XR.rest_tfib(Xs, t, k)
        if d == 1:
            return T.ent(T.wsum(XR.rest_lift(XR.rest_colm(At, n[0])), w(0)), 0, 0)
        if d == 2:
            return T.ent(T.wsum(XR.rest_lift(T.tr(T.wsum(XR.rest_lift(At), w(0)))), w(1)), 0, 0)
        return T.ent(T.wsum(XR.rest_lift(T.tr(T.wsum(XR.rest_lift(T.wsum(XR.rest_sw01(At), w(0))), w(1)))), w(2)), 0, 0)

    def rec_get_full(ex, s, args, kwargs, node):
        """func_get_full(X, A, a, b) (numbers a < b, z = 0., skip_out = True) by the units func_full.func_get_full.d*.number.skip_out_True: a vector
        with one value per point; a point inside the box gets the contraction of A with the weights T_l(scaled coordinate), a point outside z."""
        if kwargs or len(args) != 4:
            raise M.Unsupported('func_get_full: only the call (X, A, a, b) is under this call-site contract')
        Xv, Aq = s.deref(args[0]), s.deref(args[1])
        if not (isinstance(Xv, VArr) and Xv.tag == 'pts' and Aq is Av and M.is_num(args[2]) and M.is_num(args[3])):
            raise M.Unsupported('func_get_full: batch of points, the coefficient array, two numbers')
        a, b = M.to_real(args[2]), M.to_real(args[3])
        ex.oblige(s, 'call-pre', 'func_get_full: a < b, at least one point, one coordinate per axis of A', z3.And(a < b, Z(Xv.shape[0]) >= 1, z3.BoolVal(Xv.shape[1] == d)), node)
        Xs, Zt = ex.fresh('Xscaled', XR.ff_WL), ex.fresh('Zflat', ff_RA)
        viol = lambda t, k: z3.Or(a - Xv.t[t][k] > ff_EPS99, Xv.t[t][k] - b > ff_EPS99)
        s.assume(z3.ForAll([s_], z3.Implies(z3.And(0 <= s_, s_ < Z(Xv.shape[0])),
                                            z3.And(*[Xs[s_][k] == XF.chebscale(Xv.t[s_][k], a, b) for k in range(d)],
                                                   OUTg(s_) == z3.Or(*[viol(s_, k) for k in range(d)]),
                                                   Zt[s_] == z3.If(OUTg(s_), z3.RealVal(0), VALg(Xs, s_)))), patterns=[Zt[s_], Xs[s_]]))
        out = V.RVec(Xv.shape[0], Zt)
        log.append(('func_get_full', args, kwargs, out, Xs))
        return out

    ex = U.executor(fn, axioms=ff_AXGS, callees={'grid.grid_prep_opt': rec_prep_opt, 'grid.grid_flat': rec_grid_flat, 'grid.ind_to_poi': rec_ind_to_poi,
                                                  'func_full.func_get_full': rec_get_full})
    ex.mode = 'ematch'
    ex.functt = True
    ex.rest_ff = True
    ex.rest_ff_fold = True
    st.vars.update(A=Av, a=z3.Real('a'), b=z3.Real('b'), m=NONE if mkind == 'none' else m0)
    res = U.run(ex, st, pre=[x >= 1 for x in n] + [x >= 2 for x in sizes])
    U.assumed += ['grid.grid_prep_opt (units grid.grid_prep_opt.int.*, grid.grid_prep_opt.int_tuple.*)', 'grid.grid_flat (units grid.grid_flat.list / .array)',
                  'grid.ind_to_poi (unit grid.ind_to_poi.cheb)', 'func_full.func_get_full (units func_full.func_get_full.d*.number.skip_out_True)']
    U.cover('precondition-satisfiable', U.pre, axioms=ff_AXGS)
    t0 = z3.Int('t0')
    for p, o in res:
        if o.kind != 'return':
            U.post('no-exception', p, False, axioms=ff_AXGS, mode='ematch')
            continue
        hyp = list(p.pc)
        calls = [c[0] for c in log]
        want = (['grid_prep_opt'] if mkind != 'none' else []) + ['grid_flat', 'ind_to_poi', 'func_get_full']
        U.post('the-library-calls-are-made-once-each-in-the-order-(grid_prep_opt)-grid_flat-ind_to_poi-func_get_full', p, z3.BoolVal(calls == want))
        if calls != want:
            continue
        by = {c[0]: c for c in log}
        if mkind != 'none':
            pa = by['grid_prep_opt'][1]
            U.post('the-new-grid-sizes-are-grid_prep_opt(m, d, int)-with-d-the-number-of-axes-of-A', p,
                   z3.BoolVal(len(pa) == 3 and pa[0] is m0 and pa[1] == d and isinstance(pa[2], M.TypeVal) and pa[2].name == 'int' and not by['grid_prep_opt'][2]))
        gi = size_items(p, by['grid_flat'][1][0])
        U.post('grid_flat-gets-the-new-grid-sizes (the mode sizes of A when m is None)', hyp, z3.And(z3.BoolVal(len(gi) == d), *[Z(x) == sizes[k] for k, x in enumerate(gi[:d])]),
               axioms=ff_AXGS, mode='ematch')
        ia = by['ind_to_poi'][1]
        ii = size_items(p, ia[3]) if len(ia) > 3 else []
        U.post('ind_to_poi-gets-the-flat-grid, the-box-[-1, +1], the-SAME-sizes-and-the-Chebyshev-kind', hyp,
               z3.And(z3.BoolVal(len(ia) == 5 and p.deref(ia[0]) is by['grid_flat'][3] and len(ii) == d and by['ind_to_poi'][4] == 'cheb'), M.to_real(ia[1]) == -1, M.to_real(ia[2]) == 1,
                      *[Z(x) == sizes[k] for k, x in enumerate(ii[:d])]), axioms=ff_AXGS, mode='ematch')
        ga = by['func_get_full'][1]
        U.post('func_get_full-gets-these-points, the-coefficient-array-itself-and-the-box-[-1, +1]', hyp,
               z3.And(z3.BoolVal(p.deref(ga[0]) is by['ind_to_poi'][3] and p.deref(ga[1]) is Av), M.to_real(ga[2]) == -1, M.to_real(ga[3]) == 1), axioms=ff_AXGS, mode='ematch')
        R = p.deref(o.value)
        fold = getattr(R, 'ff_fold', None)
        U.post('the-flat-result-is-folded-in-FORTRAN-order', p, z3.BoolVal(fold is not None and fold[0] is by['func_get_full'][3] and fold[1] == 'F'))
        if fold is None:
            continue
        U.post('result-shape-is-the-new-grid', hyp, z3.And(z3.BoolVal(len(R.shape) == d), *[Z(R.shape[k]) == sizes[k] for k in range(min(d, len(R.shape)))]),
               axioms=ff_AXGS, mode='ematch')
        Ig, Xg, Zt, Xs = by['grid_flat'][3], by['ind_to_poi'][3], by['func_get_full'][3], by['func_get_full'][4]
        P = Z(Ig.shape[0])
        dom = [0 <= t0, t0 < P]
        svec = XR.FFIVec(sizes)
        U.post('one-value-per-multi-index-of-the-new-grid', hyp, z3.And(Z(Zt.shape[0]) == P, P == XM.pprod(svec.t, d)), axioms=ff_AXGS, mode='ematch')
        for k in range(d):
            dig = (t0 / XM.pprod(svec.t, k)) % sizes[k]
            node = PT.cosf(M.PI * (z3.ToReal(dig) / z3.ToReal(sizes[k] - 1)))
            # two obligations instead of one conjunction: the digit is integer div / mod reasoning, the node real arithmetic on top of it;
            # posted together they were the only obligation of the whole set that one z3 seed in five left open
            U.post(f'index-{k}-of-flat-position-t-is-digit-{k}-of-t (first index fastest)', hyp + dom, Ig.t[t0][k] == dig, axioms=ff_AXGS, mode='ematch')
            U.post(f'coordinate-{k}-of-flat-position-t-is-the-Chebyshev-node-of-digit-{k}-of-t (first index fastest)', hyp + dom + [Ig.t[t0][k] == dig],
                   Xg.t[t0][k] == node, axioms=ff_AXGS, mode='ematch')
        U.post('no-grid-point-is-skipped: flat[t] = the-contraction-of-A-with-the-weights-T_l(scaled node)', hyp + dom, Zt.t[t0] == VALg(Xs, t0), axioms=ff_AXGS, mode='ematch')
        for k in range(d):
            U.post(f'the-scaled-coordinate-{k}-is-the-node-itself (the box is [-1, 1])', hyp + dom, Xs[t0][k] == Xg.t[t0][k], axioms=ff_AXGS, mode='ematch')
        U.canary('canary-all-values-are-the-fill-value', hyp + dom, Zt.t[t0] == 0, axioms=ff_AXGS)
        U.canary('canary-context-is-consistent', hyp + dom, False, axioms=ff_AXGS)


for _ff_d in (1, 2, 3):
    for _ff_mk in ('none', 'int'):
        def _ff_mk_gets(d=_ff_d, mk=_ff_mk):
            @unit(f'func_full.func_gets_full.d{d}.m_{mk}', props=('C12',))
            def u(U):
                _gets_full_unit(U, d, mk)
        _ff_mk_gets()


# ----------------------------------------------------------------------------------------------
# Hand-made mutants (MUT_BASE=/tmp/base tools/mut.sh func_full.py '<sed>' <units>) and the named obligation that reports each of them
#
# func_int_full  (units func_full.func_int_full.d1 / .d2 / .d3)
#   s/m = n\[k\]/m = n[0]/                                  call-pre reshape-first-dimension-is-the-size-of-the-first-axis (d2, d3), lemma mode-1.columns / mode-2.columns
#   s/A\[m-2 : 0 : -1, :\]/A[m-1 : 0 : -1, :]/              lemma mode-k.columns: entry[i, c] = w_i * (1/(n_k-1) * DCT-I(column c)_i) (all d, all k)
#   s/        A\[0, :\] \/= 2\./        pass/              lemma mode-k.columns: entry[i, c] = ..., w = 1/2 at both ends
#   s/A\[m-1, :\] \/= 2\./A[m-2, :] \/= 2./                 lemma mode-k.columns: entry[i, c] = ...
#   s/A\[:m, :\] \/ (m - 1)/A[:m, :] \/ m/                  lemma mode-k.columns: entry[i, c] = ...
#   s/n\[\[0, k\]\] = n\[\[k, 0\]\]/pass/                   call-pre reshape-preserves-size (d2, d3)
#   136s/A = np.swapaxes(A, 0, k)/pass/                     post same-shape-as-Y (d2, d3)
#   equivalent (quiet): the two halving statements in the other order.  `.real` -> `.imag`: Unsupported (undecided).
# func_sum_full  (units func_full.func_sum_full.d{1,2,3}.{number,list})
#   s/v = v.reshape(n\[k\], -1)/v = v.reshape(n[0], -1)/    call-pre reshape-first-dimension-is-the-size-of-the-next-axis (d2, d3)
#   s/2\. \/ (1\. - p\*\*2)/2. \/ (1. + p**2)/              lemma-step mode-k.columns: partial-column-sum-of-the-weighted-even-rows = partial-Clenshaw-Curtis-sum.step
#   s/v\[::2, :\] \* 2\./v[::2, :] * 1./                    lemma-step mode-k.columns: ...step
#   s/v \*= (b\[k\] - a\[k\]) \/ 2\./v *= (b[k] + a[k]) \/ 2./     lemma mode-k.columns: entry[0, c] = (b_k-a_k)/2 * sum_(i even < n_k) 2 x_i/(1-i^2)
#   s/if abs(abs(b\[k\]) - abs(a\[k\])) > 1.E-16/if abs(b[k]) - abs(a[k]) > 1.E-16/   raise-iff returns-only-if-the-box-is-symmetric-in-every-mode
#   s/raise ValueError('This function works only for symmetric grids')/pass/          raise-iff returns-only-if-the-box-is-symmetric-in-every-mode, post exactly-one-returning-path
#   s/p = np.arange(n\[k\])\[::2\]/p = np.arange(n[k])/     call-pre elementwise-shapes-agree
#   equivalent (quiet): refactorings/C12-r3 (broadcast column instead of np.repeat, zip(n, a, b) instead of indexing).
# func_get_full  (units func_full.func_get_full.d*)
#   s/T\[:n\[j\], i, j\]/T[:n[0], i, j]/                    call-pre tensordot-contracted-dims-agree (d2, d3)
#   s/T\[:n\[j\], i, j\]/T[:n[j], i, 0]/                    inv-keep loop0.finished-points-hold-the-fill-value-resp-the-contracted-value (d2, d3)
#   s/np.max(a - X\[i, :\])/np.max(X[i, :] - a)/            inv-keep loop0.finished-points-hold-the-fill-value-resp-the-contracted-value (skipping cases)
#   s/Y = np.ones(m) \* z/Y = np.ones(m) * 0./              inv-init loop0.remaining-points-still-hold-the-fill-value
#   s/max(n))/n[0])/                                        call-pre leading-count-within-the-number-of-basis-functions, post the-basis-is-built-once-...-with-max(n)-functions (d2, d3)
#   s/                continue/                pass/        inv-keep loop0.finished-points-hold-the-fill-value-resp-the-contracted-value
#   s/poi_scale(X, a, b, 'cheb')/poi_scale(X, b, a, 'cheb')/      call-pre poi_scale: a_k < b_k
#   s/np.max(X\[i, :\] - b) > 1.E-99/np.max(X[i, :] - b) > 1./    inv-keep loop0.finished-points-hold-...
# func_gets_full  (units func_full.func_gets_full.d*.m_*)
#   s/Z = Z.reshape(m, order='F')/Z = Z.reshape(m, order='C')/    post the-flat-result-is-folded-in-FORTRAN-order (refuted)
#   s/    Z = Z.reshape(m, order='F')/    pass/                    post the-flat-result-is-folded-in-FORTRAN-order
#   s/ind_to_poi(I, -1., +1., m, 'cheb')/ind_to_poi(I, -1., +1., m, 'uni')/    post ind_to_poi-gets-...-the-Chebyshev-kind, post coordinate-k-...-is-the-Chebyshev-node
#   s/ind_to_poi(I, -1., +1., m, 'cheb')/ind_to_poi(I, -1., +1., n, 'cheb')/   post ind_to_poi-gets-...-the-SAME-sizes, call-pre ind_to_poi: indices of column k within the grid (m_int)
#   s/Z = func_get_full(X, A, -1., +1.)/Z = func_get_full(X, A, 0., +1.)/      post func_get_full-gets-...-the-box-[-1, +1], post no-grid-point-is-skipped
#   s/Z = func_get_full(X, A, -1., +1.)/Z = func_get_full(X, A, +1., -1.)/     call-pre func_get_full: a < b ...
#   s/I = teneva.grid_flat(m)/I = teneva.grid_flat(n)/                         post grid_flat-gets-the-new-grid-sizes, call-pre reshape-preserves-size (m_int)
# helper units (tools/mut.sh grid.py / func.py ...)
#   grid.grid_flat.tuple_dispatch:   s/(int, float, np.int32, np.float32, np.int64, np.float64)/(int, float, tuple)/ ; `if not isinstance(..` ; `if True:`
#                                    -> post a-tuple-of-k-sizes-is-not-taken-for-a-number (refuted); the second also post control: a-number-takes-the-scalar-branch
#   grid.grid_prep_opt.int_tuple.*:  s/np.asanyarray(opt, dtype=kind)/np.asanyarray(opt, dtype=float)/ ; s/np.asanyarray(opt, dtype=kind)/np.asanyarray(opt[1:], dtype=kind)/
#                                    -> post the-integer-vector-with-the-entries-of-the-tuple-... (refuted);  `isinstance(opt, (int, float, tuple))`: Unsupported
#   grid.grid_prep_opts.tuple_n.*:   s/isinstance(item, (list, np.ndarray))/isinstance(item, (list, tuple, np.ndarray))/  -> raise-iff raises-only-if-a-list-like-bound-...
#                                    s/n = grid_prep_opt(n, d, int, reps)/n = grid_prep_opt(n, d, float, reps)/       -> post option-n-is-normalised-by-grid_prep_opt-with-kind-int-...
#                                    s/b = grid_prep_opt(b, d, float, reps)/b = grid_prep_opt(a, d, float, reps)/     -> post option-b-is-normalised-by-grid_prep_opt-with-kind-float-...
#   func.func_basis.batch:           `- T[k - 2]` -> `+ T[k - 2]`: inv-keep loop0.rows-so-far-are-the-Chebyshev-polynomials;  `T[1] = 2. * X`: inv-init loop0.rows-so-far-...;
#                                    `range(3, m)`: inv-keep loop0.rows-so-far-..., post layer-l-is-T_l(X)-elementwise


# ==================================================================================================
# SECTION anova_func
# ==================================================================================================
"""Sidecar contracts for teneva/anova_func.py: the wrapper anova_func, ANOVA_func.__init__ and the cached property ANOVA_func.coeffs
(C13 functional variant; C10: nothing cached at construction, the cache is returned unchanged; C09: the overwrite flags of lstsq act on temporaries).
ANOVA_func.cores is under contract in contracts/anova_more.py (unit anova_more.ANOVA_func.cores); what that unit ASSUMES about `self.coeffs`
(a number followed by d float vectors of length n - 1) is PROVED here by the unit anova_func.ANOVA_func.coeffs.fit.
Model-table entries, the value kind of the growing coefficient list and the spec symbols: ttvc/mx_rest.py (gate `ex.rest_af`); `self` is a
record of the attributes a contract case uses (gate `ex.anova` of mx_anova), batches of points are 2-D float arrays with a denotation (gate
`ex.functt` of mx_func)."""
import ast
import z3
from ttvc.units import unit
from ttvc.symex import VOpt, VStr, VRec, VSeq, VArr, VFunc, VTuple, VRef, VList, VSym, VOpaque, NONE, Z
from ttvc import models as M, theory as T, vec as V
from ttvc import mx_func as XF, mx_anova as XAN
from ttvc import mx_rest as XAF
from contracts import spec as S, grid as CG, func_more as CF, anova_more as CAM

af_RA, af_RAA, af_IA = XAF.af_RA, XAF.af_RAA, XAF.af_IA
af_s, af_k, af_i, af_q = z3.Ints('rest_af_s rest_af_kc rest_af_ic rest_af_q')


# ----------------------------------------------------------------------------------------------
# anova_func.anova_func (the wrapper) - control tier: which argument goes where, what is returned.
#
#   * exactly one object is constructed, ANOVA_func(X_trn, y_trn, n, a, b, lamb) - every argument of the wrapper at the parameter of the
#     constructor that has the same name (positional or keyword form are the same call; a swapped a / b or a lamb / e mix-up is reported);
#   * exactly one call of .cores on that object, with the caller's accuracy e as its only argument (e may be None: no truncation);
#   * the result is what cores(e) returns, as it is.
# The constructor and cores are call-site contracts that only record their arguments (units anova_func.ANOVA_func.__init__,
# anova_more.ANOVA_func.cores); whole arrays / tensors are tokens.  NOT covered here: everything the two callees do.

def af_is_real(v, want):
    """the number handed over equals the parameter (a formula; False for anything that is not a number)"""
    return M.to_real(v) == want if M.is_num(v) else z3.BoolVal(False)


@unit('anova_func.anova_func', props=('C13',))
def af_u_wrapper(U):
    fn = U.func('anova_func', 'anova_func')
    st = U.state()
    n = z3.Int('n')
    lamb = z3.Real('lamb')
    e = S.opt_real('e')
    X_trn, y_trn, a, b, out = [CAM._tok(x) for x in ('X_trn', 'y_trn', 'a', 'b', 'cores')]

    def cores(ex, s, args, kw, node):
        CAM._rec(s, 'cores', (list(args), dict(kw)))
        return out

    def ctor(ex, s, args, kw, node):
        CAM._rec(s, 'ctor', (list(args), dict(kw)))
        return s.alloc(VRec({'cores': VFunc('ANOVA_func.cores', cores)}))

    ex = U.executor(fn, callees={'ANOVA_func': ctor})
    ex.anova = True
    ex.rest_af = True
    st.vars.update(X_trn=X_trn, y_trn=y_trn, n=n, a=a, b=b, lamb=lamb, e=e)
    res = U.run(ex, st)
    U.assumed.append('ANOVA_func.__init__ / ANOVA_func.cores (units anova_func.ANOVA_func.__init__, anova_more.ANOVA_func.cores)')
    U.cover('reachable', U.pre)
    for p, o in res:
        gc, gk = p.ghost.get('ctor', []), p.ghost.get('cores', [])
        U.post('exactly-one-object-is-constructed-and-cores-is-called-once-on-it', p, z3.BoolVal(len(gc) == 1 and len(gk) == 1))
        bc = CAM.bind_args('anova_func', 'ANOVA_func.__init__', *gc[0]) if len(gc) == 1 else None
        okc = bc is not None and set(bc) == {'X_trn', 'y_trn', 'n', 'a', 'b', 'lamb'}
        U.post('constructor-gets-exactly-(X_trn, y_trn, n, a, b, lamb)', p, z3.BoolVal(okc))
        if okc:
            U.post('constructor: the-samples-and-the-values-at-their-own-parameters', p, z3.BoolVal(bc['X_trn'] is X_trn and bc['y_trn'] is y_trn))
            U.post('constructor: lower-bound-a-and-upper-bound-b-at-their-own-parameters (not swapped)', p, z3.BoolVal(bc['a'] is a and bc['b'] is b))
            U.post('constructor: the-mode-size-n', p, Z(bc['n']) == n if M.is_intsort(bc['n']) else z3.BoolVal(False))
            U.post('constructor: the-regularisation-parameter-is-lamb (not the accuracy e)', p, af_is_real(bc['lamb'], lamb))
            U.canary('canary-regularisation-is-zero', p, af_is_real(bc['lamb'], 0))
        bk = CAM.bind_args('anova_func', 'ANOVA_func.cores', *gk[0]) if len(gk) == 1 else None
        okk = bk is not None and set(bk) == {'e'}
        U.post('cores-gets-exactly-one-argument: the-accuracy', p, z3.BoolVal(okk))
        if okk:
            U.post('cores: the-accuracy-is-the-caller-s-e (None stays None; not lamb)', p, S.same_opt(bk['e'], e))
            U.canary('canary-accuracy-is-never-None', p, z3.Not(S.as_opt_num(bk['e']).isnone))
        U.post('returns-what-cores-returns', p, z3.BoolVal(o.kind == 'return' and o.value is out))
    U.post('one-path', [], z3.BoolVal(len(res) == 1))


# ----------------------------------------------------------------------------------------------
# anova_func.ANOVA_func.__init__ - what the object holds after construction.
#
# For a batch X_trn of m >= 1 points with d coordinates, a float array y_trn and numbers a < b:
#   * self.X_trn = poi_scale(X_trn, a, b, kind='cheb') - exactly one call, these arguments in this order, the Chebyshev kind; hence (call-site
#     contract = what unit grid.poi_scale.cheb proves per element)  self.X_trn has the shape of X_trn and
#         self.X_trn[s, k] = chebscale(X_trn[s, k], a, b) = clip((x - (b + a)/2) * 2/(b - a), -1, 1);
#   * self.y_trn is a 1-D float array with the values of y_trn (np.asarray(., dtype=float) of a float array: the same values);
#   * self.lamb = lamb, self.n = n, self.d = the number of COLUMNS of the scaled points;
#   * self._cfs is None: nothing is cached at construction (C10 - the first read of .coeffs fits, see anova_func.ANOVA_func.coeffs.fit);
#   * exactly these six attributes are set, the arguments are not modified, None is returned.
# NOT covered: a / b given per mode as lists / arrays (the call-site contract of poi_scale - pointwise unit grid.poi_scale.cheb - is stated for
# numbers), X_trn / y_trn given as lists, rounding (A-REAL).

def af_call_poi_scale_pts(ex, st, args, kwargs, node):
    """poi_scale(X, a, b, kind) for a 2-D batch X (tag 'pts') and numbers a < b, kind 'cheb' or 'uni': units grid.poi_scale.cheb / .uni (pointwise
    tier) prove that every element of the result is the clipped affine image of the corresponding element of X; same shape.  The call is logged."""
    bnd = CAM.bind_args('grid', 'poi_scale', args, kwargs, method=False)
    if bnd is None or not {'X', 'a', 'b'} <= set(bnd):
        raise M.Unsupported('poi_scale calling pattern')
    Xv = st.deref(bnd['X'])
    kind = bnd.get('kind', VStr('uni'))
    kind = kind.concrete() if isinstance(kind, VStr) else None
    if kind not in ('cheb', 'uni') or not (isinstance(Xv, VArr) and Xv.ndim == 2 and Xv.tag == 'pts' and Xv.t is not None):
        raise M.Unsupported("poi_scale: only the call (2-D float array, a, b, kind 'cheb' / 'uni') is under this call-site contract")
    if not (M.is_num(bnd['a']) and M.is_num(bnd['b'])):
        raise M.Unsupported('poi_scale: the box bounds must be numbers in this contract case')
    a, b = M.to_real(bnd['a']), M.to_real(bnd['b'])
    ex.oblige(st, 'call-pre', 'poi_scale: a < b', a < b, node)
    arr = ex.fresh('scaled', XF.WL)
    img = (lambda x: XF.chebscale(x, a, b)) if kind == 'cheb' else (lambda x: CG.spec_scale(x, a, b, 'uni'))
    st.assume(z3.ForAll([af_s, af_k], arr[af_s][af_k] == img(Xv.t[af_s][af_k]), patterns=[arr[af_s][af_k]]))
    CAM._rec(st, 'poi_scale', dict(X=Xv, a=a, b=b, kind=kind, out=arr))
    return XF.pts(Xv.shape[0], Xv.shape[1], arr)


def af_is_pts(v):
    return isinstance(v, VArr) and v.ndim == 2 and v.tag == 'pts' and v.t is not None


@unit('anova_func.ANOVA_func.__init__', props=('C13', 'C10'))
def af_u_init(U):
    fn = U.func('anova_func', 'ANOVA_func.__init__')
    st = U.state()
    m, d, N, n = z3.Ints('m d N n')
    a, b, lamb = z3.Reals('a b lamb')
    Xt, y = z3.Const('X', XF.WL), z3.Const('y', af_RA)
    X_trn, y_trn = XF.pts(m, d, Xt), V.RVec(N, y)
    selfrec = st.alloc(VRec({}))
    ex = U.executor(fn, callees={'grid.poi_scale': af_call_poi_scale_pts})
    ex.anova = ex.functt = ex.rest_af = True
    st.vars.update(self=selfrec, X_trn=X_trn, y_trn=y_trn, n=n, a=a, b=b, lamb=lamb)
    res = U.run(ex, st, pre=[m >= 1, d >= 1, N >= 0, a < b])
    U.assumed.append('grid.poi_scale (unit grid.poi_scale.cheb)')
    U.cover('precondition-satisfiable', U.pre)
    s0, k0 = z3.Ints('s0 k0')
    for p, o in res:
        if o.kind != 'return':
            U.post('no-exception', p, False)
            continue
        f = p.deref(selfrec).fields
        U.post('returns-None', p, z3.BoolVal(o.value is NONE))
        U.post('exactly-the-attributes-X_trn-y_trn-lamb-_cfs-d-n-are-set', p, z3.BoolVal(set(f) == {'X_trn', 'y_trn', 'lamb', '_cfs', 'd', 'n'}))
        calls = p.ghost.get('poi_scale', [])
        okp = len(calls) == 1 and af_is_pts(f.get('X_trn')) and f['X_trn'].t is calls[0]['out']
        U.post('the-stored-points-are-the-result-of-exactly-one-call-of-poi_scale', p, z3.BoolVal(okp))
        if okp:
            c, Xs = calls[0], f['X_trn']
            U.post('poi_scale-gets-the-sample-points-and-the-box-(a, b)-in-this-order', p, z3.And(z3.BoolVal(c['X'] is X_trn), c['a'] == a, c['b'] == b))
            U.post('poi_scale-is-called-with-the-Chebyshev-kind', p, z3.BoolVal(c['kind'] == 'cheb'))
            U.post('scaled-points-have-the-shape-of-the-sample-points', p, z3.And(Z(Xs.shape[0]) == m, Z(Xs.shape[1]) == d))
            if c['kind'] == 'cheb':
                U.post('scaled-point[s, k]-is-the-Chebyshev-scaling-of-X_trn[s, k]-for-the-box-(a, b)', p, Xs.t[s0][k0] == XF.chebscale(Xt[s0][k0], a, b))
                U.post('that-scaling-is-the-clipped-affine-map-of-[a, b]-onto-[-1, 1]', p,
                       Xs.t[s0][k0] == CG.spec_scale(Xt[s0][k0], a, b, 'cheb'), axioms=T.axioms('chebscale'))
                U.canary('canary-points-are-stored-unscaled', p, Xs.t[s0][k0] == Xt[s0][k0], axioms=T.axioms('chebscale'))
        yv = f.get('y_trn')
        oky = XF.is_vec(yv, 'rvec') and yv.dtype == 'f'
        U.post('values-are-stored-as-a-1-D-float-array', p, z3.BoolVal(oky))
        if oky:
            U.post('stored-values-are-the-values-of-y_trn (same length, same entries)', p, z3.And(Z(yv.shape[0]) == N, yv.t[s0] == y[s0]))
        U.post('regularisation-parameter-is-stored', p, af_is_real(f.get('lamb'), lamb))
        U.canary('canary-regularisation-is-one', p, af_is_real(f.get('lamb'), 1))
        U.post('nothing-is-cached-at-construction: _cfs-is-None', p, z3.BoolVal(f.get('_cfs', 0) is NONE))
        U.post('d-is-the-number-of-COLUMNS-of-the-scaled-points', p, Z(f['d']) == d if M.is_intsort(f.get('d')) else z3.BoolVal(False))
        U.canary('canary-d-is-the-number-of-samples', p, Z(f['d']) == m if M.is_intsort(f.get('d')) else z3.BoolVal(False))
        U.post('mode-size-n-is-stored', p, Z(f['n']) == n if M.is_intsort(f.get('n')) else z3.BoolVal(False))
        U.post('arguments-untouched', p, z3.BoolVal(p.vars.get('X_trn') is X_trn and p.vars.get('y_trn') is y_trn and X_trn.t is Xt and y_trn.t is y))
    U.post('one-path', [], z3.BoolVal(len(res) == 1))


# ----------------------------------------------------------------------------------------------
# anova_func.ANOVA_func.coeffs (cached property) - control level with element-level bookkeeping; the VALUE of every least-squares solution stays
# the uninterpreted term rest_af_lsqv(H, rhs) = scipy.linalg.lstsq(H, rhs)[0]  ("values left to the bounded suite").
#
# The object is what __init__ leaves (unit anova_func.ANOVA_func.__init__): X_trn = the m x d batch Xs of scaled points, y_trn = the float vector
# y of length N, lamb, n, d, and the cache _cfs.
#
#   .cached (C10)   _cfs is already set: that very list object is returned, unchanged; nothing is recomputed (no mean, no basis matrix, no
#                   least-squares call) and no attribute is touched.
#   .fit  (C13, C09)   _cfs is None.  With the spec terms (k = a dimension, i.e. a COLUMN of the scaled points)
#           y0    = rmean(y, N)                                            the sample mean of the training values
#           yc[s] = y[s] - y0                                              the values centred by that ORIGINAL mean (not by the running cfs[0])
#           B_k   = chebmat(column k of Xs, m, n)                          the n x m matrix T_i(Xs[s, k]) = func_basis(xd, m=n, kind='cheb') (call-site
#                                                                          contract: unit func.func_basis; kind must be 'cheb', else NotImplementedError)
#           A_k   = B_k^T                                                  m x n,   A_k[s, i] = T_i(Xs[s, k])
#           H_k   = A_k^T A_k + lamb * I_n                                 normal equations plus self.lamb times the identity of size n = A_k.shape[1]
#           rhs_k = A_k^T yc                                               (2-D @ 1-D: rest_af_mv with its defining finite sum)
#           sol_k = rest_af_lsqv(H_k, rhs_k)                               ONE ridge fit per dimension, each on the basis matrix of ITS OWN column
#         the unit proves: the result is a list of length d + 1 (a number followed by d float vectors - exactly what the unit
#         anova_more.ANOVA_func.cores assumes about `self.coeffs`: CfsList(number, list of d vectors of length n - 1));
#           cfs[k + 1] = sol_k[1:]   (length n - 1, entry q = sol_k[q + 1])      for every dimension k,
#           cfs[0]     = y0 + sum_{k<d} sol_k[0]                                 (the constant-term handling: every fit adds its leading entry),
#         the result is stored in self._cfs and that same object is returned; the other attributes and the data are untouched;
#         scipy.linalg.lstsq is called with parameter names it has, lapack_driver='gelsy', cond left at its default, once per dimension;
#         overwrite_a / overwrite_b = True act on temporaries only (C09): operand a is the value of the expression `AtA + ...` written in the
#         call (a new array), operand b is the result of the `@` of the same iteration (a new array), held by one local name that is not read
#         again after the call, not an attribute / container element - so no array of the object or of the caller can be destroyed.
#         (Syntactic / identity check in the value model of ttvc; byte-level aliasing is the business of frames/.)
#   Preconditions of .fit: m >= 1 points, N = m values (one per point: otherwise `A.T @ y` raises), n >= 1.
#   The spec arrays YC / SOL are DEFINED in the precondition by yc / sol_k above (fresh symbols, a conservative definitional extension).
# NOT covered: the value of rest_af_lsqv (that sol_k minimises |A_k c - yc|^2 + lamb |c|^2: bounded suite C13), rounding (A-REAL), lists for X_trn / y_trn.

def af_call_func_basis(ex, st, args, kwargs, node):
    """func_basis(x, m, kind='cheb') for a 1-D float array x: unit func.func_basis proves (m >= 1, x non-empty) that the result is the m x len(x)
    matrix with the entries T_i(x_j) - the matrix rest_af_chebmat(x, len x, m) (group 'rest_af_chebmat').  Any other kind raises
    NotImplementedError in func_basis: obliged.  The call is logged."""
    bnd = CAM.bind_args('func', 'func_basis', args, kwargs, method=False)
    if bnd is None or 'X' not in bnd or 'ones_func' in bnd:
        raise M.Unsupported('func_basis calling pattern')
    xv = st.deref(bnd['X'])
    if not XF.is_vec(xv, 'rvec'):
        raise M.Unsupported('func_basis: only a 1-D float array of points is under this call-site contract')
    mm_ = ex.need_num(st, bnd.get('m', 10), node)
    if not M.is_intsort(mm_):
        raise M.Unsupported('func_basis: non-integer number of basis functions')
    kind = bnd.get('kind', VStr('cheb'))
    if not isinstance(kind, VStr):
        raise M.Unsupported('func_basis: kind is not a string')
    ex.oblige(st, 'call-pre', "func_basis: the kind is 'cheb' (NotImplementedError otherwise)", kind.code == VStr('cheb').code, node)
    L = Z(xv.shape[0])
    ex.oblige(st, 'call-pre', 'func_basis: at least one basis function and one point', z3.And(Z(mm_) >= 1, L >= 1), node)
    M.used('teneva.func_basis(x, m) -> rest_af_chebmat(x, len x, m): the m x len(x) matrix of T_i(x_j) (contract proved by unit func.func_basis)')
    Tm = XAF.af_chebmat(xv.t, L, Z(mm_))
    CAM._rec(st, 'func_basis', dict(x=xv, m=mm_, T=Tm))
    return M.mk_mat(Tm)


def af_reads_after(fn, call_node, name):
    """is the local `name` read again, after the statement that contains `call_node`, in the loop body that contains that statement?"""
    for loop in ast.walk(fn.node):
        if isinstance(loop, (ast.For, ast.While)):
            for pos, stmt in enumerate(loop.body):
                if any(x is call_node for x in ast.walk(stmt)):
                    later = ast.Module(body=loop.body[pos + 1:], type_ignores=[])
                    return any(isinstance(x, ast.Name) and x.id == name and isinstance(x.ctx, ast.Load) for x in ast.walk(later))
    return True          # not inside a loop body: nothing is claimed


def af_lstsq_call_ok(fn, s, c):
    """the control-level statements about one logged scipy.linalg.lstsq call (list of (what, bool))"""
    bound, nodes = c['bound'], c['nodes']
    drv = bound.get('lapack_driver')
    rec = s.deref(s.vars['self'])
    b = c['b']
    names_b = [k for k, v in s.vars.items() if v is b]
    ow_a, ow_b = bound.get('overwrite_a', False), bound.get('overwrite_b', False)
    a_temp = isinstance(nodes.get('a'), ast.BinOp)                       # the value of an arithmetic expression written in the call: a new array
    b_temp = (getattr(b, 'af_fresh', None) is not None and not getattr(b, 'shared', False) and len(names_b) == 1
              and not any(v is b for v in rec.fields.values()) and isinstance(nodes.get('b'), ast.Name) and nodes['b'].id == names_b[0]
              and not af_reads_after(fn, nodes['b'], names_b[0]))
    return [('driver-is-gelsy', isinstance(drv, VStr) and drv.concrete() == 'gelsy'),
            ('cond-and-check_finite-stay-at-their-defaults', 'cond' not in bound and 'check_finite' not in bound),
            ('overwrite-flags-are-literal-booleans', isinstance(ow_a, bool) and isinstance(ow_b, bool)),
            ('overwrite_a-only-on-a-temporary', ow_a is False or a_temp),
            ('overwrite_b-only-on-a-temporary-that-is-not-read-again', ow_b is False or b_temp)]


def af_coeffs_unit(U, cached):
    fn = U.func('anova_func', 'ANOVA_func.coeffs')
    CAM.expect_for_loops(fn, 1)
    st = U.state()
    m, d, N, n = z3.Ints('m d N n')
    lamb = z3.Real('lamb')
    Xs, y = z3.Const('Xs', XF.WL), z3.Const('y', af_RA)
    YC, SOL = z3.Const('rest_af_yc', af_RA), z3.Const('rest_af_sol', af_RAA)
    Xv, yv = XF.pts(m, d, Xs), V.RVec(N, y)
    y0 = XAN.rmean(y, N)
    if cached:
        c0 = z3.Real('c0')
        C, dl = z3.Const('cf', af_IA), z3.Int('ncf')
        old_tail = st.alloc(XAF.af_tail_seq(C, dl))
        old = st.alloc(XAN.CfsList(c0, old_tail))
    fields = {'X_trn': Xv, 'y_trn': yv, 'lamb': lamb, 'n': n, 'd': d, '_cfs': old if cached else NONE}
    selfrec = st.alloc(VRec(fields))

    B_ = lambda k: XAF.af_chebmat(XF.pcol(Xs, k), m, n)
    A_ = lambda k: T.tr(B_(k))
    H_ = lambda k: T.madd(T.mm(T.tr(A_(k)), A_(k)), T.smul(lamb, T.eye(n)))
    rhs_ = lambda k: XAF.af_mv(T.tr(A_(k)), YC)
    sol_ = lambda k: XAF.af_lsqv(H_(k), rhs_(k))
    spec_defs = [z3.ForAll([af_s], YC[af_s] == y[af_s] - y0, patterns=[YC[af_s]]),
                 z3.ForAll([af_k], SOL[af_k] == sol_(af_k), patterns=[SOL[af_k]])]

    def the_list(s):
        loc = s.vars.get('cfs')
        o = s.deref(loc) if isinstance(loc, VRef) else None
        if not (isinstance(o, XAF.af_Cfs) and o.head is not None):
            raise M.ContractMismatch('coeffs: `cfs` is not the coefficient list that starts with a number')
        tail = s.deref(o.tail_ref)
        if not (isinstance(tail, VSeq) and tail.tag == 'rvecs'):
            raise M.ContractMismatch('coeffs: the coefficient list does not hold float vectors after its leading number')
        ref = s.deref(s.vars['self']).fields.get('_cfs')
        return o, tail, isinstance(ref, VRef) and ref.oid == loc.oid

    def vectors_ok(tail, upto):
        c = tail.arr[af_k]
        return [z3.ForAll([af_k], z3.Implies(z3.And(0 <= af_k, af_k < upto), XAF.af_clen(c) == n - 1), patterns=[tail.arr[af_k]]),
                z3.ForAll([af_k, af_q], z3.Implies(z3.And(0 <= af_k, af_k < upto), XAF.af_cvec(c)[af_q] == SOL[af_k][af_q + 1]),
                          patterns=[XAF.af_cvec(c)[af_q]])]

    def inv(ex, s, j):
        o, tail, stored = the_list(s)
        yl = s.vars.get('y')
        if not XF.is_vec(yl, 'rvec'):
            raise M.ContractMismatch('coeffs: y is not the vector of the centred values')
        calls = s.ghost.get('af_lstsq', [])
        v1, v2 = vectors_ok(tail, j)
        return [('the-list-that-is-built-is-the-one-stored-in-self._cfs', z3.BoolVal(stored)),
                ('one-coefficient-vector-per-processed-dimension', tail.n == j),
                ('coefficient-vector-k-has-n-1-entries', v1),
                ('coefficient-vector-k-is-the-ridge-solution-of-dimension-k-without-its-leading-entry', v2),
                ('constant-term-is-the-mean-plus-the-leading-entries-of-the-processed-solutions', o.head == y0 + XAF.af_hsum(SOL, j)),
                ('right-hand-sides-use-the-values-centred-by-the-ORIGINAL-mean', z3.And(yl.t == YC, Z(yl.shape[0]) == N))] + \
               [('lstsq: ' + what, z3.BoolVal(all(dict(af_lstsq_call_ok(fn, s, c))[what] for c in calls)))
                for what in ('driver-is-gelsy', 'cond-and-check_finite-stay-at-their-defaults', 'overwrite-flags-are-literal-booleans',
                             'overwrite_a-only-on-a-temporary', 'overwrite_b-only-on-a-temporary-that-is-not-read-again')] + \
               [('one-least-squares-fit-and-one-basis-matrix-per-dimension',
                 z3.BoolVal(len(calls) == len(s.ghost.get('func_basis', [])) and len(calls) == (0 if s.ghost.get('af_in_body') is None else 1)))]

    def hook(ex, h, pre_, j):
        h.ghost['af_lstsq'], h.ghost['func_basis'] = [], []          # the logs count the calls of ONE iteration
        h.ghost['af_in_body'] = None

    def body_end(ex, s1, o1, j):
        s1.ghost['af_in_body'] = True
        U.canary('canary-context-at-the-end-of-the-loop-body', list(s1.pc), False, axioms=AX)

    AX = T.axioms('shape', 'mrow', 'entsub', 'rest_af_hsum', 'rest_af_chebmat', 'rest_af_maddcomm')
    ex = U.executor(fn, loops={0: {'inv': inv, 'havoc_hook': hook, 'body_end': body_end}}, axioms=AX,
                    callees={'np.mean': XAN.np_mean, 'func.func_basis': af_call_func_basis, 'sp.linalg.lstsq': XAF.af_lstsq_vec,
                             'scipy.linalg.lstsq': XAF.af_lstsq_vec},
                    type_hints={'cfs': XAF.af_cfs_kind, 'self._cfs': XAF.af_cfs_kind})
    ex.anova = ex.functt = ex.rest_af = True
    ex.mode = 'ematch'
    st.vars.update(self=selfrec)
    pre = [m >= 1, N == m, n >= 1, d >= 0] + spec_defs + ([dl >= 0] if cached else [])
    res = U.run(ex, st, pre=pre)
    U.assumed += ['func.func_basis (unit func.func_basis)']
    U.cover('precondition-satisfiable', U.pre + [d >= 2, n >= 2], axioms=AX)
    kk, qq, ss, ii = z3.Ints('kk qq ss ii')
    for p, o in res:
        f = p.deref(selfrec).fields
        same_data = all(f.get(k) is v for k, v in fields.items() if k != '_cfs') and set(f) == set(fields) and Xv.t is Xs and yv.t is y
        if cached:
            U.post('returns-the-cached-list-object-itself', p, z3.BoolVal(o.kind == 'return' and isinstance(o.value, VRef) and o.value.oid == old.oid
                                                                          and f.get('_cfs') is old))
            ob, tl = p.heap[old.oid], p.heap[old_tail.oid]
            U.post('the-cached-list-is-unchanged', p, z3.BoolVal(type(ob) is XAN.CfsList and ob.head is c0 and ob.tail_ref is old_tail and tl.arr is C and tl.n is dl))
            U.post('nothing-is-recomputed: no-mean-no-basis-matrix-no-least-squares-call', p,
                   z3.BoolVal(not p.ghost.get('af_lstsq') and not p.ghost.get('func_basis') and 'y0' not in p.vars and 'cfs' not in p.vars))
            U.post('object-untouched', p, z3.BoolVal(same_data))
            continue
        if o.kind != 'return':
            U.post('no-exception', p, False, axioms=AX, mode='ematch')
            continue
        okr = isinstance(o.value, VRef) and isinstance(f.get('_cfs'), VRef) and o.value.oid == f['_cfs'].oid and isinstance(p.deref(o.value), XAF.af_Cfs) \
            and p.deref(o.value).head is not None and isinstance(p.deref(p.deref(o.value).tail_ref), VSeq) and p.deref(p.deref(o.value).tail_ref).tag == 'rvecs'
        U.post('returns-the-list-that-is-stored-in-self._cfs: a-number-followed-by-float-vectors (the kind anova_more.ANOVA_func.cores consumes)', p,
               z3.BoolVal(okr and isinstance(p.deref(o.value), XAN.CfsList)))
        if not okr:
            continue
        lst = p.deref(o.value)
        tail = p.deref(lst.tail_ref)
        hyp, dom = list(p.pc), [0 <= kk, kk < d]
        cvec, clen = XAF.af_cvec(tail.arr[kk]), XAF.af_clen(tail.arr[kk])
        U.post('the-list-has-length-d+1: the-constant-term-and-one-vector-per-dimension', hyp, tail.n == d, axioms=AX, mode='ematch')
        U.post('coefficient-vector-of-dimension-k-has-n-1-entries (what anova_more.ANOVA_func.cores assumes)', hyp + dom, clen == n - 1, axioms=AX, mode='ematch')
        U.post('cfs[k+1][q]-is-entry-q+1-of-lstsq(A_k^T A_k + lamb I_n, A_k^T (y - mean))[0]-for-the-basis-matrix-A_k-of-column-k', hyp + dom,
               cvec[qq] == sol_(kk)[qq + 1], axioms=AX, mode='ematch')
        U.post('cfs[0]-is-the-sample-mean-plus-the-leading-entries-of-all-d-solutions', hyp, lst.head == y0 + XAF.af_hsum(SOL, d), axioms=AX, mode='ematch')
        U.post('the-summed-leading-entry-of-dimension-k-is-that-of-the-same-ridge-solution', hyp + dom, SOL[kk][0] == sol_(kk)[0], axioms=AX, mode='ematch')
        U.post('basis-matrix-A_k-is-m-x-n-with-A_k[s, i] = T_i(scaled point[s, k])', hyp + dom + [0 <= ss, ss < m, 0 <= ii, ii < n],
               z3.And(T.rows(A_(kk)) == m, T.cols(A_(kk)) == n, T.ent(A_(kk), ss, ii) == XF.cheb(ii, Xs[ss][kk])), axioms=AX, mode='ematch')
        U.post('normal-equations-are-n-x-n', hyp + dom, z3.And(T.rows(H_(kk)) == n, T.cols(H_(kk)) == n), axioms=AX, mode='ematch')
        U.post('right-hand-side-entry-i-is-the-finite-sum-over-the-samples-of-A_k[s, i] * (y[s] - mean)', hyp + dom + [0 <= ii, ii < n],
               z3.And(rhs_(kk)[ii] == XAF.af_mvsum(T.tr(A_(kk)), YC, ii, m), YC[ss] == y[ss] - y0), axioms=AX + T.axioms('rest_af_mv'), mode='ematch')
        U.post('object-and-data-untouched-apart-from-the-cache', p, z3.BoolVal(same_data))
        U.canary('canary-no-coefficient-vectors', hyp, tail.n == 0, axioms=AX)
        U.canary('canary-constant-term-is-the-mean-alone', hyp + [d >= 1], lst.head == y0, axioms=AX)
        U.canary('canary-coefficient-vector-keeps-the-leading-entry', hyp + dom, cvec[qq] == sol_(kk)[qq], axioms=AX)
        U.canary('canary-every-dimension-is-fitted-on-the-basis-matrix-of-column-0', hyp + dom, cvec[qq] == sol_(z3.IntVal(0))[qq + 1], axioms=AX)
    U.post('one-path', [], z3.BoolVal(len(res) == 1))


@unit('anova_func.ANOVA_func.coeffs.fit', props=('C13', 'C09'))
def af_u_coeffs_fit(U):
    af_coeffs_unit(U, False)


@unit('anova_func.ANOVA_func.coeffs.cached', props=('C13', 'C10'))
def af_u_coeffs_cached(U):
    af_coeffs_unit(U, True)


# ----------------------------------------------------------------------------------------------
# Hand-made mutants (MUT_BASE=/tmp/base tools/mut.sh anova_func.py '<sed>' <unit>) and the named obligation that reports each.
# W = `ANOVA_func(X_trn, y_trn, n, a, b, lamb).cores(e)`, P = `poi_scale(X_trn, a, b, kind='cheb')`.
#
# anova_func.anova_func
#   W -> ANOVA_func(X_trn, y_trn, n, b, a, lamb).cores(e)                  post constructor: lower-bound-a-and-upper-bound-b-at-their-own-parameters (not swapped)
#   W -> ANOVA_func(X_trn, y_trn, n, a, b, e).cores(lamb)                  post constructor: the-regularisation-parameter-is-lamb (not the accuracy e), cores: the-accuracy-is-the-caller-s-e .. (refuted)
#   W -> ANOVA_func(X_trn, y_trn, n, a, b).cores(e)                        post constructor-gets-exactly-(X_trn, y_trn, n, a, b, lamb)
#   W -> ANOVA_func(X_trn, y_trn, n, a, b, lamb).cores()                   post cores-gets-exactly-one-argument: the-accuracy
#   W -> ANOVA_func(y_trn, X_trn, n, a, b, lamb).cores(e)                  post constructor: the-samples-and-the-values-at-their-own-parameters
#   quiet (equivalent): ANOVA_func(X_trn, y_trn, n=n, lamb=lamb, b=b, a=a).cores(e=e); undecided: `.coeffs` for `.cores(e)` (Unsupported: attribute outside the contract case)
# anova_func.ANOVA_func.__init__
#   P -> poi_scale(X_trn, a, b, kind='uni')  /  poi_scale(X_trn, a, b)     post poi_scale-is-called-with-the-Chebyshev-kind (refuted)
#   P -> poi_scale(X_trn, b, a, kind='cheb')                               call-pre poi_scale: a < b (refuted)
#   P -> poi_scale(X_trn, -1., 1., kind='cheb')                            post poi_scale-gets-the-sample-points-and-the-box-(a, b)-in-this-order, scaled-point[s, k]-is-the-Chebyshev-scaling-..
#   s/self.X_trn = teneva.poi_scale(..)/self.X_trn = X_trn/                post the-stored-points-are-the-result-of-exactly-one-call-of-poi_scale
#   s/self._cfs = None/self._cfs = []/                                     post nothing-is-cached-at-construction: _cfs-is-None
#   s/        self._cfs = None/        pass/                               post exactly-the-attributes-X_trn-y_trn-lamb-_cfs-d-n-are-set, nothing-is-cached-at-construction: ..
#   s/self.lamb = lamb/self.lamb = 1./                                     post regularisation-parameter-is-stored (refuted)
#   s/self.d = self.X_trn.shape\[1\]/self.d = self.X_trn.shape[0]/         post d-is-the-number-of-COLUMNS-of-the-scaled-points (refuted)
#   s/self.n = n$/self.n = self.d/                                         post mode-size-n-is-stored (refuted)
#   s/np.asarray(y_trn, dtype=float)/np.asarray(X_trn, dtype=float)/       post values-are-stored-as-a-1-D-float-array
#   .. /np.asarray(y_trn, dtype=float)[1:]/  and  /.. * 2/                 post stored-values-are-the-values-of-y_trn (same length, same entries) (refuted)
#   quiet (equivalent): poi_scale(X=X_trn, b=b, a=a, kind='cheb'), np.array(y_trn, dtype=float)
# anova_func.ANOVA_func.coeffs.fit     (IK = inv-keep loop0., II = inv-init loop0.; S = ..coefficient-vector-k-is-the-ridge-solution-of-dimension-k-without-its-leading-entry,
#                                       C = ..constant-term-is-the-mean-plus-the-leading-entries-of-the-processed-solutions)
#   s/AtA + self.lamb \* np.identity/AtA + 1. * np.identity/               IK S, IK C
#   s/lstsq(AtA + self.lamb \* np.identity(A.shape\[1\]),/lstsq(AtA,/      IK S, IK C, IK lstsq: overwrite_a-only-on-a-temporary
#   s/y = self.y_trn - y0/y = self.y_trn/                                  II right-hand-sides-use-the-values-centred-by-the-ORIGINAL-mean
#   s/Aty = A.T @ y$/Aty = A.T @ self.y_trn/                               IK S, IK C
#   s/cfs.append(cur_cf\[1:\])/cfs.append(cur_cf)/                         IK coefficient-vector-k-has-n-1-entries, IK S
#   delete `cfs[0] += cur_cf[0]`                                           IK C
#   s/cfs\[0\] += cur_cf\[0\]/cfs[0] += cur_cf[1]/                         safety array-index-in-range (n = 1), IK C
#   s/cfs.append(y0)/cfs.append(0.)/                                       II C
#   s/m=self.n, kind/m=self.n+1, kind/                                     IK coefficient-vector-k-has-n-1-entries, IK S, IK C
#   s/m=self.n, kind='cheb'/m=self.n, kind='sin'/                          call-pre func_basis: the kind is 'cheb' (NotImplementedError otherwise)
#   s/for xd in self.X_trn.T:/for xd in self.X_trn:/   (rows for columns)  IK S, IK C, post the-list-has-length-d+1: .., cfs[k+1][q]-is-entry-q+1-of-lstsq(..)
#   s/np.identity(A.shape\[1\])/np.identity(A.shape[0])/                   call-pre elementwise-shapes-agree
#   s/AtA = A.T @ A$/AtA = A @ A.T/                                        call-pre elementwise-shapes-agree, IK S, IK C
#   s/overwrite_a=True/overwrite_A=True/                                   call-pre scipy.linalg.lstsq-has-a-parameter-named-overwrite_A
#   s/lapack_driver='gelsy'/lapack_driver='gelsd'/                         IK lstsq: driver-is-gelsy
#   s/Aty, overwrite_a=True/y, overwrite_a=True/                           call-pre lstsq-row-counts-agree, IK S, IK C, IK lstsq: overwrite_b-only-on-a-temporary-that-is-not-read-again
#   `Aty[0] = 0.` appended to the loop body (the destroyed buffer is used again)     IK lstsq: overwrite_b-only-on-a-temporary-that-is-not-read-again
#   s/self._cfs = cfs = \[\]/cfs = []/   (never cached)  and  /self._cfs = []; cfs = []/      II the-list-that-is-built-is-the-one-stored-in-self._cfs
#   s/if self._cfs is not None:/if self._cfs is None:/                     post returns-the-list-that-is-stored-in-self._cfs: .. (refuted)
#   s/        return self._cfs$/        return cfs[1:]/                    post returns-the-list-that-is-stored-in-self._cfs: .. (refuted)
#   quiet (equivalent): `y = self.y_trn - cfs[0]` before the loop, `cfs = []; self._cfs = cfs`, `cfs[0] = cfs[0] + cur_cf[0]`, cur_cf renamed,
#   func_basis(xd, self.n), `self.lamb * np.identity(..) + AtA`, `np.identity(..) * self.lamb`, np.identity(self.n), np.eye(AtA.shape[0]), keywords of lstsq reordered;
#   undecided: `Aty = y @ A` (Unsupported: no denotation), A.T.dot(A) (Unsupported), y renamed (ContractMismatch), a while loop (ContractMismatch)
# anova_func.ANOVA_func.coeffs.cached
#   s/if self._cfs is not None:/if self._cfs is None:/                     post returns-the-cached-list-object-itself, nothing-is-recomputed: .. (refuted)
#   `self._cfs = None` inserted before the test (cache always dropped)     post returns-the-cached-list-object-itself, nothing-is-recomputed: .. (refuted)
#   first `return self._cfs` -> return self._cfs[1:] / return None / pass  post returns-the-cached-list-object-itself (refuted)
#   quiet (equivalent): `if not (self._cfs is None):`; undecided: return list(self._cfs) (Unsupported)


# ==================================================================================================
# SECTION ANOVA.build_2
# ==================================================================================================
"""Sidecar contract for ANOVA.build_2 of teneva/anova.py (C13: conditional means per pair of modes; C10: the cache of masks is per call).

Data as in contracts/anova_more.py: I_trn is the (N x d) integer matrix with columns ICOL[k], y_trn the real vector y of length N;
self.domain is the list of d integer vectors dmv(k) = DARR(DC[k]) of lengths dml(k) = DLEN(DC[k]) (the coded list of ANOVA.build, unit
anova_more.ANOVA.build), self.f0 a real, self.f1 the list of d first-order tables F1[k] with key sets DOM1[k] (unit anova_more.ANOVA.build_1).
Spec symbols ccnt2 / csum2 / cmean2 / tri / pos: ttvc/mx_rest.py.

unit anova.ANOVA.build_2 - the real four-loop nest with symbolic d, N and domains.  Proved, for every d >= 1:
  * self.f2 is assigned a NEW list (whatever self.f2 was before - here an arbitrary list of pair tables - is dropped) of d(d-1)/2 tables;
  * storage order: the table of the pair of modes k1 < k2 sits at position  pos(d, k1, k2) = tri(d, k1) + k2 - k1 - 1,  and this is the
    position pair_num_to_num(k1, k2) returns (2 pos = k1 (2d - 3 - k1) + 2 (k2 - 1), the statement of unit anova.ANOVA.pair_num_to_num;
    derived from the closed form 2 tri(d, a) = a (2d - 1 - a), itself proved by induction);
  * that table has every pair (x1 in domain[k1], x2 in domain[k2]) as a key, every key (x1, x2) consists of observed values of the two
    modes, and
        f2[pos][x1, x2] = 0                                                   if no sample carries the pair (ccnt2(..) = 0),
                        = cmean2(y, ICOL[k1], x1, ICOL[k2], x2, N) - f0 - f1[k1][x1] - f1[k2][x2]       otherwise
    (cmean2 = the mean of y over the samples s with I[s, k1] = x1 and I[s, k2] = x2; its defining equation mean * count = sum is a
    separate quantifier-free obligation);
  * C10 / the cache of masks: `cache` is a dict created empty inside the call (a fresh heap object; nothing is read from or written to
    the object or an argument), it is keyed by PAIRS (mode, value) only, and whatever is stored under (k, x) is the mask
    I_trn[:, k] == x of full length N (loop invariant `cached-masks-are-the-masks-of-their-(mode, value)-keys`: a cache keyed by the
    value alone or by the wrong mode breaks it);
  * f0 / f1 / domain / I_trn / y_trn are not modified, no other attribute is written, the result is None, no exception (KeyError of
    the f1 lookups and the empty-mean case are excluded by proved obligations).
Preconditions (class invariants established by ANOVA.build / build_1, see the units named above): N >= 1, every point of domain[k]
occurs in column k and is a key of f1[k].
NOT covered: floating-point rounding of the means (A-REAL); np.unique-sortedness of the domain is not needed and not used.
"""
import z3
from ttvc.units import unit
from ttvc.symex import VRec, VSeq, VRef, NONE, Z
from ttvc import models as M, theory as T
from ttvc import mx_anova as XAN
from ttvc import mx_rest as XB2
from contracts import anova as CA, anova_more as CAM

b2_AX = T.axioms('rest_b2_csum2', 'rest_b2_sym', 'rest_b2_tri')


def b2_value(y, ICOL, N, f0, F1, a, x1, b, x2):
    """the entry of the pair table of the modes (a, b) at the pair of values (x1, x2)"""
    return z3.If(XB2.b2_ccnt2(ICOL[a], x1, ICOL[b], x2, N) == 0, z3.RealVal(0),
                 XB2.b2_cmean2(y, ICOL[a], x1, ICOL[b], x2, N) - f0 - F1[a][x1] - F1[b][x2])


def b2_tab_facts(dom, val, a, b, dmv, dml, y, ICOL, N, f0, F1, t1, t2, x1, x2):
    """(keys, values) of `the dict (dom, val) is the pair table of the modes (a, b)`, open in t1, t2 / x1, x2"""
    keys = z3.Implies(z3.And(0 <= t1, t1 < dml(a), 0 <= t2, t2 < dml(b)), dom[dmv(a)[t1]][dmv(b)[t2]])
    vals = z3.Implies(dom[x1][x2], z3.And(XAN.ccnt(ICOL[a], x1, N) >= 1, XAN.ccnt(ICOL[b], x2, N) >= 1,
                                          val[x1][x2] == b2_value(y, ICOL, N, f0, F1, a, x1, b, x2)))
    return keys, vals


@unit('anova.ANOVA.build_2', props=('C13', 'C10'))
def b2_u_build_2(U):
    fn = U.func('anova', 'ANOVA.build_2')
    CAM.expect_for_loops(fn, 4)
    st = U.state()
    N, d, nold = z3.Ints('N d nold')
    f0 = z3.Real('f0')
    I_trn, ICOL, y_trn, y = CAM._data(st, N, d)
    DC = z3.Const('domain', XAN.IA)
    dmv, dml = (lambda k: XAN.DARR(DC[k])), (lambda k: XAN.DLEN(DC[k]))
    domref = XAN.ivec_seq(None, st, DC, d)
    F1, DOM1 = z3.Const('f1', XAN.RAA), z3.Const('dom1', CAM.BAA)
    f1ref = CAM._f1_tables(st, F1, DOM1, d)
    oldf2 = XB2.b2_pair_table_seq(None, st, z3.Const('f2old', XAN.IA), nold)
    fields0 = {'domain': domref, 'f0': f0, 'f1': f1ref, 'f2': oldf2}
    selfrec = st.alloc(VRec(fields0))
    heap0 = set(st.heap)
    aq, bq, t1q, t2q, x1q, x2q, arq, kq, tq, mq = z3.Ints('a!q b!q t1!q t2!q x1!q x2!q ar!q k!q t!q m!q')
    pos = lambda a, b: XB2.b2_pos(d, a, b)
    e1, e2 = (lambda m: XB2.b2_e1(d, m)), (lambda m: XB2.b2_e2(d, m))

    def facts(dom, val, a, b, t1=t1q, t2=t2q, x1=x1q, x2=x2q):
        return b2_tab_facts(dom, val, a, b, dmv, dml, y, ICOL, N, f0, F1, t1, t2, x1, x2)

    def f2_of(s):
        ref = s.deref(s.vars['self']).fields.get('f2')
        o = s.deref(ref) if isinstance(ref, VRef) else None
        if not (isinstance(o, VSeq) and o.tag == 'tables2'):
            raise M.ContractMismatch('self.f2 is not the list of pair tables')
        return o

    def cache_of(s):
        c = s.deref(s.vars.get('cache'))
        if not isinstance(c, XB2.b2_MaskCache):
            raise M.ContractMismatch('cache is not the dict of masks')
        return c

    def cur_of(s):
        c = s.deref(s.vars.get('f2_curr'))
        if not isinstance(c, XB2.b2_PairTab):
            raise M.ContractMismatch('f2_curr is not a dict from pairs of indices to reals')
        return c

    def mode(s, name):
        v = s.vars.get(name)
        if not M.is_intsort(v):
            raise M.ContractMismatch(f'{name} is not an integer')
        return Z(v)

    def cache_ok(c):
        h = c.has[arq][aq][bq]
        return ('cached-masks-are-the-masks-of-their-(mode, value)-keys',
                z3.ForAll([arq, aq, bq], z3.Implies(h, z3.And(arq == 2, 0 <= aq, aq < d, c.col[arq][aq][bq] == ICOL[aq], c.xv[arq][aq][bq] == bq,
                                                              c.ln[arq][aq][bq] == N)), patterns=[h]))

    def tables_ok(F, done):
        """every stored table (position m) is the pair table of the modes (e1(d, m), e2(d, m)) of the m-th pair of the enumeration, and
        the processed pairs (`done(a, b)`) have their positions inside the list"""
        c = F.arr[mq]
        rngm = z3.And(0 <= mq, mq < F.n)
        keys, vals = facts(XAN.T2DOM(c), XAN.T2VAL(c), e1(mq), e2(mq))
        return [('processed-pairs-sit-at-their-positions',
                 z3.ForAll([aq, bq], z3.Implies(z3.And(0 <= aq, aq < bq, bq < d, done(aq, bq)), z3.And(0 <= pos(aq, bq), pos(aq, bq) < F.n)), patterns=[pos(aq, bq)])),
                ('every-pair-of-observed-values-is-a-key',
                 z3.ForAll([mq, t1q, t2q], z3.Implies(rngm, keys), patterns=[z3.MultiPattern(F.arr[mq], dmv(e1(mq))[t1q], dmv(e2(mq))[t2q])])),
                ('every-key-holds-zero-or-the-conditional-mean-minus-the-lower-order-terms',
                 z3.ForAll([mq, x1q, x2q], z3.Implies(rngm, vals), patterns=[XAN.T2DOM(c)[x1q][x2q], XAN.T2VAL(c)[x1q][x2q]]))]

    def inv0(ex, s, j):                      # j = k1: all pairs with a smaller first mode are done
        F = f2_of(s)
        return [('one-table-per-processed-pair', F.n == XB2.b2_tri(d, j)), cache_ok(cache_of(s))] + tables_ok(F, lambda a, b: a < j)

    def inv1(ex, s, j):                      # k2 = k1 + 1 + j
        F, k1 = f2_of(s), mode(s, 'k1')
        return [('first-mode-in-range', z3.And(0 <= k1, k1 < d)), ('next-table-goes-to-the-position-of-the-current-pair', F.n == pos(k1, k1 + 1 + j)),
                cache_ok(cache_of(s))] + [(l + '(kept)', g) for l, g in tables_ok(F, lambda a, b: z3.Or(a < k1, z3.And(a == k1, b < k1 + 1 + j)))]

    def cur_ok(s, k1, k2, rows, cols_):
        """the table under construction: keys for the processed rows (all columns) and for `cols_` columns of the current row"""
        cur = cur_of(s)
        keys, vals = facts(cur.dom, cur.val, k1, k2)
        out = [('processed-pairs-of-values-are-keys', z3.ForAll([t1q, t2q], z3.Implies(t1q < rows, keys), patterns=[z3.MultiPattern(dmv(k1)[t1q], dmv(k2)[t2q])])),
               ('every-key-holds-zero-or-the-conditional-mean-minus-the-lower-order-terms(current)',
                z3.ForAll([x1q, x2q], vals, patterns=[cur.dom[x1q][x2q], cur.val[x1q][x2q]]))]
        if cols_ is not None:
            out.insert(1, ('processed-values-of-the-current-row-are-keys',
                           z3.ForAll([t2q], z3.Implies(z3.And(0 <= t2q, t2q < cols_), cur.dom[dmv(k1)[rows]][dmv(k2)[t2q]]), patterns=[dmv(k2)[t2q]])))
        return out

    def inv2(ex, s, j):                      # j = number of processed points of domain[k1]
        k1, k2 = mode(s, 'k1'), mode(s, 'k2')
        return [('modes-in-range', z3.And(0 <= k1, k1 < k2, k2 < d)), cache_ok(cache_of(s))] + cur_ok(s, k1, k2, j, None)

    def inv3(ex, s, j):                      # j = number of processed points of domain[k2]; the row is that of loop 2
        k1, k2, row = mode(s, 'k1'), mode(s, 'k2'), s.ghost['_j2']
        x1 = s.vars.get('x1')
        if not M.is_intsort(x1):
            raise M.ContractMismatch('x1 is not an integer')
        return [('modes-in-range', z3.And(0 <= k1, k1 < k2, k2 < d)), ('row-in-range', z3.And(0 <= row, row < dml(k1))),
                ('x1-is-the-current-point-of-the-first-mode', Z(x1) == dmv(k1)[row]), cache_ok(cache_of(s))] + cur_ok(s, k1, k2, row, j)

    def hook(ex, h, pre_, j):
        XAN.havoc_attr(ex, h, 'self', 'f2')

    ex = U.executor(fn, loops={0: {'inv': inv0, 'havoc_hook': hook}, 1: {'inv': inv1, 'havoc_hook': hook}, 2: {'inv': inv2}, 3: {'inv': inv3}},
                    callees={'np.mean': XB2.b2_np_mean}, axioms=b2_AX,
                    type_hints={'self.f2': lambda ex_, s_: XB2.b2_pair_table_seq(ex_, s_), 'cache': XB2.b2_dict_hint(XB2.b2_mask_cache),
                                'f2_curr': XB2.b2_dict_hint(XB2.b2_pair_table)})
    ex.anova, ex.rest_b2, ex.attr_havoc = True, True, {'self.f2'}
    ex.mode = 'ematch'
    st.vars.update(self=selfrec, I_trn=I_trn, y_trn=y_trn)
    pre = [N >= 1, d >= 1, nold >= 0,
           z3.ForAll([kq], z3.Implies(z3.And(0 <= kq, kq < d), dml(kq) >= 0), patterns=[DC[kq]]),
           z3.ForAll([kq, tq], z3.Implies(z3.And(0 <= kq, kq < d, 0 <= tq, tq < dml(kq)),
                                          z3.And(XAN.ccnt(ICOL[kq], dmv(kq)[tq], N) >= 1, DOM1[kq][dmv(kq)[tq]])), patterns=[dmv(kq)[tq]])]
    res = U.run(ex, st, pre=pre)
    U.cover('precondition-satisfiable', U.pre, axioms=b2_AX)

    # closed form of the number of pairs with a smaller first mode, by induction over the first mode (constants: arbitrary d, a)
    dd, aa = z3.Ints('d!l a!l')
    closed = lambda d_, a_: 2 * XB2.b2_tri(d_, a_) == a_ * (2 * d_ - 1 - a_)
    U.lemma('pairs-with-a-smaller-first-mode: 2 tri(d, a) = a (2d - 1 - a).base', [XB2.b2_tri(dd, 0) == 0], closed(dd, z3.IntVal(0)), qf=True, kind='lemma-base')
    U.lemma('pairs-with-a-smaller-first-mode: 2 tri(d, a) = a (2d - 1 - a).step',
            [aa >= 0, closed(dd, aa), XB2.b2_tri(dd, aa + 1) == XB2.b2_tri(dd, aa) + dd - 1 - aa], closed(dd, aa + 1), qf=True, kind='lemma-step')

    kk1, kk2, pp, jj1, jj2, xx1, xx2, ar_, a_, b_ = z3.Ints('kk1 kk2 pp jj1 jj2 xx1 xx2 ar_ a_ b_')
    for p, o in res:
        if o.kind != 'return':
            U.post('no-exception', p, False, axioms=b2_AX, mode='ematch')
            continue
        F = f2_of(p)
        f = p.deref(selfrec).fields
        U.post('returns-None', p, z3.BoolVal(o.value is NONE))
        U.post('f2-is-a-new-list-and-no-other-attribute-is-written', p,
               z3.BoolVal(set(f) == set(fields0) and isinstance(f['f2'], VRef) and f['f2'].oid not in heap0 and all(f[k] is fields0[k] for k in ('domain', 'f0', 'f1'))))
        U.post('constant-term-first-order-tables-domain-and-data-untouched', p,
               z3.BoolVal(p.heap[domref.oid].arr is DC and p.heap[f1ref.oid].arr is F1 and p.vars.get('I_trn') is I_trn and p.vars.get('y_trn') is y_trn
                          and p.heap[oldf2.oid].n is nold))
        cref = p.vars.get('cache')
        U.post('mask-cache-is-a-dict-created-in-this-call-(nothing-carried-over)', p,
               z3.BoolVal(isinstance(cref, VRef) and cref.oid not in heap0 and isinstance(p.heap[cref.oid], XB2.b2_MaskCache)))
        c = cache_of(p)
        U.post('every-cached-mask-is-the-mask-of-its-(mode, value)-key', list(p.pc) + [c.has[ar_][a_][b_]],
               z3.And(ar_ == 2, 0 <= a_, a_ < d, c.col[ar_][a_][b_] == ICOL[a_], c.xv[ar_][a_][b_] == b_, c.ln[ar_][a_][b_] == N), axioms=b2_AX, mode='ematch')
        # number of tables: instances of the closed form (proved above for arbitrary constants) and of the definition of tri at a = d - 1
        inst = [z3.Implies(a >= 0, closed(d, a)) for a in (d - 1, d)] + [XB2.b2_tri(d, d) == XB2.b2_tri(d, d - 1) + d - 1 - (d - 1)]
        U.post('number-of-tables-is-d(d-1)/2', [h for h in p.pc] + inst, 2 * F.n == d * (d - 1), qf=True)
        # storage position = what pair_num_to_num returns
        rng = [0 <= kk1, kk1 < kk2, kk2 < d]
        at_pos = pp == pos(kk1, kk2)
        U.lemma('table-position-of-a-pair-of-modes-is-the-one-pair_num_to_num-returns',
                rng + [2 * pp == CA.pair_number_twice(d, kk1, kk2), closed(d, kk1), pos(kk1, kk2) == XB2.b2_tri(d, kk1) + kk2 - kk1 - 1], at_pos, qf=True)
        ctx = list(p.pc) + rng + [2 * pp == CA.pair_number_twice(d, kk1, kk2), at_pos]
        tab = F.arr[pp]
        keys, vals = facts(XAN.T2DOM(tab), XAN.T2VAL(tab), kk1, kk2, jj1, jj2, xx1, xx2)
        U.post('position-in-range', ctx, z3.And(0 <= pp, pp < F.n), axioms=b2_AX, mode='ematch')
        U.post('every-pair-of-observed-values-of-the-two-modes-is-a-key-of-their-table', ctx, keys, axioms=b2_AX, mode='ematch')
        U.post('every-key-is-a-pair-of-observed-values-and-holds-zero-or-the-conditional-mean-minus-f0-and-the-first-order-terms', ctx, vals, axioms=b2_AX, mode='ematch')
        cnt = XB2.b2_ccnt2(ICOL[kk1], xx1, ICOL[kk2], xx2, N)
        entry = XAN.T2VAL(tab)[xx1][xx2]
        U.post('non-empty-case: (entry + f0 + f1[k1][x1] + f1[k2][x2]) * count = sum-of-y-over-the-samples-that-carry-the-pair',
               [cnt >= 1, entry == b2_value(y, ICOL, N, f0, F1, kk1, xx1, kk2, xx2)],
               (entry + f0 + F1[kk1][xx1] + F1[kk2][xx2]) * z3.ToReal(cnt) == XB2.b2_csum2(y, ICOL[kk1], xx1, ICOL[kk2], xx2, N), qf=True,
               extra=[z3.Implies(cnt >= 1, XB2.b2_cmean2(y, ICOL[kk1], xx1, ICOL[kk2], xx2, N) * z3.ToReal(cnt) == XB2.b2_csum2(y, ICOL[kk1], xx1, ICOL[kk2], xx2, N))])
        U.canary('canary-no-keys', ctx + [0 <= jj1, jj1 < dml(kk1), 0 <= jj2, jj2 < dml(kk2)], z3.Not(XAN.T2DOM(tab)[dmv(kk1)[jj1]][dmv(kk2)[jj2]]), axioms=b2_AX)
        U.canary('canary-entries-are-zero', ctx + [XAN.T2DOM(tab)[xx1][xx2]], entry == 0, axioms=b2_AX)
        U.canary('canary-entries-are-never-zero', ctx + [XAN.T2DOM(tab)[xx1][xx2]], entry != 0, axioms=b2_AX)
        U.canary('canary-no-tables', p, F.n == 0, axioms=b2_AX)
        U.canary('canary-cache-stays-empty', list(p.pc) + [d >= 2, dml(0) >= 1, dml(1) >= 1], z3.Not(c.has[2][0][dmv(0)[0]]), axioms=b2_AX)


# ----------------------------------------------------------------------------------------------
# Hand-made mutants (MUT_BASE=/tmp/base tools/mut.sh anova.py '<sed>' anova.ANOVA.build_2) and the named obligation that reports each.
# R abbreviates the sed address '/def build_2/,/def calc(/' that restricts the edit to build_2.
#
# cache of masks (C10)
#   R s/cache\[k1, x1\] = idx1/cache[k2, x1] = idx1/            (wrong mode)       inv-keep loop3.cached-masks-are-the-masks-of-their-(mode, value)-keys, loop3.every-key-holds-..(current)
#   R s/cache\[k1, x1\]/cache[x1]/                               (value only)       inv-keep loop3.cached-masks-are-the-masks-of-their-(mode, value)-keys
#   R s/cache\[k2, x2\] = idx2/cache[k2, x2] = idx1/            (wrong mask)       inv-keep loop3.cached-masks-are-..
#   R s/idx2 = cache\[k2, x2\]/idx2 = cache[k1, x2]/            (wrong lookup)     inv-keep loop3.every-key-holds-zero-or-the-conditional-mean-minus-the-lower-order-terms(current)
#   R s/idx2 = I_trn\[:, k2\] == x2/idx2 = I_trn[:, k1] == x2/                     inv-keep loop3.cached-masks-are-.., loop3.every-key-holds-..(current)
#   /self.f2.append(f2_curr)/a\        self.cache = cache         (cache kept on the object)   post f2-is-a-new-list-and-no-other-attribute-is-written (refuted)
# values
#   R s/- self.f1\[k2\]\[x2\]/+ self.f1[k2][x2]/                                  inv-keep loop3.every-key-holds-..(current)
#   R s/np.mean(y_trn\[idx\]) - self.f0/np.mean(y_trn[idx])/                       inv-keep loop3.every-key-holds-..(current)
#   R s/if idx.sum() == 0:/if idx.sum() != 0:/                                      safety mean-of-a-non-empty-selection, inv-keep loop3.every-key-holds-..(current)
#   R s/value = 0\./value = 1./                                                     inv-keep loop3.every-key-holds-..(current)
#   R s/idx = idx1 & idx2/idx = idx1 \& idx1/                                       inv-keep loop3.every-key-holds-..(current)
#   R s/f2_curr\[x1, x2\] = value/f2_curr[x2, x1] = value/                         inv-keep loop3.processed-values-of-the-current-row-are-keys, loop3.every-key-holds-..(current)
# pairs of modes / storage order
#   R s/start=k1+1)/start=k1)/                                                      inv-init loop2.modes-in-range, safety key-present, inv-keep loop3 / loop2 / loop1 (keys, values)
#   R s/enumerate(self.domain\[k1+1:\], start=k1+1)/enumerate(self.domain[k1:], start=k1)/     inv-init loop2.modes-in-range, inv-keep loop1.every-..(kept), loop0.one-table-per-processed-pair
#   R s/enumerate(self.domain\[:-1\])/enumerate(self.domain[:-2])/                 safety slice-in-range, post number-of-tables-is-d(d-1)/2 (refuted), position-in-range, the two table posts
#   R s/        self.f2 = \[\]/        pass/                     (not rebuilt)      inv-init loop0.one-table-per-processed-pair (+ two more), post f2-is-a-new-list-.. (refuted), post constant-term-..-untouched (refuted)
# quiet (equivalent, everything proved): enumerate(self.domain) for enumerate(self.domain[:-1]); idx2 & idx1; cache = {}; 0 == idx.sum(); the two f1 terms
#   subtracted in the other order; y_trn[idx].mean(); range-based loops `for k1 in range(len(self.domain) - 1): dm1 = self.domain[k1]` (both levels);
#   no cache for idx1 (`idx1 = I_trn[:, k1] == x1` only).
# undecided (Unsupported / ContractMismatch): `if (k1, x1) in cache:` instead of try / except; `except (KeyError, IndexError):`; idx1 | idx2; a mask `!=`
#   stored into the cache; `for x2 in dm2[::-1]`; y_trn[idx].sum() / idx.sum(); self.f2.append moved out of the loop over k2 (unbound name).


# ==================================================================================================
# SECTION sample_rand_poi / cdf_confidence / cross_act
# ==================================================================================================
"""Sidecar contracts for sample.sample_rand_poi (C14 / C10), stat.cdf_confidence (C18 / C10) and the control tier of
cross_act.cross_act with its two generator-carrying helpers _inter_update / _amen_z (C10).
Model-table entries: ttvc/mx_rest.py (all gated by `ex.rest_sp = True`)."""
import z3
from ttvc.units import unit
from ttvc.symex import VOpt, VStr, VRec, VSeq, VArr, VFunc, VTuple, VRef, VList, VSym, NONE, Z
from ttvc import models as M, theory as T, pt as PT, rnd as R
from ttvc import mx_misc as XM
from ttvc import mx_rest as XSP
from contracts import spec as S, misc as CM

sp_kk = z3.Int('rest_sp_kk')
sp_tt = z3.Int('rest_sp_tt')


# ----------------------------------------------------------------------------------------------
# sample.sample_rand_poi  (C14: "all samplers return ... arrays of the requested shape inside the ... bounds" - here the box [a, b];
#                          C10: "given a generator object it draws from that object only", same seed -> same sequence of draws)
#
# Proved for every d >= 1, limits a, b of length d (lists of floats or float vectors; NO order between a_k and b_k is assumed),
# m with int(m) >= 0 (int or float, truncated), seed None / int / Generator object:
#   * the result is the float matrix of shape (int(m), d), one row per point;
#   * X[t, k] lies in [a_k, b_k] whenever a_k <= b_k (model-table fact about Generator.uniform, cf. mx_misc.method4);
#   * the generator is obtained by ONE call _rand(seed) (call-site contract contracts.misc.logging_rand, unit utils._rand) and a
#     Generator object is used as it is; column k is draw number k of that generator: uniform(a_k, b_k, int(m)) - exactly d draws
#     in the order of the dimensions, so the sequence of draws is a function of the arguments alone (C10);
#   * a and b are not modified.
# Not covered: the distribution (uniformity / independence: bounded suite C14), limit lists of Python ints (same under A-REAL),
# the half-open upper end of uniform, a_k > b_k (NumPy leaves it undefined; nothing is claimed for such a column but shape and order
# of the draws), b longer than a (the code silently ignores the tail; here len(b) = len(a) is a precondition).

def _sp_rand_poi_unit(U, akind, mkind, skind):
    d, db = z3.Ints('d db')
    aarr, barr = z3.Const('a', XM.RA), z3.Const('b', XM.RA)
    fn = U.func('sample', 'sample_rand_poi')
    ex = U.executor(fn, callees={'utils._rand': CM.logging_rand})
    ex.rest_sp = True
    st = U.state()
    if akind == 'list':
        aval = st.alloc(VSeq(aarr, d, lambda t: t, tag='real'))
        bval = st.alloc(VSeq(barr, db, lambda t: t, tag='real'))
    else:
        aval, bval = XM.rvec(d, aarr), XM.rvec(db, barr)
    m0 = z3.Int('m') if mkind == 'int' else z3.Real('m')
    mi = m0 if mkind == 'int' else CM.trunc(m0)
    seed = {'int': z3.Int('seed'), 'none': NONE, 'generator': R.VGen('caller')}[skind]
    st.vars.update(a=aval, b=bval, m=m0, seed=seed)
    res = U.run(ex, st, pre=[d >= 1, db == d, mi >= 0])
    U.assumed.append('utils._rand (unit utils._rand)')
    U.cover('precondition-satisfiable', U.pre)
    for p, o in res:
        if o.kind != 'return':
            U.post('no-exception', p, False)
            continue
        rcalls, log = p.ghost.get('randcalls', []), p.ghost.get('drawlog', [])
        U.post('seed-goes-through-_rand-exactly-once', p, z3.BoolVal(len(rcalls) == 1 and rcalls[0][0] is seed))
        X = p.deref(o.value)
        ok = isinstance(X, VArr) and X.ndim == 2 and X.tag == 'rest_sp_fmat'
        U.post('result-is-the-matrix-of-the-drawn-coordinates', p, z3.BoolVal(ok))
        U.post('one-family-of-draws: one per dimension', p, z3.BoolVal(len(log) == 1 and 'family' in log[0]))
        if not (ok and len(rcalls) == 1 and len(log) == 1 and 'family' in log[0]):
            continue
        g, dr = rcalls[0][1], log[0]
        j, cnt = dr['family']
        if skind == 'generator':
            U.post('a-generator-object-is-used-as-it-is', p, z3.BoolVal(g is seed))
        U.post('float-array-of-shape-(int(m),d), one row per point', p, z3.And(z3.BoolVal(X.dtype == 'f' and X.transposed), Z(X.shape[0]) == mi, Z(X.shape[1]) == d))
        if not X.transposed:
            continue
        ent = XSP.sp_fmat_entry(X, sp_tt, sp_kk)
        inside = z3.And(0 <= sp_tt, sp_tt < mi, 0 <= sp_kk, sp_kk < d)
        U.post('every-coordinate-lies-between-its-limits: a_k <= X[t,k] <= b_k', p,
               z3.Implies(z3.And(inside, aarr[sp_kk] <= barr[sp_kk]), z3.And(aarr[sp_kk] <= ent, ent <= barr[sp_kk])))
        U.post('the-draws-come-from-the-generator-returned-by-_rand', p, z3.BoolVal(dr['gen'] is g))
        U.post('column-k-is-draw-number-k: uniform(a_k, b_k, int(m))', p,
               z3.And(z3.BoolVal(dr['method'] == 'uniform' and X.rows is dr['out'] and len(dr['shape']) == 1),
                      cnt == d, Z(dr['shape'][0]) == mi,
                      z3.Implies(z3.And(0 <= sp_kk, sp_kk < d),
                                 z3.And(z3.substitute(dr['idx'], (j, sp_kk)) == sp_kk, z3.substitute(dr['params'][0], (j, sp_kk)) == aarr[sp_kk],
                                        z3.substitute(dr['params'][1], (j, sp_kk)) == barr[sp_kk]))))
        U.post('exactly-d-draws', p, Z(p.ghost.get('ndraw', z3.IntVal(0))) == d)
        if akind == 'list':
            U.post('argument-lists-are-not-modified', p, z3.BoolVal(p.heap[aval.oid].arr is aarr and p.heap[aval.oid].n is d
                                                                    and p.heap[bval.oid].arr is barr and p.heap[bval.oid].n is db))
        else:
            U.post('argument-arrays-are-not-rebound-or-stored-into', p, z3.BoolVal(p.vars.get('a') is aval and p.vars.get('b') is bval))
        U.canary('canary-all-coordinates-equal-the-lower-limit', p, z3.Implies(inside, ent == aarr[sp_kk]))
        U.canary('canary-no-points', p, mi == 0)


for _sp_ak, _sp_mk, _sp_sk in (('list', 'int', 'int'), ('list', 'float', 'none'), ('array', 'int', 'generator'), ('list', 'int', 'generator'),
                               ('array', 'float', 'int')):
    def _sp_mk_unit(ak=_sp_ak, mk=_sp_mk, sk=_sp_sk):
        @unit(f'sample.sample_rand_poi.{ak}.m_{mk}.seed_{sk}', props=('C14', 'C10'))
        def u(U):
            _sp_rand_poi_unit(U, ak, mk, sk)
    _sp_mk_unit()


# ----------------------------------------------------------------------------------------------
# stat.cdf_confidence  (C18 anchors teneva/stat.py, the empirical-CDF helpers;  C10: "functions without randomness return
#                       bit-identical results on repeated calls" - here: no generator is created or used)
#
# The Dvoretzky-Kiefer-Wolfowitz band exactly as the docstring / code gives it, in the pointwise tier (ttvc/pt.py: the arrays are
# observed at one arbitrary position i, 0 <= i < m = len(x); all array operations of the function are elementwise array-with-number
# operations, so the position is the same in every array).  Proved for every 1-D float array x of length m >= 1 and
#   * every real alpha with 0 < alpha <= 2                      (unit ..alpha_real),
#   * the default alpha (read from the signature: 0.05)          (unit ..alpha_default):
#   - two arrays of the length of x;  lower[i] = clip(x[i] - eps, 0, 1),  upper[i] = clip(x[i] + eps, 0, 1);
#   - eps >= 0 and eps^2 * (2 m) = ln(2 / alpha)  (the argument of the logarithm is 2 / alpha; 40 for the default);
#   - 0 <= lower[i] <= upper[i] <= 1;  lower[i] <= x[i] <= upper[i] whenever 0 <= x[i] <= 1 (an empirical CDF value);
#     upper[i] - lower[i] <= 2 eps, with equality where no clipping happens (eps <= x[i] <= 1 - eps);
#   - no generator is created or used (nothing is drawn); x is not rebound or stored into.
# What makes the square root defined is made explicit as preconditions / safety obligations: alpha != 0 (division), 2 / alpha > 0
# (logarithm; with the first: alpha > 0), 2 m != 0 (division: m >= 1), ln(2 / alpha) / (2 m) >= 0 (root: 2 / alpha >= 1, i.e.
# alpha <= 2, by the sign of ln).  That alpha <= 2 is also NECESSARY (ln < 0 below 1) is not formalised: ln is uninterpreted with
# ln(1) = 0, monotonicity and its sign only (group 'rest_sp_ln', spot-checked against np.log); the model of np.log hands out the
# instances of these axioms for its argument, so every obligation of this unit is quantifier free (non-linear real arithmetic).
# Not covered: the value of ln(2 / alpha) itself, rounding (A-REAL), NaN entries of x, 2-D x, alpha given as an array,
# the statistical meaning of the band (coverage 1 - alpha).

def sp_clip_spec(v, lo, hi):
    """clip as the property states it (clamp to [lo, hi], lo <= hi); np.clip itself is modelled as minimum(maximum(v, lo), hi)"""
    return z3.If(v < lo, lo, z3.If(v > hi, hi, v))


def _sp_mentions_decl(t, decl):
    stack, seen = [t], set()
    while stack:
        u = stack.pop()
        if u.get_id() in seen:
            continue
        seen.add(u.get_id())
        if z3.is_app(u):
            if u.decl().eq(decl):
                return True
            stack.extend(u.children())
    return False


def _sp_cdf_conf_unit(U, akind):
    fn = U.func('stat', 'cdf_confidence')
    ex = U.executor(fn, callees={'np.log': XSP.sp_m_log, 'np.clip': XSP.sp_m_clip, 'utils._rand': CM.logging_rand})
    ex.rest_sp = True
    st = U.state()
    N = z3.Int('m')
    xe = z3.Real('x_i')
    x = PT.pt((N,), xe)
    if akind == 'real':
        alpha = z3.Real('alpha')
        pre = [N >= 1, alpha > 0, alpha <= 2]
    else:
        alpha = ex.ev(fn.defaults['alpha'], st)              # the default expression of the signature
        pre = [N >= 1]
    st.vars.update(x=x, alpha=alpha)
    res = U.run(ex, st, pre=pre)
    U.cover('precondition-satisfiable', U.pre)
    for p, o in res:
        if o.kind != 'return':
            U.post('no-exception', p, False)
            continue
        v = o.value
        ok = isinstance(v, VTuple) and len(v.items) == 2 and all(PT.is_pt(p.deref(w)) and p.deref(w).ndim == 1 and p.deref(w).dtype == 'f' for w in v.items)
        U.post('returns-a-pair-of-1-D-float-arrays', p, z3.BoolVal(bool(ok)))
        eps, lns = p.vars['eps'], p.ghost.get('rest_sp_ln', [])          # (a renamed local: KeyError -> ContractMismatch, undecided)
        ok2 = z3.is_expr(eps) and eps.sort() == z3.RealSort() and len(lns) == 1
        U.post('eps-is-a-number-computed-with-one-logarithm', p, z3.BoolVal(bool(ok2)))
        if not (ok and ok2):
            continue
        if _sp_mentions_decl(eps, XM.powf):
            # `(..) ** 0.5` instead of np.sqrt: mx_misc.power abstracts a general power by the uninterpreted powf (no facts) - the
            # contract cannot judge such a rewrite: undecided, not a violation
            raise M.ContractMismatch('cdf_confidence: eps is computed with a general power (x ** p), not with np.sqrt')
        lo, up = [p.deref(w) for w in v.items]
        U.post('both-arrays-have-the-length-of-x', p, z3.And(Z(lo.shape[0]) == N, Z(up.shape[0]) == N))
        if akind == 'real':
            U.post('the-logarithm-is-taken-of-2/alpha', p, z3.And(lns[0] * alpha == 2, lns[0] >= 1))
        else:
            U.post('default-alpha-is-0.05-and-the-logarithm-is-taken-of-2/alpha = 40', p, z3.And(z3.BoolVal(alpha == 0.05), lns[0] == Z(2. / 0.05), lns[0] == 40))
        L = XSP.sp_ln(lns[0])
        U.post('eps-is-the-non-negative-root: eps >= 0 and eps^2 * (2 m) = ln(2/alpha)', p, z3.And(eps >= 0, eps * eps * (2 * z3.ToReal(N)) == L), qf=True)
        U.post('lower[i] = clip(x[i] - eps, 0, 1)', p, lo.t == sp_clip_spec(xe - eps, 0, 1))
        U.post('upper[i] = clip(x[i] + eps, 0, 1)', p, up.t == sp_clip_spec(xe + eps, 0, 1))
        U.post('0 <= lower[i] <= upper[i] <= 1', p, z3.And(0 <= lo.t, lo.t <= up.t, up.t <= 1))
        U.post('the-band-contains-x[i] when 0 <= x[i] <= 1', p, z3.Implies(z3.And(0 <= xe, xe <= 1), z3.And(lo.t <= xe, xe <= up.t)))
        U.post('band-width <= 2 eps, = 2 eps where nothing is clipped', p,
               z3.And(up.t - lo.t <= 2 * eps, z3.Implies(z3.And(eps <= xe, xe <= 1 - eps), up.t - lo.t == 2 * eps)))
        U.post('no-generator-is-created-or-used', p, z3.BoolVal(not p.ghost.get('randcalls') and not p.ghost.get('drawlog')))
        U.post('x-is-not-rebound-or-stored-into', p, z3.BoolVal(p.vars.get('x') is x))
        U.cover('the-return-path-is-reachable (final path condition satisfiable)', p.pc)
        U.canary('canary-the-band-is-empty', p, lo.t == up.t)
        U.canary('canary-eps-is-zero', p, eps == 0)
        U.canary('canary-lower-is-never-clipped', p, lo.t == xe - eps)


for _sp_akind in ('real', 'default'):
    def _sp_mk_unit2(ak=_sp_akind):
        @unit(f'stat.cdf_confidence.alpha_{ak}', props=('C18', 'C10'))
        def u(U):
            _sp_cdf_conf_unit(U, ak)
    _sp_mk_unit2()


# ----------------------------------------------------------------------------------------------
# cross_act.cross_act, CONTROL TIER ONLY  (C10: "all random draws routed through that generator"; anchors teneva/cross_act.py)
#
# Lenient executor in the style of the control tier of cross.cross (contracts/cross.py): array contents are not interpreted, the
# results of the helpers (_inter_build, _inter_update, _func, _svd, _amen, _amen_z, _matrix_to_core, core_dot, core_dot_inv,
# accuracy) are opaque values about which NOTHING is assumed; the object array X and the interface arrays Rx .. Ryz are opaque.
# Proved for every d >= 2 (Y0 well-formed, D = 2 input tensors of length d), every nswp / e / r / dr / dr2 (dr > 0 and dr <= 0
# are both followed), seed None / int / Generator object, on every path through the initialisation loop and the sweep loop:
#   * _rand is called exactly once, with the seed argument itself, and never again inside a loop; a Generator object is used as
#     it is;
#   * every call of a helper that draws - tensors.rand (error tensor Z), _inter_update (both call sites: it draws a permutation
#     when z_rand is set), _amen_z (both call sites: it hands the generator on to core_qr_rand) - receives exactly that generator
#     object in its generator parameter (the position is read from the helper's real signature);
#   * the body of cross_act mentions neither np.random nor the module random (syntactic; needed because the lenient tier would
#     turn an unknown np.random.* call into an opaque value);
#   * control / index safety of the sweep: with the invariant "ltr: -1 <= i <= d-2, rtl: 1 <= i <= d" every access Y[i], Z[i],
#     Y[i +- 1] is inside the lists, which keep their d entries; the result is the working list Y (d cores), a different list
#     object than Y0 (fresh by the contract of orthogonalize), and the argument lists Y0 / X_list[k] are not modified.
# With the units cross_act._inter_update.* and cross_act._amen_z.* below (the helpers draw from the generator they are handed and
# from nothing else) and core.core_qr_rand.* / tensors.rand.*.seed_generator (contracts/core_more.py, misc.py) this closes the
# C10 chain for cross_act.
# NOT covered (bounded suites C10 / C09): everything about values and shapes (the helpers' preconditions - e.g. that the tensor
# returned by tensors.rand for an ndarray n is well-formed before it is orthogonalised - are NOT discharged in this tier: for the
# error tensor only "tensors.rand / orthogonalize return a list with one core per mode" is used), termination of the sweep loop,
# the objective f (A-CB: pure), the copies `G.copy()` of the input cores, the interface arrays' index ranges (opaque), D != 2.

def _sp_arg(args, kwargs, params, name, default=NONE):
    k = params.index(name)
    if k < len(args):
        return args[k]
    return kwargs.get(name, default)


def _sp_opaque(name, n=None):
    def h(ex, s, a, k, node):
        if n is None:
            return M.VOpaque(name)
        return VTuple([M.VOpaque(f'{name}{i}') for i in range(n)])
    return h


def _sp_mentions_global_rng(fn):
    import ast
    for x in ast.walk(fn.node):
        if isinstance(x, ast.Attribute) and ast.unparse(x).startswith(('np.random', 'numpy.random', 'random.')):
            return True
        if isinstance(x, ast.Name) and x.id == 'random':
            return True
    return False


def _sp_gen_of(s):
    rc = s.ghost.get('randcalls', [])
    return rc[0][1] if len(rc) == 1 else None


def _sp_cross_act_unit(U, skind):
    fn = U.func('cross_act', 'cross_act')
    sigs = {q: U.func(m_, q).params for m_, q in (('tensors', 'rand'), ('cross_act', '_inter_update'), ('cross_act', '_amen_z'))}
    st = U.state()
    d = z3.Int('d')
    X1, A1, _ = S.tt_param(st, 'X1', d)
    X2, A2, _ = S.tt_param(st, 'X2', d)
    Y0, B0, _ = S.tt_param(st, 'Y0', d)
    seed = {'int': z3.Int('seed'), 'none': NONE, 'generator': R.VGen('caller')}[skind]
    sites = []

    def handed(ex, s, val, who, node):
        g = _sp_gen_of(s)          # recorded per call (every path through every call site); reported below as one obligation per helper
        sites.append((who, getattr(node, 'lineno', 0), g is not None and val is g))

    def c_rand(ex, s, a, k, node):
        handed(ex, s, _sp_arg(a, k, sigs['rand'], 'seed'), 'tensors.rand', node)
        n = s.deref(a[0])
        if not (isinstance(n, VArr) and n.ndim == 1):
            raise M.ContractMismatch('cross_act: tensors.rand is not called with the shape vector')
        ref = s.alloc(VSeq(ex.fresh('Zrand', T.TT), Z(n.shape[0]), M.mk_core, 'core'))     # one core per mode (tensors.rand: post d-cores); nothing else
        s.ghost['rest_sp_err_oid'] = ref.oid
        return ref

    def c_orth(ex, s, a, k, node):
        if isinstance(a[0], VRef) and a[0].oid == s.ghost.get('rest_sp_err_oid'):
            v = s.deref(a[0])        # error tensor: control tier, precondition (well-formedness) not discharged; a list of the same length
            return s.alloc(VSeq(ex.fresh('Zorth', T.TT), v.n, M.mk_core, 'core'))
        return M.CALLEES['transformation.orthogonalize'](ex, s, a, k, node)

    def c_inter_update(ex, s, a, k, node):
        handed(ex, s, _sp_arg(a, k, sigs['_inter_update'], 'rand'), '_inter_update', node)
        return _sp_opaque('iu', 5)(ex, s, a, k, node)

    def c_amen_z(ex, s, a, k, node):
        handed(ex, s, _sp_arg(a, k, sigs['_amen_z'], 'rand'), '_amen_z', node)
        return M.VOpaque('amen_z')

    callees = {'utils._rand': CM.logging_rand, 'tensors.rand': c_rand, 'transformation.orthogonalize': c_orth,
               'cross_act._inter_build': _sp_opaque('R'), 'cross_act._inter_update': c_inter_update, 'cross_act._func': _sp_opaque('func'),
               'core.core_dot_inv': _sp_opaque('core_dot_inv'), 'core.core_dot': _sp_opaque('core_dot'),
               'act_two.accuracy': lambda ex, s, a, k, node: ex.fresh_real('acc'),
               'cross_act._svd': _sp_opaque('svd', 3), 'cross_act._log': lambda ex, s, a, k, node: NONE,
               'cross_act._amen_z': c_amen_z, 'cross_act._amen': _sp_opaque('amen', 2), 'cross_act._matrix_to_core': _sp_opaque('core')}

    def lists(s):
        Ys, Zs = s.deref(s.vars['Y']), s.deref(s.vars['Z'])
        if not (isinstance(Ys, VSeq) and isinstance(Zs, VSeq)):
            raise M.ContractMismatch('cross_act: Y / Z are not lists')
        return Ys, Zs

    def inv_init(ex, s, j):
        Ys, Zs = lists(s)
        return [('solution-tensor-keeps-d-cores', Ys.n == d), ('error-tensor-keeps-d-entries', Zs.n == d)]

    def inv_sweep(ex, s, j):
        Ys, Zs = lists(s)
        i, ltr = s.vars['i'], s.vars['ltr']
        if not (M.is_intsort(i) and M.is_boolv(ltr)):
            raise M.ContractMismatch('cross_act: i / ltr are not the position and direction of the sweep')
        return [('solution-tensor-keeps-d-cores', Ys.n == d), ('error-tensor-keeps-d-entries', Zs.n == d),
                ('position-before-the-step: ltr -1..d-2, rtl 1..d', z3.If(Z(ltr), z3.And(-1 <= Z(i), Z(i) <= d - 2), z3.And(1 <= Z(i), Z(i) <= d)))]

    in_loops = []

    def body_end(ex, s, o, j):
        in_loops.append(len(s.ghost.get('randcalls', [])) == 1)

    ex = U.executor(fn, loops={0: {'inv': inv_init, 'body_end': body_end}, 1: {'inv': inv_sweep, 'body_end': body_end}}, callees=callees,
                    axioms=T.axioms('shape'), lenient=True)
    if ex.nloops != 2:
        raise M.ContractMismatch(f'cross_act(): expected 2 loops (initialisation of the interfaces, sweep), found {ex.nloops}')
    f = VFunc('f', lambda ex_, s, a, k, node: M.VOpaque('f(X)'))
    xl = st.alloc(VList([X1, X2]))
    st.vars.update(f=f, X_list=xl, Y0=Y0, e=z3.Real('e'), nswp=z3.Int('nswp'), r=z3.Int('r'), dr=z3.Int('dr'), dr2=z3.Int('dr2'), seed=seed,
                   log=False, object=M.TypeVal('object'))              # `dtype=object`: the builtin type, bound like a local name
    res = U.run(ex, st, pre=[d >= 2, T.wf(B0, d)])
    U.assumed.extend(['utils._rand (unit utils._rand)', 'transformation.orthogonalize (unit transformation.orthogonalize)', 'props.shape (unit props.shape)',
                      'tensors.rand: one core per mode (units tensors.rand.*)'])
    U.cover('precondition-satisfiable', U.pre, axioms=T.axioms('shape'))
    cnt = {w: len({ln for (w2, ln, _) in sites if w2 == w}) for w in ('tensors.rand', '_inter_update', '_amen_z')}
    if cnt != {'tensors.rand': 1, '_inter_update': 2, '_amen_z': 2}:
        raise M.ContractMismatch(f'cross_act(): the call sites of the drawing helpers changed: {cnt}')
    for w, what in (('tensors.rand', 'seed'), ('_inter_update', 'rand'), ('_amen_z', 'rand')):
        U.post(f'every-call-of-{w}-is-handed-the-generator-returned-by-_rand(seed) as its `{what}`', [],
               z3.BoolVal(all(ok for (w2, _, ok) in sites if w2 == w)))
    U.post('no-further-_rand-call-inside-a-loop', [], z3.BoolVal(len(in_loops) >= 2 and all(in_loops)))
    U.post('cross_act-does-not-mention-np.random-or-random', [], z3.BoolVal(not _sp_mentions_global_rng(fn)))
    # (obligations that are decided on the Python side - object identities, counts - carry no hypotheses: a failure is refuted at once)
    nret = 0
    for p, o in res:
        if o.kind != 'return':
            U.post('only-returns', p, False, axioms=ex.axioms)
            continue
        nret += 1
        rcalls = p.ghost.get('randcalls', [])
        U.post('seed-goes-through-_rand-exactly-once', [], z3.BoolVal(len(rcalls) == 1 and rcalls[0][0] is seed))
        if skind == 'generator' and len(rcalls) == 1:
            U.post('a-generator-object-is-used-as-it-is', [], z3.BoolVal(rcalls[0][1] is seed))
        U.post('the-generator-variable-still-holds-that-generator', [], z3.BoolVal(len(rcalls) == 1 and p.vars['rand'] is rcalls[0][1]))
        Ys = p.deref(o.value)
        U.post('returns-the-working-list-of-d-cores-not-Y0', p,
               z3.And(z3.BoolVal(isinstance(o.value, VRef) and o.value.oid != Y0.oid and isinstance(Ys, VSeq) and Ys.tag == 'core'
                                 and o.value.oid == p.vars['Y'].oid), Ys.n == d), axioms=ex.axioms)
        U.post('argument-lists-are-not-modified', [],
               z3.BoolVal(p.heap[Y0.oid].arr is B0 and p.heap[X1.oid].arr is A1 and p.heap[X2.oid].arr is A2 and p.heap[Y0.oid].n is d
                          and len(p.heap[xl.oid].items) == 2 and p.heap[xl.oid].items[0] is X1 and p.heap[xl.oid].items[1] is X2))
        U.canary('canary-return-path-is-contradictory', p, False, axioms=ex.axioms)
    U.post('both-exits-of-the-sweep-loop-are-reached (budget and convergence), with and without the error tensor', [], z3.BoolVal(nret >= 4))


for _sp_sk in ('int', 'none', 'generator'):
    def _sp_mk_unit3(sk=_sp_sk):
        @unit(f'cross_act.cross_act.control.seed_{sk}', props=('C10',))
        def u(U):
            _sp_cross_act_unit(U, sk)
    _sp_mk_unit3()


# ----------------------------------------------------------------------------------------------
# cross_act._inter_update / cross_act._amen_z, CONTROL TIER  (C10: the two helpers of cross_act that are handed the generator)
#
# Lenient executor; the results of core_dot_maxvol / core_dot_inv / _svd / _reshape / core_qr_rand are opaque, their preconditions are
# not discharged here (shape tier: units core.core_dot_maxvol.*, core.core_qr_rand.*).  Proved:
#   _inter_update (Gz None / a core, z_rand False / True, both directions):
#     * with z_rand and an error core Gz: exactly ONE draw, taken from the generator parameter `rand`: permutation(r1*n) for ltr,
#       permutation(n*r2) for rtl (products in the engine's abstraction mulI), and the row selection handed to core_dot_maxvol for
#       Gz consists of the first r2 (ltr) / r1 (rtl) entries of that permutation (precondition: that many entries exist, r2 <= r1*n
#       resp. r1 <= n*r2 - the engine's slice model does not clip);  the first selection (for Gy) is left to maxvol (ind = None);
#     * without z_rand or without Gz: nothing is drawn;   * _rand is never called; np.random / random are not mentioned; 5 results.
#   _amen_z (is_dz False / True, both directions, rand a Generator object / the default None):
#     * not is_dz: exactly one call core_qr_rand(G, dr2, ltr, rand) - its `seed` parameter is the object that came in as `rand`
#       (a Generator: the caller's generator is used for the random rows; None: core_qr_rand seeds itself - that is why cross_act
#       has to hand the generator over, unit cross_act.cross_act.control.*), `m` is dr2, `ltr` is ltr;   * is_dz: no such call;
#     * _amen_z itself draws nothing, never calls _rand and does not mention np.random / random.
# NOT covered: all values and shapes (bounded suites), which rows maxvol selects.

def _sp_inter_update_unit(U, gz, z_rand):
    fn = U.func('cross_act', '_inter_update')
    st = U.state()
    gen = R.VGen('param')
    ltr = z3.Bool('ltr')
    Gy, _ = S.core_param('Gy')
    Gz, Gzt = (NONE, None) if gz == 'none' else S.core_param('Gz')
    Ry0 = M.VOpaque('Ry[i]')

    def c_maxvol(ex, s, a, k, node):          # logged in the ghost state: per path, aborted replays of a statement leave no trace
        s.ghost['rest_sp_maxvol'] = s.ghost.get('rest_sp_maxvol', []) + [(list(a), dict(k))]
        return VTuple([M.VOpaque('R'), M.VOpaque('ind')])

    ex = U.executor(fn, callees={'core.core_dot_maxvol': c_maxvol, 'utils._rand': CM.logging_rand}, axioms=T.axioms('shape', 'mulI'), lenient=True)
    ex.rest_sp = True
    st.vars.update(Gx=M.VOpaque('X[i, :]'), Gy=Gy, Gz=Gz, Rx=M.VOpaque('Rx[i, :]'), Ry=Ry0, Rz=M.VOpaque('Rz[i]'),
                   Rxz=M.VOpaque('Rxz[i, :]'), Ryz=M.VOpaque('Ryz[i]'), rand=gen, z_rand=z_rand, ltr=ltr)
    pre = []
    if Gzt is not None:
        r1, n, r2 = T.d0(Gzt), T.d1(Gzt), T.d2(Gzt)
        pre = [r1 >= 1, n >= 1, r2 >= 1]
        if z_rand:
            pre.append(z3.If(ltr, r2 <= T.mul_canon(r1, n), r1 <= T.mul_canon(n, r2)))
    res = U.run(ex, st, pre=pre)
    U.cover('precondition-satisfiable', U.pre, axioms=ex.axioms)
    # (obligations that are decided on the Python side - object identities, counts - carry no hypotheses: a failure is refuted at once)
    U.post('_inter_update-does-not-mention-np.random-or-random', [], z3.BoolVal(not _sp_mentions_global_rng(fn)))
    nret = 0
    for p, o in res:
        if o.kind != 'return':
            U.post('only-returns', p, False, axioms=ex.axioms)
            continue
        nret += 1
        log, calls = p.ghost.get('drawlog', []), p.ghost.get('rest_sp_maxvol', [])
        U.post('_rand-is-never-called', [], z3.BoolVal(not p.ghost.get('randcalls')))
        U.post('returns-the-five-interface-updates', [], z3.BoolVal(isinstance(o.value, VTuple) and len(o.value.items) == 5))
        first = [c for c in calls if len(c[0]) >= 3 and c[0][0] is Gy and c[0][1] is Ry0]
        U.post('the-first-selection-is-left-to-maxvol (ind = None)', [], z3.BoolVal(len(first) == 1 and first[0][0][2] is NONE))
        forgz = [c for c in calls if len(c[0]) >= 3 and c[0][0] is Gz] if Gzt is not None else []
        if Gzt is not None:
            U.post('one-maxvol-call-for-the-error-core', [], z3.BoolVal(len(forgz) == 1))
        if not (z_rand and Gzt is not None):
            U.post('nothing-is-drawn', [], z3.BoolVal(len(log) == 0))
            if len(forgz) == 1:
                U.post('without-z_rand-the-selection-for-Gz-is-left-to-maxvol (ind = None)', [], z3.BoolVal(forgz[0][0][2] is NONE))
            continue
        U.post('exactly-one-draw-from-the-generator-parameter: a permutation', [],
               z3.BoolVal(len(log) == 1 and log[0]['gen'] is gen and log[0]['method'] == 'permutation' and len(log[0]['shape']) == 1))
        if not (len(log) == 1 and len(log[0]['shape']) == 1 and len(forgz) == 1):
            continue
        dr, iv = log[0], forgz[0][0][2]
        U.post('the-permutation-runs-over-the-rows-of-the-unfolding: r1*n (ltr) / n*r2 (rtl)', p,
               Z(dr['shape'][0]) == z3.If(ltr, T.mul_canon(r1, n), T.mul_canon(n, r2)), qf=True)
        ok = isinstance(iv, VArr) and iv.ndim == 1 and iv.tag == 'ivec' and iv.t is not None
        U.post('with-z_rand-the-selection-for-Gz-is-an-index-vector-cut-from-the-permutation', [], z3.BoolVal(bool(ok)))
        if ok:
            U.post('the-selection-for-Gz-is-the-first-r2 (ltr) / r1 (rtl) entries-of-the-permutation', p,
                   z3.And(Z(iv.shape[0]) == z3.If(ltr, r2, r1), z3.Implies(z3.And(0 <= sp_kk, sp_kk < Z(iv.shape[0])), iv.t[sp_kk] == dr['out'][sp_kk])),
                   axioms=ex.axioms, mode='ematch')
            U.post('the-selected-rows-exist-and-are-pairwise-distinct', p,
                   z3.Implies(z3.And(0 <= sp_kk, sp_kk < sp_tt, sp_tt < Z(iv.shape[0])),
                              z3.And(0 <= iv.t[sp_kk], iv.t[sp_kk] < Z(dr['shape'][0]), iv.t[sp_kk] != iv.t[sp_tt])), axioms=ex.axioms, mode='ematch')
            U.canary('canary-the-selection-is-empty', p, Z(iv.shape[0]) == 0, axioms=ex.axioms)
        U.canary('canary-return-path-is-contradictory', p, False, axioms=ex.axioms)
    U.post('every-case-returns', [], z3.BoolVal(nret >= 1))


for _sp_gz, _sp_zr in (('none', False), ('none', True), ('core', False), ('core', True)):
    def _sp_mk_unit4(gz=_sp_gz, zr=_sp_zr):
        @unit(f'cross_act._inter_update.Gz_{gz}.{"z_rand" if zr else "plain"}', props=('C10',))
        def u(U):
            _sp_inter_update_unit(U, gz, zr)
    _sp_mk_unit4()


def _sp_amen_z_unit(U, is_dz, rkind):
    fn = U.func('cross_act', '_amen_z')
    sig = U.func('core', 'core_qr_rand').params
    st = U.state()
    gen = R.VGen('param') if rkind == 'generator' else NONE
    ltr = z3.Bool('ltr')
    G, Gt = S.core_param('G')
    dG, dGt = S.core_param('dG')
    dr, dr2 = z3.Int('dr'), z3.Int('dr2')

    def c_qr_rand(ex, s, a, k, node):
        s.ghost['rest_sp_qr_rand'] = s.ghost.get('rest_sp_qr_rand', []) + [(list(a), dict(k))]
        return M.VOpaque('core_qr_rand')

    callees = {'core.core_qr_rand': c_qr_rand, 'utils._rand': CM.logging_rand, 'core.core_dot_inv': _sp_opaque('core_dot_inv'),
               'cross_act._svd': _sp_opaque('svd', 3), 'utils._reshape': _sp_opaque('reshaped')}
    ex = U.executor(fn, callees=callees, axioms=T.axioms('shape'), lenient=True)
    ex.rest_sp = True
    st.vars.update(G=G, dG=dG, R1=M.VOpaque('R1'), R2=M.VOpaque('R2'), dr=dr, dr2=dr2, is_dz=is_dz, ltr=ltr, rand=gen)
    same = [T.d0(Gt) == T.d0(dGt), T.d1(Gt) == T.d1(dGt), T.d2(Gt) == T.d2(dGt)]
    res = U.run(ex, st, pre=[] if is_dz else same)         # not is_dz: `G - dG` is formed before anything else (equal shapes required)
    U.cover('precondition-satisfiable', U.pre, axioms=ex.axioms)
    U.post('_amen_z-does-not-mention-np.random-or-random', [], z3.BoolVal(not _sp_mentions_global_rng(fn)))
    nret = 0
    for p, o in res:
        if o.kind != 'return':
            U.post('only-returns', p, False, axioms=ex.axioms)
            continue
        nret += 1
        calls = p.ghost.get('rest_sp_qr_rand', [])
        U.post('_rand-is-never-called-and-nothing-is-drawn-by-_amen_z-itself', [], z3.BoolVal(not p.ghost.get('randcalls') and not p.ghost.get('drawlog')))
        if is_dz:
            U.post('is_dz: core_qr_rand-is-not-called', [], z3.BoolVal(len(calls) == 0))
        else:
            U.post('not is_dz: exactly-one-call-of-core_qr_rand', [], z3.BoolVal(len(calls) == 1))
            for a, k in calls[:1]:
                sd, m_, l_ = [_sp_arg(a, k, sig, nm, None) for nm in ('seed', 'm', 'ltr')]
                U.post('core_qr_rand-is-handed-the-object-that-came-in-as-`rand` as its `seed`', [], z3.BoolVal(sd is gen))
                U.post('core_qr_rand-gets-dr2-random-rows-and-the-direction-of-the-sweep', [],
                       z3.And(z3.BoolVal(m_ is dr2), Z(l_) == ltr if l_ is not None and M.is_boolv(l_) else z3.BoolVal(False)))
        U.canary('canary-return-path-is-contradictory', p, False, axioms=ex.axioms)
    U.post('both-directions-return', [], z3.BoolVal(nret == 2))


for _sp_dz in (False, True):
    for _sp_rk in ('generator', 'none'):
        def _sp_mk_unit5(dz=_sp_dz, rk=_sp_rk):
            @unit(f'cross_act._amen_z.{"is_dz" if dz else "plain"}.rand_{rk}', props=('C10',))
            def u(U):
                _sp_amen_z_unit(U, dz, rk)
        _sp_mk_unit5()


# ==============================================================================================
# Hand-made mutants (MUT_BASE=/tmp/base tools/mut.sh <file> '<sed>' <unit>) and the NAMED obligation that reports each.
# "undecided" = Unsupported / ContractMismatch (exit 2); "quiet" = equivalent rewrite, everything still proved.
#
# sample.sample_rand_poi.*  (sample.py)
#   s/rand.uniform(a\[i\], b\[i\], int(m))/rand.uniform(b[i], a[i], int(m))/        post.column-k-is-draw-number-k: uniform(a_k, b_k, int(m)), post.every-coordinate-lies-between-its-limits (refuted)
#   s/return np.vstack(X).T$/return np.vstack(X)/                                     post.float-array-of-shape-(int(m),d), one row per point (refuted)
#   .. int(m)) -> .. int(m)+1)                                                         post.float-array-of-shape-(int(m),d).., post.column-k-is-draw-number-k..
#   for i in range(d) -> for i in range(d-1)                                           post.float-array-of-shape.., post.column-k-is-draw-number-k.., post.exactly-d-draws
#   b[i] -> b[0]                                                                       post.every-coordinate-lies-between-its-limits.., post.column-k-is-draw-number-k..
#   b[i] -> b[i+1]                                                                     safety.list-index-in-range / safety.array-index-in-range (+ the two posts above)
#   rand = teneva._rand(seed) -> rand = np.random.default_rng()                        post.seed-goes-through-_rand-exactly-once
#   _rand(seed) -> _rand()                                                             post.seed-goes-through-_rand-exactly-once, post.a-generator-object-is-used-as-it-is
#   _rand(seed) -> _rand(_rand(seed));  second _rand(seed) inside the comprehension    post.seed-goes-through-_rand-exactly-once
#   d = len(a); a[0] = 0.                                                              post.argument-lists-are-not-modified (+ limits / draw-parameter posts)
#   undecided: `rand = 0` and `teneva._rand(seed).uniform(..)` per element (generator per element: Unsupported by mx_rest.sp_listcomp);
#              rand.normal(..) (Generator.normal with a positional size is not modelled);  np.array(X).T;  explicit for-loop with append
#              (ContractMismatch: no invariant)
#   quiet (equivalent): uniform(a[i], b[i], size=int(m));  for i in range(len(b))  (len(b) = len(a) is a precondition)
# stat.cdf_confidence.*  (stat.py)
#   s|np.log(2. / alpha)|np.log(1. / alpha)|                                           safety.sqrt-of-nonnegative (alpha in (1, 2]), post.the-logarithm-is-taken-of-2/alpha (default: ..= 40)
#   s|np.log(2. / alpha)|np.log(alpha / 2.)|                                           safety.sqrt-of-nonnegative, post.the-logarithm-is-taken-of-2/alpha
#   lower / upper swapped in the return statement                                      post.lower[i] = clip(x[i] - eps, 0, 1), post.upper[i] = .., post.0 <= lower[i] <= upper[i] <= 1, ..
#   np.clip(x + eps, 0, 1) -> np.clip(x + eps, 0, 2)                                   post.upper[i] = clip(x[i] + eps, 0, 1), post.0 <= lower[i] <= upper[i] <= 1
#   np.clip(x - eps, 0, 1) -> (.., -1, 1) / (.., 0, 1.5)                               post.lower[i] = clip(x[i] - eps, 0, 1), post.0 <= lower[i] <= upper[i] <= 1
#   (2 * len(x)) -> (len(x))                                                           post.eps-is-the-non-negative-root: eps >= 0 and eps^2 * (2 m) = ln(2/alpha)
#   np.sqrt dropped                                                                    post.eps-is-the-non-negative-root..
#   x - eps -> x - 2 * eps                                                             post.lower[i] = clip(x[i] - eps, 0, 1), post.band-width <= 2 eps..
#   np.log -> np.log2                                                                  safety.sqrt-of-nonnegative, post.eps-is-a-number-computed-with-one-logarithm
#   alpha=0.05 -> alpha=0.5 in the signature                                           stat.cdf_confidence.alpha_default post.default-alpha-is-0.05-and-the-logarithm-is-taken-of-2/alpha = 40
#   undecided: np.minimum(np.maximum(..)) (not in the model table);  (..) ** 0.5 instead of np.sqrt (ContractMismatch: mx_misc.power gives the
#              fact-free powf);   quiet (equivalent): .. / 2 / len(x);  0.5 * np.log(..) / x.shape[0];  np.clip(-eps + x, 0., 1.);
#              lo = x - eps; lo[lo < 0] = 0; lo[lo > 1] = 1  (masked stores of the pointwise tier)
# cross_act.cross_act.control.*  (cross_act.py; control tier)
#   teneva.rand(n, dr, seed=rand) -> seed=seed  /  seed dropped                        post.every-call-of-tensors.rand-is-handed-the-generator-returned-by-_rand(seed) as its `seed`
#                                                                                      (seed=seed is equivalent for a Generator argument: quiet in ..seed_generator)
#   _amen_z(.., dr, dr2, False, ltr, rand) -> (.., ltr)  /  (.., dr, None, True, ltr, None)     post.every-call-of-_amen_z-is-handed-the-generator.. as its `rand`
#   _inter_update(.., Ryz[i], rand, z_rand=True, ..) -> None;  (.., rand, False, ltr) -> (.., teneva._rand(seed), False, ltr)
#                                                                                      post.every-call-of-_inter_update-is-handed-the-generator.. (+ post.no-further-_rand-call-inside-a-loop)
#   rand = teneva._rand(seed) -> rand = np.random.default_rng(seed)                    post.seed-goes-through-_rand-exactly-once, post.cross_act-does-not-mention-np.random-or-random, ..
#   rand = teneva._rand(seed); np.random.seed(0)                                       post.cross_act-does-not-mention-np.random-or-random
#   ju = i+1 if ltr else i-1 -> ju = i+1;   if ltr and i == d-1 -> i == d              safety.list-index-in-range (failed: e-matching context, no model)
#   i, ltr, swp, e_curr = d, False, 0, 0. -> d+1, ..                                   inv-init.loop1.position-before-the-step: ltr -1..d-2, rtl 1..d
#   undecided: local `rand` renamed (ContractMismatch);   quiet (equivalent): while not (swp > nswp);  i = i + 1 if ltr else i - 1;
#              jn = i if not ltr else i+1;  keyword form `rand=rand, ltr=ltr` at a call site
# cross_act._inter_update.*  (cross_act.py)
#   rand.permutation(..) -> np.random.permutation(..)                                  post._inter_update-does-not-mention-np.random-or-random, post.exactly-one-draw-from-the-generator-parameter: a permutation
#   rand.permutation(..) -> teneva._rand().permutation(..)                             post._rand-is-never-called, post.exactly-one-draw-from-the-generator-parameter..
#   (r1*n if ltr else n*r2) -> (r1*n if ltr else r1*n)                                 post.the-permutation-runs-over-the-rows-of-the-unfolding: r1*n (ltr) / n*r2 (rtl)
#   perm[:(r2 if ltr else r1)] -> perm[:(r1 if ltr else r2)]  /  perm[1:(..)]          post.the-selection-for-Gz-is-the-first-r2 (ltr) / r1 (rtl) entries-of-the-permutation
#   if z_rand: -> if not z_rand:                                                       post.exactly-one-draw.. (z_rand), post.nothing-is-drawn + safety.slice-in-range (plain)
#   core_dot_maxvol(Gy, Ry, None, ..) -> (Gy, Ry, rand.permutation(3), ..)             post.the-first-selection-is-left-to-maxvol (ind = None), post.nothing-is-drawn / exactly-one-draw..
#   quiet (equivalent): local `perm` renamed
# cross_act._amen_z.*  (cross_act.py)
#   core_qr_rand(G, dr2, ltr, rand) -> (G, dr2, ltr)                                   post.core_qr_rand-is-handed-the-object-that-came-in-as-`rand` as its `seed`
#   .. -> (G, dr2, ltr, teneva._rand(rand))                                            post._rand-is-never-called-and-nothing-is-drawn-by-_amen_z-itself
#   .. -> (G, dr, ltr, rand)  /  (G, dr2, not ltr, rand)                               post.core_qr_rand-gets-dr2-random-rows-and-the-direction-of-the-sweep
#   if not is_dz: -> if True:                                                          cross_act._amen_z.is_dz.* post.is_dz: core_qr_rand-is-not-called, call-pre.elementwise-shapes-agree
#   quiet (equivalent): core_qr_rand(G, dr2, seed=rand, ltr=ltr)
