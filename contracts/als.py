"""Sidecar contracts for teneva/als.py (C07): which slices of a core the ALS update rewrites."""
import z3
from ttvc.units import unit
from ttvc.symex import VOpt, VStr, VRec, VSeq, VArr, VFunc, VTuple, VRef, VList, VSym, NONE, Z
from ttvc import models as M, theory as T
from contracts import spec as S

IA = z3.ArraySort(z3.IntSort(), z3.IntSort())


@unit('als._optimize_core.slices', props=('C07',))
def u_slices(U):
    """C07 mechanism 'per-slice ridge normal equations': slice k of the core is rewritten with the solution of its
    least-squares problem iff at least one training sample carries mode index k; the other slices and the argument
    core are left alone.  (This is the obligation that fails for `if not idx.any()`, which tests sample POSITIONS.)"""
    fn = U.func('als', '_optimize_core')
    st = U.state()
    r1, n, r2, ms = z3.Ints('r1 n r2 ms')
    iarr = z3.Const('i', IA)
    ivec = VArr((ms,), iarr, 'ivec', 'i')
    Q = VArr((r1, n, r2), None, None)
    s_ = z3.Int('s')
    log = {'rewritten': 0}

    def inv(ex, s, j):
        Qc = s.vars['Q']
        ok = isinstance(Qc, VArr) and Qc.ndim == 3
        return [('core-shape-kept', z3.And(Z(Qc.shape[0]) == r1, Z(Qc.shape[1]) == n, Z(Qc.shape[2]) == r2) if ok else z3.BoolVal(False))]

    def body_end(ex_, s, o, j):
        k = j                                   # range(Q.shape[1]): the loop variable equals the iteration number
        has_sample = z3.Exists([s_], z3.And(0 <= s_, s_ < ms, iarr[s_] == k))
        wrote = s.ghost.get('slice_writes', 0)
        if o.kind == 'continue' or wrote == 0:
            ex_.oblige(s, 'post', 'a-slice-is-skipped-only-if-no-sample-carries-its-index',
                       z3.ForAll([s_], z3.Implies(z3.And(0 <= s_, s_ < ms), iarr[s_] != k)), None, assume=False)
        else:
            where = s.ghost.get('where_first')
            ex_.oblige(s, 'post', 'a-slice-is-rewritten-only-if-some-sample-carries-its-index', has_sample, None, assume=False)
            ex_.oblige(s, 'post', 'exactly-slice-k-is-written', z3.BoolVal(s.ghost.get('slice_written') is not None) if False else
                       z3.BoolVal(wrote == 1), None, assume=False)

    def lstsq(ex, s, a, k, nd):
        return VTuple([M.VOpaque('sol'), M.VOpaque('res'), M.VOpaque('rank'), M.VOpaque('s')])

    ex = U.executor(fn, loops={0: {'inv': inv, 'body_end': body_end}}, callees={'als._lstsq': lstsq}, lenient=True)
    # count writes into Q[:, k, :]
    orig_store = M.store

    def counting_store(ex2, st2, base, sl_, v, node, base_node):
        b = st2.deref(base)
        if isinstance(b, VArr) and b.ndim == 3 and getattr(base_node, 'id', None) == 'Q':
            st2.ghost['slice_writes'] = st2.ghost.get('slice_writes', 0) + 1
        return orig_store(ex2, st2, base, sl_, v, node, base_node)

    M.store = counting_store
    try:
        st.vars.update(Q=Q, i=ivec, y_trn=M.VOpaque('y_trn'), Yl=M.VOpaque('Yl'), Yr=M.VOpaque('Yr'), lamb=z3.Real('lamb'),
                       w=NONE, update_sol=NONE)
        res = U.run(ex, st, pre=[r1 >= 1, n >= 1, r2 >= 1, ms >= 0])
    finally:
        M.store = orig_store
    U.cover('precondition-satisfiable', U.pre)
    for p, o in res:
        if o.kind != 'return':
            U.post('no-exception', p, False)
            continue
        Qr = p.deref(o.value)
        U.post('result-has-the-shape-of-the-core', p,
               z3.And(Z(Qr.shape[0]) == r1, Z(Qr.shape[1]) == n, Z(Qr.shape[2]) == r2) if isinstance(Qr, VArr) and Qr.ndim == 3 else False)
        U.post('works-on-a-copy-of-the-core', p, z3.BoolVal('ndarray.copy() -> same value, fresh buffer' in M.USED))
