"""Sidecar contracts for teneva/anova_func.py: the wrapper anova_func, ANOVA_func.__init__ and the cached property ANOVA_func.coeffs
(C13 functional variant; C10: nothing cached at construction, the cache is returned unchanged; C09: the overwrite flags of lstsq act on temporaries).
ANOVA_func.cores is under contract in contracts/anova_more.py (unit anova_more.ANOVA_func.cores); what that unit ASSUMES about `self.coeffs`
(a number followed by d float vectors of length n - 1) is PROVED here by the unit anova_func.ANOVA_func.coeffs.fit.
Model-table entries, the value kind of the growing coefficient list and the spec symbols: ttvc/mx_rest_af.py (gate `ex.rest_af`); `self` is a
record of the attributes a contract case uses (gate `ex.anova` of mx_anova), batches of points are 2-D float arrays with a denotation (gate
`ex.functt` of mx_func)."""
import ast
import z3
from ttvc.units import unit
from ttvc.symex import VOpt, VStr, VRec, VSeq, VArr, VFunc, VTuple, VRef, VList, VSym, VOpaque, NONE, Z
from ttvc import models as M, theory as T, vec as V
from ttvc import mx_func as XF, mx_anova as XAN
from ttvc import mx_rest_af as XAF
from contracts import spec as S, grid as CG, func_more as CF, anova_more as CAM

af_RA, af_RAA, af_IA = XAF.af_RA, XAF.af_RAA, XAF.af_IA
af_s, af_k, af_i, af_q = z3.Ints('rest_af_s rest_af_kc rest_af_ic rest_af_q')


# ----------------------------------------------------------------------------------------------
# anova_func.anova_func (the wrapper) - control tier: which argument goes where, what is returned.
#
#   * exactly one object is constructed, ANOVA_func(X_trn, y_trn, n, a, b, lamb) - every argument of the wrapper at the parameter of the
#     constructor that has the same name (positional or keyword form are the same call; a swapped a / b or a lamb / e mix-up is reported);
#   * exactly one call of .cores on that object, with the caller's accuracy e as its only argument (e may be None: no truncation);
#   * the result is what cores(e) returns, as it is.
# The constructor and cores are call-site contracts that only record their arguments (units anova_func.ANOVA_func.__init__,
# anova_more.ANOVA_func.cores); whole arrays / tensors are tokens.  NOT covered here: everything the two callees do.

def af_is_real(v, want):
    """the number handed over equals the parameter (a formula; False for anything that is not a number)"""
    return M.to_real(v) == want if M.is_num(v) else z3.BoolVal(False)


@unit('anova_func.anova_func', props=('C13',))
def af_u_wrapper(U):
    fn = U.func('anova_func', 'anova_func')
    st = U.state()
    n = z3.Int('n')
    lamb = z3.Real('lamb')
    e = S.opt_real('e')
    X_trn, y_trn, a, b, out = [CAM._tok(x) for x in ('X_trn', 'y_trn', 'a', 'b', 'cores')]

    def cores(ex, s, args, kw, node):
        CAM._rec(s, 'cores', (list(args), dict(kw)))
        return out

    def ctor(ex, s, args, kw, node):
        CAM._rec(s, 'ctor', (list(args), dict(kw)))
        return s.alloc(VRec({'cores': VFunc('ANOVA_func.cores', cores)}))

    ex = U.executor(fn, callees={'ANOVA_func': ctor})
    ex.anova = True
    ex.rest_af = True
    st.vars.update(X_trn=X_trn, y_trn=y_trn, n=n, a=a, b=b, lamb=lamb, e=e)
    res = U.run(ex, st)
    U.assumed.append('ANOVA_func.__init__ / ANOVA_func.cores (units anova_func.ANOVA_func.__init__, anova_more.ANOVA_func.cores)')
    U.cover('reachable', U.pre)
    for p, o in res:
        gc, gk = p.ghost.get('ctor', []), p.ghost.get('cores', [])
        U.post('exactly-one-object-is-constructed-and-cores-is-called-once-on-it', p, z3.BoolVal(len(gc) == 1 and len(gk) == 1))
        bc = CAM.bind_args('anova_func', 'ANOVA_func.__init__', *gc[0]) if len(gc) == 1 else None
        okc = bc is not None and set(bc) == {'X_trn', 'y_trn', 'n', 'a', 'b', 'lamb'}
        U.post('constructor-gets-exactly-(X_trn, y_trn, n, a, b, lamb)', p, z3.BoolVal(okc))
        if okc:
            U.post('constructor: the-samples-and-the-values-at-their-own-parameters', p, z3.BoolVal(bc['X_trn'] is X_trn and bc['y_trn'] is y_trn))
            U.post('constructor: lower-bound-a-and-upper-bound-b-at-their-own-parameters (not swapped)', p, z3.BoolVal(bc['a'] is a and bc['b'] is b))
            U.post('constructor: the-mode-size-n', p, Z(bc['n']) == n if M.is_intsort(bc['n']) else z3.BoolVal(False))
            U.post('constructor: the-regularisation-parameter-is-lamb (not the accuracy e)', p, af_is_real(bc['lamb'], lamb))
            U.canary('canary-regularisation-is-zero', p, af_is_real(bc['lamb'], 0))
        bk = CAM.bind_args('anova_func', 'ANOVA_func.cores', *gk[0]) if len(gk) == 1 else None
        okk = bk is not None and set(bk) == {'e'}
        U.post('cores-gets-exactly-one-argument: the-accuracy', p, z3.BoolVal(okk))
        if okk:
            U.post('cores: the-accuracy-is-the-caller-s-e (None stays None; not lamb)', p, S.same_opt(bk['e'], e))
            U.canary('canary-accuracy-is-never-None', p, z3.Not(S.as_opt_num(bk['e']).isnone))
        U.post('returns-what-cores-returns', p, z3.BoolVal(o.kind == 'return' and o.value is out))
    U.post('one-path', [], z3.BoolVal(len(res) == 1))


# ----------------------------------------------------------------------------------------------
# anova_func.ANOVA_func.__init__ - what the object holds after construction.
#
# For a batch X_trn of m >= 1 points with d coordinates, a float array y_trn and numbers a < b:
#   * self.X_trn = poi_scale(X_trn, a, b, kind='cheb') - exactly one call, these arguments in this order, the Chebyshev kind; hence (call-site
#     contract = what unit grid.poi_scale.cheb proves per element)  self.X_trn has the shape of X_trn and
#         self.X_trn[s, k] = chebscale(X_trn[s, k], a, b) = clip((x - (b + a)/2) * 2/(b - a), -1, 1);
#   * self.y_trn is a 1-D float array with the values of y_trn (np.asarray(., dtype=float) of a float array: the same values);
#   * self.lamb = lamb, self.n = n, self.d = the number of COLUMNS of the scaled points;
#   * self._cfs is None: nothing is cached at construction (C10 - the first read of .coeffs fits, see anova_func.ANOVA_func.coeffs.fit);
#   * exactly these six attributes are set, the arguments are not modified, None is returned.
# NOT covered: a / b given per mode as lists / arrays (the call-site contract of poi_scale - pointwise unit grid.poi_scale.cheb - is stated for
# numbers), X_trn / y_trn given as lists, rounding (A-REAL).

def af_call_poi_scale_pts(ex, st, args, kwargs, node):
    """poi_scale(X, a, b, kind) for a 2-D batch X (tag 'pts') and numbers a < b, kind 'cheb' or 'uni': units grid.poi_scale.cheb / .uni (pointwise
    tier) prove that every element of the result is the clipped affine image of the corresponding element of X; same shape.  The call is logged."""
    bnd = CAM.bind_args('grid', 'poi_scale', args, kwargs, method=False)
    if bnd is None or not {'X', 'a', 'b'} <= set(bnd):
        raise M.Unsupported('poi_scale calling pattern')
    Xv = st.deref(bnd['X'])
    kind = bnd.get('kind', VStr('uni'))
    kind = kind.concrete() if isinstance(kind, VStr) else None
    if kind not in ('cheb', 'uni') or not (isinstance(Xv, VArr) and Xv.ndim == 2 and Xv.tag == 'pts' and Xv.t is not None):
        raise M.Unsupported("poi_scale: only the call (2-D float array, a, b, kind 'cheb' / 'uni') is under this call-site contract")
    if not (M.is_num(bnd['a']) and M.is_num(bnd['b'])):
        raise M.Unsupported('poi_scale: the box bounds must be numbers in this contract case')
    a, b = M.to_real(bnd['a']), M.to_real(bnd['b'])
    ex.oblige(st, 'call-pre', 'poi_scale: a < b', a < b, node)
    arr = ex.fresh('scaled', XF.WL)
    img = (lambda x: XF.chebscale(x, a, b)) if kind == 'cheb' else (lambda x: CG.spec_scale(x, a, b, 'uni'))
    st.assume(z3.ForAll([af_s, af_k], arr[af_s][af_k] == img(Xv.t[af_s][af_k]), patterns=[arr[af_s][af_k]]))
    CAM._rec(st, 'poi_scale', dict(X=Xv, a=a, b=b, kind=kind, out=arr))
    return XF.pts(Xv.shape[0], Xv.shape[1], arr)


def af_is_pts(v):
    return isinstance(v, VArr) and v.ndim == 2 and v.tag == 'pts' and v.t is not None


@unit('anova_func.ANOVA_func.__init__', props=('C13', 'C10'))
def af_u_init(U):
    fn = U.func('anova_func', 'ANOVA_func.__init__')
    st = U.state()
    m, d, N, n = z3.Ints('m d N n')
    a, b, lamb = z3.Reals('a b lamb')
    Xt, y = z3.Const('X', XF.WL), z3.Const('y', af_RA)
    X_trn, y_trn = XF.pts(m, d, Xt), V.RVec(N, y)
    selfrec = st.alloc(VRec({}))
    ex = U.executor(fn, callees={'grid.poi_scale': af_call_poi_scale_pts})
    ex.anova = ex.functt = ex.rest_af = True
    st.vars.update(self=selfrec, X_trn=X_trn, y_trn=y_trn, n=n, a=a, b=b, lamb=lamb)
    res = U.run(ex, st, pre=[m >= 1, d >= 1, N >= 0, a < b])
    U.assumed.append('grid.poi_scale (unit grid.poi_scale.cheb)')
    U.cover('precondition-satisfiable', U.pre)
    s0, k0 = z3.Ints('s0 k0')
    for p, o in res:
        if o.kind != 'return':
            U.post('no-exception', p, False)
            continue
        f = p.deref(selfrec).fields
        U.post('returns-None', p, z3.BoolVal(o.value is NONE))
        U.post('exactly-the-attributes-X_trn-y_trn-lamb-_cfs-d-n-are-set', p, z3.BoolVal(set(f) == {'X_trn', 'y_trn', 'lamb', '_cfs', 'd', 'n'}))
        calls = p.ghost.get('poi_scale', [])
        okp = len(calls) == 1 and af_is_pts(f.get('X_trn')) and f['X_trn'].t is calls[0]['out']
        U.post('the-stored-points-are-the-result-of-exactly-one-call-of-poi_scale', p, z3.BoolVal(okp))
        if okp:
            c, Xs = calls[0], f['X_trn']
            U.post('poi_scale-gets-the-sample-points-and-the-box-(a, b)-in-this-order', p, z3.And(z3.BoolVal(c['X'] is X_trn), c['a'] == a, c['b'] == b))
            U.post('poi_scale-is-called-with-the-Chebyshev-kind', p, z3.BoolVal(c['kind'] == 'cheb'))
            U.post('scaled-points-have-the-shape-of-the-sample-points', p, z3.And(Z(Xs.shape[0]) == m, Z(Xs.shape[1]) == d))
            if c['kind'] == 'cheb':
                U.post('scaled-point[s, k]-is-the-Chebyshev-scaling-of-X_trn[s, k]-for-the-box-(a, b)', p, Xs.t[s0][k0] == XF.chebscale(Xt[s0][k0], a, b))
                U.post('that-scaling-is-the-clipped-affine-map-of-[a, b]-onto-[-1, 1]', p,
                       Xs.t[s0][k0] == CG.spec_scale(Xt[s0][k0], a, b, 'cheb'), axioms=T.axioms('chebscale'))
                U.canary('canary-points-are-stored-unscaled', p, Xs.t[s0][k0] == Xt[s0][k0], axioms=T.axioms('chebscale'))
        yv = f.get('y_trn')
        oky = XF.is_vec(yv, 'rvec') and yv.dtype == 'f'
        U.post('values-are-stored-as-a-1-D-float-array', p, z3.BoolVal(oky))
        if oky:
            U.post('stored-values-are-the-values-of-y_trn (same length, same entries)', p, z3.And(Z(yv.shape[0]) == N, yv.t[s0] == y[s0]))
        U.post('regularisation-parameter-is-stored', p, af_is_real(f.get('lamb'), lamb))
        U.canary('canary-regularisation-is-one', p, af_is_real(f.get('lamb'), 1))
        U.post('nothing-is-cached-at-construction: _cfs-is-None', p, z3.BoolVal(f.get('_cfs', 0) is NONE))
        U.post('d-is-the-number-of-COLUMNS-of-the-scaled-points', p, Z(f['d']) == d if M.is_intsort(f.get('d')) else z3.BoolVal(False))
        U.canary('canary-d-is-the-number-of-samples', p, Z(f['d']) == m if M.is_intsort(f.get('d')) else z3.BoolVal(False))
        U.post('mode-size-n-is-stored', p, Z(f['n']) == n if M.is_intsort(f.get('n')) else z3.BoolVal(False))
        U.post('arguments-untouched', p, z3.BoolVal(p.vars.get('X_trn') is X_trn and p.vars.get('y_trn') is y_trn and X_trn.t is Xt and y_trn.t is y))
    U.post('one-path', [], z3.BoolVal(len(res) == 1))


# ----------------------------------------------------------------------------------------------
# anova_func.ANOVA_func.coeffs (cached property) - control level with element-level bookkeeping; the VALUE of every least-squares solution stays
# the uninterpreted term rest_af_lsqv(H, rhs) = scipy.linalg.lstsq(H, rhs)[0]  ("values left to the bounded suite").
#
# The object is what __init__ leaves (unit anova_func.ANOVA_func.__init__): X_trn = the m x d batch Xs of scaled points, y_trn = the float vector
# y of length N, lamb, n, d, and the cache _cfs.
#
#   .cached (C10)   _cfs is already set: that very list object is returned, unchanged; nothing is recomputed (no mean, no basis matrix, no
#                   least-squares call) and no attribute is touched.
#   .fit  (C13, C09)   _cfs is None.  With the spec terms (k = a dimension, i.e. a COLUMN of the scaled points)
#           y0    = rmean(y, N)                                            the sample mean of the training values
#           yc[s] = y[s] - y0                                              the values centred by that ORIGINAL mean (not by the running cfs[0])
#           B_k   = chebmat(column k of Xs, m, n)                          the n x m matrix T_i(Xs[s, k]) = func_basis(xd, m=n, kind='cheb') (call-site
#                                                                          contract: unit func.func_basis; kind must be 'cheb', else NotImplementedError)
#           A_k   = B_k^T                                                  m x n,   A_k[s, i] = T_i(Xs[s, k])
#           H_k   = A_k^T A_k + lamb * I_n                                 normal equations plus self.lamb times the identity of size n = A_k.shape[1]
#           rhs_k = A_k^T yc                                               (2-D @ 1-D: rest_af_mv with its defining finite sum)
#           sol_k = rest_af_lsqv(H_k, rhs_k)                               ONE ridge fit per dimension, each on the basis matrix of ITS OWN column
#         the unit proves: the result is a list of length d + 1 (a number followed by d float vectors - exactly what the unit
#         anova_more.ANOVA_func.cores assumes about `self.coeffs`: CfsList(number, list of d vectors of length n - 1));
#           cfs[k + 1] = sol_k[1:]   (length n - 1, entry q = sol_k[q + 1])      for every dimension k,
#           cfs[0]     = y0 + sum_{k<d} sol_k[0]                                 (the constant-term handling: every fit adds its leading entry),
#         the result is stored in self._cfs and that same object is returned; the other attributes and the data are untouched;
#         scipy.linalg.lstsq is called with parameter names it has, lapack_driver='gelsy', cond left at its default, once per dimension;
#         overwrite_a / overwrite_b = True act on temporaries only (C09): operand a is the value of the expression `AtA + ...` written in the
#         call (a new array), operand b is the result of the `@` of the same iteration (a new array), held by one local name that is not read
#         again after the call, not an attribute / container element - so no array of the object or of the caller can be destroyed.
#         (Syntactic / identity check in the value model of ttvc; byte-level aliasing is the business of frames/.)
#   Preconditions of .fit: m >= 1 points, N = m values (one per point: otherwise `A.T @ y` raises), n >= 1.
#   The spec arrays YC / SOL are DEFINED in the precondition by yc / sol_k above (fresh symbols, a conservative definitional extension).
# NOT covered: the value of rest_af_lsqv (that sol_k minimises |A_k c - yc|^2 + lamb |c|^2: bounded suite C13), rounding (A-REAL), lists for X_trn / y_trn.

def af_call_func_basis(ex, st, args, kwargs, node):
    """func_basis(x, m, kind='cheb') for a 1-D float array x: unit func.func_basis proves (m >= 1, x non-empty) that the result is the m x len(x)
    matrix with the entries T_i(x_j) - the matrix rest_af_chebmat(x, len x, m) (group 'rest_af_chebmat').  Any other kind raises
    NotImplementedError in func_basis: obliged.  The call is logged."""
    bnd = CAM.bind_args('func', 'func_basis', args, kwargs, method=False)
    if bnd is None or 'X' not in bnd or 'ones_func' in bnd:
        raise M.Unsupported('func_basis calling pattern')
    xv = st.deref(bnd['X'])
    if not XF.is_vec(xv, 'rvec'):
        raise M.Unsupported('func_basis: only a 1-D float array of points is under this call-site contract')
    mm_ = ex.need_num(st, bnd.get('m', 10), node)
    if not M.is_intsort(mm_):
        raise M.Unsupported('func_basis: non-integer number of basis functions')
    kind = bnd.get('kind', VStr('cheb'))
    if not isinstance(kind, VStr):
        raise M.Unsupported('func_basis: kind is not a string')
    ex.oblige(st, 'call-pre', "func_basis: the kind is 'cheb' (NotImplementedError otherwise)", kind.code == VStr('cheb').code, node)
    L = Z(xv.shape[0])
    ex.oblige(st, 'call-pre', 'func_basis: at least one basis function and one point', z3.And(Z(mm_) >= 1, L >= 1), node)
    M.used('teneva.func_basis(x, m) -> rest_af_chebmat(x, len x, m): the m x len(x) matrix of T_i(x_j) (contract proved by unit func.func_basis)')
    Tm = XAF.af_chebmat(xv.t, L, Z(mm_))
    CAM._rec(st, 'func_basis', dict(x=xv, m=mm_, T=Tm))
    return M.mk_mat(Tm)


def af_reads_after(fn, call_node, name):
    """is the local `name` read again, after the statement that contains `call_node`, in the loop body that contains that statement?"""
    for loop in ast.walk(fn.node):
        if isinstance(loop, (ast.For, ast.While)):
            for pos, stmt in enumerate(loop.body):
                if any(x is call_node for x in ast.walk(stmt)):
                    later = ast.Module(body=loop.body[pos + 1:], type_ignores=[])
                    return any(isinstance(x, ast.Name) and x.id == name and isinstance(x.ctx, ast.Load) for x in ast.walk(later))
    return True          # not inside a loop body: nothing is claimed


def af_lstsq_call_ok(fn, s, c):
    """the control-level statements about one logged scipy.linalg.lstsq call (list of (what, bool))"""
    bound, nodes = c['bound'], c['nodes']
    drv = bound.get('lapack_driver')
    rec = s.deref(s.vars['self'])
    b = c['b']
    names_b = [k for k, v in s.vars.items() if v is b]
    ow_a, ow_b = bound.get('overwrite_a', False), bound.get('overwrite_b', False)
    a_temp = isinstance(nodes.get('a'), ast.BinOp)                       # the value of an arithmetic expression written in the call: a new array
    b_temp = (getattr(b, 'af_fresh', None) is not None and not getattr(b, 'shared', False) and len(names_b) == 1
              and not any(v is b for v in rec.fields.values()) and isinstance(nodes.get('b'), ast.Name) and nodes['b'].id == names_b[0]
              and not af_reads_after(fn, nodes['b'], names_b[0]))
    return [('driver-is-gelsy', isinstance(drv, VStr) and drv.concrete() == 'gelsy'),
            ('cond-and-check_finite-stay-at-their-defaults', 'cond' not in bound and 'check_finite' not in bound),
            ('overwrite-flags-are-literal-booleans', isinstance(ow_a, bool) and isinstance(ow_b, bool)),
            ('overwrite_a-only-on-a-temporary', ow_a is False or a_temp),
            ('overwrite_b-only-on-a-temporary-that-is-not-read-again', ow_b is False or b_temp)]


def af_coeffs_unit(U, cached):
    fn = U.func('anova_func', 'ANOVA_func.coeffs')
    CAM.expect_for_loops(fn, 1)
    st = U.state()
    m, d, N, n = z3.Ints('m d N n')
    lamb = z3.Real('lamb')
    Xs, y = z3.Const('Xs', XF.WL), z3.Const('y', af_RA)
    YC, SOL = z3.Const('rest_af_yc', af_RA), z3.Const('rest_af_sol', af_RAA)
    Xv, yv = XF.pts(m, d, Xs), V.RVec(N, y)
    y0 = XAN.rmean(y, N)
    if cached:
        c0 = z3.Real('c0')
        C, dl = z3.Const('cf', af_IA), z3.Int('ncf')
        old_tail = st.alloc(XAF.af_tail_seq(C, dl))
        old = st.alloc(XAN.CfsList(c0, old_tail))
    fields = {'X_trn': Xv, 'y_trn': yv, 'lamb': lamb, 'n': n, 'd': d, '_cfs': old if cached else NONE}
    selfrec = st.alloc(VRec(fields))

    B_ = lambda k: XAF.af_chebmat(XF.pcol(Xs, k), m, n)
    A_ = lambda k: T.tr(B_(k))
    H_ = lambda k: T.madd(T.mm(T.tr(A_(k)), A_(k)), T.smul(lamb, T.eye(n)))
    rhs_ = lambda k: XAF.af_mv(T.tr(A_(k)), YC)
    sol_ = lambda k: XAF.af_lsqv(H_(k), rhs_(k))
    spec_defs = [z3.ForAll([af_s], YC[af_s] == y[af_s] - y0, patterns=[YC[af_s]]),
                 z3.ForAll([af_k], SOL[af_k] == sol_(af_k), patterns=[SOL[af_k]])]

    def the_list(s):
        loc = s.vars.get('cfs')
        o = s.deref(loc) if isinstance(loc, VRef) else None
        if not (isinstance(o, XAF.af_Cfs) and o.head is not None):
            raise M.ContractMismatch('coeffs: `cfs` is not the coefficient list that starts with a number')
        tail = s.deref(o.tail_ref)
        if not (isinstance(tail, VSeq) and tail.tag == 'rvecs'):
            raise M.ContractMismatch('coeffs: the coefficient list does not hold float vectors after its leading number')
        ref = s.deref(s.vars['self']).fields.get('_cfs')
        return o, tail, isinstance(ref, VRef) and ref.oid == loc.oid

    def vectors_ok(tail, upto):
        c = tail.arr[af_k]
        return [z3.ForAll([af_k], z3.Implies(z3.And(0 <= af_k, af_k < upto), XAF.af_clen(c) == n - 1), patterns=[tail.arr[af_k]]),
                z3.ForAll([af_k, af_q], z3.Implies(z3.And(0 <= af_k, af_k < upto), XAF.af_cvec(c)[af_q] == SOL[af_k][af_q + 1]),
                          patterns=[XAF.af_cvec(c)[af_q]])]

    def inv(ex, s, j):
        o, tail, stored = the_list(s)
        yl = s.vars.get('y')
        if not XF.is_vec(yl, 'rvec'):
            raise M.ContractMismatch('coeffs: y is not the vector of the centred values')
        calls = s.ghost.get('af_lstsq', [])
        v1, v2 = vectors_ok(tail, j)
        return [('the-list-that-is-built-is-the-one-stored-in-self._cfs', z3.BoolVal(stored)),
                ('one-coefficient-vector-per-processed-dimension', tail.n == j),
                ('coefficient-vector-k-has-n-1-entries', v1),
                ('coefficient-vector-k-is-the-ridge-solution-of-dimension-k-without-its-leading-entry', v2),
                ('constant-term-is-the-mean-plus-the-leading-entries-of-the-processed-solutions', o.head == y0 + XAF.af_hsum(SOL, j)),
                ('right-hand-sides-use-the-values-centred-by-the-ORIGINAL-mean', z3.And(yl.t == YC, Z(yl.shape[0]) == N))] + \
               [('lstsq: ' + what, z3.BoolVal(all(dict(af_lstsq_call_ok(fn, s, c))[what] for c in calls)))
                for what in ('driver-is-gelsy', 'cond-and-check_finite-stay-at-their-defaults', 'overwrite-flags-are-literal-booleans',
                             'overwrite_a-only-on-a-temporary', 'overwrite_b-only-on-a-temporary-that-is-not-read-again')] + \
               [('one-least-squares-fit-and-one-basis-matrix-per-dimension',
                 z3.BoolVal(len(calls) == len(s.ghost.get('func_basis', [])) and len(calls) == (0 if s.ghost.get('af_in_body') is None else 1)))]

    def hook(ex, h, pre_, j):
        h.ghost['af_lstsq'], h.ghost['func_basis'] = [], []          # the logs count the calls of ONE iteration
        h.ghost['af_in_body'] = None

    def body_end(ex, s1, o1, j):
        s1.ghost['af_in_body'] = True
        U.canary('canary-context-at-the-end-of-the-loop-body', list(s1.pc), False, axioms=AX)

    AX = T.axioms('shape', 'mrow', 'entsub', 'rest_af_hsum', 'rest_af_chebmat', 'rest_af_maddcomm')
    ex = U.executor(fn, loops={0: {'inv': inv, 'havoc_hook': hook, 'body_end': body_end}}, axioms=AX,
                    callees={'np.mean': XAN.np_mean, 'func.func_basis': af_call_func_basis, 'sp.linalg.lstsq': XAF.af_lstsq_vec,
                             'scipy.linalg.lstsq': XAF.af_lstsq_vec},
                    type_hints={'cfs': XAF.af_cfs_kind, 'self._cfs': XAF.af_cfs_kind})
    ex.anova = ex.functt = ex.rest_af = True
    ex.mode = 'ematch'
    st.vars.update(self=selfrec)
    pre = [m >= 1, N == m, n >= 1, d >= 0] + spec_defs + ([dl >= 0] if cached else [])
    res = U.run(ex, st, pre=pre)
    U.assumed += ['func.func_basis (unit func.func_basis)']
    U.cover('precondition-satisfiable', U.pre + [d >= 2, n >= 2], axioms=AX)
    kk, qq, ss, ii = z3.Ints('kk qq ss ii')
    for p, o in res:
        f = p.deref(selfrec).fields
        same_data = all(f.get(k) is v for k, v in fields.items() if k != '_cfs') and set(f) == set(fields) and Xv.t is Xs and yv.t is y
        if cached:
            U.post('returns-the-cached-list-object-itself', p, z3.BoolVal(o.kind == 'return' and isinstance(o.value, VRef) and o.value.oid == old.oid
                                                                          and f.get('_cfs') is old))
            ob, tl = p.heap[old.oid], p.heap[old_tail.oid]
            U.post('the-cached-list-is-unchanged', p, z3.BoolVal(type(ob) is XAN.CfsList and ob.head is c0 and ob.tail_ref is old_tail and tl.arr is C and tl.n is dl))
            U.post('nothing-is-recomputed: no-mean-no-basis-matrix-no-least-squares-call', p,
                   z3.BoolVal(not p.ghost.get('af_lstsq') and not p.ghost.get('func_basis') and 'y0' not in p.vars and 'cfs' not in p.vars))
            U.post('object-untouched', p, z3.BoolVal(same_data))
            continue
        if o.kind != 'return':
            U.post('no-exception', p, False, axioms=AX, mode='ematch')
            continue
        okr = isinstance(o.value, VRef) and isinstance(f.get('_cfs'), VRef) and o.value.oid == f['_cfs'].oid and isinstance(p.deref(o.value), XAF.af_Cfs) \
            and p.deref(o.value).head is not None and isinstance(p.deref(p.deref(o.value).tail_ref), VSeq) and p.deref(p.deref(o.value).tail_ref).tag == 'rvecs'
        U.post('returns-the-list-that-is-stored-in-self._cfs: a-number-followed-by-float-vectors (the kind anova_more.ANOVA_func.cores consumes)', p,
               z3.BoolVal(okr and isinstance(p.deref(o.value), XAN.CfsList)))
        if not okr:
            continue
        lst = p.deref(o.value)
        tail = p.deref(lst.tail_ref)
        hyp, dom = list(p.pc), [0 <= kk, kk < d]
        cvec, clen = XAF.af_cvec(tail.arr[kk]), XAF.af_clen(tail.arr[kk])
        U.post('the-list-has-length-d+1: the-constant-term-and-one-vector-per-dimension', hyp, tail.n == d, axioms=AX, mode='ematch')
        U.post('coefficient-vector-of-dimension-k-has-n-1-entries (what anova_more.ANOVA_func.cores assumes)', hyp + dom, clen == n - 1, axioms=AX, mode='ematch')
        U.post('cfs[k+1][q]-is-entry-q+1-of-lstsq(A_k^T A_k + lamb I_n, A_k^T (y - mean))[0]-for-the-basis-matrix-A_k-of-column-k', hyp + dom,
               cvec[qq] == sol_(kk)[qq + 1], axioms=AX, mode='ematch')
        U.post('cfs[0]-is-the-sample-mean-plus-the-leading-entries-of-all-d-solutions', hyp, lst.head == y0 + XAF.af_hsum(SOL, d), axioms=AX, mode='ematch')
        U.post('the-summed-leading-entry-of-dimension-k-is-that-of-the-same-ridge-solution', hyp + dom, SOL[kk][0] == sol_(kk)[0], axioms=AX, mode='ematch')
        U.post('basis-matrix-A_k-is-m-x-n-with-A_k[s, i] = T_i(scaled point[s, k])', hyp + dom + [0 <= ss, ss < m, 0 <= ii, ii < n],
               z3.And(T.rows(A_(kk)) == m, T.cols(A_(kk)) == n, T.ent(A_(kk), ss, ii) == XF.cheb(ii, Xs[ss][kk])), axioms=AX, mode='ematch')
        U.post('normal-equations-are-n-x-n', hyp + dom, z3.And(T.rows(H_(kk)) == n, T.cols(H_(kk)) == n), axioms=AX, mode='ematch')
        U.post('right-hand-side-entry-i-is-the-finite-sum-over-the-samples-of-A_k[s, i] * (y[s] - mean)', hyp + dom + [0 <= ii, ii < n],
               z3.And(rhs_(kk)[ii] == XAF.af_mvsum(T.tr(A_(kk)), YC, ii, m), YC[ss] == y[ss] - y0), axioms=AX + T.axioms('rest_af_mv'), mode='ematch')
        U.post('object-and-data-untouched-apart-from-the-cache', p, z3.BoolVal(same_data))
        U.canary('canary-no-coefficient-vectors', hyp, tail.n == 0, axioms=AX)
        U.canary('canary-constant-term-is-the-mean-alone', hyp + [d >= 1], lst.head == y0, axioms=AX)
        U.canary('canary-coefficient-vector-keeps-the-leading-entry', hyp + dom, cvec[qq] == sol_(kk)[qq], axioms=AX)
        U.canary('canary-every-dimension-is-fitted-on-the-basis-matrix-of-column-0', hyp + dom, cvec[qq] == sol_(z3.IntVal(0))[qq + 1], axioms=AX)
    U.post('one-path', [], z3.BoolVal(len(res) == 1))


@unit('anova_func.ANOVA_func.coeffs.fit', props=('C13', 'C09'))
def af_u_coeffs_fit(U):
    af_coeffs_unit(U, False)


@unit('anova_func.ANOVA_func.coeffs.cached', props=('C13', 'C10'))
def af_u_coeffs_cached(U):
    af_coeffs_unit(U, True)


# ----------------------------------------------------------------------------------------------
# Hand-made mutants (MUT_BASE=/tmp/base tools/mut.sh anova_func.py '<sed>' <unit>) and the named obligation that reports each.
# W = `ANOVA_func(X_trn, y_trn, n, a, b, lamb).cores(e)`, P = `poi_scale(X_trn, a, b, kind='cheb')`.
#
# anova_func.anova_func
#   W -> ANOVA_func(X_trn, y_trn, n, b, a, lamb).cores(e)                  post constructor: lower-bound-a-and-upper-bound-b-at-their-own-parameters (not swapped)
#   W -> ANOVA_func(X_trn, y_trn, n, a, b, e).cores(lamb)                  post constructor: the-regularisation-parameter-is-lamb (not the accuracy e), cores: the-accuracy-is-the-caller-s-e .. (refuted)
#   W -> ANOVA_func(X_trn, y_trn, n, a, b).cores(e)                        post constructor-gets-exactly-(X_trn, y_trn, n, a, b, lamb)
#   W -> ANOVA_func(X_trn, y_trn, n, a, b, lamb).cores()                   post cores-gets-exactly-one-argument: the-accuracy
#   W -> ANOVA_func(y_trn, X_trn, n, a, b, lamb).cores(e)                  post constructor: the-samples-and-the-values-at-their-own-parameters
#   quiet (equivalent): ANOVA_func(X_trn, y_trn, n=n, lamb=lamb, b=b, a=a).cores(e=e); undecided: `.coeffs` for `.cores(e)` (Unsupported: attribute outside the contract case)
# anova_func.ANOVA_func.__init__
#   P -> poi_scale(X_trn, a, b, kind='uni')  /  poi_scale(X_trn, a, b)     post poi_scale-is-called-with-the-Chebyshev-kind (refuted)
#   P -> poi_scale(X_trn, b, a, kind='cheb')                               call-pre poi_scale: a < b (refuted)
#   P -> poi_scale(X_trn, -1., 1., kind='cheb')                            post poi_scale-gets-the-sample-points-and-the-box-(a, b)-in-this-order, scaled-point[s, k]-is-the-Chebyshev-scaling-..
#   s/self.X_trn = teneva.poi_scale(..)/self.X_trn = X_trn/                post the-stored-points-are-the-result-of-exactly-one-call-of-poi_scale
#   s/self._cfs = None/self._cfs = []/                                     post nothing-is-cached-at-construction: _cfs-is-None
#   s/        self._cfs = None/        pass/                               post exactly-the-attributes-X_trn-y_trn-lamb-_cfs-d-n-are-set, nothing-is-cached-at-construction: ..
#   s/self.lamb = lamb/self.lamb = 1./                                     post regularisation-parameter-is-stored (refuted)
#   s/self.d = self.X_trn.shape\[1\]/self.d = self.X_trn.shape[0]/         post d-is-the-number-of-COLUMNS-of-the-scaled-points (refuted)
#   s/self.n = n$/self.n = self.d/                                         post mode-size-n-is-stored (refuted)
#   s/np.asarray(y_trn, dtype=float)/np.asarray(X_trn, dtype=float)/       post values-are-stored-as-a-1-D-float-array
#   .. /np.asarray(y_trn, dtype=float)[1:]/  and  /.. * 2/                 post stored-values-are-the-values-of-y_trn (same length, same entries) (refuted)
#   quiet (equivalent): poi_scale(X=X_trn, b=b, a=a, kind='cheb'), np.array(y_trn, dtype=float)
# anova_func.ANOVA_func.coeffs.fit     (IK = inv-keep loop0., II = inv-init loop0.; S = ..coefficient-vector-k-is-the-ridge-solution-of-dimension-k-without-its-leading-entry,
#                                       C = ..constant-term-is-the-mean-plus-the-leading-entries-of-the-processed-solutions)
#   s/AtA + self.lamb \* np.identity/AtA + 1. * np.identity/               IK S, IK C
#   s/lstsq(AtA + self.lamb \* np.identity(A.shape\[1\]),/lstsq(AtA,/      IK S, IK C, IK lstsq: overwrite_a-only-on-a-temporary
#   s/y = self.y_trn - y0/y = self.y_trn/                                  II right-hand-sides-use-the-values-centred-by-the-ORIGINAL-mean
#   s/Aty = A.T @ y$/Aty = A.T @ self.y_trn/                               IK S, IK C
#   s/cfs.append(cur_cf\[1:\])/cfs.append(cur_cf)/                         IK coefficient-vector-k-has-n-1-entries, IK S
#   delete `cfs[0] += cur_cf[0]`                                           IK C
#   s/cfs\[0\] += cur_cf\[0\]/cfs[0] += cur_cf[1]/                         safety array-index-in-range (n = 1), IK C
#   s/cfs.append(y0)/cfs.append(0.)/                                       II C
#   s/m=self.n, kind/m=self.n+1, kind/                                     IK coefficient-vector-k-has-n-1-entries, IK S, IK C
#   s/m=self.n, kind='cheb'/m=self.n, kind='sin'/                          call-pre func_basis: the kind is 'cheb' (NotImplementedError otherwise)
#   s/for xd in self.X_trn.T:/for xd in self.X_trn:/   (rows for columns)  IK S, IK C, post the-list-has-length-d+1: .., cfs[k+1][q]-is-entry-q+1-of-lstsq(..)
#   s/np.identity(A.shape\[1\])/np.identity(A.shape[0])/                   call-pre elementwise-shapes-agree
#   s/AtA = A.T @ A$/AtA = A @ A.T/                                        call-pre elementwise-shapes-agree, IK S, IK C
#   s/overwrite_a=True/overwrite_A=True/                                   call-pre scipy.linalg.lstsq-has-a-parameter-named-overwrite_A
#   s/lapack_driver='gelsy'/lapack_driver='gelsd'/                         IK lstsq: driver-is-gelsy
#   s/Aty, overwrite_a=True/y, overwrite_a=True/                           call-pre lstsq-row-counts-agree, IK S, IK C, IK lstsq: overwrite_b-only-on-a-temporary-that-is-not-read-again
#   `Aty[0] = 0.` appended to the loop body (the destroyed buffer is used again)     IK lstsq: overwrite_b-only-on-a-temporary-that-is-not-read-again
#   s/self._cfs = cfs = \[\]/cfs = []/   (never cached)  and  /self._cfs = []; cfs = []/      II the-list-that-is-built-is-the-one-stored-in-self._cfs
#   s/if self._cfs is not None:/if self._cfs is None:/                     post returns-the-list-that-is-stored-in-self._cfs: .. (refuted)
#   s/        return self._cfs$/        return cfs[1:]/                    post returns-the-list-that-is-stored-in-self._cfs: .. (refuted)
#   quiet (equivalent): `y = self.y_trn - cfs[0]` before the loop, `cfs = []; self._cfs = cfs`, `cfs[0] = cfs[0] + cur_cf[0]`, cur_cf renamed,
#   func_basis(xd, self.n), `self.lamb * np.identity(..) + AtA`, `np.identity(..) * self.lamb`, np.identity(self.n), np.eye(AtA.shape[0]), keywords of lstsq reordered;
#   undecided: `Aty = y @ A` (Unsupported: no denotation), A.T.dot(A) (Unsupported), y renamed (ContractMismatch), a while loop (ContractMismatch)
# anova_func.ANOVA_func.coeffs.cached
#   s/if self._cfs is not None:/if self._cfs is None:/                     post returns-the-cached-list-object-itself, nothing-is-recomputed: .. (refuted)
#   `self._cfs = None` inserted before the test (cache always dropped)     post returns-the-cached-list-object-itself, nothing-is-recomputed: .. (refuted)
#   first `return self._cfs` -> return self._cfs[1:] / return None / pass  post returns-the-cached-list-object-itself (refuted)
#   quiet (equivalent): `if not (self._cfs is None):`; undecided: return list(self._cfs) (Unsupported)
