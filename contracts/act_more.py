"""Sidecar contracts for the remaining evaluation routines of C01 (partly C11, C02):
props.size, act_one.mean / sum, transformation.full, act_one.get_many, data.accuracy_on_data, act_many.outer_many / add_many.
Model-table entries and spec symbols: ttvc/mx_act.py; standard-model interpretations: lemmas/spotcheck_ext_act.py."""
import z3
from ttvc.units import unit
from ttvc.symex import VOpt, VStr, VRec, VSeq, VArr, VFunc, VTuple, VRef, VList, NONE, Z
from ttvc import models as M, theory as T
from ttvc import mx_act as X
from contracts import spec as S
from contracts.act import val, lemma_chain_shape, chain_shape, same_shape

k_ = z3.Int('k!m')
kk = z3.Int('kk')


# ----------------------------------------------------------------------------------------------
# props.size: the number of stored parameters, sum_k r_k n_k r_{k+1}
#
# Spec function psize(Y, k) = sum_{t<k} mulI-canonical product d0(Y[t]) d1(Y[t]) d2(Y[t])   (theory group 'psize').
# The code sums the list [G.size for G in Y] with np.sum; the model says np.sum of k Python ints is isum(list, k) (group 'isum').
# Lemma by induction on k: isum(list, k) = psize(Y, k); the postcondition is the instance k = d.
# Not covered: the NumPy integer type of the result (np.int64; A-INT), overflow.

AXZ = T.axioms('shape', 'mulI', 'isum', 'psize')


@unit('props.size', props=('C01',))
def u_size(U):
    fn = U.func('props', 'size')
    ex = U.executor(fn, axioms=AXZ)
    ex.mode = 'ematch'
    st = U.state()
    Y, A, d = S.tt_param(st, 'Y')
    st.vars.update(Y=Y)
    res = U.run(ex, st, pre=[T.wf(A, d)])
    U.cover('precondition-satisfiable', U.pre, axioms=AXZ)
    for p, o in res:
        if o.kind != 'return':
            U.post('no-exception', p, False, axioms=AXZ, mode='ematch')
            continue
        sums = p.ghost.get('isum', [])
        ok = M.is_intsort(o.value) and len(sums) == 1 and o.value is sums[0][2]
        U.post('returns-the-integer-sum-of-one-list', p, z3.BoolVal(ok))
        U.post('argument-untouched', p, z3.BoolVal(p.heap[Y.oid].arr is A))
        if not ok:
            continue
        L, n, s = sums[0]
        hyp = list(p.pc)
        U.post('one-summand-per-core', hyp, n == d, axioms=AXZ, mode='ematch')
        U.post('each-summand-is-the-size-of-its-core', hyp + [kk >= 0, kk < d], L[kk] == X.core_size(A[kk]), axioms=AXZ, mode='ematch')
        P = lambda k: X.isum(L, k) == X.psize(A, k)
        U.lemma('partial-sums-are-the-partial-parameter-counts.base', hyp, P(z3.IntVal(0)), axioms=AXZ, mode='ematch', kind='lemma-base')
        U.lemma('partial-sums-are-the-partial-parameter-counts.step', hyp + [kk >= 0, kk < d, P(kk)], P(kk + 1), axioms=AXZ, mode='ematch',
                kind='lemma-step')
        lem = z3.ForAll([kk], z3.Implies(z3.And(0 <= kk, kk <= d), P(kk)), patterns=[X.isum(L, kk)])
        U.post('result-is-the-sum-of-r_k*n_k*r_{k+1}-over-all-cores', hyp + [lem], Z(o.value) == X.psize(A, d), axioms=AXZ, mode='ematch')
        Q = lambda k: X.psize(A, k) >= k
        U.lemma('every-core-stores-at-least-one-parameter.base', hyp, Q(z3.IntVal(0)), axioms=AXZ, mode='ematch', kind='lemma-base')
        U.lemma('every-core-stores-at-least-one-parameter.step', hyp + [kk >= 0, kk < d, Q(kk)],
                Q(kk + 1), axioms=AXZ, mode='ematch', kind='lemma-step')
        U.post('at-least-one-parameter-per-core', hyp + [lem, Q(d)], Z(o.value) >= d, axioms=AXZ, mode='ematch')
        U.canary('canary-size-is-d', hyp + [lem], Z(o.value) == d, axioms=AXZ)


# ----------------------------------------------------------------------------------------------
# act_one.mean / act_one.sum: the end of the chain of weighted mode sums
#
#     wchain(Y, P, k) = wsum(Y[0], P[0]) @ ... @ wsum(Y[k], P[k]),   wsum(G, p) = sum_m p[m] G[:, m, :]   (theory groups 'wsum', 'wchain')
#
# mean(Y, P, norm) returns the single entry of the 1 x 1 matrix wchain(Y, W, d-1) where the weights W are
#     W[k] = (1/n_k, ..., 1/n_k)   for P None, norm=True      (case .uniform)
#     W[k] = (1, ..., 1)           for P None, norm=False     (case .ones; this is what sum(Y) asks for)
#     W[k] = first n_k entries of P[k]                         (case .weights; requires len(P) = d, len(P[k]) >= n_k)
# That the end of this chain equals  sum over all multi-indices i of  W[0][i_0] ... W[d-1][i_{d-1}] * val(Y, i)  is the distributive law
# L-SUMPROD (cited lemma of DESIGN section 3, not re-proved here): the postconditions are RELATIVE to L-SUMPROD.
# Not covered: rounding (A-REAL); weight vectors shorter than the mode size (NumPy raises in einsum: outside the precondition);
# P given as a list of Python lists instead of 1-D arrays (same values; the list slice P[i][:k] is modelled for arrays).

AXW = T.axioms('shape', 'smul', 'elem', 'wsum', 'wchain')
UNIFORM, ONES = z3.Const('W!uniform', X.WL), z3.Const('W!ones', X.WL)


def uniform_def(A):
    """W!uniform[k] = the constant vector 1/n_k (definition of a spec constant)."""
    return z3.ForAll([k_], UNIFORM[k_] == X.const_weights(z3.RealVal(1) / z3.ToReal(T.d1(A[k_]))), patterns=[UNIFORM[k_]])


ONES_DEF = z3.ForAll([k_], ONES[k_] == X.const_weights(1), patterns=[ONES[k_]])


def weights_long_enough(A, lens, d):
    return z3.ForAll([k_], z3.Implies(z3.And(0 <= k_, k_ < d), lens[k_] >= T.d1(A[k_])), patterns=[lens[k_]])


def _mean_unit(U, case):
    fn = U.func('act_one', 'mean')
    st = U.state()
    Y, A, d = S.tt_param(st, 'Y')
    pre = [T.wf(A, d)]
    if case == 'weights':
        Parr, Plen = z3.Const('P', X.WL), z3.Const('Plen', X.IA)
        Pref = st.alloc(X.WSeq(Parr, Plen, d))
        W = Parr
        pre.append(weights_long_enough(A, Plen, d))
        st.vars.update(Y=Y, P=Pref, norm=True)
    else:
        Pref = None
        W = UNIFORM if case == 'uniform' else ONES
        pre.append(uniform_def(A) if case == 'uniform' else ONES_DEF)
        st.vars.update(Y=Y, P=NONE, norm=(case == 'uniform'))

    def inv(ex, s, j):
        Zv = s.vars['Z']
        if not (isinstance(Zv, VArr) and Zv.ndim == 2 and Zv.tag == 'mat' and Zv.t is not None):
            raise M.ContractMismatch('mean(): Z is not a matrix with a denotation')
        out = [('accumulated-product-is-the-chain-of-weighted-mode-sums', Zv.t == X.wchain(A, W, j - 1)),
               ('accumulated-product-is-a-row', z3.And(T.rows(Zv.t) == 1, T.cols(Zv.t) == T.d2(A[j - 1]))),
               ('arguments-untouched', z3.BoolVal(s.heap[Y.oid].arr is A and (Pref is None or s.heap[Pref.oid].arr is W)))]
        return out

    ex = U.executor(fn, loops={0: {'inv': inv, 'peel': 1}}, axioms=AXW)
    ex.mode = 'ematch'
    res = U.run(ex, st, pre=pre)
    U.cover('precondition-satisfiable', U.pre, axioms=AXW)
    for p, o in res:
        if o.kind != 'return':
            U.post('no-exception', p, False, axioms=AXW, mode='ematch')
            continue
        U.post('returns-a-number', p, z3.BoolVal(M.is_num(o.value)))
        U.post('arguments-untouched', p, z3.BoolVal(p.heap[Y.oid].arr is A and (Pref is None or p.heap[Pref.oid].arr is W)))
        if not M.is_num(o.value):
            continue
        U.post('result-is-the-single-entry-of-the-chain-of-weighted-mode-sums (L-SUMPROD: = weighted sum of all entries)', p,
               M.to_real(o.value) == T.ent(X.wchain(A, W, d - 1), 0, 0), axioms=AXW, mode='ematch')
        U.post('the-chain-ends-in-a-1x1-matrix', p, z3.And(T.rows(X.wchain(A, W, d - 1)) == 1, T.cols(X.wchain(A, W, d - 1)) == 1),
               axioms=AXW, mode='ematch')
        U.canary('canary-result-is-zero', p, M.to_real(o.value) == 0, axioms=AXW)
    U.lemmas.append('L-SUMPROD: the end of the chain of weighted mode sums = sum over all multi-indices of the weighted entries (cited)')


@unit('act_one.mean.uniform', props=('C01', 'C11'))
def u_mean_uniform(U):
    _mean_unit(U, 'uniform')


@unit('act_one.mean.ones', props=('C01', 'C11'))
def u_mean_ones(U):
    _mean_unit(U, 'ones')


@unit('act_one.mean.weights', props=('C01',))
def u_mean_weights(U):
    _mean_unit(U, 'weights')


def call_mean(ex, st, args, kwargs, node):
    """Call-site contract of mean(Y, P=None, norm=<literal>): postcondition of the units act_one.mean.uniform / act_one.mean.ones."""
    Ys = st.deref(args[0])
    Pv = args[1] if len(args) > 1 else kwargs.get('P', NONE)
    nrm = args[2] if len(args) > 2 else kwargs.get('norm', True)
    if not (isinstance(Ys, VSeq) and Ys.tag == 'core') or Pv is not NONE or not isinstance(nrm, bool) or set(kwargs) - {'P', 'norm'}:
        raise M.Unsupported('mean: only mean(<TT>, P=None, norm=<literal bool>) has a call-site contract')
    ex.oblige(st, 'call-pre', 'mean: well-formed tensor', T.wf(Ys.arr, Ys.n), node)
    W = UNIFORM if nrm else ONES
    st.assume(uniform_def(Ys.arr) if nrm else ONES_DEF)        # definition of the spec constant (not a fact about the code)
    v = ex.fresh_real('mean')
    st.assume(v == T.ent(X.wchain(Ys.arr, W, Ys.n - 1), 0, 0))
    st.ghost.setdefault('mean_calls', []).append((Ys.arr, Ys.n, nrm, v))
    return v


M.CALLEES['act_one.mean'] = call_mean


@unit('act_one.sum', props=('C01', 'C11'))
def u_sum(U):
    """sum(Y) = the end of the chain of the plain mode sums (all weights 1); relative to L-SUMPROD this is the sum of all entries."""
    fn = U.func('act_one', 'sum')
    ex = U.executor(fn, axioms=AXW)
    ex.mode = 'ematch'
    st = U.state()
    Y, A, d = S.tt_param(st, 'Y')
    st.vars.update(Y=Y)
    res = U.run(ex, st, pre=[T.wf(A, d)])
    U.assumed.append('act_one.mean (units act_one.mean.ones / act_one.mean.uniform)')
    U.cover('precondition-satisfiable', U.pre, axioms=AXW)
    for p, o in res:
        if o.kind != 'return':
            U.post('no-exception', p, False, axioms=AXW, mode='ematch')
            continue
        calls = p.ghost.get('mean_calls', [])
        U.post('one-call-of-mean-on-the-argument-with-all-weights-1', p,
               z3.BoolVal(len(calls) == 1 and calls[0][0] is A and calls[0][2] is False and o.value is calls[0][3]))
        U.post('argument-untouched', p, z3.BoolVal(p.heap[Y.oid].arr is A))
        if not M.is_num(o.value):
            continue
        U.post('result-is-the-end-of-the-chain-of-plain-mode-sums (L-SUMPROD: = sum of all entries)', list(p.pc) + [ONES_DEF],
               M.to_real(o.value) == T.ent(X.wchain(A, ONES, d - 1), 0, 0), axioms=AXW, mode='ematch')
        U.canary('canary-result-is-zero', p, M.to_real(o.value) == 0, axioms=AXW)
    U.lemmas.append('L-SUMPROD: the end of the chain of mode sums = sum over all multi-indices of the entries (cited)')


# ----------------------------------------------------------------------------------------------
# transformation.full for tensors of d = 2 and d = 3 cores (the result has ndim = d: a symbolic d is outside the value model)
#
# Postconditions: the result is a d-dimensional array of shape (n_1, ..., n_d) - every mode axis is kept, also those of length 1,
# exactly the two boundary rank axes are removed - and its entry at every multi-index i is val(Y, i) (first sentence of C01).
# Not covered: d >= 4 (same code path, bounded suite), rounding, memory layout / dtype of the result.

AXF = T.axioms('shape', 'chain')


def _full_unit(U, d):
    fn = U.func('transformation', 'full')
    ex = U.executor(fn, axioms=AXF)
    ex.mode = 'ematch'
    st = U.state()
    A = z3.Const('Y', T.TT)
    items = [M.mk_core(A[k]) for k in range(d)]
    Y = st.alloc(VList(items))
    st.vars.update(Y=Y)
    dd = z3.IntVal(d)
    res = U.run(ex, st, pre=[T.wf(A, dd)])
    U.cover('precondition-satisfiable', U.pre, axioms=AXF)
    ix = z3.Const('ix', T.IDX)
    for p, o in res:
        if o.kind != 'return':
            U.post('no-exception', p, False, axioms=AXF, mode='ematch')
            continue
        Rv = p.deref(o.value)
        U.post('argument-list-untouched', p, z3.BoolVal(len(p.heap[Y.oid].items) == d and all(a is b for a, b in zip(p.heap[Y.oid].items, items))))
        U.post('result-is-an-array', p, z3.BoolVal(isinstance(Rv, VArr)))
        if not isinstance(Rv, VArr):
            continue
        U.post('result-has-one-axis-per-mode (axes of length 1 are kept, only the two boundary rank axes are dropped)', p, z3.BoolVal(Rv.ndim == d))
        if Rv.ndim == d:
            U.post('shape-is-the-tuple-of-mode-sizes', p, z3.And([Z(Rv.shape[k]) == T.d1(A[k]) for k in range(d)]), axioms=AXF, mode='ematch')
        ok = Rv.tag == 'tdot' and Rv.lead is not None and Rv.trail is not None and len(Rv.t) == d
        U.post('result-is-the-contraction-of-all-cores-with-both-rank-axes-dropped', p, z3.BoolVal(ok))
        if not ok:
            continue
        ctx = list(p.pc) + [T.index_ok(ix, A, dd)]
        ent = X.tdot_entry(Rv, [ix[k] for k in range(d)])
        U.post('entry-at-every-multi-index-is-the-chained-entry', ctx, ent == val(A, ix, dd), axioms=AXF, mode='ematch')
        U.canary('canary-entry-is-zero', ctx, ent == 0, axioms=AXF)


@unit('transformation.full.d2', props=('C01',))
def u_full2(U):
    _full_unit(U, 2)


@unit('transformation.full.d3', props=('C01',))
def u_full3(U):
    _full_unit(U, 3)
