"""Sidecar contracts for the remaining evaluation routines of C01 (partly C11, C02):
props.size, act_one.mean / sum, transformation.full, act_one.get_many, data.accuracy_on_data, act_many.outer_many / add_many.
Model-table entries and spec symbols: ttvc/mx_act.py; standard-model interpretations: lemmas/spotcheck_ext_act.py."""
import z3
from ttvc.units import unit
from ttvc.symex import VOpt, VStr, VRec, VSeq, VArr, VFunc, VTuple, VRef, VList, NONE, Z
from ttvc import models as M, theory as T
from ttvc import mx_act as X
from contracts import spec as S
from contracts.act import val, lemma_chain_shape, chain_shape, same_shape

k_ = z3.Int('k!m')
kk = z3.Int('kk')


# ----------------------------------------------------------------------------------------------
# props.size: the number of stored parameters, sum_k r_k n_k r_{k+1}
#
# Spec function psize(Y, k) = sum_{t<k} mulI-canonical product d0(Y[t]) d1(Y[t]) d2(Y[t])   (theory group 'psize').
# The code sums the list [G.size for G in Y] with np.sum; the model says np.sum of k Python ints is isum(list, k) (group 'isum').
# Lemma by induction on k: isum(list, k) = psize(Y, k); the postcondition is the instance k = d.
# Not covered: the NumPy integer type of the result (np.int64; A-INT), overflow.

AXZ = T.axioms('shape', 'mulI', 'isum', 'psize')


@unit('props.size', props=('C01',))
def u_size(U):
    fn = U.func('props', 'size')
    ex = U.executor(fn, axioms=AXZ)
    ex.mode = 'ematch'
    st = U.state()
    Y, A, d = S.tt_param(st, 'Y')
    st.vars.update(Y=Y)
    res = U.run(ex, st, pre=[T.wf(A, d)])
    U.cover('precondition-satisfiable', U.pre, axioms=AXZ)
    for p, o in res:
        if o.kind != 'return':
            U.post('no-exception', p, False, axioms=AXZ, mode='ematch')
            continue
        sums = p.ghost.get('isum', [])
        ok = M.is_intsort(o.value) and len(sums) == 1 and o.value is sums[0][2]
        U.post('returns-the-integer-sum-of-one-list', p, z3.BoolVal(ok))
        U.post('argument-untouched', p, z3.BoolVal(p.heap[Y.oid].arr is A))
        if not ok:
            continue
        L, n, s = sums[0]
        hyp = list(p.pc)
        U.post('one-summand-per-core', hyp, n == d, axioms=AXZ, mode='ematch')
        U.post('each-summand-is-the-size-of-its-core', hyp + [kk >= 0, kk < d], L[kk] == X.core_size(A[kk]), axioms=AXZ, mode='ematch')
        P = lambda k: X.isum(L, k) == X.psize(A, k)
        U.lemma('partial-sums-are-the-partial-parameter-counts.base', hyp, P(z3.IntVal(0)), axioms=AXZ, mode='ematch', kind='lemma-base')
        U.lemma('partial-sums-are-the-partial-parameter-counts.step', hyp + [kk >= 0, kk < d, P(kk)], P(kk + 1), axioms=AXZ, mode='ematch',
                kind='lemma-step')
        lem = z3.ForAll([kk], z3.Implies(z3.And(0 <= kk, kk <= d), P(kk)), patterns=[X.isum(L, kk)])
        U.post('result-is-the-sum-of-r_k*n_k*r_{k+1}-over-all-cores', hyp + [lem], Z(o.value) == X.psize(A, d), axioms=AXZ, mode='ematch')
        Q = lambda k: X.psize(A, k) >= k
        U.lemma('every-core-stores-at-least-one-parameter.base', hyp, Q(z3.IntVal(0)), axioms=AXZ, mode='ematch', kind='lemma-base')
        U.lemma('every-core-stores-at-least-one-parameter.step', hyp + [kk >= 0, kk < d, Q(kk)],
                Q(kk + 1), axioms=AXZ, mode='ematch', kind='lemma-step')
        U.post('at-least-one-parameter-per-core', hyp + [lem, Q(d)], Z(o.value) >= d, axioms=AXZ, mode='ematch')
        U.canary('canary-size-is-d', hyp + [lem], Z(o.value) == d, axioms=AXZ)


# ----------------------------------------------------------------------------------------------
# act_one.mean / act_one.sum: the end of the chain of weighted mode sums
#
#     wchain(Y, P, k) = wsum(Y[0], P[0]) @ ... @ wsum(Y[k], P[k]),   wsum(G, p) = sum_m p[m] G[:, m, :]   (theory groups 'wsum', 'wchain')
#
# mean(Y, P, norm) returns the single entry of the 1 x 1 matrix wchain(Y, W, d-1) where the weights W are
#     W[k] = (1/n_k, ..., 1/n_k)   for P None, norm=True      (case .uniform)
#     W[k] = (1, ..., 1)           for P None, norm=False     (case .ones; this is what sum(Y) asks for)
#     W[k] = first n_k entries of P[k]                         (case .weights; requires len(P) = d, len(P[k]) >= n_k)
# That the end of this chain equals  sum over all multi-indices i of  W[0][i_0] ... W[d-1][i_{d-1}] * val(Y, i)  is the distributive law
# L-SUMPROD (cited lemma of DESIGN section 3, not re-proved here): the postconditions are RELATIVE to L-SUMPROD.
# Not covered: rounding (A-REAL); weight vectors shorter than the mode size (NumPy raises in einsum: outside the precondition);
# P given as a list of Python lists instead of 1-D arrays (same values; the list slice P[i][:k] is modelled for arrays).

AXW = T.axioms('shape', 'smul', 'elem', 'wsum', 'wchain')
UNIFORM = z3.Function('W!uniform', T.TT, X.WL)      # spec function: the uniform weights of a tensor (defined by uniform_def)
ONES = z3.Const('W!ones', X.WL)                      # spec constant: all weights 1 (defined by ONES_DEF)


def uniform_def(A):
    """W!uniform(Y)[k] = the constant vector 1/n_k (definition of the spec function at this tensor)."""
    return z3.ForAll([k_], UNIFORM(A)[k_] == X.const_weights(z3.RealVal(1) / z3.ToReal(T.d1(A[k_]))), patterns=[UNIFORM(A)[k_]])


ONES_DEF = z3.ForAll([k_], ONES[k_] == X.const_weights(1), patterns=[ONES[k_]])


def weights_long_enough(A, lens, d):
    return z3.ForAll([k_], z3.Implies(z3.And(0 <= k_, k_ < d), lens[k_] >= T.d1(A[k_])), patterns=[lens[k_]])


def _mean_unit(U, case):
    fn = U.func('act_one', 'mean')
    st = U.state()
    Y, A, d = S.tt_param(st, 'Y')
    pre = [T.wf(A, d)]
    if case == 'weights':
        Parr, Plen = z3.Const('P', X.WL), z3.Const('Plen', X.IA)
        Pref = st.alloc(X.WSeq(Parr, Plen, d))
        W = Parr
        pre.append(weights_long_enough(A, Plen, d))
        st.vars.update(Y=Y, P=Pref, norm=True)
    else:
        Pref = None
        W = UNIFORM(A) if case == 'uniform' else ONES
        pre.append(uniform_def(A) if case == 'uniform' else ONES_DEF)
        st.vars.update(Y=Y, P=NONE, norm=(case == 'uniform'))

    def inv(ex, s, j):
        Zv = s.vars['Z']
        if not (isinstance(Zv, VArr) and Zv.ndim == 2 and Zv.tag == 'mat' and Zv.t is not None):
            raise M.ContractMismatch('mean(): Z is not a matrix with a denotation')
        out = [('accumulated-product-is-the-chain-of-weighted-mode-sums', Zv.t == X.wchain(A, W, j - 1)),
               ('accumulated-product-is-a-row', z3.And(T.rows(Zv.t) == 1, T.cols(Zv.t) == T.d2(A[j - 1]))),
               ('arguments-untouched', z3.BoolVal(s.heap[Y.oid].arr is A and (Pref is None or s.heap[Pref.oid].arr is W)))]
        return out

    ex = U.executor(fn, loops={0: {'inv': inv, 'peel': 1}}, axioms=AXW)
    ex.mode = 'ematch'
    res = U.run(ex, st, pre=pre)
    U.cover('precondition-satisfiable', U.pre, axioms=AXW)
    for p, o in res:
        if o.kind != 'return':
            U.post('no-exception', p, False, axioms=AXW, mode='ematch')
            continue
        U.post('returns-a-number', p, z3.BoolVal(M.is_num(o.value)))
        U.post('arguments-untouched', p, z3.BoolVal(p.heap[Y.oid].arr is A and (Pref is None or p.heap[Pref.oid].arr is W)))
        if not M.is_num(o.value):
            continue
        U.post('result-is-the-single-entry-of-the-chain-of-weighted-mode-sums (L-SUMPROD: = weighted sum of all entries)', p,
               M.to_real(o.value) == T.ent(X.wchain(A, W, d - 1), 0, 0), axioms=AXW, mode='ematch')
        U.post('the-chain-ends-in-a-1x1-matrix', p, z3.And(T.rows(X.wchain(A, W, d - 1)) == 1, T.cols(X.wchain(A, W, d - 1)) == 1),
               axioms=AXW, mode='ematch')
        U.canary('canary-result-is-zero', p, M.to_real(o.value) == 0, axioms=AXW)
    U.lemmas.append('L-SUMPROD: the end of the chain of weighted mode sums = sum over all multi-indices of the weighted entries (cited)')


@unit('act_one.mean.uniform', props=('C01', 'C11'))
def u_mean_uniform(U):
    _mean_unit(U, 'uniform')


@unit('act_one.mean.ones', props=('C01', 'C11'))
def u_mean_ones(U):
    _mean_unit(U, 'ones')


@unit('act_one.mean.weights', props=('C01',))
def u_mean_weights(U):
    _mean_unit(U, 'weights')


def call_mean(ex, st, args, kwargs, node):
    """Call-site contract of mean(Y, P=None, norm=<literal>): postcondition of the units act_one.mean.uniform / act_one.mean.ones."""
    Ys = st.deref(args[0])
    Pv = args[1] if len(args) > 1 else kwargs.get('P', NONE)
    nrm = args[2] if len(args) > 2 else kwargs.get('norm', True)
    if not (isinstance(Ys, VSeq) and Ys.tag == 'core') or Pv is not NONE or not isinstance(nrm, bool) or set(kwargs) - {'P', 'norm'}:
        raise M.Unsupported('mean: only mean(<TT>, P=None, norm=<literal bool>) has a call-site contract')
    ex.oblige(st, 'call-pre', 'mean: well-formed tensor', T.wf(Ys.arr, Ys.n), node)
    W = UNIFORM(Ys.arr) if nrm else ONES
    st.assume(uniform_def(Ys.arr) if nrm else ONES_DEF)        # definition of the spec constant (not a fact about the code)
    v = ex.fresh_real('mean')
    st.assume(v == T.ent(X.wchain(Ys.arr, W, Ys.n - 1), 0, 0))
    st.ghost.setdefault('mean_calls', []).append((Ys.arr, Ys.n, nrm, v))
    return v


M.CALLEES['act_one.mean'] = call_mean


@unit('act_one.sum', props=('C01', 'C11'))
def u_sum(U):
    """sum(Y) = the end of the chain of the plain mode sums (all weights 1); relative to L-SUMPROD this is the sum of all entries."""
    fn = U.func('act_one', 'sum')
    ex = U.executor(fn, axioms=AXW)
    ex.mode = 'ematch'
    st = U.state()
    Y, A, d = S.tt_param(st, 'Y')
    st.vars.update(Y=Y)
    res = U.run(ex, st, pre=[T.wf(A, d)])
    U.assumed.append('act_one.mean (units act_one.mean.ones / act_one.mean.uniform)')
    U.cover('precondition-satisfiable', U.pre, axioms=AXW)
    for p, o in res:
        if o.kind != 'return':
            U.post('no-exception', p, False, axioms=AXW, mode='ematch')
            continue
        calls = p.ghost.get('mean_calls', [])
        U.post('one-call-of-mean-on-the-argument-with-all-weights-1', p,
               z3.BoolVal(len(calls) == 1 and calls[0][0] is A and calls[0][2] is False and o.value is calls[0][3]))
        U.post('argument-untouched', p, z3.BoolVal(p.heap[Y.oid].arr is A))
        if not M.is_num(o.value):
            continue
        U.post('result-is-the-end-of-the-chain-of-plain-mode-sums (L-SUMPROD: = sum of all entries)', list(p.pc) + [ONES_DEF],
               M.to_real(o.value) == T.ent(X.wchain(A, ONES, d - 1), 0, 0), axioms=AXW, mode='ematch')
        U.canary('canary-result-is-zero', p, M.to_real(o.value) == 0, axioms=AXW)
    U.lemmas.append('L-SUMPROD: the end of the chain of mode sums = sum over all multi-indices of the entries (cited)')


# ----------------------------------------------------------------------------------------------
# transformation.full for tensors of d = 2 ... 5 cores (the result has ndim = d: a symbolic d is outside the value model)
#
# Postconditions: the result is a d-dimensional array of shape (n_1, ..., n_d) - every mode axis is kept, also those of length 1,
# exactly the two boundary rank axes are removed - and its entry at every multi-index i is val(Y, i) (first sentence of C01).
# Not covered: d >= 6 (same code path, bounded suite), rounding, memory layout / dtype of the result.

AXF = T.axioms('shape', 'chain')


def _full_unit(U, d):
    fn = U.func('transformation', 'full')
    ex = U.executor(fn, axioms=AXF)
    ex.mode = 'ematch'
    st = U.state()
    A = z3.Const('Y', T.TT)
    items = [M.mk_core(A[k]) for k in range(d)]
    Y = st.alloc(VList(items))
    st.vars.update(Y=Y)
    dd = z3.IntVal(d)
    res = U.run(ex, st, pre=[T.wf(A, dd)])
    U.cover('precondition-satisfiable', U.pre, axioms=AXF)
    ix = z3.Const('ix', T.IDX)
    for p, o in res:
        if o.kind != 'return':
            U.post('no-exception', p, False, axioms=AXF, mode='ematch')
            continue
        Rv = p.deref(o.value)
        U.post('argument-list-untouched', p, z3.BoolVal(len(p.heap[Y.oid].items) == d and all(a is b for a, b in zip(p.heap[Y.oid].items, items))))
        U.post('result-is-an-array', p, z3.BoolVal(isinstance(Rv, VArr)))
        if not isinstance(Rv, VArr):
            continue
        U.post('result-has-one-axis-per-mode (axes of length 1 are kept, only the two boundary rank axes are dropped)', p, z3.BoolVal(Rv.ndim == d))
        if Rv.ndim == d:
            U.post('shape-is-the-tuple-of-mode-sizes', p, z3.And([Z(Rv.shape[k]) == T.d1(A[k]) for k in range(d)]), axioms=AXF, mode='ematch')
        ok = Rv.tag == 'tdot' and Rv.lead is not None and Rv.trail is not None and not Rv.fixed and len(Rv.t) == d
        U.post('result-is-the-contraction-of-all-cores-with-both-rank-axes-dropped', p, z3.BoolVal(ok))
        if not ok:
            continue
        ctx = list(p.pc) + [T.index_ok(ix, A, dd)]
        ent = X.tdot_entry(Rv, [ix[k] for k in range(d)])
        U.post('entry-at-every-multi-index-is-the-chained-entry', ctx, ent == val(A, ix, dd), axioms=AXF, mode='ematch')
        U.canary('canary-entry-is-zero', ctx, ent == 0, axioms=AXF)


@unit('transformation.full.d2', props=('C01',))
def u_full2(U):
    _full_unit(U, 2)


@unit('transformation.full.d3', props=('C01',))
def u_full3(U):
    _full_unit(U, 3)


@unit('transformation.full.d4', props=('C01',))
def u_full4(U):
    _full_unit(U, 4)


@unit('transformation.full.d5', props=('C01',))
def u_full5(U):
    _full_unit(U, 5)


# ----------------------------------------------------------------------------------------------
# act_one.get_many: the batch version of get
#
# For a batch I of m multi-indices (2-D integer array (m, d)) the result is the vector (length m) of the chained entries:
#     out[s] = val(Y, I[s, :])   for every sample s.
# Loop invariant: after processing core k every row of Q is the partial chain chain(Y, I[s, :], k) (a 1 x r_{k+1} matrix).
# Case .rows (_to_item=False, used by callers that continue the chain): the result keeps the rank axes, out[:, s, :] = chain(Y, I[s,:], d-1).
# Not covered: I given as a list of lists (np.asanyarray converts it to the same array), the broadcast of leading batch axes for
# index arrays with more than two axes, rounding.

AXG = T.axioms('shape', 'chain', 'row')
ixg, sg = z3.Const('ix!g', T.IDX), z3.Int('s!g')


def batch_index_ok(IMt, m, A, d):
    return z3.ForAll([sg, k_], z3.Implies(z3.And(0 <= sg, sg < m, 0 <= k_, k_ < d), z3.And(0 <= IMt[sg][k_], IMt[sg][k_] < T.d1(A[k_]))),
                     patterns=[IMt[sg][k_]])


def chain_shape_all(U, A, d, hyps, axioms):
    """lemma_chain_shape for an arbitrary multi-index (the proof does not use anything about the index), then generalised."""
    ixa = z3.Const('ix!any', T.IDX)
    lemma_chain_shape(U, 'Y', A, ixa, d, hyps, axioms)
    return z3.ForAll([ixg, k_], z3.Implies(z3.And(0 <= k_, k_ < d), z3.And(T.rows(T.chain(A, ixg, k_)) == 1, T.cols(T.chain(A, ixg, k_)) == T.d2(A[k_]))),
                     patterns=[T.chain(A, ixg, k_)])


def _get_many_unit(U, to_item):
    fn = U.func('act_one', 'get_many')
    st = U.state()
    Y, A, d = S.tt_param(st, 'Y')
    IMt, m = z3.Const('I', X.IM), z3.Int('m')
    Iv = X.idx_batch(IMt, m, d)
    kind = 'rowbatch' if to_item else 'matbatch'

    def is_batch(v):
        return isinstance(v, VArr) and v.tag == kind and v.t is not None

    def inv(ex, s, j):
        Q = s.vars['Q']
        if not is_batch(Q):
            raise M.ContractMismatch('get_many(): Q is not a batch of partial chains')
        return [('every-row-is-the-partial-chain-of-its-multi-index',
                 z3.ForAll([sg], z3.Implies(z3.And(0 <= sg, sg < m), Q.t[sg] == T.chain(A, IMt[sg], j)), patterns=[Q.t[sg]])),
                ('batch-shape', z3.And(Z(Q.shape[-2]) == m, Z(Q.shape[-1]) == T.d2(A[j]))),
                ('arguments-untouched', z3.BoolVal(s.heap[Y.oid].arr is A and s.vars['I'].t is IMt))]

    def hook(ex, h, pre_, j):
        if is_batch(pre_.vars.get('Q')):
            h.vars['Q'] = X.fresh_batch(ex, h, pre_.vars['Q'])

    ex = U.executor(fn, loops={0: {'inv': inv, 'havoc_hook': hook}}, axioms=AXG)
    ex.mode = 'ematch'
    st.vars.update(Y=Y, I=Iv, _to_item=to_item)
    pre = [T.wf(A, d), m >= 0, batch_index_ok(IMt, m, A, d)]
    cs = chain_shape_all(U, A, d, [T.wf(A, d)], AXG)
    res = U.run(ex, st, pre=pre + [cs])
    U.cover('precondition-satisfiable', U.pre, axioms=AXG)
    s0 = z3.Int('s0')
    for p, o in res:
        if o.kind != 'return':
            U.post('no-exception', p, False, axioms=AXG, mode='ematch')
            continue
        R = p.deref(o.value)
        U.post('arguments-untouched', p, z3.BoolVal(p.heap[Y.oid].arr is A))
        hyp = list(p.pc) + [0 <= s0, s0 < m]
        if to_item:
            ok = isinstance(R, VArr) and R.ndim == 1 and R.tag == 'rvec' and R.t is not None
            U.post('returns-a-vector-with-known-entries', p, z3.BoolVal(ok))
            if not ok:
                continue
            U.post('one-value-per-multi-index', p, Z(R.shape[0]) == m, axioms=AXG, mode='ematch')
            U.post('every-value-is-the-chained-entry-of-its-multi-index', hyp, R.t[s0] == val(A, IMt[s0], d), axioms=AXG, mode='ematch')
            U.canary('canary-every-value-is-zero', hyp, R.t[s0] == 0, axioms=AXG)
        else:
            ok = isinstance(R, VArr) and R.ndim == 3 and R.tag == 'matbatch' and R.t is not None
            U.post('returns-a-batch-of-matrices', p, z3.BoolVal(ok))
            if not ok:
                continue
            U.post('shape-is-(1, samples, 1)', p, z3.And(Z(R.shape[0]) == 1, Z(R.shape[1]) == m, Z(R.shape[2]) == 1), axioms=AXG, mode='ematch')
            U.post('every-slice-is-the-full-chain-of-its-multi-index', hyp, R.t[s0] == T.chain(A, IMt[s0], d - 1), axioms=AXG, mode='ematch')
            U.canary('canary-slices-are-the-first-core-slices', hyp, R.t[s0] == T.chain(A, IMt[s0], 0), axioms=AXG)


@unit('act_one.get_many', props=('C01',))
def u_get_many(U):
    _get_many_unit(U, True)


@unit('act_one.get_many.rows', props=('C01',))
def u_get_many_rows(U):
    _get_many_unit(U, False)


# ----------------------------------------------------------------------------------------------
# call-site contracts used below

def call_get_many(ex, st, args, kwargs, node):
    """get_many(Y, I) with the default _to_item=True: postcondition of unit act_one.get_many."""
    Ys, Iv = st.deref(args[0]), st.deref(args[1]) if len(args) > 1 else None
    if kwargs or len(args) != 2 or not (isinstance(Ys, VSeq) and Ys.tag == 'core') or not (isinstance(Iv, VArr) and Iv.tag == 'idxbatch'):
        raise M.Unsupported('get_many: only get_many(<TT>, <2-D index array>) has a call-site contract')
    d, m = Ys.n, Z(Iv.shape[0])
    ex.oblige(st, 'call-pre', 'get_many: well-formed tensor, one column per mode, every index within its mode',
              z3.And(T.wf(Ys.arr, d), m >= 0, Z(Iv.shape[1]) == d, batch_index_ok(Iv.t, m, Ys.arr, d)), node)
    out = ex.fresh('ygm', X.RA)
    s_ = z3.Int('s!gm')
    st.assume(z3.ForAll([s_], z3.Implies(z3.And(0 <= s_, s_ < m), out[s_] == val(Ys.arr, Iv.t[s_], d)), patterns=[out[s_]]))
    res = X.mk_wvec(Iv.shape[0], out)
    st.ghost.setdefault('get_many_calls', []).append((Ys.arr, d, Iv.t, res))
    return res


def trunc_cap(r):
    c = z3.ToInt(M.to_real(r))
    return z3.If(c >= 1, c, 1)


def truncate_post(Yarr, d, R, r):
    """What the units transformation.truncate.eigh[.stab] / .svd[.stab] prove about Z = truncate(Y, e, r) (contracts/transformation.py):
    well-formed, same mode sizes, no rank above the input rank, no rank above max(1, int(r))."""
    t = z3.Int('t!tc')
    return {'well-formed': T.wf(R, d),
            'mode-sizes': z3.ForAll([t], z3.Implies(z3.And(0 <= t, t < d), T.d1(R[t]) == T.d1(Yarr[t])), patterns=[R[t]]),
            'ranks-at-most-input-ranks': z3.ForAll([t], z3.Implies(z3.And(0 <= t, t < d), T.d2(R[t]) <= T.d2(Yarr[t])), patterns=[R[t]]),
            'ranks-at-most-cap': z3.ForAll([t], z3.Implies(z3.And(1 <= t, t < d), T.d0(R[t]) <= trunc_cap(r)), patterns=[R[t]])}


def call_truncate(ex, st, args, kwargs, node):
    """truncate(Y, e[, r]) with the default flags (orth=True, use_stab=False, is_eigh=True): postcondition of unit
    transformation.truncate.eigh (precondition there: wf(Y), e >= 0, r >= 0)."""
    Ys = st.deref(args[0])
    if not (isinstance(Ys, VSeq) and Ys.tag == 'core') or set(kwargs) - {'e', 'r'} or len(args) > 3:
        raise M.Unsupported('truncate: only truncate(<TT>, e[, r]) with default flags has a call-site contract here')
    e = args[1] if len(args) > 1 else kwargs.get('e', 1.E-10)
    r = args[2] if len(args) > 2 else kwargs.get('r', 1.E+12)
    e, r = ex.need_num(st, e, node, 'truncate-accuracy'), ex.need_num(st, r, node, 'truncate-rank-cap')
    d = Ys.n
    ex.oblige(st, 'call-pre', 'truncate: well-formed tensor, e >= 0, r >= 0', z3.And(T.wf(Ys.arr, d), Z(e) >= 0, Z(r) >= 0), node)
    R = ex.fresh('Ztrunc', T.TT)
    for g in truncate_post(Ys.arr, d, R, r).values():
        st.assume(g)
    res = st.alloc(VSeq(R, d, M.mk_core, 'core'))
    st.ghost.setdefault('truncate_calls', []).append(dict(Y=Ys.arr, d=d, e=e, r=r, R=R, ref=res))
    return res


# ----------------------------------------------------------------------------------------------
# data.accuracy_on_data
#
# Sentinel: -1 is returned iff I_data or y_data is None (the documented sentinel of C11) - before anything is computed.
# Otherwise, with y = get_many(Y', I_data) (Y' = Y, or truncate(Y, e_trunc) when e_trunc is given):
#     result * ||y_data|| = || y - y_data ||,   (y - y_data)[s] = val(Y', I_data[s, :]) - y_data[s],   result >= 0
# (a relation over the callee contracts of get_many / truncate and the model of np.linalg.norm: vnorm = Euclidean norm).
# Precondition: one column per mode, indices in range, e_trunc >= 0 if given, and ||y_data|| > 0.
# Not covered: y_data = 0 (NumPy returns nan / inf with a warning - outside the precondition; C11 names no sentinel for it),
# how close truncate(Y, e_trunc) is to Y (C02), rounding.

AXD = T.axioms('shape', 'chain', 'vnorm')


@unit('data.accuracy_on_data', props=('C01', 'C11'))
def u_accuracy_on_data(U):
    fn = U.func('data', 'accuracy_on_data')
    st = U.state()
    Y, A, d = S.tt_param(st, 'Y')
    IMt, m, yarr = z3.Const('I', X.IM), z3.Int('m'), z3.Const('y', X.RA)
    I_none, y_none, e_none, e_tr = z3.Bool('I_none'), z3.Bool('y_none'), z3.Bool('e_none'), z3.Real('e_trunc')
    ex = U.executor(fn, callees={'act_one.get_many': call_get_many, 'transformation.truncate': call_truncate}, axioms=AXD)
    ex.mode = 'ematch'
    st.vars.update(Y=Y, I_data=VOpt(I_none, X.idx_batch(IMt, m, d)), y_data=VOpt(y_none, X.mk_wvec(m, yarr)), e_trunc=VOpt(e_none, e_tr))
    res = U.run(ex, st, pre=[T.wf(A, d), m >= 0, batch_index_ok(IMt, m, A, d), z3.Implies(z3.Not(e_none), e_tr >= 0), X.vnorm(yarr, m) > 0])
    U.assumed += ['act_one.get_many (unit act_one.get_many)', 'transformation.truncate (unit transformation.truncate.eigh)']
    U.cover('precondition-satisfiable', U.pre, axioms=AXD)
    missing = z3.Or(I_none, y_none)
    s0 = z3.Int('s0')
    seen = set()
    for p, o in res:
        if o.kind != 'return':
            U.post('no-exception', p, False, axioms=AXD, mode='ematch')
            continue
        U.post('argument-untouched', p, z3.BoolVal(p.heap[Y.oid].arr is A))
        if isinstance(o.value, (int, float)):
            seen.add('sentinel')
            U.post('a-constant-is-returned-only-as-the-sentinel--1', p, z3.BoolVal(o.value == -1))
            U.raise_iff('sentinel-only-if-data-missing', p, missing, axioms=AXD)
            U.post('sentinel-before-any-evaluation', p, z3.BoolVal(not p.ghost.get('get_many_calls') and not p.ghost.get('truncate_calls')))
            continue
        U.raise_iff('a-value-only-if-data-present', p, z3.Not(missing), axioms=AXD)
        gm, tr, ops, nrm = p.ghost.get('get_many_calls', []), p.ghost.get('truncate_calls', []), p.ghost.get('vec_ops', []), p.ghost.get('vnorms', [])
        if not (len(gm) == 1 and len(ops) == 1 and len(nrm) == 2 and len(tr) <= 1 and M.is_num(o.value)):
            raise M.ContractMismatch('accuracy_on_data(): not one batch evaluation, one vector difference / sum and two norms')
        seen.add('trunc' if tr else 'plain')
        if tr:
            U.post('truncated-tensor-is-evaluated: truncate(Y, e_trunc) with the default cap', p,
                   z3.And(z3.BoolVal(tr[0]['Y'] is A and gm[0][0] is tr[0]['R']), M.to_real(tr[0]['e']) == e_tr, z3.Not(e_none),
                          M.to_real(tr[0]['r']) == z3.RealVal(10) ** 12), axioms=AXD)
        else:
            U.post('the-tensor-itself-is-evaluated-when-no-truncation-is-requested', p, z3.And(z3.BoolVal(gm[0][0] is A), e_none), axioms=AXD)
        Aeff = gm[0][0]
        kind, lhs, rhs, D = ops[0]
        num = [(v, x) for v, x in nrm if v is D]
        den = [(v, x) for v, x in nrm if v is not D]
        if len(num) != 1 or len(den) != 1 or not (lhs is gm[0][3] or rhs is gm[0][3]):
            raise M.ContractMismatch('accuracy_on_data(): the norms are not those of (batch -+ data) and of one other vector')
        (_, num), (dv, den) = num[0], den[0]
        sgn = 1 if lhs is gm[0][3] else -1            # || y - y_data || = || y_data - y ||: either order denotes the same number
        other = rhs if lhs is gm[0][3] else lhs
        hyp = list(p.pc)
        U.post('same-number-of-samples', hyp, z3.And(Z(D.shape[0]) == m, Z(dv.shape[0]) == m), axioms=AXD, mode='ematch')
        U.post('numerator-vector-is-the-difference-of-the-evaluated-batch-and-the-data', hyp + [0 <= s0, s0 < m],
               z3.And(D.t[s0] == sgn * (val(Aeff, IMt[s0], d) - yarr[s0]), z3.BoolVal(kind == 'sub'), other.t[s0] == yarr[s0]), axioms=AXD, mode='ematch')
        U.post('denominator-vector-is-the-data', hyp + [0 <= s0, s0 < m], dv.t[s0] == yarr[s0], axioms=AXD, mode='ematch')
        ret = M.to_real(o.value)
        U.post('denominator-is-the-norm-of-the-data', hyp, den == X.vnorm(yarr, m), axioms=AXD, mode='ematch')
        inst = [num >= 0, den > 0]                  # instance of 'vnorm' (norm >= 0) and the precondition
        U.post('result-times-norm-of-the-data-is-the-norm-of-the-difference', hyp + inst + [den == X.vnorm(yarr, m)],
               z3.And(ret * den == num, ret >= 0), qf=True)
        U.canary('canary-result-is-the-sentinel', hyp + inst, ret == -1, qf=True)
    U.post('all-three-cases-reached (sentinel, plain, truncated)', [], z3.BoolVal(seen == {'sentinel', 'plain', 'trunc'}))


# ----------------------------------------------------------------------------------------------
# act_many.outer_many for lists of 2 and of 3 TT-tensors
#
# The result is a fresh list: the cores of the first tensor, then those of the second (then the third); it is well-formed and
#     val(result, i1 ++ i2 (++ i3)) = val(Y1, i1) * val(Y2, i2) (* val(Y3, i3))
# by the two-part induction through the rank-1 joint that proves act_two.outer (applied twice for three tensors: first to the
# concatenation B of Y1 and Y2, then to B and Y3).  The empty list gives None.
# Not covered: lists of other lengths (same loop; bounded suite), number operands.

AXO = T.axioms('shape', 'mulI', 'core', 'smul', 'chain', 'block')
t_ = z3.Int('t!mo')


def concat_facts(R, parts):
    """R[t] = A_i[t - off_i] on the i-th segment (quantified facts with pattern R[t])."""
    out, off = [], 0
    for A_, d_ in parts:
        out.append(z3.ForAll([t_], z3.Implies(z3.And(off <= t_, t_ < off + d_), R[t_] == A_[t_ - off]), patterns=[R[t_]]))
        off = off + d_
    return out


def outer_value_lemma(U, name, ctx, R, A1, d1_, A2, d2_, ix, jx):
    """ctx must contain: wf(A1, d1), wf(A2, d2), concat_facts(R, [(A1, d1), (A2, d2)]), jx[t] = ix[t + d1].
    Proves (by induction, as in unit act_two.outer)  val(R, ix, d1 + d2) = val(A1, ix, d1) * val(A2, jx, d2)  and returns this equation."""
    cs1 = lemma_chain_shape(U, f'{name}:first', A1, ix, d1_, ctx, AXO)
    cs2 = lemma_chain_shape(U, f'{name}:second', A2, jx, d2_, ctx, AXO)
    P1 = lambda k: T.chain(R, ix, k) == T.chain(A1, ix, k)
    U.lemma(f'{name}: first-part-of-the-chain-is-that-of-the-first-tensor.base', ctx, P1(z3.IntVal(0)), axioms=AXO, mode='ematch', kind='lemma-base')
    U.lemma(f'{name}: first-part-of-the-chain-is-that-of-the-first-tensor.step', ctx + [kk >= 1, kk < d1_, P1(kk - 1)], P1(kk), axioms=AXO,
            mode='ematch', kind='lemma-step')
    v1 = val(A1, ix, d1_)
    mm_ = z3.Int('m!mo')
    P2 = lambda m: T.chain(R, ix, d1_ + m) == T.smul(v1, T.chain(A2, jx, m))
    U.lemma(f'{name}: second-part-is-the-first-value-times-the-chain-of-the-second-tensor.base', ctx + [cs1, cs2, P1(d1_ - 1)], P2(z3.IntVal(0)),
            axioms=AXO, mode='ematch', kind='lemma-base')
    U.lemma(f'{name}: second-part-is-the-first-value-times-the-chain-of-the-second-tensor.step', ctx + [cs1, cs2, mm_ >= 1, mm_ < d2_, P2(mm_ - 1)],
            P2(mm_), axioms=AXO, mode='ematch', kind='lemma-step')
    eq = val(R, ix, d1_ + d2_) == v1 * val(A2, jx, d2_)
    U.lemma(f'{name}: value-is-the-product-of-the-two-values', ctx + [cs1, cs2, P2(d2_ - 1)], eq, axioms=AXO, mode='ematch', kind='lemma')
    return eq, [cs1, cs2, P2(d2_ - 1)]


def _tt_list(st, n, same_d=None):
    """A Python list of n TT-tensors (concrete length): [(ref, arr, d)], and the list reference."""
    tts = [S.tt_param(st, f'Y{i + 1}', same_d if same_d is not None else z3.Int(f'd{i + 1}')) for i in range(n)]
    return tts, st.alloc(VList([r for r, _, _ in tts]))


def _untouched(p, tts, lref):
    items = p.heap[lref.oid].items
    return len(items) == len(tts) and all(isinstance(x, VRef) and x.oid == r.oid for x, (r, _, _) in zip(items, tts)) \
        and all(p.heap[r.oid].arr is a for r, a, _ in tts)


def _outer_many_unit(U, n):
    fn = U.func('act_many', 'outer_many')
    ex = U.executor(fn, axioms=AXO)
    ex.mode = 'ematch'
    st = U.state()
    tts, Ym = _tt_list(st, n)
    st.vars.update(Y_many=Ym)
    res = U.run(ex, st, pre=[T.wf(a, d_) for _, a, d_ in tts])
    U.cover('precondition-satisfiable', U.pre, axioms=AXO)
    ix = z3.Const('ix', T.IDX)
    parts = [(a, d_) for _, a, d_ in tts]
    dtot = sum(d_ for _, d_ in parts[1:]) + parts[0][1]
    for p, o in res:
        if o.kind != 'return' or not isinstance(o.value, VRef) or not isinstance(p.deref(o.value), VSeq):
            U.post('returns-a-list-of-cores', p, False, axioms=AXO, mode='ematch')
            continue
        Rs = p.deref(o.value)
        R = Rs.arr
        U.post('fresh-result-and-arguments-untouched', p, z3.BoolVal(o.value.oid not in [r.oid for r, _, _ in tts] + [Ym.oid] and _untouched(p, tts, Ym)))
        U.post('length-is-the-sum-of-the-lengths', p, Rs.n == dtot, axioms=AXO, mode='ematch')
        off = 0
        for i, (a, d_) in enumerate(parts):
            U.post(f'cores-of-tensor-{i + 1}-in-place', p, z3.Implies(z3.And(off <= t_, t_ < off + d_), R[t_] == a[t_ - off]), axioms=AXO, mode='ematch')
            off = off + d_
        U.post('well-formed', p, T.wf(R, dtot), axioms=AXO, mode='ematch')
        base = list(p.pc) + [T.index_ok(ix, R, dtot)]
        (A1, d1_), (A2, d2_) = parts[0], parts[1]
        j1 = z3.Const('jx1', T.IDX)
        j1def = z3.ForAll([t_], j1[t_] == ix[t_ + d1_], patterns=[j1[t_]])
        if n == 2:
            ctx = base + concat_facts(R, parts) + [j1def]
            eq, facts = outer_value_lemma(U, 'outer', ctx, R, A1, d1_, A2, d2_, ix, j1)
            U.post('value-is-the-product-of-the-values', ctx + [eq], val(R, ix, dtot) == val(A1, ix, d1_) * val(A2, j1, d2_), qf=True)
            U.canary('canary-value-is-that-of-the-second-tensor', ctx + facts, val(R, ix, dtot) == val(A2, j1, d2_), axioms=AXO)
        else:
            (A3, d3_) = parts[2]
            d12 = d1_ + d2_
            B = z3.Const('B12', T.TT)                      # spec constant: the concatenation of Y1 and Y2 (definition below)
            bdef = z3.ForAll([t_], B[t_] == z3.If(t_ < d1_, A1[t_], A2[t_ - d1_]), patterns=[B[t_]])
            j2 = z3.Const('jx2', T.IDX)
            j2def = z3.ForAll([t_], j2[t_] == ix[t_ + d12], patterns=[j2[t_]])
            ctxB = base + [bdef, j1def, j2def]
            U.lemma('concatenation-of-the-first-two-is-well-formed', ctxB, T.wf(B, d12), axioms=AXO, mode='ematch', kind='lemma')
            U.lemma('result-starts-with-the-concatenation-of-the-first-two', ctxB + concat_facts(R, parts) + [0 <= t_, t_ < d12], R[t_] == B[t_],
                    axioms=AXO, mode='ematch', kind='lemma')
            ctx1 = ctxB + concat_facts(B, parts[:2])
            U.lemma('concatenation-facts-for-the-first-two', ctxB + [0 <= t_, t_ < d12],
                    z3.And(z3.Implies(t_ < d1_, B[t_] == A1[t_]), z3.Implies(t_ >= d1_, B[t_] == A2[t_ - d1_])), axioms=AXO, mode='ematch', kind='lemma')
            eq1, _ = outer_value_lemma(U, 'outer(Y1,Y2)', ctx1, B, A1, d1_, A2, d2_, ix, j1)
            ctx2 = base + [T.wf(B, d12), j2def] + concat_facts(R, [(B, d12), (A3, d3_)])
            eq2, facts = outer_value_lemma(U, 'outer(B,Y3)', ctx2, R, B, d12, A3, d3_, ix, j2)
            U.post('value-is-the-product-of-the-values', [eq1, eq2],
                   val(R, ix, dtot) == val(A1, ix, d1_) * val(A2, j1, d2_) * val(A3, j2, d3_), qf=True)
            U.canary('canary-value-is-that-of-the-third-tensor', [eq1, eq2], val(R, ix, dtot) == val(A3, j2, d3_), qf=True)


@unit('act_many.outer_many.n2', props=('C01',))
def u_outer_many2(U):
    _outer_many_unit(U, 2)


@unit('act_many.outer_many.n3', props=('C01',))
def u_outer_many3(U):
    _outer_many_unit(U, 3)


@unit('act_many.outer_many.empty', props=('C01',))
def u_outer_many0(U):
    fn = U.func('act_many', 'outer_many')
    ex = U.executor(fn)
    st = U.state()
    st.vars.update(Y_many=st.alloc(VList([])))
    for p, o in U.run(ex, st):
        U.post('empty-list-gives-None', p, z3.BoolVal(o.kind == 'return' and o.value is NONE))


# ----------------------------------------------------------------------------------------------
# act_many.add_many for lists of 2 and of 3 TT-tensors of the same shape (trunc_freq left at its default 15, or set to 2)
#
# The running sum passes through add (call-site contract `call_add` of contracts/act.py, proved by unit act_two.add.tt_tt) and the LAST
# step is truncate(S, e, r) with the caller's accuracy e and the caller's rank cap r (call-site contract `call_truncate` above, proved
# by the units transformation.truncate.*).  Postconditions:
#   * the tensor S handed to the final truncate denotes the elementwise sum:  val(S, i) = val(Y1, i) + val(Y2, i) (+ val(Y3, i))
#     when no intermediate truncation happened (trunc_freq = 15); with trunc_freq = 2 the sum of three is rounded once in between
#     and only the structure is claimed;
#   * the result is a fresh well-formed tensor with the mode sizes of the operands; every rank is <= max(1, int(r)) and <= the sum of
#     the operand ranks at that bond (C02 "never exceeds rank caps", C11 "well-formed");
#   * the arguments are untouched.
# How close the result is to S is the business of C02 (truncate); number operands and longer lists are left to the bounded suite.

AXA = T.axioms('shape', 'mulI', 'chain', 'smul')


def _add_many_unit(U, n, trunc_freq):
    fn = U.func('act_many', 'add_many')
    ex = U.executor(fn, callees={'transformation.truncate': call_truncate}, axioms=AXA)
    ex.mode = 'ematch'
    st = U.state()
    d = z3.Int('d')
    tts, Ym = _tt_list(st, n, same_d=d)
    e0, r0 = z3.Real('e'), z3.Real('r')
    st.vars.update(Y_many=Ym, e=e0, r=r0, trunc_freq=trunc_freq)
    A = [a for _, a, _ in tts]
    res = U.run(ex, st, pre=[T.wf(a, d) for a in A] + [same_shape(A[0], a, d) for a in A[1:]] + [e0 >= 0, r0 >= 0])
    U.assumed += ['act_two.add (unit act_two.add.tt_tt)', 'transformation.truncate (units transformation.truncate.eigh ...)']
    U.cover('precondition-satisfiable', U.pre, axioms=AXA)
    ix = z3.Const('ix', T.IDX)
    tt = z3.Int('tt')
    expect_mid = [k for k in range(1, n) if k % trunc_freq == 0]          # additions after which an intermediate truncation is due
    for p, o in res:
        if o.kind != 'return' or not isinstance(o.value, VRef) or not isinstance(p.deref(o.value), VSeq):
            U.post('returns-a-list-of-cores', p, False, axioms=AXA, mode='ematch')
            continue
        Rs = p.deref(o.value)
        R = Rs.arr
        calls = p.ghost.get('truncate_calls', [])
        U.post('fresh-result-and-arguments-untouched', p, z3.BoolVal(o.value.oid not in [r.oid for r, _, _ in tts] + [Ym.oid] and _untouched(p, tts, Ym)))
        U.post('the-last-step-is-a-truncation-and-its-result-is-returned', p, z3.BoolVal(len(calls) >= 1 and calls[-1]['R'] is R))
        if not (len(calls) >= 1 and calls[-1]['R'] is R):
            continue
        last = calls[-1]
        U.post('final-truncation-uses-the-accuracy-and-the-rank-cap-of-the-caller', p, z3.And(M.to_real(last['e']) == e0, M.to_real(last['r']) == r0),
               axioms=AXA, mode='ematch')
        U.post('intermediate-truncations-exactly-when-due-and-with-the-accuracy-of-the-caller', p,
               z3.And([z3.BoolVal(len(calls) - 1 == len(expect_mid))] + [M.to_real(c['e']) == e0 for c in calls[:-1]]), axioms=AXA, mode='ematch')
        hyp = list(p.pc)
        U.post('well-formed-with-d-cores', hyp, z3.And(Rs.n == d, T.wf(R, d)), axioms=AXA, mode='ematch')
        U.post('mode-sizes-of-the-operands', hyp + [0 <= tt, tt < d], T.d1(R[tt]) == T.d1(A[0][tt]), axioms=AXA, mode='ematch')
        U.post('every-rank-at-most-max(1, int(r))', hyp + [1 <= tt, tt < d], T.d0(R[tt]) <= trunc_cap(r0), axioms=AXA, mode='ematch')
        # e-matching needs the left neighbour R[tt-1] as a term: one instance of wf(R) (positivity at tt-1), proved first, serves as the hint
        nb = T.d2(R[tt - 1]) >= 1
        U.lemma('left-neighbour-instance-of-well-formedness', hyp + [1 <= tt, tt < d], nb, axioms=AXA, mode='ematch', kind='lemma')
        U.post('every-rank-at-most-the-sum-of-the-operand-ranks', hyp + [1 <= tt, tt < d, nb],
               T.d0(R[tt]) <= sum(T.d0(a[tt]) for a in A[1:]) + T.d0(A[0][tt]), axioms=AXA, mode='ematch')
        Sarr = last['Y']
        total = sum(val(a, ix, d) for a in A[1:]) + val(A[0], ix, d)
        ctx = hyp + [T.index_ok(ix, A[0], d)]
        if not expect_mid:
            U.post('the-tensor-handed-to-the-final-truncation-denotes-the-elementwise-sum', ctx, val(Sarr, ix, d) == total, axioms=AXA, mode='ematch')
            U.canary('canary-the-sum-is-the-first-operand', ctx, val(Sarr, ix, d) == val(A[0], ix, d), axioms=AXA)
        else:
            U.canary('canary-no-rank-bound', hyp + [1 <= tt, tt < d], T.d0(R[tt]) <= 0, axioms=AXA)


@unit('act_many.add_many.n2', props=('C01', 'C02', 'C11'))
def u_add_many2(U):
    _add_many_unit(U, 2, 15)


@unit('act_many.add_many.n3', props=('C01', 'C02', 'C11'))
def u_add_many3(U):
    _add_many_unit(U, 3, 15)


@unit('act_many.add_many.n3.freq2', props=('C02', 'C11'))
def u_add_many3f(U):
    _add_many_unit(U, 3, 2)


@unit('act_many.add_many.n4', props=('C01', 'C02', 'C11'))
def u_add_many4(U):
    _add_many_unit(U, 4, 15)


@unit('act_many.add_many.n5', props=('C01', 'C02', 'C11'))
def u_add_many5(U):
    _add_many_unit(U, 5, 15)


@unit('act_many.add_many.n5.freq2', props=('C02', 'C11'))
def u_add_many5f(U):
    _add_many_unit(U, 5, 2)


# ----------------------------------------------------------------------------------------------
# Hand-made mutants (MUT_BASE=/tmp/base tools/mut.sh <file> '<sed>' <units>) and the named obligation that reports each.
# R(f, g) abbreviates the sed address '/^def f/,/^def g/' that restricts the edit to the function.
#
# props.size                   (props.py)
#   s/\[G.size for G in Y\]/[G.size for G in Y[1:]]/                       post one-summand-per-core, lemma-step partial-sums-...
#   s/\[G.size for G in Y\]/[G.shape[1] for G in Y]/                       post each-summand-is-the-size-of-its-core, lemma-step partial-sums-...
#   s/\[G.size for G in Y\]/[G.size + 1 for G in Y]/                       post each-summand-is-the-size-of-its-core
#   s/\[G.size for G in Y\]/[G.shape[0] * G.shape[1] for G in Y]/          post each-summand-is-the-size-of-its-core
#   quiet (equivalent): G.shape[0] * G.shape[1] * G.shape[2] in any order; undecided: np.max for np.sum (Unsupported), explicit loop (ContractMismatch)
# act_one.mean.{uniform,ones,weights}   (act_one.py, inside R(mean, norm))
#   s/p = np.ones(k) \/ k if norm else np.ones(k)/p = np.ones(k) if norm else np.ones(k) \/ k/     inv-init / inv-keep loop0.accumulated-product-is-the-chain-... (uniform, ones)
#   s/p = np.ones(k) \/ k if norm/p = np.ones(k) \/ (k + 1) if norm/         inv-init / inv-keep loop0.accumulated-product-is-the-chain-... (uniform)
#   s/Z = Z @ np.einsum(...)/Z = np.einsum(...) @ Z/                        call-pre matmul-inner-dims-agree, inv-keep loop0.accumulated-product-is-a-row
#   s/p = P\[i\]\[:k\]/p = P[0][:k]/                                         call-pre einsum-contracted-dimensions-agree, inv-keep loop0...chain... (weights)
#   s/for i in range(len(Y)):/for i in range(len(Y) - 1):/                   post result-is-the-single-entry-of-the-chain-of-weighted-mode-sums (all three)
#   s/if P is None:/if P is not None:/                                       inv-init / inv-keep loop0...chain... (weights); uniform / ones: Unsupported (P[i] of None)
#   s/k = Y\[i\].shape\[1\]/k = Y[i].shape[2]/                               call-pre einsum-contracted-dimensions-agree (all three)
#   quiet (equivalent): `for i, G in enumerate(Y): k = G.shape[1]`; undecided: np.dot for @ (Unsupported); seeded C01-4 (np.prod: Unsupported)
# act_one.sum                  (act_one.py)
#   s/return mean(Y, norm=False)/return mean(Y)/            post one-call-of-mean-on-the-argument-with-all-weights-1, post result-is-the-end-of-the-chain-of-plain-mode-sums
#   s/return mean(Y, norm=False)/return -mean(Y, norm=False)/               the same two
#   s/return mean(Y, norm=False)/return mean(Y[1:], norm=False)/            call-pre mean: well-formed tensor, and the same two
# transformation.full.{d2,d3}  (transformation.py, inside R(full, full_matrix))
#   seeded C01-1 (np.squeeze instead of the two guarded index steps)         post result-has-one-axis-per-mode (refuted, counter-model with a mode size 1)
#   s/Z = np.tensordot(Z, G, 1)/Z = np.tensordot(G, Z, 1)/                   post result-has-one-axis-per-mode, shape-is-the-tuple-of-mode-sizes, entry-at-every-multi-index-...
#   s/for G in Y\[1:\]:/for G in Y[:-1]:/                                    call-pre tensordot-contracted-dims-agree, post shape-..., entry-...
#   s/if Z.shape\[-1\] == 1:/if Z.shape[-1] == 0:/                           post result-has-one-axis-per-mode (refuted)
#   s/Z = Z\[\.\.\., 0\]/Z = Z[0, ...]/                                      post shape-is-the-tuple-of-mode-sizes, result-is-the-contraction-of-all-cores-with-both-rank-axes-dropped
#   s/for G in Y\[1:\]:/for G in Y[2:]:/                                     post result-has-one-axis-per-mode, ...
#   quiet (equivalent): axes=1 keyword, Z[-1, ...] for Z[0, ...]; undecided: Z[0] (Unsupported)
# act_one.get_many[.rows]      (act_one.py, inside R(get_many, getter))
#   s/range(1, I.shape\[-1\])/range(0, I.shape[-1])/                         call-pre batch-mode-indices-in-range, inv-keep loop0.every-row-is-the-partial-chain-of-its-multi-index
#   s/zip(Y\[1:\]/zip(Y[:-1]/                                                call-pre einsum-contracted-dimensions-agree, inv-keep loop0.every-row-..., loop0.batch-shape
#   s/Yk\[:, I\[\.\.\., k\], :\]/Yk[:, I[..., 0], :]/                         call-pre batch-mode-indices-in-range, inv-keep loop0.every-row-...
#   s/Y\[0\]\[0, I\[\.\.\., 0\], :\] if _to_item/Y[0][0, I[..., 1], :] if _to_item/      inv-init loop0.every-row-... (get_many)
#   s/return Q\[\.\.\., 0\] if _to_item else Q/return Q[..., 0] if not _to_item else Q/  post returns-a-vector-with-known-entries / returns-a-batch-of-matrices
#   s/range(1, I.shape\[-1\])/range(1, I.shape[-1] - 1)/                     post every-value-is-the-chained-entry-of-its-multi-index / every-slice-is-the-full-chain-...
#   quiet (equivalent): `for k in range(1, I.shape[-1]): Yk = Y[k]`, `for k, Yk in enumerate(Y[1:], 1)`
# data.accuracy_on_data        (data.py)
#   s/return -1\./return 0./                                                 post a-constant-is-returned-only-as-the-sentinel--1 (refuted)
#   s/if I_data is None or y_data is None:/if I_data is None and y_data is None:/        safety array-argument-not-None
#   s/... \/ np.linalg.norm(y_data)/... \/ np.linalg.norm(y)/                safety division-by-nonzero, post denominator-vector-is-the-data, denominator-is-the-norm-of-the-data
#   s/np.linalg.norm(y - y_data)/np.linalg.norm(y + y_data)/                 post numerator-vector-is-the-difference-of-the-evaluated-batch-and-the-data
#   s/if e_trunc is not None:/if e_trunc is None:/                           safety truncate-accuracy-not-None, post the-tensor-itself-is-evaluated-when-no-truncation-is-requested
#   s/        Y = teneva.truncate(Y, e_trunc)/        teneva.truncate(Y, e_trunc)/      post truncated-tensor-is-evaluated
#   s/Y = teneva.truncate(Y, e_trunc)/Y = teneva.truncate(Y, e_trunc, 1)/    post truncated-tensor-is-evaluated
#   s/norm(y - y_data) \/ norm(y_data)/norm(y_data) \/ norm(y - y_data)/     safety division-by-nonzero, post result-times-norm-of-the-data-is-the-norm-of-the-difference (refuted)
#   quiet (equivalent): norm(y_data - y); the denominator computed first into a variable
# act_many.outer_many.{n2,n3,empty}     (act_many.py, from '/^def outer_many/' to the end)
#   s/Y.extend(teneva.copy(Y_curr))/Y.extend(teneva.copy(Y_many[0]))/        post length-is-the-sum-of-the-lengths, cores-of-tensor-2-in-place, well-formed
#   s/for Y_curr in Y_many\[1:\]:/for Y_curr in Y_many[2:]:/                 post length-..., cores-of-tensor-2-in-place, well-formed
#   s/Y = teneva.copy(Y_many\[0\])/Y = Y_many[0]/                            post fresh-result-and-arguments-untouched (the first argument would be extended in place)
#   s/        return None/        return []/                                 post empty-list-gives-None (refuted)
# act_many.add_many.{n2,n3,n3.freq2}    (act_many.py, inside R(add_many, outer_many))
#   s/return teneva.truncate(Y, e, r) if not/return teneva.truncate(Y, e) if not/      post final-truncation-uses-the-accuracy-and-the-rank-cap-of-the-caller, every-rank-at-most-max(1, int(r))
#   s/return teneva.truncate(Y, e, r) if not/return teneva.truncate(Y, r, e) if not/   the same two
#   s/return teneva.truncate(Y, e, r) if not teneva._is_num(Y) else Y/return Y/        post the-last-step-is-a-truncation-and-its-result-is-returned (refuted)
#   s/enumerate(Y_many\[1:\])/enumerate(Y_many[2:])/                         post the-tensor-handed-to-the-final-truncation-denotes-the-elementwise-sum
#   s/Y = teneva.add(Y, Y_curr)/Y = teneva.add(Y, Y)/                        post every-rank-at-most-the-sum-of-the-operand-ranks, the-tensor-handed-to-...-elementwise-sum
#   s/(i+1) % trunc_freq == 0/i % trunc_freq == 0/                           post intermediate-truncations-exactly-when-due-..., the-tensor-handed-to-...-elementwise-sum
#   seeded C02-4 (final truncation skipped after an intermediate one)        n3.freq2: post final-truncation-uses-..., every-rank-at-most-max(1, int(r))
#   quiet (harmless): Y = Y_many[0] without copy (add returns a fresh list); the cap r also at intermediate truncations
# act_many.add_many.{n4,n5,n5.freq2}, transformation.full.{d4,d5}    (added in the last session; same schemas, larger instances)
#   act_many.py   s/enumerate(Y_many\[1:\])/enumerate(Y_many[1:3])/        n3 quiet (equivalent there); n5: post the-tensor-handed-to-the-final-truncation-denotes-the-elementwise-sum (n4: the same obligation times out = undecided)
#   transformation.py  28s/Y\[1:\]/Y[1:4]/                                   d3, d4 quiet (equivalent there); d5: post result-has-one-axis-per-mode (refuted), shape-is-..., result-is-the-contraction-of-all-cores-...
