"""Strengthened T1 contracts for C20 (incomplete TT-SVD from the structured samples of sample_tt):
  svd.svd_incomplete.cores   - the array plumbing of svd_incomplete WITHOUT the lenient tier: every intermediate array has a modelled
                               shape, the least-squares calls and the slice assignments are checked, the result has the tensor's shape;
  sample.sample_lhs.distinct - the Latin-hypercube column of a mode with at least m levels holds m pairwise distinct levels
                               (the hypothesis "prefixes and suffixes are distinct" of C20).
Model-table entries: ttvc/mx_svdinc.py (gate ex.svdinc)."""
import z3
from ttvc.units import unit
from ttvc.symex import VOpt, VStr, VRec, VSeq, VArr, VFunc, VTuple, VRef, VList, VOpaque, NONE, Z
from ttvc import models as M, theory as T, rnd as R
from contracts import spec as S

IA = z3.ArraySort(z3.IntSort(), z3.IntSort())
_k, _k2 = z3.Ints('k!g k2!g')


def tt_prefix(arr, n):
    """A PREFIX of a TT-tensor (the cores built so far): like wf(Y) but without "last rank 1", and length >= 1."""
    return [n >= 1, T.d0(arr[0]) == 1,
            z3.ForAll([_k], z3.Implies(z3.And(0 <= _k, _k < n), z3.And(T.d0(arr[_k]) >= 1, T.d1(arr[_k]) >= 1, T.d2(arr[_k]) >= 1)), patterns=[arr[_k]]),
            z3.ForAll([_k, _k2], z3.Implies(z3.And(0 <= _k, _k2 == _k + 1, _k2 < n), T.d2(arr[_k]) == T.d0(arr[_k2])),
                      patterns=[z3.MultiPattern(arr[_k], arr[_k2])])]


def call_get_row(ex, st, args, kwargs, node):
    """teneva.get(Y[:mode], i, _to_item=False) by the contract of unit act_one.get.interface_row (below): for a prefix of a TT-tensor and
    one index per core the result is the 1 x r_last interface row.  The index-range part of that precondition (0 <= i_k < n_k) is NOT
    obliged here: it holds because shapes = column maxima of I + 1, but the model of np.max(I, axis=0) has no element-level statement."""
    if len(args) != 2 or set(kwargs) != {'_to_item'} or kwargs['_to_item'] is not False:
        raise M.Unsupported('get: only the call get(Y, i, _to_item=False) of svd_incomplete is under contract here')
    Ys, i = st.deref(args[0]), st.deref(args[1])
    if not (isinstance(Ys, VSeq) and Ys.tag == 'core' and isinstance(i, VArr) and i.ndim == 1):
        raise M.Unsupported('get: expected a list of cores and one multi-index')
    ex.oblige(st, 'call-pre', 'get: the cores built so far form a prefix of a TT-tensor (first rank 1, positive dimensions, matching ranks)',
              z3.And(*tt_prefix(Ys.arr, Ys.n)), node)
    ex.oblige(st, 'call-pre', 'get: one index per core', Z(i.shape[0]) == Ys.n, node)
    M.used('teneva.get(Y, i, _to_item=False) -> array of shape (1, r_last) (unit act_one.get.interface_row)')
    return VArr((1, T.d2(Ys.arr[Ys.n - 1])), None, None)


# ----------------------------------------------------------------------------------------------
# svd.svd_incomplete.cores[.float_cap]  (C20: "... returns a well-formed TT-tensor of the tensor's shape with ranks <= the cap ...")
# Same layout contract of sample_tt as unit svd.svd_incomplete.shapes (contracts/svd.py; every clause is a post of the units sample.sample_tt.*
# of contracts/optima_more.py), but executed WITHOUT the lenient tier: in the lenient unit the matrix M of interface rows is an uninterpreted
# value, so neither the least-squares calls nor the slice assignments G[:, i, :] = ... are checked there.  Here every array of the function has a
# modelled shape with a concrete number of axes:
#   M        (cnt, r0): the stack of the (1, r0) interface rows without the middle axis  (cnt = number of prefixes = rows of the block);
#   Y_curr   (rows, r1) after the optional truncation;  A = M[i*step:(i+1)*step], b = Y_curr[i*step:(i+1)*step] have equally many rows;
#   lstsq(A, b)[0] is (r0, r1) and fits G[:, i, :] of the (r0, n, r1) core EXACTLY (the model of the slice assignment does not accept
#   NumPy's silent broadcasting of a one-column solution);  every dimension of np.empty is an integer.
# Posts (every return path; any raise path fails `no-exception`): d cores, boundary ranks 1, matching neighbour ranks, ranks <= max(1, int(r)),
# mode size of core k = shapes[k] = 1 + largest k-th index among the samples (the tensor's shape).
# Two cases: r an int (`.cores`) and r a float (`.cores.float_cap`, e.g. the default 1.E+12; cap = int(r)).
# Not covered: the VALUES of the cores (recovery of the sampled tensor up to rounding: bounded suite); the index-range precondition of get
# (see call_get_row); that the n slices of `step` rows exhaust the block (n * step = rows needs blk[k] = shapes[k] * L1_k, which relates the
# layout to the column maxima of I - no element-level model of np.max(I, axis=0)).

def _svdinc_unit(U, r_int):
    fn = U.func('svd', 'svd_incomplete')
    st = U.state()
    mI, d = z3.Ints('mI d')
    idx, idm, blk = z3.Const('idx', IA), z3.Const('idx_many', IA), z3.Const('blk', IA)
    I = VArr((mI, d), None, None, 'i')
    I.nonneg = True
    Yv = VArr((mI,), None, None)
    e = z3.Real('e')
    r = z3.Int('r') if r_int else z3.Real('r')
    cap = r if r_int else z3.ToInt(r)
    capf = z3.If(cap >= 1, cap, 1)
    t, t2 = z3.Ints('t!i t2!i')

    def shapes_of(s):
        v = s.vars.get('shapes')
        if not (isinstance(v, VArr) and v.ndim == 1 and v.tag == 'ivec' and v.t is not None):
            raise M.ContractMismatch('svd_incomplete: `shapes` is not the integer vector of mode sizes')
        return v.t

    def inv(ex, s, j):
        Ys = s.deref(s.vars['Y_res'])
        if not (isinstance(Ys, VSeq) and Ys.tag == 'core'):
            raise M.ContractMismatch('svd_incomplete: Y_res is not the list of cores')
        sh = shapes_of(s)
        mode = j + 1
        return [('one-core-per-processed-mode', Ys.n == mode),
                ('first-rank-1', T.d0(Ys.arr[0]) == 1),
                ('cores-positive', z3.ForAll([t], z3.Implies(z3.And(0 <= t, t < mode), z3.And(T.d0(Ys.arr[t]) >= 1, T.d2(Ys.arr[t]) >= 1)),
                                             patterns=[Ys.arr[t]])),
                ('mode-sizes-are-those-of-the-sampled-tensor', z3.ForAll([t], z3.Implies(z3.And(0 <= t, t < mode), T.d1(Ys.arr[t]) == sh[t]),
                                                                         patterns=[Ys.arr[t]])),
                ('neighbour-ranks-match', z3.ForAll([t, t2], z3.Implies(z3.And(0 <= t, t2 == t + 1, t2 < mode), T.d2(Ys.arr[t]) == T.d0(Ys.arr[t2])),
                                                    patterns=[z3.MultiPattern(Ys.arr[t], Ys.arr[t2])])),
                ('ranks-within-cap', z3.ForAll([t], z3.Implies(z3.And(0 <= t, t < mode), T.d2(Ys.arr[t]) <= capf), patterns=[Ys.arr[t]])),
                ('last-core-closes-with-rank-1', z3.Implies(mode == d, T.d2(Ys.arr[d - 1]) == 1))]

    def inv_inner(ex, s, j):
        G = s.vars.get('G')
        if not (isinstance(G, VArr) and G.ndim == 3):
            raise M.ContractMismatch('svd_incomplete: G is not a 3-dimensional array inside the slice loop')
        for nm in ('r0', 'n', 'r1'):
            if nm not in s.vars:
                raise M.ContractMismatch(f'svd_incomplete: no variable {nm}')
        return [('G-dims', z3.And(Z(G.shape[0]) == Z(s.vars['r0']), Z(G.shape[1]) == Z(s.vars['n']), Z(G.shape[2]) == Z(s.vars['r1'])))]

    ex = U.executor(fn, loops={0: {'inv': inv}, 1: {'inv': inv_inner}}, axioms=T.axioms('shape', 'mulI'),
                    callees={'act_one.get': call_get_row}, type_hints={'Y_res': 'tt'})
    ex.svdinc = True
    st.vars.update(I=I, Y=Yv, idx=VArr((d + 1,), idx, 'ivec', 'i'), idx_many=VArr((d,), idm, 'ivec', 'i'), e=e, r=r)
    pre = [d >= 2, mI >= 1, e >= 0, r >= 1, idx[0] == 0, idx[d] == mI,
           z3.ForAll([t], z3.Implies(z3.And(0 <= t, t < d), z3.And(idm[t] >= 1, blk[t] >= 1)), patterns=[idm[t]]),
           z3.ForAll([t, t2], z3.Implies(z3.And(0 <= t, t2 == t + 1, t2 <= d), idx[t2] - idx[t] == blk[t] * idm[t]),
                     patterns=[z3.MultiPattern(idx[t], idx[t2])]),
           z3.ForAll([t, t2], z3.Implies(z3.And(0 <= t, t2 == t + 1, t2 <= d), idx[t] < idx[t2]), patterns=[z3.MultiPattern(idx[t], idx[t2])]),
           z3.ForAll([t], z3.Implies(z3.And(0 <= t, t <= d), z3.And(idx[t] >= 0, idx[t] <= mI)), patterns=[idx[t]]),
           idm[d - 1] == 1, idm[0] >= 1]
    res = U.run(ex, st, pre=pre)
    U.assumed.extend(['act_one.get (unit act_one.get.interface_row)', 'svd.matrix_skeleton (units svd.matrix_skeleton.abs.*)'])
    U.cover('precondition-satisfiable', U.pre, axioms=ex.axioms)
    tt = z3.Int('tt')
    for p, o in res:
        if o.kind != 'return':
            U.post('no-exception', p, False, axioms=ex.axioms)
            continue
        Ys = p.deref(o.value)
        sh = shapes_of(p)
        U.post('one-core-per-mode', p, Ys.n == d, axioms=ex.axioms)
        U.post('boundary-ranks-1', p, z3.And(T.d0(Ys.arr[0]) == 1, T.d2(Ys.arr[d - 1]) == 1), axioms=ex.axioms)
        U.post('neighbour-ranks-match', p, z3.Implies(z3.And(0 <= tt, tt < d - 1), T.d2(Ys.arr[tt]) == T.d0(Ys.arr[tt + 1])), axioms=ex.axioms)
        U.post('ranks-within-cap', p, z3.Implies(z3.And(0 <= tt, tt < d - 1), T.d2(Ys.arr[tt]) <= capf), axioms=ex.axioms)
        U.post('mode-sizes-are-those-of-the-sampled-tensor', p, z3.Implies(z3.And(0 <= tt, tt < d), T.d1(Ys.arr[tt]) == sh[tt]), axioms=ex.axioms)
        U.canary('canary-rank-1-everywhere', p, z3.Implies(z3.And(0 <= tt, tt < d - 1), T.d2(Ys.arr[tt]) == 1), axioms=ex.axioms)
    U.canary('canary-unreachable', U.pre, False, axioms=ex.axioms)


@unit('svd.svd_incomplete.cores', props=('C20',))
def u_svdinc_int(U):
    _svdinc_unit(U, True)


@unit('svd.svd_incomplete.cores.float_cap', props=('C20',))
def u_svdinc_real(U):
    _svdinc_unit(U, False)


# ----------------------------------------------------------------------------------------------
# sample.sample_lhs: the hypothesis of C20 "every mode size >= m, so that the Latin-hypercube prefixes and suffixes are distinct".
# sample_tt uses the columns of sample_lhs(shape of a side, m, seed) as the one-index prefixes / suffixes of the blocks, and the recovery of
# svd_incomplete needs m DIFFERENT prefixes (suffixes): a repeated level in a column of a mode with >= m levels loses a sample.
# In the multiset abstraction of ttvc/rnd.py (cnt(vec, v) = number of positions of vec holding v): for a mode with n_c >= m levels no level
# occurs twice in column c, and exactly m different levels occur (all of them if n_c = m).
# (rand.shuffle permutes the column in place: same multiset - model-table fact of ttvc/rnd.py.)
# Not covered: m given as a float (int(m)), n given as a list (unit sample.sample_lhs.bounds runs both forms), the element-level reading
# "I[a, c] != I[b, c] for a != b" (cnt has no element-level definition in the theory), joint distribution of the columns.

@unit('sample.sample_lhs.distinct', props=('C20', 'C14'))
def u_lhs_distinct(U):
    fn = U.func('sample', 'sample_lhs')
    st = U.state()
    d, m = z3.Ints('d m')
    narr = z3.Const('n', IA)
    n = VArr((d,), narr, 'ivec', 'i')
    v = z3.Int('v')

    def body_end(ex_, s, o, j):
        cols = s.ghost.get('columns', [])
        if not (len(cols) == 1 and isinstance(cols[0][1], VArr) and cols[0][1].tag == 'ivec' and cols[0][1].t is not None):
            raise M.ContractMismatch('sample_lhs: one mode does not fill exactly one column with one integer vector')
        col, vec = cols[0]
        k = narr[j]
        ex_.oblige(s, 'post', 'mode-c-fills-column-c-with-m-entries', z3.And(col == j, Z(vec.shape[0]) == m), None, assume=False)
        ex_.oblige(s, 'post', 'a-mode-with-at-least-m-levels-uses-no-level-twice (the m entries of its column are pairwise distinct)',
                   z3.Implies(k >= m, z3.And(R.cnt(vec.t, v) >= 0, R.cnt(vec.t, v) <= 1)), None, assume=False)
        ex_.oblige(s, 'post', 'a-mode-with-exactly-m-levels-uses-every-level-once',
                   z3.Implies(z3.And(k == m, 0 <= v, v < k), R.cnt(vec.t, v) == 1), None, assume=False)
        ex_.oblige(s, 'post', 'only-levels-of-the-mode-are-used', z3.Implies(z3.Or(v < 0, v >= k), R.cnt(vec.t, v) == 0), None, assume=False)

    def inv(ex_, s, j):
        I = s.vars.get('I')
        if not (isinstance(I, VArr) and I.ndim == 2):
            raise M.ContractMismatch('sample_lhs: I is not a 2-dimensional array')
        return [('result-shape', z3.And(Z(I.shape[0]) == m, Z(I.shape[1]) == d))]

    ex = U.executor(fn, loops={0: {'inv': inv, 'body_end': body_end}})
    ex.svdinc = True             # counts of a draw WITH replacement (ttvc/mx_svdinc.py): only the bound "at most once" is missing there
    st.vars.update(n=n, m=m, seed=z3.Int('seed'))
    t = z3.Int('t')
    res = U.run(ex, st, pre=[d >= 1, m >= 1, z3.ForAll([t], z3.Implies(z3.And(0 <= t, t < d), narr[t] >= 1), patterns=[narr[t]])])
    U.cover('precondition-satisfiable', U.pre)
    for p, o in res:
        if o.kind != 'return':
            U.post('no-exception', p, False)
            continue
        I = p.deref(o.value)
        if not (isinstance(I, VArr) and I.ndim == 2):
            raise M.ContractMismatch('sample_lhs: the result is not a 2-dimensional array')
        U.post('integer-array-of-shape-(m,d)', p, z3.And(Z(I.shape[0]) == m, Z(I.shape[1]) == d, z3.BoolVal(I.dtype == 'i')))
    U.canary('canary-unreachable', U.pre, False)


# ----------------------------------------------------------------------------------------------
# act_one.get(Y, i, _to_item=False) for ONE multi-index: the contract that svd.svd_incomplete.* use for the left interface rows
# (contracts/svd.py call_get_interface: "array of shape (1, r_last)").  Here it is proved on the source of get: the result is the
# 1 x r_d matrix chain(Y, i, d-1) = G_0[:, i_0, :] @ ... @ G_{d-1}[:, i_{d-1}, :] (the rank axes are kept, nothing is squeezed).
# Precondition: Y is a PREFIX of a TT-tensor (first rank 1, positive dimensions, matching neighbour ranks; the last rank is free) of
# length d >= 1 and i holds one valid index per core.  Not covered: i given as a list, the batch form (unit act_one.get_many.rows).

@unit('act_one.get.interface_row', props=('C20',))
def u_get_row(U):
    from contracts.act import lemma_chain_shape, AX as AXA
    fn = U.func('act_one', 'get')
    st = U.state()
    Y, arr, d = S.tt_param(st, 'Y')
    ix = z3.Const('ix', T.IDX)
    i = VArr((d,), ix, 'ivec', 'i')

    def inv(ex, s, j):
        Q = s.vars.get('Q')
        if not (isinstance(Q, VArr) and Q.ndim == 2 and Q.tag == 'mat' and Q.t is not None):
            raise M.ContractMismatch('get(_to_item=False): Q is not a matrix with a denotation')
        return [('Q-is-the-partial-chain', Q.t == T.chain(arr, ix, j)),
                ('Q-shape', z3.And(Z(Q.shape[0]) == 1, Z(Q.shape[1]) == T.d2(arr[j])))]

    ex = U.executor(fn, loops={0: {'inv': inv, 'header': 'range(1, d)'}}, axioms=AXA)     # the invariant is the LEFT partial chain
    ex.mode = 'ematch'
    st.vars.update(Y=Y, i=i, _to_item=False)
    pre = tt_prefix(arr, d) + [T.index_ok(ix, arr, d)]
    cs = lemma_chain_shape(U, 'Y', arr, ix, d, pre, AXA)
    res = U.run(ex, st, pre=pre + [cs])
    U.cover('precondition-satisfiable', U.pre, axioms=AXA)
    for p, o in res:
        if o.kind != 'return':
            U.post('no-exception', p, False, axioms=AXA, mode='ematch')
            continue
        Q = p.deref(o.value)
        if not isinstance(Q, VArr):
            raise M.ContractMismatch('get(_to_item=False): the result is not an array')
        U.post('result-is-2-dimensional', p, z3.BoolVal(Q.ndim == 2), axioms=AXA, mode='ematch')      # the number of axes is concrete
        if Q.ndim != 2:
            continue
        if not (Q.tag == 'mat' and Q.t is not None):
            raise M.ContractMismatch('get(_to_item=False): the result has no matrix denotation')
        U.post('result-is-the-1-x-r-interface-row', p, z3.And(Z(Q.shape[0]) == 1, Z(Q.shape[1]) == T.d2(arr[d - 1])), axioms=AXA, mode='ematch')
        U.post('result-is-the-chain-of-the-selected-slices', p, Q.t == T.chain(arr, ix, d - 1), axioms=AXA, mode='ematch')
        U.canary('canary-result-is-a-1x1-matrix', p, Z(Q.shape[1]) == 1, axioms=AXA)


# ==============================================================================================
# Seeded changes and hand-made mutants (MUT_BASE=/tmp/base tools/mut.sh <file> '<sed>' <unit>): obligation that fails
#
# svd.py / svd.svd_incomplete.cores (.float_cap behaves alike unless noted)
#   seeded C20-1 (r1 = Y_curr.shape[1] only in the else branch)            call-pre.slice-assignment-shape-matches  (.float_cap: call-pre.dimension-is-an-integer)
#   seeded C20-5 (np.squeeze([...]) instead of np.array([...])[:, 0, :])   call-pre.lstsq-needs-a-2-dimensional-matrix (path r0 = 1: M is 1-D),
#                                                                          safety.indexed-array-has-at-least-one-axis (path r0 = 1 and one prefix: M is 0-D), safety.slice-in-range
#   s/G = np.empty(\[r0, n, r1\])/G = np.empty([r0, n, r])/                 inv-init.loop1.G-dims
#   s/r0 = Y_res\[-1\].shape\[-1\]/r0 = Y_res[-1].shape[0]/                call-pre.slice-assignment-shape-matches, inv-keep.loop0.neighbour-ranks-match
#   s/Y_res = \[Y_curr\[None, ...\]\]/Y_res = [Y_curr.T[None, ...]]/       inv-init.loop0.mode-sizes-are-those-of-the-sampled-tensor, inv-init.loop0.ranks-within-cap
#   s/n = shapes\[mode\]$/n = shapes[mode-1]/                              inv-keep.loop0.mode-sizes-are-those-of-the-sampled-tensor
#   s/...:mode\]\])\[:, 0, :\]/...:mode]])[0, :, :]/                       call-pre.lstsq-rows-agree
#   s/Y_curr.reshape(shapes\[0\], -1, order=.C.)/Y_curr.reshape(-1, shapes[0], order="C")/    inv-init.loop0.mode-sizes-are-those-of-the-sampled-tensor
#   s/A = M\[i\*step:(i+1)\*step\]/A = M[i*step:(i+1)*step+1]/             call-pre.lstsq-rows-agree
#   equivalent (all proved): r1 = r for every mode (idx_many[d-1] = 1 closes the train anyway); np.zeros for np.empty; Y_res[mode-1].shape[2];
#                            I[idx[mode]:idx[mode+1]]; len(Y_curr) // n; matrix_skeleton(..)[0]
#   undecided: np.vstack([...]); np.squeeze([...], axis=1); Y_res += [G]; rows = slice(..) (refactoring C20-r1); renamed r0 / n / r1 / G / shapes
#
# sample.py / sample.sample_lhs.distinct
#   seeded C20-4 (rand.choice(k, m-len(I1)) without replace=False)         post.a-mode-with-at-least-m-levels-uses-no-level-twice (only this one)
#   s/replace=False/replace=True/                                          post.a-mode-with-at-least-m-levels-uses-no-level-twice
#   s/m \/\/ k)/m \/\/ k + 1)/                                              call-pre.choice-without-replacement-needs-0<=size<=population
#   s/np.concatenate(\[I1, I2\])/np.concatenate([I2, I2])/                 call-pre.column-assignment-length-matches
#   s/rand.choice(k, m-len(I1), replace=False)/rand.choice(m, m-len(I1), replace=False)/     post.only-levels-of-the-mode-are-used
#   s/I\[:, i\] = np.concatenate/I[:, 0] = np.concatenate/                  post.mode-c-fills-column-c-with-m-entries
#   undecided: rand.integers(0, k, ..); np.arange(..) % k
#   NOTE np.repeat(..)[:m] (equivalent: len(I1) <= m) fails safety.slice-in-range of the 1-D slice model of ttvc/models.py, which demands
#        hi <= len although NumPy clips - an engine model stricter than NumPy, not a clause of this unit (same outcome in sample.sample_lhs.counts).
#
# act_one.py / act_one.get.interface_row
#   s/    return Q\[0\] if _to_item else Q$/    return Q[0]/                post.result-is-2-dimensional
#   s/Q = Q @ Y\[k\]\[:, i\[k\], :\]/Q = Q @ Y[k][:, i[0], :]/             safety.mode-index-in-range, inv-keep.loop0.Q-is-the-partial-chain
#   s/for k in range(1, d):$/for k in range(1, d-1):/                      post.result-is-the-1-x-r-interface-row, post.result-is-the-chain-of-the-selected-slices
#   equivalent (proved): refactoring C20-r3 (if/else instead of the conditional expressions)
#   undecided: Q = Y[0][0, i[0], :] for both flags (type guard of the invariant); np.squeeze(Q)
