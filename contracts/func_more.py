"""Sidecar contracts for the functional (Chebyshev) TT routines of teneva/func.py beyond func_basis (C12, partly C11):
func_gets, func_int, func_sum, func_get, func_diff_matrix(_apply), func_int_general.
Model-table entries and spec symbols: ttvc/mx_func.py; standard-model interpretations: lemmas/spotcheck_ext_func.py."""
import z3
from ttvc.units import unit
from ttvc.symex import VOpt, VStr, VRec, VSeq, VArr, VFunc, VTuple, VRef, VList, VSym, NONE, Z
from ttvc import models as M, theory as T, pt as PT
from ttvc import mx_func as X
from contracts import spec as S
from contracts import grid as G
from contracts.act import shape_post

IA, RA, MA = X.IA, X.RA, X.MA
k_, t_, i_, j_, a_, b_ = z3.Ints('k!fm t!fm i!fm j!fm a!fm b!fm')
kk = z3.Int('kk')


def trunc(x):
    """int(x) for a real x: truncation toward zero."""
    return z3.If(x >= 0, z3.ToInt(x), -z3.ToInt(-x))


def cnode(j, m):
    """The j-th Chebyshev node of an m-point grid on [-1, 1]: cos(pi j / (m - 1)) (the node formula of ind_to_poi, unit grid.ind_to_poi.cheb)."""
    return G.spec_i2p(j, z3.RealVal(-1), z3.RealVal(1), m, 'cheb')


# ----------------------------------------------------------------------------------------------
# call-site contracts (each states what the callee's own unit proves)

def call_ind_to_poi(ex, st, args, kwargs, node):
    """ind_to_poi(I, a, b, n, 'cheb') for an integer (len, 1) column I: unit grid.ind_to_poi.cheb (pointwise tier) proves, for a < b, n >= 2
    and 0 <= I <= n - 1, that every element of the result is the node formula at the corresponding element of I; same shape."""
    Iv = st.deref(args[0])
    kind = args[4].concrete() if len(args) > 4 and isinstance(args[4], VStr) else (kwargs['kind'].concrete() if isinstance(kwargs.get('kind'), VStr) else 'uni')
    if kwargs and set(kwargs) - {'kind'} or len(args) < 4 or kind != 'cheb' or not (isinstance(Iv, VArr) and Iv.tag == 'icol' and Iv.t is not None):
        raise M.Unsupported("ind_to_poi: only the call (integer column, a, b, n, 'cheb') is under this call-site contract")
    a, b = M.to_real(ex.need_num(st, args[1], node)), M.to_real(ex.need_num(st, args[2], node))
    n = ex.need_num(st, args[3], node)
    if not M.is_intsort(n):
        raise M.Unsupported('ind_to_poi: non-integer grid size')
    L = Z(Iv.shape[0])
    ex.oblige(st, 'call-pre', 'ind_to_poi: a < b and at least two grid points (n - 1 is a divisor)', z3.And(a < b, Z(n) >= 2, L >= 1), node)
    ex.oblige(st, 'call-pre', 'ind_to_poi: indices within the grid',
              z3.ForAll([j_], z3.Implies(z3.And(0 <= j_, j_ < L), z3.And(Iv.t[j_] >= 0, Iv.t[j_] <= Z(n) - 1))), node)
    arr = ex.fresh('nodes', RA)
    st.assume(z3.ForAll([j_], z3.Implies(z3.And(0 <= j_, j_ < L), arr[j_] == G.spec_i2p(Iv.t[j_], a, b, Z(n), 'cheb')), patterns=[arr[j_]]))
    st.ghost.setdefault('i2p_calls', []).append((Iv, a, b, n, arr))
    return VArr((Iv.shape[0], 1), arr, 'rcol', 'f')


def call_func_basis(ex, st, args, kwargs, node):
    """func_basis(X, m) (kind 'cheb', default ones_func) for a 1-D array X: unit func.func_basis proves (m >= 1, X non-empty) that the result
    has one row per polynomial and row i is T_i(X) elementwise: a (m, len X) matrix with entries cheb(i, X[j])."""
    Xv = st.deref(args[0])
    m = args[1] if len(args) > 1 else kwargs.get('m', 10)
    if set(kwargs) - {'m'} or len(args) > 2 or not X.is_vec(Xv, 'rvec'):
        raise M.Unsupported('func_basis: only the call (1-D float array, m) is under this call-site contract')
    m = ex.need_num(st, m, node)
    if not M.is_intsort(m):
        raise M.Unsupported('func_basis: non-integer number of basis functions')
    L = Z(Xv.shape[0])
    ex.oblige(st, 'call-pre', 'func_basis: at least one basis function and one point', z3.And(Z(m) >= 1, L >= 1), node)
    Tm = ex.fresh('Tbasis', T.Mat)
    st.assume(T.rows(Tm) == Z(m), T.cols(Tm) == L,
              z3.ForAll([i_, j_], z3.Implies(z3.And(0 <= i_, i_ < Z(m), 0 <= j_, j_ < L), T.ent(Tm, i_, j_) == X.cheb(i_, Xv.t[j_])),
                        patterns=[T.ent(Tm, i_, j_)]))
    st.ghost.setdefault('basis_calls', []).append((Xv, m, Tm))
    return M.mk_mat(Tm)


def call_grid_prep_opt_any(ex, st, args, kwargs, node):
    """grid_prep_opt(opt, d, kind) without reps, what the units grid.grid_prep_opt.{float,int,list,array}.{float,int} (contracts/misc.py) and
    grid.grid_prep_opt.int_array[.d] prove: None -> None; a number needs d >= 1 (else ValueError) and gives the length-d vector of kind(opt);
    a list / 1-D array gives the vector of the same length with the elements kind(opt[k]) (an integer array with kind=int: itself)."""
    opt = st.deref(args[0])
    d = args[1] if len(args) > 1 else kwargs.get('d', NONE)
    kind = args[2] if len(args) > 2 else kwargs.get('kind', M.TypeVal('float'))
    reps = args[3] if len(args) > 3 else kwargs.get('reps', NONE)
    if reps is not NONE or not isinstance(kind, M.TypeVal) or kind.name not in ('float', 'int') or set(kwargs) - {'d', 'kind', 'reps'}:
        raise M.Unsupported('grid_prep_opt call-site contract: no reps, kind int / float')
    if opt is NONE:
        return NONE
    isint = kind.name == 'int'
    conv = (lambda x: x if M.is_intsort(x) else trunc(M.to_real(x))) if isint else (lambda x: M.to_real(x))
    mk = X.ivec if isint else X.rvec
    if M.is_num(opt):
        dv = d.val if isinstance(d, VOpt) else d
        ok = z3.BoolVal(False) if d is NONE else z3.And(z3.Not(d.isnone) if isinstance(d, VOpt) else z3.BoolVal(True), Z(dv) >= 1)
        ex.oblige(st, 'call-pre', 'grid_prep_opt: a number needs a dimension d >= 1 (otherwise ValueError)', ok, node)
        if d is NONE:
            raise M.Unsupported('grid_prep_opt of a number without a dimension')
        arr = ex.fresh('opt', IA if isint else RA)
        st.assume(z3.ForAll([k_], z3.Implies(z3.And(0 <= k_, k_ < Z(dv)), arr[k_] == conv(Z(opt))), patterns=[arr[k_]]))
        return mk(Z(dv), arr)
    if isinstance(opt, VSeq) and opt.tag in ('real', 'int'):
        if opt.tag == 'int' and isint:
            return mk(opt.n, opt.arr)
        arr = ex.fresh('opt', IA if isint else RA)
        st.assume(z3.ForAll([k_], z3.Implies(z3.And(0 <= k_, k_ < opt.n), arr[k_] == conv(opt.arr[k_])), patterns=[arr[k_]]))
        return mk(opt.n, arr)
    if X.is_vec(opt, 'ivec') and isint:
        return opt
    if X.is_vec(opt, 'rvec') and not isint:
        return X.rvec(opt.shape[0], opt.t)
    if X.is_vec(opt, 'rvec') or X.is_vec(opt, 'ivec'):
        arr = ex.fresh('opt', IA if isint else RA)
        st.assume(z3.ForAll([k_], z3.Implies(z3.And(0 <= k_, k_ < Z(opt.shape[0])), arr[k_] == conv(opt.t[k_])), patterns=[arr[k_]]))
        return mk(opt.shape[0], arr)
    raise M.Unsupported('grid_prep_opt call-site contract: option kind')


# ----------------------------------------------------------------------------------------------
# grid.grid_prep_opt(n, d, int) for an integer array n and a GIVEN dimension d (func_sum / func_get hand the vector of mode sizes through
# grid_prep_opts): the array itself - the dimension is only read for number options.  (Unit grid.grid_prep_opt.int_array of contracts/qtt.py
# covers d = None.)

@unit('grid.grid_prep_opt.int_array.d', props=('C18', 'C12'))
def u_prep_opt_int_array_d(U):
    fn = U.func('grid', 'grid_prep_opt')
    ex = U.executor(fn)
    st = U.state()
    n0 = z3.Int('n0')
    A = X.ivec(n0, z3.Const('v', IA))
    st.vars.update(opt=A, d=S.opt_int('d'), kind=M.TypeVal('int'), reps=NONE)
    res = U.run(ex, st, pre=[n0 >= 0])
    U.cover('reachable', U.pre)
    for p, o in res:
        R = p.deref(o.value) if o.kind == 'return' else None
        ok = isinstance(R, VArr) and R.ndim == 1 and R.shape[0] is A.shape[0] and R.t is A.t and R.tag == A.tag and R.dtype == 'i'
        U.post('same-integer-vector-whatever-the-dimension-argument', p, z3.BoolVal(ok))
    U.post('no-fork-on-the-dimension', [], z3.BoolVal(len(res) == 1))


# ----------------------------------------------------------------------------------------------
# func.func_gets (kind='cheb'): values of the interpolant on a new Chebyshev grid, as a TT-tensor
#
# For every core k the result core is the mode product  cmode(A[k], B_k) = np.einsum('riq,ij->rjq', A[k], B_k)  with the basis matrix
#     B_k[i, j] = T_i(x_j),   0 <= i < n_k (ALL n_k coefficients, also when m_k < n_k),   x_j = cos(pi j / (m_k - 1)),  0 <= j < m_k,
# i.e. (lemma by induction over the finite sum, spec function chebsum)
#     result[k][r, j, q] = sum_{i < n_k} A[k][r, i, q] * T_i(x_j).
# Shapes (r_k, m_k, r_{k+1}); well-formed; m = None keeps the grid (m_k = n_k), a number gives m_k = int(m) for all k, a list m_k = int(m[k])
# (through the call-site contract of grid_prep_opt).  Precondition: wf(A), every m_k >= 2 (ind_to_poi divides by m_k - 1).
# The ghost array B (one basis matrix per finished core) is sidecar state: havocked with the loop, extended at the end of the body.
# Not covered: kind='sin'; mode size / grid size 1 (0/0 in ind_to_poi); rounding (A-REAL); the dtype of the cores.

AXS = T.axioms('shape', 'cmode', 'chebsum', 'cheb')


def _gets_unit(U, mkind):
    fn = U.func('func', 'func_gets')
    st = U.state()
    Y, A, d = S.tt_param(st, 'A')
    m0i, m0r = z3.Int('m'), z3.Real('m')
    marr = z3.Const('m', RA)
    pre = [T.wf(A, d)]
    if mkind == 'none':
        mval, msz = NONE, (lambda t: T.d1(A[t]))
    elif mkind == 'int':
        mval, msz = m0i, (lambda t: m0i)
    elif mkind == 'float':
        mval, msz = m0r, (lambda t: trunc(m0r))
    else:
        mval, msz = st.alloc(VSeq(marr, d, lambda x: x, tag='real')), (lambda t: trunc(marr[t]))
    pre.append(z3.ForAll([t_], z3.Implies(z3.And(0 <= t_, t_ < d), msz(t_) >= 2), patterns=[A[t_]] + ([marr[t_]] if mkind == 'list' else [])))
    B0 = z3.Const('B!ghost', MA)
    st.ghost['B'] = B0

    def basis_entries(Bm, t, i, j):
        return z3.Implies(z3.And(0 <= i, i < T.d1(A[t]), 0 <= j, j < msz(t)), T.ent(Bm[t], i, j) == X.cheb(i, cnode(j, msz(t))))

    def inv(ex, s, j):
        Zs = s.deref(s.vars['Z'])
        if not (isinstance(Zs, VSeq) and Zs.tag == 'core'):
            raise M.ContractMismatch('func_gets(): Z is not the list of result cores')
        Bm = s.ghost['B']
        return [('one-core-per-finished-mode', Zs.n == j),
                ('core-shapes-(r_k, m_k, r_k+1)',
                 z3.ForAll([t_], z3.Implies(z3.And(0 <= t_, t_ < j), z3.And(T.d0(Zs.arr[t_]) == T.d0(A[t_]), T.d1(Zs.arr[t_]) == msz(t_),
                                                                            T.d2(Zs.arr[t_]) == T.d2(A[t_]))), patterns=[Zs.arr[t_]])),
                ('core-is-the-mode-product-of-the-coefficient-core-with-its-basis-matrix',
                 z3.ForAll([t_], z3.Implies(z3.And(0 <= t_, t_ < j), z3.And(Zs.arr[t_] == X.cmode(A[t_], Bm[t_]), T.rows(Bm[t_]) == T.d1(A[t_]),
                                                                            T.cols(Bm[t_]) == msz(t_))), patterns=[Zs.arr[t_], Bm[t_]])),
                ('basis-matrix-holds-T_i-at-the-Chebyshev-nodes-of-the-new-grid-for-ALL-n_k-coefficients',
                 z3.ForAll([t_, i_, j_], z3.Implies(z3.And(0 <= t_, t_ < j), basis_entries(Bm, t_, i_, j_)), patterns=[T.ent(Bm[t_], i_, j_)])),
                ('argument-untouched', z3.BoolVal(s.heap[Y.oid].arr is A))]

    def hook(ex, h, pre_, j):
        h.ghost['B'] = ex.fresh('Bh', MA)

    def body_end(ex, s1, o1, j):
        if o1.kind not in ('normal', 'continue'):
            return
        Tv = s1.vars.get('T')
        if not (isinstance(Tv, VArr) and Tv.ndim == 2 and Tv.tag == 'mat' and Tv.t is not None):
            raise M.ContractMismatch('func_gets(): T is not the basis matrix of the current mode')
        s1.ghost['B'] = z3.Store(s1.ghost['B'], j, Tv.t)          # ghost update: B[k] := T

    ex = U.executor(fn, loops={0: {'inv': inv, 'havoc_hook': hook, 'body_end': body_end}}, axioms=AXS, type_hints={'Z': 'tt'},
                    callees={'grid.ind_to_poi': call_ind_to_poi, 'func.func_basis': call_func_basis, 'grid.grid_prep_opt': call_grid_prep_opt_any})
    ex.mode = 'ematch'
    ex.functt = True
    ex.asserts = True
    st.vars.update(A=Y, m=mval, kind=VStr('cheb'))
    res = U.run(ex, st, pre=pre)
    U.assumed += ['grid.ind_to_poi (unit grid.ind_to_poi.cheb)', 'func.func_basis (unit func.func_basis)', 'props.shape (unit props.shape)']
    if mkind != 'none':
        U.assumed.append('grid.grid_prep_opt (units grid.grid_prep_opt.*.int)')
    U.cover('precondition-satisfiable', U.pre, axioms=AXS)
    t0, a0, j0, b0 = z3.Ints('t0 a0 j0 b0')
    for p, o in res:
        if o.kind != 'return':
            U.post('no-exception', p, False, axioms=AXS, mode='ematch')
            continue
        Zs = p.deref(o.value)
        ok = isinstance(o.value, VRef) and isinstance(Zs, VSeq) and Zs.tag == 'core'
        U.post('returns-a-fresh-list-of-cores-and-leaves-the-argument-untouched', p, z3.BoolVal(ok and o.value.oid != Y.oid and p.heap[Y.oid].arr is A))
        if not ok:
            continue
        Rr, Bm = Zs.arr, p.ghost['B']
        hyp = list(p.pc)
        dom = [0 <= t0, t0 < d]
        U.post('same-number-of-cores', hyp, Zs.n == d, axioms=AXS, mode='ematch')
        U.post('core-shapes-(r_k, m_k, r_k+1)', hyp + dom, z3.And(T.d0(Rr[t0]) == T.d0(A[t0]), T.d1(Rr[t0]) == msz(t0), T.d2(Rr[t0]) == T.d2(A[t0])),
               axioms=AXS, mode='ematch')
        U.post('well-formed', hyp, T.wf(Rr, d), axioms=AXS, mode='ematch')
        U.post('every-core-is-the-mode-product-of-the-coefficient-core-with-an-n_k-x-m_k-matrix', hyp + dom,
               z3.And(Rr[t0] == X.cmode(A[t0], Bm[t0]), T.rows(Bm[t0]) == T.d1(A[t0]), T.cols(Bm[t0]) == msz(t0)), axioms=AXS, mode='ematch')
        U.post('that-matrix-holds-T_i(x_j)-for-all-i<n_k-at-the-m_k-Chebyshev-nodes-x_j=cos(pi*j/(m_k-1))', hyp + dom,
               basis_entries(Bm, t0, i_, j_), axioms=AXS, mode='ematch')
        # element level: the defining finite sum of the mode product is the Chebyshev sum over ALL n_k coefficients (induction on its length)
        x0 = cnode(j0, msz(t0))
        nk = T.d1(A[t0])
        ctx = hyp + dom + [0 <= a0, a0 < T.d0(A[t0]), 0 <= j0, j0 < msz(t0), 0 <= b0, b0 < T.d2(A[t0])]
        P = lambda k: X.modesum(A[t0], Bm[t0], a0, j0, b0, k) == X.chebsum(A[t0], x0, a0, b0, k)
        U.lemma('finite-sum-of-the-mode-product-is-the-Chebyshev-sum.base', ctx, P(z3.IntVal(0)), axioms=AXS, mode='ematch', kind='lemma-base')
        U.lemma('finite-sum-of-the-mode-product-is-the-Chebyshev-sum.step', ctx + [kk >= 0, kk < nk, P(kk)], P(kk + 1), axioms=AXS, mode='ematch',
                kind='lemma-step')
        U.post('entry[r, j, q]-is-the-sum-over-ALL-n_k-coefficients-of-A[k][r, i, q]*T_i(x_j)', ctx + [P(nk)],
               T.centry(Rr[t0], a0, j0, b0) == X.chebsum(A[t0], x0, a0, b0, nk), axioms=AXS, mode='ematch')
        U.canary('canary-entry-is-zero', ctx + [P(nk)], T.centry(Rr[t0], a0, j0, b0) == 0, axioms=AXS)
        if mkind != 'none':
            U.canary('canary-only-the-first-m_k-coefficients-enter', ctx + [P(nk)],
                     T.centry(Rr[t0], a0, j0, b0) == X.chebsum(A[t0], x0, a0, b0, msz(t0)), axioms=AXS)
        else:
            U.post('the-grid-is-kept: m_k = n_k', hyp + dom, T.d1(Rr[t0]) == T.d1(A[t0]), axioms=AXS, mode='ematch')


for _mk in ('none', 'int', 'float', 'list'):
    def _mk_unit(mk=_mk):
        @unit('func.func_gets.m_' + mk, props=('C12', 'C11'))
        def u(U):
            _gets_unit(U, mk)
    _mk_unit()


# ----------------------------------------------------------------------------------------------
# func.func_int (kind='cheb'): the interpolation coefficients of a TT-tensor of grid values
#
# The result has the shape of Y (hence is well-formed) and, for every core k with n = n_k >= 2 and every mode index j,
#     A[k][:, j, :] = w_j / (n - 1) * dct1(Y[k])[:, j, :],        w_0 = w_{n-1} = 1/2,  w_j = 1 otherwise,
# where dct1 = scipy.fftpack.dct(., 1, axis=1) is the un-normalised type-I cosine transform along the mode axis (model-table operator with
# its defining sum  y_k = x_0 + (-1)^k x_{n-1} + 2 sum_{0<i<n-1} x_i cos(pi k i / (n-1)), spot-checked against scipy itself).  Element level:
#     A[k][r, j, q] = w_j / (n - 1) * ( Y[k][r, 0, q] + (-1)^j Y[k][r, n-1, q] + 2 sum_{0<i<n-1} Y[k][r, i, q] cos(pi j i / (n-1)) ).
# Precondition: wf(Y) and every n_k >= 2 (n_k - 1 is a divisor and DCT-I needs two points: the property quantifies n_k >= 2); for n_k = 2 the
# two halved slices are the two different slices 0 and 1.
# Not covered: kind='sin'; n_k = 1 (scipy raises); rounding; that the in-place halving acts on a fresh array (frames / C09).

AXI = T.axioms('shape', 'core', 'cslset', 'dct1')
AXE = AXI + T.axioms('centsl', 'smul')            # element level (entries of scaled slices): only for the last lemma
HALF = z3.RealVal('1/2')


def int_slice(G, j):
    """The mode slice j of the coefficient core that belongs to the core G of grid values."""
    c = 1 / z3.ToReal(T.d1(G) - 1)
    s = T.smul(c, T.sl(X.dct1(G), j))
    return z3.If(z3.Or(j == 0, j == T.d1(G) - 1), T.smul(HALF, s), s)


@unit('func.func_int', props=('C12', 'C11'))
def u_func_int(U):
    fn = U.func('func', 'func_int')
    st = U.state()
    Y, Ya, d = S.tt_param(st, 'Y')
    sizes = z3.ForAll([t_], z3.Implies(z3.And(0 <= t_, t_ < d), T.d1(Ya[t_]) >= 2), patterns=[Ya[t_]])

    def inv(ex, s, j):
        As = s.deref(s.vars['A'])
        if not isinstance(As, X.OptCores):
            raise M.ContractMismatch('func_int(): A is not the list of optional result cores')
        return [('length', As.n == d),
                ('finished-entries-are-cores-of-the-shape-of-the-value-cores',
                 z3.ForAll([t_], z3.Implies(z3.And(0 <= t_, t_ < j), z3.And(z3.Not(As.isn[t_]), T.d0(As.arr[t_]) == T.d0(Ya[t_]),
                                                                            T.d1(As.arr[t_]) == T.d1(Ya[t_]), T.d2(As.arr[t_]) == T.d2(Ya[t_]))),
                           patterns=[As.arr[t_], As.isn[t_]])),
                ('every-slice-is-the-DCT-I-slice-over-(n-1)-with-halved-ends',
                 z3.ForAll([t_, j_], z3.Implies(z3.And(0 <= t_, t_ < j, 0 <= j_, j_ < T.d1(Ya[t_])), T.sl(As.arr[t_], j_) == int_slice(Ya[t_], j_)),
                           patterns=[T.sl(As.arr[t_], j_)])),
                ('argument-untouched', z3.BoolVal(s.heap[Y.oid].arr is Ya))]

    def hook(ex, h, pre_, j):
        oid = h.vars['A'].oid
        h.heap[oid] = X.fresh_optcores(ex, h)

    ex = U.executor(fn, loops={0: {'inv': inv, 'havoc_hook': hook}}, axioms=AXI)
    ex.mode = 'ematch'
    ex.functt = True
    ex.asserts = True
    ex.none_list_holds_cores = True
    st.vars.update(Y=Y, kind=VStr('cheb'))
    res = U.run(ex, st, pre=[T.wf(Ya, d), sizes])
    U.cover('precondition-satisfiable', U.pre, axioms=AXI)
    t0, a0, j0, b0 = z3.Ints('t0 a0 j0 b0')
    for p, o in res:
        if o.kind != 'return':
            U.post('no-exception', p, False, axioms=AXI, mode='ematch')
            continue
        As = p.deref(o.value)
        ok = isinstance(o.value, VRef) and isinstance(As, X.OptCores)
        U.post('returns-a-fresh-list-and-leaves-the-argument-untouched', p, z3.BoolVal(ok and o.value.oid != Y.oid and p.heap[Y.oid].arr is Ya))
        if not ok:
            continue
        Rr = As.arr
        hyp = list(p.pc)
        dom = [0 <= t0, t0 < d]
        U.post('same-number-of-cores', hyp, As.n == d, axioms=AXI, mode='ematch')
        U.post('every-entry-is-a-core (no None left)', hyp + dom, z3.Not(As.isn[t0]), axioms=AXI, mode='ematch')
        U.post('same-shape-as-Y', hyp + dom, z3.And(T.d0(Rr[t0]) == T.d0(Ya[t0]), T.d1(Rr[t0]) == T.d1(Ya[t0]), T.d2(Rr[t0]) == T.d2(Ya[t0])),
               axioms=AXI, mode='ematch')
        U.post('well-formed', hyp, T.wf(Rr, d), axioms=AXI, mode='ematch')
        n0 = T.d1(Ya[t0])
        D = X.dct1(Ya[t0])
        c0 = 1 / z3.ToReal(n0 - 1)
        ctx = hyp + dom + [0 <= j0, j0 < n0]
        U.post('inner-slices-are-the-DCT-I-slices-divided-by-(n-1)', ctx + [j0 != 0, j0 != n0 - 1], T.sl(Rr[t0], j0) == T.smul(c0, T.sl(D, j0)),
               axioms=AXI, mode='ematch')
        U.post('first-and-last-slice-are-additionally-halved', ctx + [z3.Or(j0 == 0, j0 == n0 - 1)],
               T.sl(Rr[t0], j0) == T.smul(HALF, T.smul(c0, T.sl(D, j0))), axioms=AXI, mode='ematch')
        # element level: the defining sum of the DCT-I
        w = z3.If(z3.Or(j0 == 0, j0 == n0 - 1), HALF, z3.RealVal(1))
        dsum = T.centry(Ya[t0], a0, 0, b0) + T.rmul(X.sgnpow(j0), T.centry(Ya[t0], a0, n0 - 1, b0)) + 2 * X.dct1sum(Ya[t0], a0, j0, b0, n0 - 1)
        ectx = ctx + [0 <= a0, a0 < T.d0(Ya[t0]), 0 <= b0, b0 < T.d2(Ya[t0])]
        e_res, e_dct = T.centry(Rr[t0], a0, j0, b0), T.centry(D, a0, j0, b0)
        U.lemma('entry-of-the-result-is-the-weighted-entry-of-the-DCT-I', ectx, z3.And(e_res == w * (c0 * e_dct), e_dct == dsum), axioms=AXE, mode='ematch',
                kind='lemma')
        U.post('entry[r, j, q] = w_j/(n-1) * (x_0 + (-1)^j x_{n-1} + 2 sum_{0<i<n-1} x_i cos(pi j i/(n-1)))', [e_res == w * (c0 * e_dct), e_dct == dsum],
               e_res == w * c0 * dsum, qf=True)
        U.canary('canary-no-halving-at-the-ends', ctx + [j0 == 0], T.sl(Rr[t0], j0) == T.smul(c0, T.sl(D, j0)), axioms=AXI)
        U.canary('canary-entries-are-zero', ectx, e_res == 0, axioms=AXE)


# ----------------------------------------------------------------------------------------------
# grid.grid_prep_opts, value part (the rejection logic is proved by the units grid.grid_prep_opts.* of contracts/grid.py): with a dimension
# d given, numbers or lists for a / b and an integer array for n, the function raises ValueError iff a list-like option has a length other
# than d, and otherwise returns (grid_prep_opt(a, d, float), grid_prep_opt(b, d, float), grid_prep_opt(n, d, int)) - the three options are
# normalised by grid_prep_opt with the kinds float, float, int and the SAME dimension d, in this order.  This is what `call_grid_prep_opts`
# below hands to func_sum / func_get.  Not covered here: d = None (recovered from the first list), reps.

def _opts_kind(st, nm, kind, L):
    if kind == 'number':
        return z3.Real(nm + '0')
    if kind == 'int':
        return z3.Int(nm + '0')
    return st.alloc(VSeq(z3.Const(nm + '_list', RA), L, lambda x: x, tag='real'))


def _prep_opts_unit(U, akind, bkind):
    fn = U.func('grid', 'grid_prep_opts')
    st = U.state()
    d, La, Lb, Ln = z3.Ints('d len_a len_b len_n')
    calls = []

    def rec(ex, s, args, kwargs, node):
        out = call_grid_prep_opt_any(ex, s, args, kwargs, node)
        calls_now = s.ghost.setdefault('gpo', [])
        s.ghost['gpo'] = calls_now + [(args, dict(kwargs), out)]
        return out

    ex = U.executor(fn, callees={'grid.grid_prep_opt': rec})
    a, b = _opts_kind(st, 'a', akind, La), _opts_kind(st, 'b', bkind, Lb)
    n = X.ivec(Ln, z3.Const('n', IA))
    st.vars.update(a=a, b=b, n=n, d=d, reps=NONE)
    res = U.run(ex, st, pre=[d >= 1, La >= 0, Lb >= 0, Ln >= 0])
    U.assumed.append('grid.grid_prep_opt (units grid.grid_prep_opt.*)')
    U.cover('precondition-satisfiable', U.pre)
    bad = z3.Or([L != d for L, k in ((La, akind), (Lb, bkind), (Ln, 'list')) if k == 'list'])
    U.cover('rejecting-case-reachable', U.pre + [bad])
    for p, o in res:
        if o.kind == 'raise':
            U.raise_iff('raises-only-if-a-list-like-option-has-a-length-other-than-d', p, bad)
            U.raise_iff('raises-ValueError', p, o.exc == 'ValueError')
            continue
        U.raise_iff('returns-only-if-all-list-like-options-have-length-d', p, z3.Not(bad))
        cs = p.ghost.get('gpo', [])
        ok = isinstance(o.value, VTuple) and len(o.value.items) == 3 and len(cs) == 3 and all(x is c[2] for x, c in zip(o.value.items, cs))
        U.post('returns-the-three-normalised-options-in-the-order-a-b-n', p, z3.BoolVal(ok))
        if not ok:
            continue
        for (args, kw, out), src, knd, nm in zip(cs, (a, b, n), ('float', 'float', 'int'), 'abn'):
            good = len(args) == 4 and not kw and args[0] is src and isinstance(args[2], M.TypeVal) and args[2].name == knd and args[3] is NONE
            U.post(f'option-{nm}-is-normalised-by-grid_prep_opt-with-kind-{knd}-and-no-repetition', p, z3.BoolVal(good))
            if good:
                U.post(f'option-{nm}-is-normalised-with-the-dimension-d', p, Z(args[1]) == d)
        U.canary('canary-never-returns', p, False)


for _ak, _bk in (('number', 'number'), ('list', 'list'), ('int', 'int'), ('number', 'list')):
    def _mk_po(ak=_ak, bk=_bk):
        @unit(f'grid.grid_prep_opts.values.{ak}_{bk}', props=('C12', 'C18'))
        def u(U):
            _prep_opts_unit(U, ak, bk)
    _mk_po()


def call_grid_prep_opts(ex, st, args, kwargs, node):
    """grid_prep_opts(a, b, n, d) with a dimension d: proved by the units grid.grid_prep_opts.values.* (and grid.grid_prep_opts.* for the rejection)."""
    if kwargs or len(args) != 4:
        raise M.Unsupported('grid_prep_opts: only the call (a, b, n, d) is under this call-site contract')
    a, b, n, d = args
    if not (M.is_num(d) and M.is_intsort(d)):
        raise M.Unsupported('grid_prep_opts: the dimension must be an integer in this contract case')
    for nm, v in zip('abn', (a, b, n)):
        w = st.deref(v)
        if isinstance(w, VSeq) or isinstance(w, VArr):
            L = w.n if isinstance(w, VSeq) else w.shape[0]
            ex.oblige(st, 'call-pre', f'grid_prep_opts: option {nm} has length d (otherwise ValueError)', Z(L) == Z(d), node)
    out = [call_grid_prep_opt_any(ex, st, [v, d, M.TypeVal(k), NONE], {}, node) for v, k in ((a, 'float'), (b, 'float'), (n, 'int'))]
    st.ghost.setdefault('prep_opts_calls', []).append((a, b, n, d, out))
    return VTuple(out)


# ----------------------------------------------------------------------------------------------
# func.func_sum (kind='cheb'): the integral of the interpolant over the box (Clenshaw-Curtis)
#
#     result = [ prod_k ( (b_k - a_k)/2 * sum_{i even, i < n_k} 2/(1 - i^2) * A[k][:, i, :] ) ]_{0,0}
# stated as the single entry of the 1 x 1 end of the chain  ccchain(A, a, b, w, d)  (theory group 'ccchain':
# ccchain(.., 0) = [[1]], ccchain(.., k+1) = (b_k - a_k)/2 * ( ccchain(.., k) @ wsum(cstep2(A[k]), w) ),  cstep2(G) = G[:, ::2],
# wsum(G, w) = sum_m w[m] G[:, m, :]) with the weights w[m] = 2 / (1 - (2m)^2), m = 0, 1, ...: the weight vector p, the stride-2 slice, the
# cut p[:(n_k + 1)//2] (exactly the number of even indices below n_k: the matrix-vector product fits) and the factor (b_k - a_k)/2 per mode.
# Any box: a, b numbers or per-mode lists (no symmetry assumed).  That the end of such a chain of weighted mode sums is the weighted sum over
# all multi-indices is the distributive law L-SUMPROD (cited); that Clenshaw-Curtis weights integrate T_i exactly is L-CC (cited).
# Not covered: kind='sin'; rounding; the square (2m)^2 is kept in the engine's product abstraction mulI.

AXC = T.axioms('shape', 'elem', 'wsum', 'cstep2', 'ccchain', 'mulI', 'isq')


def ccw(m):
    """The Clenshaw-Curtis weight of the even coefficient i = 2m: 2 / (1 - i^2)."""
    return z3.RealVal(2) / z3.ToReal(1 - T.mulI(2 * m, 2 * m))


def _sum_unit(U, okind):
    fn = U.func('func', 'func_sum')
    st = U.state()
    Y, A, d = S.tt_param(st, 'A')
    a_in, b_in = _opts_kind(st, 'a', okind, d), _opts_kind(st, 'b', okind, d)
    spec_a = (lambda t: M.to_real(a_in)) if okind != 'list' else (lambda t: st.heap[a_in.oid].arr[t])
    spec_b = (lambda t: M.to_real(b_in)) if okind != 'list' else (lambda t: st.heap[b_in.oid].arr[t])

    def parts(s):
        v, av, bv, pv = s.vars.get('v'), s.vars.get('a'), s.vars.get('b'), s.vars.get('p')
        if not (isinstance(v, VArr) and v.ndim == 2 and v.tag == 'mat' and v.t is not None):
            raise M.ContractMismatch('func_sum(): v is not a matrix with a denotation')
        if not (X.is_vec(av, 'rvec') and X.is_vec(bv, 'rvec') and X.is_vec(pv, 'rvec')):
            raise M.ContractMismatch('func_sum(): a, b, p are not the prepared bounds and the weight vector')
        return v, av, bv, pv

    def inv(ex, s, j):
        v, av, bv, pv = parts(s)
        return [('accumulated-product-is-the-Clenshaw-Curtis-chain-over-the-finished-modes', v.t == X.ccchain(A, av.t, bv.t, pv.t, j)),
                ('accumulated-product-is-a-row', z3.And(T.rows(v.t) == 1, T.cols(v.t) == z3.If(j == 0, 1, T.d2(A[j - 1])))),
                ('argument-untouched', z3.BoolVal(s.heap[Y.oid].arr is A))]

    ex = U.executor(fn, loops={0: {'inv': inv}}, axioms=AXC, callees={'grid.grid_prep_opts': call_grid_prep_opts})
    ex.mode = 'ematch'
    ex.functt = True
    ex.asserts = True
    st.vars.update(A=Y, a=a_in, b=b_in, kind=VStr('cheb'))
    res = U.run(ex, st, pre=[T.wf(A, d)])
    U.assumed += ['grid.grid_prep_opts (units grid.grid_prep_opts.values.*)', 'props.shape (unit props.shape)']
    U.cover('precondition-satisfiable', U.pre, axioms=AXC)
    t0, m0 = z3.Ints('t0 m0')
    for p, o in res:
        if o.kind != 'return':
            U.post('no-exception', p, False, axioms=AXC, mode='ematch')
            continue
        U.post('returns-a-number-and-leaves-the-argument-untouched', p, z3.BoolVal(M.is_num(o.value) and p.heap[Y.oid].arr is A))
        if not M.is_num(o.value):
            continue
        v, av, bv, pv = parts(p)
        hyp = list(p.pc)
        chain = X.ccchain(A, av.t, bv.t, pv.t, d)
        U.post('result-is-the-single-entry-of-the-Clenshaw-Curtis-chain-over-all-modes (L-SUMPROD: = the weighted sum of all coefficients)', hyp,
               M.to_real(o.value) == T.ent(chain, 0, 0), axioms=AXC, mode='ematch')
        U.post('the-chain-ends-in-a-1x1-matrix', hyp, z3.And(T.rows(chain) == 1, T.cols(chain) == 1), axioms=AXC, mode='ematch')
        U.post('weights-are-2/(1-i^2)-at-the-even-indices-i=2m', hyp + [0 <= m0], pv.t[m0] == ccw(m0), axioms=AXC, mode='ematch')
        U.post('bounds-of-mode-k-are-the-number-resp-the-k-th-list-element', hyp + [0 <= t0, t0 < d],
               z3.And(av.t[t0] == spec_a(t0), bv.t[t0] == spec_b(t0)), axioms=AXC, mode='ematch')
        U.post('the-cut-of-the-weights-is-the-number-of-even-indices-below-n_k', hyp + [0 <= t0, t0 < d],
               T.d1(X.cstep2(A[t0])) == (T.d1(A[t0]) + 1) / 2, axioms=AXC, mode='ematch')
        U.canary('canary-result-is-zero', p, M.to_real(o.value) == 0, axioms=AXC)
        U.canary('canary-no-box-factor', hyp, M.to_real(o.value) == T.ent(X.ccchain(A, z3.K(z3.IntSort(), z3.RealVal(-1)), z3.K(z3.IntSort(), z3.RealVal(1)), pv.t, d), 0, 0),
                 axioms=AXC)
    U.lemmas += ['L-SUMPROD: the end of the chain of weighted mode sums = sum over all multi-indices of the weighted entries (cited)',
                 'L-CC: sum over even i of 2/(1-i^2) c_i is the integral over [-1, 1] of sum_i c_i T_i (Clenshaw-Curtis; cited)']


for _ok in ('number', 'list'):
    def _mk_su(ok=_ok):
        @unit('func.func_sum.' + ok, props=('C12', 'C11'))
        def u(U):
            _sum_unit(U, ok)
    _mk_su()


# ----------------------------------------------------------------------------------------------
# func.func_get: the interpolant at a batch of points (or at one point)
#
# With the effective box [lo_k, hi_k] (a / b as given - number or per-mode list -, -1 / +1 where None), for every sample s
#     result[s] = z                                   if skipping is on and the point is outside the box (some k: lo_k - X[s,k] > 1e-99 or
#                                                     X[s,k] - hi_k > 1e-99)
#     result[s] = [ prod_k sum_{j<n_k} T_j(x_sk) A[k][:, j, :] ]_{0,0},   x_sk = clip((X[s,k] - (hi_k+lo_k)/2) * 2/(hi_k-lo_k), -1, 1)   otherwise,
# the product being the chain  wchain(A, P_s, d-1)  of weighted mode sums (theory groups 'wsum' / 'wchain' of mx_act) with the weights
# P_s[k][j] = T_j(x_sk) for j < n_k (poi_scale and func_basis through their call-site contracts, units grid.poi_scale.cheb / func.func_basis).
# Skipping is on iff skip_out is True, or skip_out is None and both a and b are given.  One 1-D point gives the number result[0].
# Precondition: wf(A), m >= 1 points with d coordinates, lo_k < hi_k.  L-SUMPROD (cited) turns the chain into the sum over all multi-indices.
# Not covered: custom `funcs` (a list or one callable), X given as a list, the dtype conversion of X, rounding; kind is unused by the code.

from ttvc import mx_act as XA
AXG = T.axioms('shape', 'wsum', 'wchain', 'mrow', 'entsub', 'sub', 'cheb')
EPS = Z(1.E-99)


def call_poi_scale_vec(ex, st, args, kwargs, node):
    """poi_scale(x, a, b, 'cheb') for a 1-D float array x and numbers a < b: unit grid.poi_scale.cheb (pointwise tier) proves that every
    element of the result is the clipped affine image of the corresponding element of x (= chebscale, theory group 'chebscale'); same shape."""
    xv = st.deref(args[0])
    kind = args[3].concrete() if len(args) > 3 and isinstance(args[3], VStr) else None
    if kwargs or len(args) != 4 or kind != 'cheb' or not X.is_vec(xv, 'rvec'):
        raise M.Unsupported("poi_scale: only the call (1-D float array, a, b, 'cheb') is under this call-site contract")
    a, b = M.to_real(ex.need_num(st, args[1], node)), M.to_real(ex.need_num(st, args[2], node))
    ex.oblige(st, 'call-pre', 'poi_scale: a < b', a < b, node)
    arr = ex.fresh('scaled', RA)
    st.assume(z3.ForAll([j_], arr[j_] == X.chebscale(xv.t[j_], a, b), patterns=[arr[j_]]))
    return X.rvec(xv.shape[0], arr)


GET_CASES = {
    # name: (a/b kind, skip_out argument, one point only)
    'default_box': ('none', NONE, False),
    'numbers': ('number', NONE, False),
    'lists.skip_out_False': ('list', False, False),
    'default_box.skip_out_True': ('none', True, False),
    'upper_bound_only': ('b_only', NONE, False),
    'one_point': ('number', NONE, True),
}


def _get_unit(U, case):
    okind, skip_arg, single = GET_CASES[case]
    fn = U.func('func', 'func_get')
    st = U.state()
    Y, A, d = S.tt_param(st, 'A')
    m = z3.IntVal(1) if single else z3.Int('m')
    Xt = z3.Const('X', X.WL)
    zf = z3.Real('z')
    a0, b0 = z3.Reals('a0 b0')
    al, bl = z3.Const('a_list', RA), z3.Const('b_list', RA)
    if okind == 'none':
        a_in, b_in, lo, hi = NONE, NONE, (lambda k: z3.RealVal(-1)), (lambda k: z3.RealVal(1))
    elif okind == 'number':
        a_in, b_in, lo, hi = a0, b0, (lambda k: a0), (lambda k: b0)
    elif okind == 'b_only':
        a_in, b_in, lo, hi = NONE, b0, (lambda k: z3.RealVal(-1)), (lambda k: b0)
    else:
        a_in, b_in = st.alloc(VSeq(al, d, lambda x: x, tag='real')), st.alloc(VSeq(bl, d, lambda x: x, tag='real'))
        lo, hi = (lambda k: al[k]), (lambda k: bl[k])
    skipping = (skip_arg is True) or (skip_arg is NONE and okind in ('number', 'list'))
    Xv = X.rvec(d, Xt[0]) if single else X.pts(m, d, Xt)
    OUT = z3.Function('outside', z3.IntSort(), z3.BoolSort())
    wk = z3.Function('outside!witness', z3.IntSort(), z3.IntSort())
    viol = lambda s, k: z3.Or(lo(k) - Xt[s][k] > EPS, Xt[s][k] - hi(k) > EPS)
    out_def = [z3.ForAll([i_, k_], z3.Implies(z3.And(0 <= k_, k_ < d, viol(i_, k_)), OUT(i_)), patterns=[z3.MultiPattern(OUT(i_), Xt[i_][k_])]),
               z3.ForAll([i_], z3.Implies(OUT(i_), z3.And(0 <= wk(i_), wk(i_) < d, viol(i_, wk(i_)))), patterns=[OUT(i_)])]
    box = a0 < b0 if okind == 'number' else (z3.RealVal(-1) < b0 if okind == 'b_only' else
                                             z3.ForAll([k_], z3.Implies(z3.And(0 <= k_, k_ < d), al[k_] < bl[k_]), patterns=[al[k_], bl[k_]]))
    pre = [T.wf(A, d), m >= 1] + ([box] if okind != 'none' else []) + out_def

    def tarr(s):
        Ts = s.deref(s.vars['T']) if 'T' in s.vars else None
        if not (isinstance(Ts, VSeq) and Ts.tag == 'mats'):
            raise M.ContractMismatch('func_get(): T is not the list of basis matrices')
        return Ts.arr

    VAL = lambda TA, s: T.ent(XA.wchain(A, X.bsel(TA, s), d - 1), 0, 0)
    spec = lambda TA, s: z3.If(OUT(s), zf, VAL(TA, s)) if skipping else VAL(TA, s)

    def inv_outer(ex, s, j):
        y = s.vars.get('y')
        if not X.is_vec(y, 'rvec'):
            raise M.ContractMismatch('func_get(): y is not the vector of results')
        TA = tarr(s)
        return [('one-result-per-point', Z(y.shape[0]) == m),
                ('finished-points-hold-the-fill-value-resp-the-chained-value',
                 z3.ForAll([i_], z3.Implies(z3.And(0 <= i_, i_ < j), y.t[i_] == spec(TA, i_)), patterns=[y.t[i_]])),
                ('remaining-points-still-hold-the-fill-value', z3.ForAll([i_], z3.Implies(z3.And(j <= i_, i_ < m), y.t[i_] == zf), patterns=[y.t[i_]])),
                ('argument-untouched', z3.BoolVal(s.heap[Y.oid].arr is A))]

    def inv_inner(ex, s, j):
        Q, i = s.vars.get('Q'), s.vars.get('i')
        if not (isinstance(Q, VArr) and Q.ndim == 2 and Q.tag == 'mat' and Q.t is not None and M.is_intsort(i)):
            raise M.ContractMismatch('func_get(): Q is not a matrix with a denotation inside the chain loop')
        return [('partial-product-is-the-chain-of-weighted-mode-sums-of-this-point', Q.t == XA.wchain(A, X.bsel(tarr(s), Z(i)), j)),
                ('partial-product-is-a-row', z3.And(T.rows(Q.t) == 1, T.cols(Q.t) == T.d2(A[j])))]

    ex = U.executor(fn, loops={0: {'inv': inv_outer}, 1: {'inv': inv_inner}}, axioms=AXG,
                    callees={'grid.grid_prep_opts': call_grid_prep_opts, 'grid.poi_scale': call_poi_scale_vec, 'func.func_basis': call_func_basis})
    ex.mode = 'ematch'
    ex.functt = True
    ex.asserts = True
    st.vars.update(X=Xv, A=Y, a=a_in, b=b_in, z=zf, funcs=NONE, kind=VStr('cheb'), skip_out=skip_arg)
    res = U.run(ex, st, pre=pre)
    U.assumed += ['grid.grid_prep_opts (units grid.grid_prep_opts.values.*)', 'grid.poi_scale (unit grid.poi_scale.cheb)',
                  'func.func_basis (unit func.func_basis)', 'props.shape (unit props.shape)']
    U.cover('precondition-satisfiable', U.pre, axioms=AXG)
    s0, k0, j0 = z3.Ints('s0 k0 j0')
    if single:
        s0 = z3.IntVal(0)
    for p, o in res:
        if o.kind != 'return':
            U.post('no-exception', p, False, axioms=AXG, mode='ematch')
            continue
        TA = tarr(p)
        hyp = list(p.pc)
        U.post('argument-untouched', p, z3.BoolVal(p.heap[Y.oid].arr is A))
        if single:
            U.post('one-point-gives-a-number', p, z3.BoolVal(M.is_num(o.value)))
            if not M.is_num(o.value):
                continue
            got, dom = (lambda s: M.to_real(o.value)), []
        else:
            R = p.deref(o.value)
            ok = X.is_vec(R, 'rvec')
            U.post('a-batch-gives-a-vector', p, z3.BoolVal(ok))
            if not ok:
                continue
            U.post('one-value-per-point', hyp, Z(R.shape[0]) == m, axioms=AXG, mode='ematch')
            got, dom = (lambda s: R.t[s]), [0 <= s0, s0 < m]
        if skipping:
            U.post('points-outside-the-box-receive-the-fill-value', hyp + dom + [0 <= k0, k0 < d, viol(s0, k0)], got(s0) == zf, axioms=AXG, mode='ematch')
            U.post('points-inside-the-box-receive-the-chained-value', hyp + dom + [z3.ForAll([k_], z3.Implies(z3.And(0 <= k_, k_ < d), z3.Not(viol(s0, k_))),
                                                                                        patterns=[Xt[s0][k_]])],
                   got(s0) == VAL(TA, s0), axioms=AXG, mode='ematch')
        else:
            U.post('every-point-receives-the-chained-value (no skipping)', hyp + dom, got(s0) == VAL(TA, s0), axioms=AXG, mode='ematch')
        xs = X.chebscale(Xt[s0][k0], lo(k0), hi(k0))
        U.post('weights-of-point-s-in-mode-k-are-T_j-at-the-scaled-coordinate-for-all-j<n_k', hyp + dom + [0 <= k0, k0 < d, 0 <= j0, j0 < T.d1(A[k0])],
               X.bsel(TA, s0)[k0][j0] == X.cheb(j0, xs), axioms=AXG, mode='ematch')
        xr = z3.Real('x')
        U.post('the-scaled-coordinate-is-the-clipped-affine-image-of-the-box-onto-[-1,1]', [lo(k0) < hi(k0)],
               X.chebscale(xr, lo(k0), hi(k0)) == G.spec_scale(xr, lo(k0), hi(k0), 'cheb'), axioms=T.axioms('chebscale'))
        U.canary('canary-every-point-receives-the-fill-value', hyp + dom, got(s0) == zf, axioms=AXG)
        U.canary('canary-weights-are-ones', hyp + dom + [0 <= k0, k0 < d, 0 <= j0, j0 < T.d1(A[k0])], X.bsel(TA, s0)[k0][j0] == 1, axioms=AXG)
    U.lemmas.append('L-SUMPROD: the end of the chain of weighted mode sums = sum over all multi-indices of the weighted entries (cited)')


for _gc in GET_CASES:
    def _mk_get(gc=_gc):
        @unit('func.func_get.' + gc, props=('C12',))
        def u(U):
            _get_unit(U, gc)
    _mk_get()


# ----------------------------------------------------------------------------------------------
# func.func_diff_matrix (kind='cheb'), SHAPE / CONTROL level for m = 1, 2, 3 derivative orders
#
# Covered: for a < b and n >= 2 nodes the function returns ONE n x n matrix when m = 1 and a LIST of m matrices, each n x n, otherwise;
# the i-th returned matrix (i = 0, .., m-1) is <an n x n array> * (2 / (b - a)) ** (i + 1): the scaling of the i+1-st derivative to the
# box is the (i+1)-st power of 2/(b-a) (powf: the symbolic power, identity of the term only); no operation can fail on shapes (all
# elementwise operands n x n, the diagonal / row-sum vectors of length n); an unknown kind raises ValueError.
# NOT covered (left to the bounded suite C12 and the cited lemma L-DIFF): the ENTRIES of the matrices (the recursion
# D <- (i+1) Z (C diag(D) - D) with the negative-row-sum diagonal), kind='sin', symbolic m.

def _diff_unit(U, m):
    fn = U.func('func', 'func_diff_matrix')
    ex = U.executor(fn)
    ex.functt = True
    ex.functt_shapes = True
    st = U.state()
    a, b = z3.Reals('a b')
    n = z3.Int('n')
    st.vars.update(a=a, b=b, n=n, m=m, kind=VStr('cheb'))
    res = U.run(ex, st, pre=[a < b, n >= 2])
    U.cover('precondition-satisfiable', U.pre)
    base = 2 / (b - a)
    for p, o in res:
        if o.kind != 'return':
            U.post('no-exception', p, False)
            continue
        R = p.deref(o.value)
        if m == 1:
            U.post('first-order-only: ONE matrix is returned, not a list', p, z3.BoolVal(isinstance(R, VArr) and R.ndim == 2))
            mats = [R] if isinstance(R, VArr) else []
        else:
            ok = isinstance(R, VList) and len(R.items) == m and all(isinstance(p.deref(x), VArr) and p.deref(x).ndim == 2 for x in R.items)
            U.post(f'a-list-of-{m}-matrices-is-returned (orders 1..{m})', p, z3.BoolVal(ok))
            mats = [p.deref(x) for x in R.items] if ok else []
        for i, Mx in enumerate(mats):
            if Mx.ndim != 2:
                continue
            U.post(f'matrix-of-order-{i + 1}-is-n-x-n', p, z3.And(Z(Mx.shape[0]) == n, Z(Mx.shape[1]) == n))
            sc = getattr(Mx, 'scaled_by', None)
            U.post(f'matrix-of-order-{i + 1}-is-an-array-times-a-number', p, z3.BoolVal(sc is not None))
            if sc is not None:
                from ttvc import mx_misc as XM
                # the engine evaluates x ** 2 to the product x * x and every other power to the symbolic power powf(x, p)
                want = base * base if i + 1 == 2 else XM.powf(base, z3.RealVal(i + 1))
                U.post(f'matrix-of-order-{i + 1}-is-scaled-by-(2/(b-a))^{i + 1}', list(p.pc), M.to_real(sc[1]) == want, qf=True)
                U.canary(f'canary-order-{i + 1}-is-not-scaled', list(p.pc), M.to_real(sc[1]) == 1, qf=True)
        srcs = [getattr(Mx, 'scaled_by', (None,))[0] for Mx in mats]
        U.post('every-order-scales-its-own-unscaled-matrix (the recursion continues with the unscaled one)', p,
               z3.BoolVal(len(set(id(s) for s in srcs)) == len(srcs) and all(s is not None for s in srcs)))


for _m in (1, 2, 3):
    def _mk_df(m=_m):
        @unit(f'func.func_diff_matrix.shapes.m{m}', props=('C12',))
        def u(U):
            _diff_unit(U, m)
    _mk_df()


@unit('func.func_diff_matrix.invalid_kind', props=('C12',))
def u_diff_kind(U):
    fn = U.func('func', 'func_diff_matrix')
    ex = U.executor(fn)
    ex.functt = True
    ex.functt_shapes = True
    st = U.state()
    st.vars.update(a=z3.Real('a'), b=z3.Real('b'), n=z3.Int('n'), m=1, kind=VStr('chebyshev'))
    res = U.run(ex, st, pre=[z3.Int('n') >= 2])
    for p, o in res:
        U.post('an-unknown-kind-raises-ValueError', p, z3.BoolVal(o.kind == 'raise' and o.exc == 'ValueError'))
    U.post('exactly-one-path', [], z3.BoolVal(len(res) == 1))


@unit('func.func_diff_matrix_apply', props=('C12',))
def u_diff_apply(U):
    """func_diff_matrix_apply is a draft: for kind='cheb' it raises NotImplementedError, for an unknown kind ValueError (nothing is computed)."""
    fn = U.func('func', 'func_diff_matrix_apply')
    for kind, exc in (('cheb', 'NotImplementedError'), ('other', 'ValueError')):
        ex = U.executor(fn)
        st = U.state()
        Y, A, d = S.tt_param(st, 'A')
        D, _ = S.mat_param('D')
        st.vars.update(A=Y, D=D, kind=VStr(kind))
        res = U.run(ex, st, pre=[T.wf(A, d)])
        for p, o in res:
            U.post(f'kind-{kind}-raises-{exc}', p, z3.BoolVal(o.kind == 'raise' and o.exc == exc))
        U.post(f'kind-{kind}-one-path', [], z3.BoolVal(len(res) == 1))


# ----------------------------------------------------------------------------------------------
# func.func_int_general: least-squares coefficients in a user basis, CONTROL / SHAPE level
#
# For every core k the result core is   mfold( lsqsol( H_k, munf(Y[k]) ), r_k, r_{k+1} )   with
#     H_k = basis_func(nodes_k).T,     nodes_k = X  when X is 1-D (shared by all cores),   nodes_k = X[k]  when X is 2-D (one row per core),
# munf(G) = the n x (r1 r2) mode unfolding np.transpose(G, [1, 0, 2]).reshape(n, -1), mfold its inverse, lsqsol(H, M) = scipy.linalg.lstsq(H, M)[0]:
# every core is fitted against the basis matrix of ITS OWN nodes (a "reuse the first core's matrix" slip changes H_k for k >= 1 in the
# 2-D case).  basis_func is a pure callback (A-CB) denoted by the spec function BF(nodes); its documented contract (n points -> n x m array)
# with m = n is the precondition, as is n_k = number of nodes for every core (otherwise lstsq / reshape raise).  Also proved: result shapes
# (r_k, n_k, r_{k+1}) = shape of Y (well-formed); scipy.linalg.lstsq is called with parameter names it has, with overwrite_a = overwrite_b =
# False (the operands may be views of the caller's cores: C09) and cond = the caller's rcond; the argument list is untouched.
# NOT covered: the VALUE of the least-squares solution (exact reproduction of functions in the span of the basis: bounded suite C12).

AXL = T.axioms('shape', 'mulI', 'lsqsol')
BF = z3.Function('basis_func', RA, z3.IntSort(), T.Mat)         # the matrix the (pure) callback returns for the nodes x[0..L-1]


def _int_general_unit(U, xdim):
    fn = U.func('func', 'func_int_general')
    st = U.state()
    Y, Ya, d = S.tt_param(st, 'Y')
    L = z3.Int('L')
    Xt = z3.Const('X', X.WL)
    x1 = z3.Const('x', RA)
    Xv = X.rvec(L, x1) if xdim == 1 else X.pts(d, L, Xt)
    nodes = (lambda k: x1) if xdim == 1 else (lambda k: Xt[k])
    rc = z3.Real('rcond')

    def basis_func(ex, s, args, kwargs, node):
        xv = s.deref(args[0]) if len(args) == 1 else None
        if kwargs or not X.is_vec(xv, 'rvec'):
            raise M.ContractMismatch('func_int_general(): basis_func is not called with one 1-D array of nodes')
        t = BF(xv.t, Z(xv.shape[0]))
        s.ghost['bf_calls'] = s.ghost.get('bf_calls', []) + [xv]
        return M.mk_mat(t)

    def H_of(k):
        return T.tr(BF(nodes(k), L))

    def core_of(k):
        return X.mfold(X.lsqsol(H_of(k), X.munf(Ya[k])), T.d0(Ya[k]), T.d2(Ya[k]))

    def inv(ex, s, j):
        As = s.deref(s.vars['A'])
        if not (isinstance(As, VSeq) and As.tag == 'core'):
            raise M.ContractMismatch('func_int_general(): A is not the list of result cores')
        calls = s.ghost.get('lstsq_calls', [])
        return [('one-core-per-finished-mode', As.n == j),
                ('finished-cores-are-the-folded-least-squares-solutions-against-the-basis-matrix-of-their-OWN-nodes',
                 z3.ForAll([t_], z3.Implies(z3.And(0 <= t_, t_ < j), As.arr[t_] == core_of(t_)), patterns=[As.arr[t_]])),
                ('lstsq-is-called-without-overwriting-and-with-the-caller-rcond',
                 z3.And([z3.And(z3.BoolVal(c['overwrite_a'] is False and c['overwrite_b'] is False), M.to_real(c['cond']) == rc) if M.is_num(c['cond'])
                         else z3.BoolVal(False) for c in calls] + [z3.BoolVal(True)])),
                ('argument-untouched', z3.BoolVal(s.heap[Y.oid].arr is Ya))]

    ex = U.executor(fn, loops={0: {'inv': inv}}, axioms=AXL, type_hints={'A': 'tt'})
    ex.mode = 'ematch'
    ex.functt = True
    ex.functt_lsq = True
    st.vars.update(Y=Y, X=Xv, basis_func=VFunc('basis_func', basis_func), rcond=rc)
    sizes = z3.ForAll([t_], z3.Implies(z3.And(0 <= t_, t_ < d), T.d1(Ya[t_]) == L), patterns=[Ya[t_]])
    xa = z3.Const('x!any', RA)
    bf_contract = z3.ForAll([xa], z3.And(T.rows(BF(xa, L)) == L, T.cols(BF(xa, L)) == L), patterns=[BF(xa, L)])    # documented contract of the callback (square case)
    res = U.run(ex, st, pre=[T.wf(Ya, d), L >= 1, sizes, bf_contract])
    U.cover('precondition-satisfiable', U.pre, axioms=AXL)
    t0 = z3.Int('t0')
    for p, o in res:
        if o.kind != 'return':
            U.post('no-exception', p, False, axioms=AXL, mode='ematch')
            continue
        As = p.deref(o.value)
        ok = isinstance(o.value, VRef) and isinstance(As, VSeq) and As.tag == 'core'
        U.post('returns-a-fresh-list-of-cores-and-leaves-the-argument-untouched', p, z3.BoolVal(ok and o.value.oid != Y.oid and p.heap[Y.oid].arr is Ya))
        if not ok:
            continue
        Rr = As.arr
        hyp, dom = list(p.pc), [0 <= t0, t0 < d]
        U.post('same-number-of-cores', hyp, As.n == d, axioms=AXL, mode='ematch')
        U.post('core-k-is-the-folded-least-squares-solution-against-the-basis-matrix-of-the-nodes-of-core-k', hyp + dom, Rr[t0] == core_of(t0),
               axioms=AXL, mode='ematch')
        U.post('same-shape-as-Y', hyp + dom, z3.And(T.d0(Rr[t0]) == T.d0(Ya[t0]), T.d1(Rr[t0]) == T.d1(Ya[t0]), T.d2(Rr[t0]) == T.d2(Ya[t0])),
               axioms=AXL, mode='ematch')
        U.post('well-formed', hyp, T.wf(Rr, d), axioms=AXL, mode='ematch')
        if xdim == 1:
            U.post('shared-nodes: the-basis-matrix-is-computed-once', p, z3.BoolVal(len(p.ghost.get('bf_calls', [])) == 1))
        U.canary('canary-every-core-uses-the-basis-matrix-of-core-0', hyp + dom,
                 Rr[t0] == X.mfold(X.lsqsol(T.tr(BF(nodes(z3.IntVal(0)), L)), X.munf(Ya[t0])), T.d0(Ya[t0]), T.d2(Ya[t0])), axioms=AXL) if xdim == 2 else \
            U.canary('canary-cores-are-copied', hyp + dom, Rr[t0] == Ya[t0], axioms=AXL)


@unit('func.func_int_general.shared_nodes', props=('C12', 'C09'))
def u_int_general_1d(U):
    _int_general_unit(U, 1)


@unit('func.func_int_general.nodes_per_core', props=('C12', 'C09'))
def u_int_general_2d(U):
    _int_general_unit(U, 2)


# ----------------------------------------------------------------------------------------------
# Hand-made mutants (MUT_BASE=/tmp/base tools/mut.sh func.py '<sed>' <units>) and the named obligation that reports each.
# R(f, g) abbreviates the sed address '/^def f(/,/^def g/' that restricts the edit to one function.
#
# func.func_gets.m_{none,int,float,list}
#   s/T = func_basis(X, n\[k\])/T = func_basis(X, m[k])/           (only m_k coefficients)   call-pre einsum-contracted-dimensions-agree (m_int, m_list; equivalent for m = None)
#   s/ind_to_poi(I, -1., +1., m\[k\], 'cheb')/ind_to_poi(I, -1., +1., n[k], 'cheb')/        call-pre ind_to_poi: indices within the grid, inv-keep loop0.basis-matrix-holds-T_i-at-the-Chebyshev-nodes-...
#   s/ind_to_poi(I, -1., +1., m\[k\]/ind_to_poi(I, 0., +1., m[k]/                           inv-keep loop0.basis-matrix-holds-T_i-at-the-Chebyshev-nodes-... (all cases)
#   s/np.einsum('riq,ij->rjq', A\[k\], T)/np.einsum('riq,ij->rjq', A[0], T)/                call-pre einsum-contracted-dimensions-agree, inv-keep loop0.core-shapes-..., loop0.core-is-the-mode-product-...
#   s/grid_prep_opt(m, d, int)/grid_prep_opt(m, d-1, int)/                                  safety array-index-in-range (m_int)
#   quiet (equivalent): `T = ...; Tk = T`, a temporary for the einsum result, range(len(A)); undecided: T renamed (ContractMismatch), other einsum strings (Unsupported)
# func.func_int                     (inside R(func_int, func_int_general))
#   s/(y.shape\[1\] - 1)/(y.shape[1])/                                                       inv-keep loop0.every-slice-is-the-DCT-I-slice-over-(n-1)-with-halved-ends
#   s/A\[k\]\[:, -1, :\] \/= 2./A[k][:, 1, :] \/= 2./                                         the same
#   s/A\[k\]\[:, 0, :\] \/= 2./pass/                                                          the same
#   s/A\[k\]\[:, -1, :\] \/= 2./A[k][:, -1, :] \/= 4./                                        the same
#   s/dct(y, 1, axis=1)/dct(Y[0], 1, axis=1)/                                                 inv-keep loop0.finished-entries-are-cores-of-the-shape-of-the-value-cores, loop0.every-slice-...
#   quiet (equivalent): `A[k][:, 0, :] = A[k][:, 0, :] / 2.`, `*= 0.5`; undecided: dct(.., axis=0) / type 2 (Unsupported)
# func.func_sum.{number,list}       (from '/^def func_sum(/' to the end)
#   s/v \*= (bk - ak) \/ 2./v *= (bk - ak)/                                                   inv-keep loop0.accumulated-product-is-the-Clenshaw-Curtis-chain-over-the-finished-modes
#   s/v \*= (bk - ak) \/ 2./v *= (bk + ak) \/ 2./                                              the same (list case: timeout = undecided, number case: failed)
#   s/np.arange(0, n_max, 2)/np.arange(1, n_max, 2)/                                          safety elementwise-division-by-nonzero, call-pre matmul-inner-dims-agree, post weights-are-2/(1-i^2)-...
#   s/p\[:(nk + 1)\/\/2\]/p[:nk\/\/2]/                                                          call-pre matmul-inner-dims-agree
#   s/p = 2. \/ (1 - np.arange/p = 1. \/ (1 - np.arange/                                      post weights-are-2/(1-i^2)-at-the-even-indices-i=2m
#   s/n_max = max(n)/n_max = max(n) - 1/                                                      call-pre matmul-inner-dims-agree
#   quiet (equivalent): `v = v * ((bk - ak) / 2.)`, `v *= 0.5 * (bk - ak)`; undecided: y[:, 1::2], 1 + arange**2 (Unsupported)
# func.func_get.*                   (inside R(func_get, func_get_spectral))
#   s/        skip_out = True/        skip_out = False/                                      inv-keep loop0.finished-points-hold-the-fill-value-resp-the-chained-value (numbers), post points-outside-... (one_point)
#   s/y = np.ones(m) \* z/y = np.ones(m) * 0./                                                inv-init loop0.remaining-points-still-hold-the-fill-value
#   s/np.max(a - X\[i, :\]) > 1.E-99/np.max(X[i, :] - a) > 1.E-99/                            inv-keep loop0.finished-points-..., post points-outside-... / points-inside-...
#   s/poi_scale(x, ai, bi, 'cheb')/poi_scale(x, bi, ai, 'cheb')/                              call-pre poi_scale: a < b
#   s/for j in range(1, d):/for j in range(1, d - 1):/                                        inv-keep loop0.finished-points-..., post points-inside-the-box-receive-the-chained-value
#   s/A\[j\], T\[j\]\[i\])/A[j], T[0][i])/                                                      call-pre einsum-contracted-dimensions-agree, inv-keep loop1.partial-product-is-the-chain-...
#   s/        a = -1$/        a = 0/                                                           post weights-of-point-s-in-mode-k-are-T_j-at-the-scaled-coordinate-... (default_box, upper_bound_only)
#   s/                continue/                pass/                                          inv-keep loop0.finished-points-... (numbers), post points-outside-... (one_point)
#   s/ or np.max(X\[i, :\] - b) > 1.E-99:/:/                                                   the same
#   quiet (equivalent): `z * np.ones(m)`; undecided: zip(funcs, X, n) (contract mismatch), T[0][i, :] (Unsupported)
# func.func_diff_matrix.shapes.m{1,2,3}, .invalid_kind, func.func_diff_matrix_apply
#   s/l = (2. \/ (b - a))\*\*(i+1)/l = (2. \/ (b - a))**i/                                     post matrix-of-order-k-is-scaled-by-(2/(b-a))^k (refuted)
#   s/l = (2. \/ (b - a))\*\*(i+1)/l = ((b - a) \/ 2.)**(i+1)/                                 the same (refuted)
#   s/return D_list\[0\] if m == 1 else D_list/return D_list/                                 post first-order-only: ONE matrix is returned, not a list (m1)
#   s/D_list.append(D \* l)/D_list.append(D)/                                                 post matrix-of-order-k-is-an-array-times-a-number
#   s/for i in range(m):/for i in range(m+1):/                                                post a-list-of-m-matrices-is-returned (m2, m3)
#   s/D = np.eye(n)/D = np.eye(n+1)/                                                          call-pre elementwise-shapes-agree
#   s/raise ValueError('Invalid "kind"')/return None/                                         post an-unknown-kind-raises-ValueError, kind-other-raises-ValueError
#   s/raise NotImplementedError()/return A/                                                   post kind-cheb-raises-NotImplementedError
# func.func_int_general.{shared_nodes,nodes_per_core}   (inside R(func_int_general, func_sum))
#   s/H_mat = basis_func(X_curr).T/H_mat = basis_func(X[0]).T/   (first core's matrix reused)  inv-keep loop0.finished-cores-are-the-folded-least-squares-solutions-...-of-their-OWN-nodes (nodes_per_core)
#   s/cond=rcond/rcond=rcond/                        (the pinned-tree defect)                 call-pre scipy.linalg.lstsq-has-a-parameter-named-rcond
#   s/overwrite_b=False/overwrite_b=True/            (the pinned-tree defect)                 inv-keep loop0.lstsq-is-called-without-overwriting-and-with-the-caller-rcond
#   s/cond=rcond)/cond=1.E-6)/                                                                the same
#   s/zip(Y, X, H_mats)/zip(Y[1:], X, H_mats)/                                                inv-keep loop0.finished-cores-..., post same-number-of-cores, ...
#   s/Q.reshape(n, r1, r2)/Q.reshape(n, r2, r1)/                                              inv-keep loop0.finished-cores-...
#   s/\[basis_func(X).T\] \* d/[basis_func(X)] * d/                                           inv-keep loop0.finished-cores-... (shared_nodes)
#   quiet (equivalent): enumerate(zip(..))
# grid.grid_prep_opts.values.*, grid.grid_prep_opt.int_array.d     (grid.py)
#   s/b = grid_prep_opt(b, d, float, reps)/b = grid_prep_opt(a, d, float, reps)/              post option-b-is-normalised-by-grid_prep_opt-with-kind-float-... (refuted)
#   s/n = grid_prep_opt(n, d, int, reps)/n = grid_prep_opt(n, d, float, reps)/                post option-n-is-normalised-by-grid_prep_opt-with-kind-int-... (refuted)
#   s/elif d != len(item):/elif d < len(item):/                                               raise-iff returns-only-if-all-list-like-options-have-length-d (refuted)
#   s/return a, b, n/return b, a, n/                                                          post returns-the-three-normalised-options-in-the-order-a-b-n (refuted)
#   s/opt = np.asanyarray(opt, dtype=kind)/opt = np.asanyarray(opt, dtype=kind)[:d]/          safety operand-not-None, post same-integer-vector-whatever-the-dimension-argument (refuted)
#   quiet (equivalent on the returning path): grid_prep_opt(a, len(n), float, reps)
