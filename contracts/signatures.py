"""Call-signature conformance of every NumPy / SciPy call site in a teneva module against `inspect.signature` of the
callee that is really installed (DESIGN 1.2: "signature conformance").  One obligation per call site that passes keyword
arguments or whose callee has a retrievable signature; back end: Python reflection (`inspect`), no SMT.

This is the obligation that fails for `scipy.linalg.lstsq(..., rcond=...)` (C12 defect of func_int_general)."""
import ast, importlib, inspect
from ttvc.units import unit
from ttvc import symex

ROOTS = {'np': 'numpy', 'numpy': 'numpy', 'sp': 'scipy', 'scipy': 'scipy'}


def _imports(tree):
    """local name -> dotted path of objects imported from numpy / scipy / opt_einsum in the module."""
    tab = {}
    for n in ast.walk(tree):
        if isinstance(n, ast.Import):
            for a in n.names:
                if a.name.split('.')[0] in ('numpy', 'scipy'):
                    tab[a.asname or a.name.split('.')[0]] = a.name if a.asname else a.name.split('.')[0]
        if isinstance(n, ast.ImportFrom) and n.module and n.level == 0 and n.module.split('.')[0] in ('numpy', 'scipy', 'opt_einsum'):
            for a in n.names:
                tab[a.asname or a.name] = f'{n.module}.{a.name}'
    return tab


def _resolve(path):
    parts = path.split('.')
    for cut in range(len(parts), 0, -1):
        try:
            obj = importlib.import_module('.'.join(parts[:cut]))
        except Exception:
            continue
        try:
            for p in parts[cut:]:
                obj = getattr(obj, p)
            return obj
        except AttributeError:
            return None
    return None


def check_module(U, module):
    src, tree = symex.module_ast(module)
    tab = _imports(tree)
    n_checked = n_skipped = 0
    seen = {}
    for node in sorted((x for x in ast.walk(tree) if isinstance(x, ast.Call)), key=lambda x: (x.lineno, x.col_offset)):
        if not isinstance(node, ast.Call):
            continue
        f = node.func
        while isinstance(f, ast.Attribute):
            f = f.value
        if not isinstance(f, ast.Name):
            continue                      # method call on an expression (e.g. np.arange(n).reshape): receiver is a value
        name = ast.unparse(node.func)
        head = name.split('.')[0]
        if head not in tab:
            continue
        path = tab[head] + name[len(head):]
        obj = _resolve(path)
        where = f'{module}.py:{node.lineno}'
        seen[name] = seen.get(name, 0) + 1
        label = f'{name}#{seen[name]}'
        if obj is None:
            U.direct('signature', label, 'failed', f'{path} does not exist in the installed library', where, backend='inspect')
            continue
        try:
            sig = inspect.signature(obj)
        except (ValueError, TypeError):
            n_skipped += 1
            continue
        if any(isinstance(a, ast.Starred) for a in node.args) or any(k.arg is None for k in node.keywords):
            n_skipped += 1
            continue
        try:
            sig.bind(*[None] * len(node.args), **{k.arg: None for k in node.keywords})
            U.direct('signature', label, 'proved', '', where, backend='inspect')
        except TypeError as e:
            U.direct('signature', label, 'failed', f'call `{ast.unparse(node)[:120]}` does not conform to {path}{sig}: {e}', where,
                     backend='inspect')
        n_checked += 1
    U.add_meta(functions=[{'function': f'teneva/{module}.py (all NumPy/SciPy call sites)', 'lines': [1, len(src.splitlines())],
                           'sha256_16': symex.hashlib.sha256(src.encode()).hexdigest()[:16],
                           'dropped': [f'{n_skipped} call sites whose callee has no retrievable signature (C builtins) or that use * / **']}])
    if n_checked == 0:
        U.direct('cover', 'some-call-site-checked', 'vacuous', 'no call site with a retrievable signature', module, backend='inspect')
    else:
        U.direct('cover', 'some-call-site-checked', 'ok', '', module, backend='inspect')


for _m in ('func', 'func_full', 'svd', 'sample', 'maxvol', 'transformation', 'als', 'als_func', 'anova', 'anova_func', 'core', 'cross',
           'cross_act', 'optima', 'optima_func', 'sample_func', 'act_one', 'act_two', 'grid', 'tensors', 'stat', 'data', 'props'):
    def _mk(m=_m):
        @unit(f'sig.{m}', props=('C12', 'C11'))
        def u(U):
            check_module(U, m)
    _mk()
