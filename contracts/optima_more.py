"""Sidecar contracts for teneva/sample.py (sample_tt, sample), teneva/optima.py (optima_tt_beam, optima_qtt) and
teneva/optima_func.py (optima_func_tt_beam): C14, C15, C20, C10.  Models: ttvc/mx_opt.py (active for executors with `ex.opt = True`)."""
import z3
from ttvc.units import unit
from ttvc.symex import VOpt, VStr, VRec, VSeq, VArr, VFunc, VTuple, VRef, VList, VSym, VOpaque, NONE, Z
from ttvc import models as M, theory as T, rnd as R
from ttvc import mx_opt as X
from contracts import spec as S

IA, IM = X.IA, X.IM
SRow, Block = X.SRow, X.Block
t_, c_, k_, a_, k2_ = z3.Ints('t!s c!s k!s a!s k2!s')


# ==============================================================================================
# sample.sample_tt  (C14 "the structured sample set for incomplete SVD has the advertised block layout", C20 mechanism "block layout
# (start offsets and right-block lengths) shared between generator and consumer", C10)
#
# Two levels.  (1) The nested function one_mode(sh1, sh2, rng) (closure over r, seed) is verified on its own (its three branches are three
# contract cases): it returns rng * L1 * L2 rows; row t carries ghost witnesses (nn, a, b) with
#       t = (nn * L1 + a) * L2 + b,  0 <= nn < rng, 0 <= a < L1, 0 <= b < L2      (itertools.product: last factor fastest)
# and equals  P[a] (+) [nn] (+) S[b]  where P = sample_lhs(sh1, r, seed) (L1 = r rows; L1 = 1 and no prefix if sh1 is empty) and
# S = sample_lhs(sh2, r, seed) (L2 = r; L2 = 1 and no suffix if sh2 is empty).  Every sample_lhs call receives the closure's seed object
# itself and m = r, so each Latin-hypercube table is a function of (shape, r, seed) alone and a generator object is the only source of
# randomness (C10; sample_lhs passes the seed through _rand once - its own contract).
# (2) sample_tt(n, r, seed) with one_mode replaced by that contract: I is the concatenation of d blocks, block k occupies the rows
# idx[k] .. idx[k+1]-1, has n_k * L1_k * L2_k rows (L1_k = 1 for k = 0 else r; L2_k = 1 for k = d-1 else r), idx_many[k] = L2_k, and
# row idx[k] + t is as above with prefixes over the modes < k and suffixes over the modes > k; every entry lies inside its mode.
# These are the facts unit svd.svd_incomplete.shapes ASSUMES as the layout contract of sample_tt - each of them is a post here.
# The ghost witnesses give the layout in "decoding" form; the "forward" form (row (nn*L1+a)*L2+b is P[a] (+) [nn] (+) S[b]) follows by
# the uniqueness of the mixed-radix representation (lemma mixed-radix-decoding-is-unique, proved quantifier-free below).
# Not covered: r given as a float (int(r) inside sample_lhs), d = 1, the Latin-hypercube property of P and S (unit sample.sample_lhs.counts)
# beyond "entries inside the modes", distinctness of prefixes / suffixes (needs n_k >= r; C20 quantifier, bounded suite).

def seq_arr_len(st, v):
    """(z3 array Int -> Int, length) of a list of ints / a 1-D integer array."""
    v = st.deref(v)
    if isinstance(v, VSeq) and v.tag == 'int':
        return v.arr, Z(v.n)
    if isinstance(v, VArr) and v.ndim == 1 and v.tag == 'ivec' and v.t is not None and not callable(v.t):
        return v.t, Z(v.shape[0])
    raise M.Unsupported('expected a list / vector of integers')


def call_sample_lhs(ex, st, args, kwargs, node):
    """sample_lhs(n, m, seed) by contract (unit sample.sample_lhs.counts: integer array of shape (m, d); no value outside [0, n_c) is used in
    column c - restated here entry by entry).  Every call is logged (ghost 'lhs_calls')."""
    if kwargs or len(args) != 3:
        raise M.Unsupported('sample_lhs calling pattern')
    sh, ln = seq_arr_len(st, args[0])
    m = args[1]
    if not M.is_intsort(m):
        raise M.Unsupported('sample_lhs with a non-integer number of samples')
    m = Z(m)
    ex.oblige(st, 'call-pre', 'sample_lhs: at least one mode, m >= 1, mode sizes >= 1',
              z3.And(ln >= 1, m >= 1, z3.ForAll([c_], z3.Implies(z3.And(0 <= c_, c_ < ln), sh[c_] >= 1), patterns=[sh[c_]])), node)
    rows = ex.fresh('lhs', IM)
    st.assume(z3.ForAll([a_, c_], z3.Implies(z3.And(0 <= a_, a_ < m, 0 <= c_, c_ < ln), z3.And(0 <= rows[a_][c_], rows[a_][c_] < sh[c_])),
                        patterns=[rows[a_][c_]]))
    st.ghost['lhs_calls'] = st.ghost.get('lhs_calls', []) + [dict(sh=args[0], m=args[1], seed=args[2], rows=rows)]
    return X.imat(rows, m, ln)


def row_layout(arr, n, len1, len2, rng, L1, L2, P, S_):
    """Layout of a list of rows (z3 array of SRow, length n): the two quantified facts of the contract of one_mode."""
    e = arr[t_]
    gn, ga, gb = SRow.gn(e), SRow.ga(e), SRow.gb(e)
    W = len1 + 1 + len2
    return [('every-row-has-one-index-per-mode-and-a-position-decoding: t = (nn*L1 + a)*L2 + b, last factor fastest',
             z3.ForAll([t_], z3.Implies(z3.And(0 <= t_, t_ < n),
                                        z3.And(SRow.w(e) == W, 0 <= gn, gn < rng, 0 <= ga, ga < L1, 0 <= gb, gb < L2, t_ == (gn * L1 + ga) * L2 + gb)),
                       patterns=[arr[t_]])),
            ('row-t-is-prefix[a] (+) [nn] (+) suffix[b]',
             z3.ForAll([t_, c_], z3.Implies(z3.And(0 <= t_, t_ < n, 0 <= c_, c_ < W),
                                            SRow.vals(e)[c_] == z3.If(c_ < len1, P[ga][c_], z3.If(c_ == len1, gn, S_[gb][c_ - len1 - 1]))),
                       patterns=[SRow.vals(arr[t_])[c_]]))]


def lens_of_case(len1, len2, r):
    """(len_1, len_2) as one_mode computes them: r rows of a Latin-hypercube table, 1 where there is no table."""
    return z3.If(z3.And(len2 != 0, len1 == 0), 1, r), z3.If(len2 == 0, 1, r)


def one_mode_post(arr, n, sh1, len1, sh2, len2, rng, r, P, S_):
    L1, L2 = lens_of_case(len1, len2, r)
    return [('number-of-rows-is-rng*len_1*len_2', n == rng * L1 * L2)] + row_layout(arr, n, len1, len2, rng, L1, L2, P, S_) + \
        [('prefix-entries-lie-inside-the-modes-before',
          z3.ForAll([a_, c_], z3.Implies(z3.And(0 <= a_, a_ < L1, 0 <= c_, c_ < len1), z3.And(0 <= P[a_][c_], P[a_][c_] < sh1[c_])), patterns=[P[a_][c_]])),
         ('suffix-entries-lie-inside-the-modes-after',
          z3.ForAll([a_, c_], z3.Implies(z3.And(0 <= a_, a_ < L2, 0 <= c_, c_ < len2), z3.And(0 <= S_[a_][c_], S_[a_][c_] < sh2[c_])), patterns=[S_[a_][c_]]))]


def forward_form(U, p, arr, n, len1, len2, rng, L1, L2, P, S_, extra=(), tag=''):
    """The layout read forwards: the row at position (nn*L1 + a)*L2 + b IS prefix[a] (+) [nn] (+) suffix[b].  From the decoding form by two
    quantifier-free arithmetic lemmas (position in range; uniqueness of the mixed-radix representation), used as instances."""
    nn, a, b, g1, g2, g3, cc = z3.Ints('nn0 a0 b0 g1 g2 g3 cc0')
    rngs = [0 <= nn, nn < rng, 0 <= a, a < L1, 0 <= b, b < L2]
    pos = (nn * L1 + a) * L2 + b
    U.lemma(tag + 'position-(nn*L1+a)*L2+b-lies-below-rng*L1*L2', rngs, z3.And(0 <= pos, pos < rng * L1 * L2), qf=True)
    uniq_h = [0 <= g1, 0 <= g2, g2 < L1, 0 <= g3, g3 < L2, pos == (g1 * L1 + g2) * L2 + g3]
    U.lemma(tag + 'mixed-radix-decoding-is-unique', rngs + uniq_h, z3.And(g1 == nn, g2 == a, g3 == b), qf=True)
    e = arr[pos]
    inst = z3.substitute(z3.Implies(z3.And(rngs + uniq_h), z3.And(g1 == nn, g2 == a, g3 == b)), (g1, SRow.gn(e)), (g2, SRow.ga(e)), (g3, SRow.gb(e)))
    hyp = list(p.pc if hasattr(p, 'pc') else p) + list(extra) + rngs + [z3.And(0 <= pos, pos < rng * L1 * L2), inst, n == rng * L1 * L2] + \
        [g for _, g in row_layout(arr, n, len1, len2, rng, L1, L2, P, S_)]
    U.post(tag + 'forward-form: the row at position (nn*L1 + a)*L2 + b is prefix[a] (+) [nn] (+) suffix[b]', hyp,
           z3.Implies(z3.And(0 <= cc, cc < len1 + 1 + len2), SRow.vals(e)[cc] == z3.If(cc < len1, P[a][cc], z3.If(cc == len1, nn, S_[b][cc - len1 - 1]))))


def _sizes(arr, n):
    return z3.ForAll([c_], z3.Implies(z3.And(0 <= c_, c_ < n), arr[c_] >= 1), patterns=[arr[c_]])


def _one_mode_unit(U, case, kind):
    fn = U.func('sample', 'sample_tt.one_mode')
    st = U.state()
    len1, len2, rng, r = z3.Ints('len1 len2 rng r')
    a1, a2 = z3.Const('sh1', IA), z3.Const('sh2', IA)
    if kind == 'list':
        sh1, sh2 = st.alloc(VSeq(a1, len1, lambda x: x, tag='int')), st.alloc(VSeq(a2, len2, lambda x: x, tag='int'))
    else:
        sh1, sh2 = X.ivec(len1, a1), X.ivec(len2, a2)
    seed = z3.Int('seed')
    names = {'last': ('lhs_1', None), 'first': (None, 'lhs_2'), 'middle': ('lhs_1', 'lhs_2')}[case]
    o_ord = {'last': 0, 'first': 2, 'middle': 4}[case]
    unused = z3.Const('unused', IM)

    def ctx(s):
        """(L1, L2, P, S) of the state: the tables that the branch has drawn"""
        out = []
        for nm in names:
            if nm is None:
                out.append((z3.IntVal(1), unused))
                continue
            v = s.vars.get(nm)
            if not (isinstance(v, VArr) and v.tag == 'imat' and getattr(v, 'rows', None) is not None):
                raise M.ContractMismatch(f'one_mode: {nm} is not the table returned by sample_lhs')
            out.append((Z(v.shape[0]), v.rows))
        return out[0][0], out[1][0], out[0][1], out[1][1]

    def res_of(s):
        rs = s.deref(s.vars['res'])
        if not (isinstance(rs, VSeq) and rs.tag == 'srows'):
            raise M.ContractMismatch('one_mode: res is not the list of appended rows')
        return rs

    def inv_outer(ex, s, j):
        L1, L2, P, S_ = ctx(s)
        rs = res_of(s)
        return [('rows-so-far: nn * len_1 * len_2', rs.n == j * L1 * L2)] + row_layout(rs.arr, rs.n, len1, len2, rng, L1, L2, P, S_)

    def inv_inner(ex, s, jj):
        L1, L2, P, S_ = ctx(s)
        rs = res_of(s)
        no = s.ghost[f'_j{o_ord}']
        return [('rows-so-far: nn * len_1 * len_2 + pairs done', rs.n == no * L1 * L2 + jj)] + row_layout(rs.arr, rs.n, len1, len2, rng, L1, L2, P, S_)

    def no_loop(ex, s, j):
        raise M.ContractMismatch('one_mode: a loop of another branch is reached in this contract case')

    loops = {k: {'inv': no_loop} for k in range(6)}
    loops[o_ord], loops[o_ord + 1] = {'inv': inv_outer}, {'inv': inv_inner}
    ex = U.executor(fn, loops=loops, callees={'sample.sample_lhs': call_sample_lhs}, type_hints={'res': X.srows_kind})
    ex.opt = True
    st.vars.update(sh1=sh1, sh2=sh2, rng=rng, r=r, seed=seed)
    pre = [r >= 1, rng >= 0, len1 >= 0, len2 >= 0, _sizes(a1, len1), _sizes(a2, len2),
           {'last': z3.And(len2 == 0, len1 >= 1), 'first': z3.And(len1 == 0, len2 >= 1), 'middle': z3.And(len1 >= 1, len2 >= 1)}[case]]
    res = U.run(ex, st, pre=pre)
    U.assumed.append('sample.sample_lhs (unit sample.sample_lhs.counts)')
    U.cover('precondition-satisfiable', U.pre)
    nret = 0
    for p, o in res:
        if o.kind != 'return':
            U.post('no-exception', p, False)
            continue
        nret += 1
        ok = isinstance(o.value, VTuple) and len(o.value.items) == 3 and isinstance(p.deref(o.value.items[0]), VSeq) \
            and p.deref(o.value.items[0]).tag == 'srows' and all(M.is_intsort(x) for x in o.value.items[1:])
        U.post('returns-(rows, len_1, len_2)', p, z3.BoolVal(ok))
        if not ok:
            continue
        rs, l1, l2 = p.deref(o.value.items[0]), Z(o.value.items[1]), Z(o.value.items[2])
        L1, L2, P, S_ = ctx(p)
        E1, E2 = lens_of_case(len1, len2, r)
        U.post('len_1-and-len_2-are-the-numbers-of-prefix-and-suffix-rows (r, or 1 where there is no table)', p, z3.And(l1 == E1, l2 == E2, l1 == L1, l2 == L2))
        for lbl, g in one_mode_post(rs.arr, Z(rs.n), a1, len1, a2, len2, rng, r, P, S_):
            U.post(lbl, p, g)
        forward_form(U, p, rs.arr, Z(rs.n), len1, len2, rng, L1, L2, P, S_)
        calls = p.ghost.get('lhs_calls', [])
        want = [x for x, nm in ((sh1, names[0]), (sh2, names[1])) if nm is not None]
        U.post('one-Latin-hypercube-table-per-side-that-has-modes: sample_lhs(shape of that side, r, seed) with the seed object itself', p,
               z3.BoolVal(len(calls) == len(want) and all(c['sh'] is w and c['m'] is r and c['seed'] is seed for c, w in zip(calls, want))))
        U.canary('canary-all-rows-carry-mode-index-0', p, z3.Implies(z3.And(0 <= t_, t_ < rs.n), SRow.gn(rs.arr[t_]) == 0))
    U.post('a-return-path-exists', U.pre, z3.BoolVal(nret >= 1))


for _case in ('last', 'first', 'middle'):
    for _kind in ('list', 'array'):
        def _mk(case=_case, kind=_kind):
            @unit(f'sample.sample_tt.one_mode.{case}.{kind}', props=('C14', 'C20', 'C10'))
            def u(U):
                _one_mode_unit(U, case, kind)
        _mk()


def call_one_mode(ex, st, args, kwargs, node):
    """one_mode(sh1, sh2, rng) by contract (units sample.sample_tt.one_mode.*); r and seed are read from the enclosing scope at call time."""
    if kwargs or len(args) != 3:
        raise M.Unsupported('one_mode calling pattern')
    a1, len1 = seq_arr_len(st, args[0])
    a2, len2 = seq_arr_len(st, args[1])
    rng, r = args[2], st.vars.get('r')
    if not (M.is_intsort(rng) and M.is_intsort(r)):
        raise M.Unsupported('one_mode: the mode size and the expected rank must be integers in this contract case')
    rng, r = Z(rng), Z(r)
    ex.oblige(st, 'call-pre', 'one_mode: r >= 1, rng >= 0, mode sizes >= 1, at least one other mode',
              z3.And(r >= 1, rng >= 0, len1 >= 0, len2 >= 0, len1 + len2 >= 1, _sizes(a1, len1), _sizes(a2, len2)), node)
    b = ex.fresh('blk', Block)
    for lbl, g in one_mode_post(Block.brows(b), Block.blen(b), a1, len1, a2, len2, rng, r, Block.bpre(b), Block.bsuf(b)):
        st.assume(g)
    st.ghost['one_mode_calls'] = st.ghost.get('one_mode_calls', []) + [dict(seed=st.vars.get('seed'), r=st.vars.get('r'))]
    L1, L2 = lens_of_case(len1, len2, r)
    return VTuple([st.alloc(X.VSRows(Block.brows(b), Block.blen(b), b)), L1, L2])


def block_facts(B, upto, narr, d, r):
    """Layout of the blocks B[0 .. upto-1] of sample_tt: block k belongs to mode k (prefixes over the modes < k, suffixes over the modes > k)."""
    L1 = z3.If(k_ == 0, 1, r)
    L2 = z3.If(k_ == d - 1, 1, r)
    b = B[k_]
    e = Block.brows(b)[t_]
    gn, ga, gb = SRow.gn(e), SRow.ga(e), SRow.gb(e)
    dom = z3.And(0 <= k_, k_ < upto)
    return [('block-k-has-n_k*L1_k*L2_k-rows (L1_0 = 1, L2_(d-1) = 1, else r)',
             z3.ForAll([k_], z3.Implies(dom, Block.blen(b) == narr[k_] * L1 * L2), patterns=[B[k_]])),
            ('rows-of-block-k-have-d-entries-and-a-position-decoding: t = (nn*L1 + a)*L2 + b',
             z3.ForAll([k_, t_], z3.Implies(z3.And(dom, 0 <= t_, t_ < Block.blen(b)),
                                            z3.And(SRow.w(e) == d, 0 <= gn, gn < narr[k_], 0 <= ga, ga < L1, 0 <= gb, gb < L2, t_ == (gn * L1 + ga) * L2 + gb)),
                       patterns=[Block.brows(B[k_])[t_]])),
            ('row-t-of-block-k-is-prefix_k[a] (+) [nn] (+) suffix_k[b] with nn in column k',
             z3.ForAll([k_, t_, c_], z3.Implies(z3.And(dom, 0 <= t_, t_ < Block.blen(b), 0 <= c_, c_ < d),
                                                SRow.vals(e)[c_] == z3.If(c_ < k_, Block.bpre(b)[ga][c_], z3.If(c_ == k_, gn, Block.bsuf(b)[gb][c_ - k_ - 1]))),
                       patterns=[SRow.vals(Block.brows(B[k_])[t_])[c_]])),
            ('prefixes-of-block-k-lie-inside-the-modes-before-k',
             z3.ForAll([k_, a_, c_], z3.Implies(z3.And(dom, 0 <= a_, a_ < L1, 0 <= c_, c_ < k_), z3.And(0 <= Block.bpre(b)[a_][c_], Block.bpre(b)[a_][c_] < narr[c_])),
                       patterns=[Block.bpre(B[k_])[a_][c_]])),
            ('suffixes-of-block-k-lie-inside-the-modes-after-k',
             z3.ForAll([k_, a_, c_], z3.Implies(z3.And(dom, 0 <= a_, a_ < L2, 0 <= c_, c_ < d - 1 - k_),
                                                z3.And(0 <= Block.bsuf(b)[a_][c_], Block.bsuf(b)[a_][c_] < narr[k_ + 1 + c_])),
                       patterns=[Block.bsuf(B[k_])[a_][c_]]))]


def _sample_tt_unit(U, nkind, skind):
    fn = U.func('sample', 'sample_tt')
    st = U.state()
    d, r = z3.Ints('d r')
    narr = z3.Const('n', IA)
    n = st.alloc(VSeq(narr, d, lambda x: x, tag='int')) if nkind == 'list' else X.ivec(d, narr)
    seed = {'int': z3.Int('seed'), 'none': NONE, 'generator': R.VGen('caller')}[skind]

    def parts(s):
        Is, idx, idm = s.deref(s.vars['I']), s.deref(s.vars['idx']), s.deref(s.vars['idx_many'])
        if not (isinstance(Is, VSeq) and Is.tag == 'sblocks' and isinstance(idx, VSeq) and idx.tag == 'int' and isinstance(idm, VSeq) and idm.tag == 'int'):
            raise M.ContractMismatch('sample_tt: I / idx / idx_many are not the lists the contract was written for')
        return Is, idx, idm

    def offsets(idx, B, upto):
        return [('idx-starts-at-0', idx[0] == 0),
                ('idx-advances-by-the-block-length', z3.ForAll([k_, k2_], z3.Implies(z3.And(0 <= k_, k2_ == k_ + 1, k2_ <= upto), idx[k2_] == idx[k_] + Block.blen(B[k_])),
                                                               patterns=[z3.MultiPattern(idx[k_], idx[k2_])]))]

    def inv(ex, s, j):
        Is, idx, idm = parts(s)
        return [('one-block-one-offset-one-stride-per-processed-mode', z3.And(Is.n == j, idx.n == j + 1, idm.n == j))] + offsets(idx.arr, Is.arr, j) + \
            [('idx_many[k]-is-the-number-of-suffix-rows: 1 for the last mode, r otherwise',
              z3.ForAll([k_], z3.Implies(z3.And(0 <= k_, k_ < j), idm.arr[k_] == z3.If(k_ == d - 1, 1, r)), patterns=[idm.arr[k_]]))] + \
            block_facts(Is.arr, j, narr, d, r)

    def body_end(ex_, s, o, j):
        calls = s.ghost.get('one_mode_calls', [])
        ex_.oblige(s, 'post', 'each-mode-calls-one_mode-once-and-one_mode-sees-the-caller-s-seed-and-r-unchanged (every Latin-hypercube table is sample_lhs(.., r, seed))',
                   z3.BoolVal(len(calls) == 1 and calls[0]['seed'] is seed and calls[0]['r'] is r), None, assume=False)

    ex = U.executor(fn, loops={6: {'inv': inv, 'body_end': body_end}}, type_hints={'I': X.blocks_kind, 'idx': 'intseq', 'idx_many': 'intseq'})
    ex.opt = True
    ex.local_contracts = {'one_mode': (('sh1', 'sh2', 'rng'), call_one_mode)}
    st.vars.update(n=n, r=r, seed=seed)
    res = U.run(ex, st, pre=[d >= 2, r >= 1, _sizes(narr, d)])
    U.assumed.append('sample.sample_tt.one_mode (units sample.sample_tt.one_mode.*)')
    U.cover('precondition-satisfiable', U.pre)
    for p, o in res:
        if o.kind != 'return':
            U.post('no-exception', p, False)
            continue
        v = o.value
        ok = isinstance(v, VTuple) and len(v.items) == 3 and isinstance(v.items[0], VArr) and v.items[0].tag == 'sstack' \
            and all(isinstance(x, VArr) and x.ndim == 1 and x.tag == 'ivec' for x in v.items[1:])
        U.post('returns-(I, idx, idx_many): the stacked blocks and two integer vectors', p, z3.BoolVal(ok))
        if not ok:
            continue
        Rm, idx, idm = v.items
        B, off = Rm.blocks, Rm.off
        ix, im = idx.t, idm.t
        L1 = lambda k: z3.If(k == 0, 1, r)
        L2 = lambda k: z3.If(k == d - 1, 1, r)
        kk, tt, cc = z3.Ints('kk tt cc')
        U.post('d-blocks-d+1-offsets-d-strides', p, z3.And(Rm.nblk == d, Z(idx.shape[0]) == d + 1, Z(idm.shape[0]) == d))
        U.post('integer-arrays', p, z3.BoolVal(Rm.dtype == 'i' and idx.dtype == 'i' and idm.dtype == 'i'))
        # block k of the stacked array starts at row idx[k]: idx[k] = off[k] for every k (induction over k along the two recurrences)
        U.lemma('block-k-starts-at-row-idx[k].base', p, ix[0] == off[0], kind='lemma-base')
        U.lemma('block-k-starts-at-row-idx[k].step', list(p.pc) + [0 <= kk, kk < d, ix[kk] == off[kk]], ix[kk + 1] == off[kk + 1], kind='lemma-step')
        starts = z3.ForAll([k_], z3.Implies(z3.And(0 <= k_, k_ <= d), ix[k_] == off[k_]), patterns=[ix[k_]])
        hyp = list(p.pc) + [starts]
        U.post('I-has-idx[d]-rows-and-d-columns', hyp, z3.And(Z(Rm.shape[0]) == ix[d], Z(Rm.shape[1]) == d))
        dk = z3.And(0 <= kk, kk < d)
        U.post('idx[0]=0-and-block-k-has-idx[k+1]-idx[k] = n_k*L1_k*L2_k-rows', hyp, z3.And(ix[0] == 0, z3.Implies(dk, ix[kk + 1] - ix[kk] == narr[kk] * L1(kk) * L2(kk))))
        U.post('idx_many[k]-is-the-stride-L2_k: r, and 1 for the last mode', hyp, z3.Implies(dk, im[kk] == L2(kk)))
        e = Block.brows(B[kk])[tt]
        gn, ga, gb = SRow.gn(e), SRow.ga(e), SRow.gb(e)
        dt = z3.And(dk, 0 <= tt, tt < ix[kk + 1] - ix[kk])
        U.post('row-idx[k]+t-decodes-as-t = (nn*L1_k + a)*L2_k + b (mode index slowest, suffix fastest)', hyp,
               z3.Implies(dt, z3.And(0 <= gn, gn < narr[kk], 0 <= ga, ga < L1(kk), 0 <= gb, gb < L2(kk), tt == (gn * L1(kk) + ga) * L2(kk) + gb)))
        ent = X.stack_entry(Rm, kk, tt, cc)
        U.post('row-idx[k]+t-is-prefix_k[a] (+) [nn] (+) suffix_k[b]', hyp,
               z3.Implies(z3.And(dt, 0 <= cc, cc < d),
                          ent == z3.If(cc < kk, Block.bpre(B[kk])[ga][cc], z3.If(cc == kk, gn, Block.bsuf(B[kk])[gb][cc - kk - 1]))))
        U.post('every-entry-lies-inside-its-mode', hyp, z3.Implies(z3.And(dt, 0 <= cc, cc < d), z3.And(0 <= ent, ent < narr[cc])))
        # the same read forwards, for an arbitrary block kk (first the instance of the block facts for that block, then the two arithmetic lemmas)
        bk = (Block.brows(B[kk]), Block.blen(B[kk]), kk, d - 1 - kk, narr[kk], L1(kk), L2(kk), Block.bpre(B[kk]), Block.bsuf(B[kk]))
        U.post('block-k: number of rows', hyp + [dk], bk[1] == narr[kk] * L1(kk) * L2(kk))
        for lbl, g in row_layout(*bk):
            U.post('block-k: ' + lbl, hyp + [dk], g)
        forward_form(U, hyp, *bk, extra=[dk], tag='block-k: ')
        # the layout contract that unit svd.svd_incomplete.shapes assumes (its precondition list, with blk[k] = n_k * L1_k)
        blk = lambda k: narr[k] * L1(k)
        U.post('svd_incomplete-layout: idx[0] = 0, idx[d] = number of samples', hyp, z3.And(ix[0] == 0, ix[d] == Z(Rm.shape[0])))
        U.post('svd_incomplete-layout: idx_many >= 1 and blk >= 1', hyp, z3.Implies(dk, z3.And(im[kk] >= 1, blk(kk) >= 1)))
        U.post('svd_incomplete-layout: idx[k+1] - idx[k] = blk[k] * idx_many[k]', [dk, ix[kk + 1] - ix[kk] == narr[kk] * L1(kk) * L2(kk), im[kk] == L2(kk)],
               ix[kk + 1] - ix[kk] == blk(kk) * im[kk], qf=True)           # from the two posts above (pure arithmetic)
        U.post('svd_incomplete-layout: idx is strictly increasing', hyp, z3.Implies(dk, ix[kk] < ix[kk + 1]))
        U.post('svd_incomplete-layout: idx_many[d-1] = 1 and idx_many[0] >= 1', hyp, z3.And(im[d - 1] == 1, im[0] >= 1))
        U.post('svd_incomplete-layout: sample indices are non-negative', hyp, z3.Implies(z3.And(dt, 0 <= cc, cc < d), ent >= 0))
        U.post('arguments-are-not-modified', p, z3.BoolVal(nkind != 'list' or (p.heap[n.oid].arr is narr and p.heap[n.oid].n is d)))
        U.canary('canary-every-block-has-r-rows', hyp, z3.Implies(dk, ix[kk + 1] - ix[kk] == r))


for _nk, _sk in (('list', 'int'), ('array', 'generator'), ('list', 'none')):
    def _mk2(nk=_nk, sk=_sk):
        @unit(f'sample.sample_tt.{nk}.seed_{sk}', props=('C14', 'C20', 'C10'))
        def u(U):
            _sample_tt_unit(U, nk, sk)
    _mk2()


# ----------------------------------------------------------------------------------------------
# sample.sample_lhs, element level: what call_sample_lhs above states entry by entry.  Unit sample.sample_lhs.counts (contracts/sample.py)
# proves the same fact in multiset form ("no value outside [0, n_c) is used in column c"); this unit proves it for the elements of the
# vector that is written to column c: the m // n_c repetitions of arange(n_c) followed by the draw without replacement.
# (rand.shuffle permutes that column in place - the elements stay the same multiset; model-table fact of ttvc/rnd.py.)

@unit('sample.sample_lhs.bounds', props=('C14',))
def u_lhs_bounds(U):
    fn = U.func('sample', 'sample_lhs')
    st = U.state()
    d, m = z3.Ints('d m')
    narr = z3.Const('n', IA)

    def body_end(ex_, s, o, j):
        cols = s.ghost.get('columns', [])
        ok = len(cols) == 1 and isinstance(cols[0][1], VArr) and cols[0][1].tag == 'ivec' and cols[0][1].t is not None
        ex_.oblige(s, 'post', 'each-mode-fills-exactly-one-column-with-one-vector', z3.BoolVal(ok), None, assume=False)
        if not ok:
            return
        col, vec = cols[0]
        ex_.oblige(s, 'post', 'mode-c-fills-column-c-with-m-entries', z3.And(col == j, Z(vec.shape[0]) == m), None, assume=False)
        ex_.oblige(s, 'post', 'every-entry-of-column-c-lies-in-[0, n_c)', z3.Implies(z3.And(0 <= t_, t_ < m), z3.And(0 <= vec.t[t_], vec.t[t_] < narr[j])), None,
                   assume=False)

    def inv(ex_, s, j):
        I = s.vars['I']
        return [('result-shape', z3.And(Z(I.shape[0]) == m, Z(I.shape[1]) == d) if isinstance(I, VArr) and I.ndim == 2 else z3.BoolVal(False))]

    for nm, nv in (('array', X.ivec(d, narr)), ('list', None)):
        ex = U.executor(fn, loops={0: {'inv': inv, 'body_end': body_end}}, lenient=True)
        ex.opt = True
        st = U.state()
        if nv is None:
            nv = st.alloc(VSeq(narr, d, lambda x: x, tag='int'))
        st.vars.update(n=nv, m=m, seed=z3.Int('seed'))
        res = U.run(ex, st, pre=[d >= 1, m >= 1, _sizes(narr, d)])
        U.cover(f'{nm}: precondition-satisfiable', U.pre)
        for p, o in res:
            if o.kind != 'return':
                U.post('no-exception', p, False)
                continue
            I = p.deref(o.value)
            U.post('integer-array-of-shape-(m,d)', p,
                   z3.And(Z(I.shape[0]) == m, Z(I.shape[1]) == d, z3.BoolVal(I.dtype == 'i')) if isinstance(I, VArr) and I.ndim == 2 else False)
        U.canary(f'{nm}: canary-unreachable', U.pre, False)
