"""Sidecar contracts for teneva/sample.py (sample_tt, sample), teneva/optima.py (optima_tt_beam, optima_qtt) and
teneva/optima_func.py (optima_func_tt_beam): C14, C15, C20, C10.  Models: ttvc/mx_opt.py (active for executors with `ex.opt = True`)."""
import z3
from ttvc.units import unit
from ttvc.symex import VOpt, VStr, VRec, VSeq, VArr, VFunc, VTuple, VRef, VList, VSym, VOpaque, NONE, Z
from ttvc import models as M, theory as T, rnd as R
from ttvc import mx_opt as X
from contracts import spec as S
from contracts.transformation import orthL, orthR

IA, IM = X.IA, X.IM
SRow, Block = X.SRow, X.Block
t_, c_, k_, a_, k2_ = z3.Ints('t!s c!s k!s a!s k2!s')


# ==============================================================================================
# sample.sample_tt  (C14 "the structured sample set for incomplete SVD has the advertised block layout", C20 mechanism "block layout
# (start offsets and right-block lengths) shared between generator and consumer", C10)
#
# Two levels.  (1) The nested function one_mode(sh1, sh2, rng) (closure over r, seed) is verified on its own (its three branches are three
# contract cases): it returns rng * L1 * L2 rows; row t carries ghost witnesses (nn, a, b) with
#       t = spos(nn, a, b, L1, L2) = (nn * L1 + a) * L2 + b,  0 <= nn < rng, 0 <= a < L1, 0 <= b < L2      (itertools.product: last factor fastest)
# and equals  P[a] (+) [nn] (+) S[b]  where P = sample_lhs(sh1, r, seed) (L1 = r rows; L1 = 1 and no prefix if sh1 is empty) and
# S = sample_lhs(sh2, r, seed) (L2 = r; L2 = 1 and no suffix if sh2 is empty).  Every sample_lhs call receives the closure's seed object
# itself and m = r, so each Latin-hypercube table is a function of (shape, r, seed) alone and a generator object is the only source of
# randomness (C10; sample_lhs passes the seed through _rand once - its own contract).
# (2) sample_tt(n, r, seed) with one_mode replaced by that contract: I is the concatenation of d blocks, block k occupies the rows
# idx[k] .. idx[k+1]-1, has n_k * L1_k * L2_k rows (L1_k = 1 for k = 0 else r; L2_k = 1 for k = d-1 else r), idx_many[k] = L2_k, and
# row idx[k] + t is as above with prefixes over the modes < k and suffixes over the modes > k; every entry lies inside its mode.
# These are the facts unit svd.svd_incomplete.shapes ASSUMES as the layout contract of sample_tt - each of them is a post here.
# The ghost witnesses give the layout in "decoding" form; the "forward" form (row (nn*L1+a)*L2+b is P[a] (+) [nn] (+) S[b]) follows by
# the uniqueness of the mixed-radix representation (lemma mixed-radix-decoding-is-unique, proved quantifier-free below).
# Not covered: r given as a float (int(r) inside sample_lhs), d = 1, the Latin-hypercube property of P and S (unit sample.sample_lhs.counts)
# beyond "entries inside the modes", distinctness of prefixes / suffixes (needs n_k >= r; C20 quantifier, bounded suite).

def seq_arr_len(st, v):
    """(z3 array Int -> Int, length) of a list of ints / a 1-D integer array."""
    v = st.deref(v)
    if isinstance(v, VSeq) and v.tag == 'int':
        return v.arr, Z(v.n)
    if isinstance(v, VArr) and v.ndim == 1 and v.tag == 'ivec' and v.t is not None and not callable(v.t):
        return v.t, Z(v.shape[0])
    raise M.Unsupported('expected a list / vector of integers')


def call_sample_lhs(ex, st, args, kwargs, node):
    """sample_lhs(n, m, seed) by contract: integer array of shape (m, d) (unit sample.sample_lhs.counts) whose column c has all entries in [0, n_c)
    (unit sample.sample_lhs.bounds below; the multiset form of the same fact is in sample.sample_lhs.counts).  Every call is logged (ghost 'lhs_calls')."""
    if kwargs or len(args) != 3:
        raise M.Unsupported('sample_lhs calling pattern')
    sh, ln = seq_arr_len(st, args[0])
    m = args[1]
    if not M.is_intsort(m):
        raise M.Unsupported('sample_lhs with a non-integer number of samples')
    m = Z(m)
    ex.oblige(st, 'call-pre', 'sample_lhs: at least one mode, m >= 1, mode sizes >= 1',
              z3.And(ln >= 1, m >= 1, z3.ForAll([c_], z3.Implies(z3.And(0 <= c_, c_ < ln), sh[c_] >= 1), patterns=[sh[c_]])), node)
    rows = ex.fresh('lhs', IM)
    st.assume(z3.ForAll([a_, c_], z3.Implies(z3.And(0 <= a_, a_ < m, 0 <= c_, c_ < ln), z3.And(0 <= rows[a_][c_], rows[a_][c_] < sh[c_])),
                        patterns=[rows[a_][c_]]))
    st.ghost['lhs_calls'] = st.ghost.get('lhs_calls', []) + [dict(sh=args[0], m=args[1], seed=args[2], rows=rows)]
    return X.imat(rows, m, ln)


def row_layout(arr, n, len1, len2, rng, L1, L2, P, S_):
    """Layout of a list of rows (z3 array of SRow, length n): the two quantified facts of the contract of one_mode."""
    e = arr[t_]
    gn, ga, gb = SRow.gn(e), SRow.ga(e), SRow.gb(e)
    W = len1 + 1 + len2
    return [('every-row-has-one-index-per-mode-and-a-position-decoding: t = (nn*L1 + a)*L2 + b, last factor fastest',
             z3.ForAll([t_], z3.Implies(z3.And(0 <= t_, t_ < n),
                                        z3.And(SRow.w(e) == W, 0 <= gn, gn < rng, 0 <= ga, ga < L1, 0 <= gb, gb < L2, t_ == X.spos(gn, ga, gb, L1, L2))),
                       patterns=[arr[t_]])),
            ('row-t-is-prefix[a] (+) [nn] (+) suffix[b]',
             z3.ForAll([t_, c_], z3.Implies(z3.And(0 <= t_, t_ < n, 0 <= c_, c_ < W),
                                            SRow.vals(e)[c_] == z3.If(c_ < len1, P[ga][c_], z3.If(c_ == len1, gn, S_[gb][c_ - len1 - 1]))),
                       patterns=[SRow.vals(arr[t_])[c_]]))]


def lens_of_case(len1, len2, r):
    """(len_1, len_2) as one_mode computes them: r rows of a Latin-hypercube table, 1 where there is no table."""
    return z3.If(z3.And(len2 != 0, len1 == 0), 1, r), z3.If(len2 == 0, 1, r)


def one_mode_post(arr, n, sh1, len1, sh2, len2, rng, L1, L2, P, S_):
    return [('number-of-rows-is-rng*len_1*len_2', n == rng * L1 * L2)] + row_layout(arr, n, len1, len2, rng, L1, L2, P, S_) + \
        [('prefix-entries-lie-inside-the-modes-before',
          z3.ForAll([a_, c_], z3.Implies(z3.And(0 <= a_, a_ < L1, 0 <= c_, c_ < len1), z3.And(0 <= P[a_][c_], P[a_][c_] < sh1[c_])), patterns=[P[a_][c_]])),
         ('suffix-entries-lie-inside-the-modes-after',
          z3.ForAll([a_, c_], z3.Implies(z3.And(0 <= a_, a_ < L2, 0 <= c_, c_ < len2), z3.And(0 <= S_[a_][c_], S_[a_][c_] < sh2[c_])), patterns=[S_[a_][c_]]))]


def forward_form(U, p, arr, n, len1, len2, rng, L1, L2, P, S_, extra=(), tag=''):
    """The layout read forwards: the row at position (nn*L1 + a)*L2 + b IS prefix[a] (+) [nn] (+) suffix[b].  From the decoding form by two
    quantifier-free arithmetic lemmas (position in range; uniqueness of the mixed-radix representation), used as instances."""
    nn, a, b, g1, g2, g3, cc = z3.Ints('nn0 a0 b0 g1 g2 g3 cc0')
    rngs = [0 <= nn, nn < rng, 0 <= a, a < L1, 0 <= b, b < L2]
    pos = (nn * L1 + a) * L2 + b
    U.lemma(tag + 'position-(nn*L1+a)*L2+b-lies-below-rng*L1*L2', rngs, z3.And(0 <= pos, pos < rng * L1 * L2), qf=True)
    uniq_h = [0 <= g1, 0 <= g2, g2 < L1, 0 <= g3, g3 < L2, pos == (g1 * L1 + g2) * L2 + g3]
    U.lemma(tag + 'mixed-radix-decoding-is-unique', rngs + uniq_h, z3.And(g1 == nn, g2 == a, g3 == b), qf=True)
    e = arr[pos]
    inst = z3.substitute(z3.Implies(z3.And(rngs + uniq_h), z3.And(g1 == nn, g2 == a, g3 == b)), (g1, SRow.gn(e)), (g2, SRow.ga(e)), (g3, SRow.gb(e)))
    hyp = list(p.pc if hasattr(p, 'pc') else p) + list(extra) + rngs + [z3.And(0 <= pos, pos < rng * L1 * L2), inst, n == rng * L1 * L2,
                                                                        X.spos_def(SRow.gn(e), SRow.ga(e), SRow.gb(e), L1, L2)] + \
        [g for _, g in row_layout(arr, n, len1, len2, rng, L1, L2, P, S_)]
    U.post(tag + 'forward-form: the row at position (nn*L1 + a)*L2 + b is prefix[a] (+) [nn] (+) suffix[b]', hyp,
           z3.Implies(z3.And(0 <= cc, cc < len1 + 1 + len2), SRow.vals(e)[cc] == z3.If(cc < len1, P[a][cc], z3.If(cc == len1, nn, S_[b][cc - len1 - 1]))))


def _sizes(arr, n):
    return z3.ForAll([c_], z3.Implies(z3.And(0 <= c_, c_ < n), arr[c_] >= 1), patterns=[arr[c_]])


def _one_mode_unit(U, case, kind):
    fn = U.func('sample', 'sample_tt.one_mode')
    st = U.state()
    len1, len2, rng, r = z3.Ints('len1 len2 rng r')
    a1, a2 = z3.Const('sh1', IA), z3.Const('sh2', IA)
    if kind == 'list':
        sh1, sh2 = st.alloc(VSeq(a1, len1, lambda x: x, tag='int')), st.alloc(VSeq(a2, len2, lambda x: x, tag='int'))
    else:
        sh1, sh2 = X.ivec(len1, a1), X.ivec(len2, a2)
    seed = z3.Int('seed')
    names = {'last': ('lhs_1', None), 'first': (None, 'lhs_2'), 'middle': ('lhs_1', 'lhs_2')}[case]
    o_ord = {'last': 0, 'first': 2, 'middle': 4}[case]
    unused = z3.Const('unused', IM)

    def ctx(s):
        """(L1, L2, P, S) of the state: the tables that the branch has drawn"""
        out = []
        for nm in names:
            if nm is None:
                out.append((z3.IntVal(1), unused))
                continue
            v = s.vars.get(nm)
            if not (isinstance(v, VArr) and v.tag == 'imat' and getattr(v, 'rows', None) is not None):
                raise M.ContractMismatch(f'one_mode: {nm} is not the table returned by sample_lhs')
            out.append((Z(v.shape[0]), v.rows))
        return out[0][0], out[1][0], out[0][1], out[1][1]

    def res_of(s):
        rs = s.deref(s.vars['res'])
        if not (isinstance(rs, VSeq) and rs.tag == 'srows'):
            raise M.ContractMismatch('one_mode: res is not the list of appended rows')
        return rs

    def inv_outer(ex, s, j):
        L1, L2, P, S_ = ctx(s)
        rs = res_of(s)
        return [('rows-so-far: nn * len_1 * len_2', rs.n == j * L1 * L2)] + row_layout(rs.arr, rs.n, len1, len2, rng, L1, L2, P, S_)

    def inv_inner(ex, s, jj):
        L1, L2, P, S_ = ctx(s)
        rs = res_of(s)
        no = s.ghost[f'_j{o_ord}']
        return [('rows-so-far: nn * len_1 * len_2 + pairs done', rs.n == no * L1 * L2 + jj)] + row_layout(rs.arr, rs.n, len1, len2, rng, L1, L2, P, S_)

    def no_loop(ex, s, j):
        raise M.ContractMismatch('one_mode: a loop of another branch is reached in this contract case')

    loops = {k: {'inv': no_loop} for k in range(6)}
    def inner_end(ex, s, o, jj):
        ex.oblige(s, 'canary', 'canary-inner-loop-body-unreachable', False, None, assume=False)
        # proof hint: the instance of the definition of spos (theory group 'spos') for the row that was just appended
        L1, L2, _, _ = ctx(s)
        rs = res_of(s)
        e = rs.arr[rs.n - 1]
        s.assume(X.spos_def(SRow.gn(e), SRow.ga(e), SRow.gb(e), L1, L2))

    loops[o_ord], loops[o_ord + 1] = {'inv': inv_outer}, {'inv': inv_inner, 'body_end': inner_end}
    ex = U.executor(fn, loops=loops, callees={'sample.sample_lhs': call_sample_lhs}, type_hints={'res': X.srows_kind})
    ex.opt = True
    st.vars.update(sh1=sh1, sh2=sh2, rng=rng, r=r, seed=seed)
    pre = [r >= 1, rng >= 0, len1 >= 0, len2 >= 0, _sizes(a1, len1), _sizes(a2, len2),
           {'last': z3.And(len2 == 0, len1 >= 1), 'first': z3.And(len1 == 0, len2 >= 1), 'middle': z3.And(len1 >= 1, len2 >= 1)}[case]]
    res = U.run(ex, st, pre=pre)
    U.assumed.append('sample.sample_lhs (unit sample.sample_lhs.counts)')
    U.cover('precondition-satisfiable', U.pre)
    nret = 0
    for p, o in res:
        if o.kind != 'return':
            U.post('no-exception', p, False)
            continue
        nret += 1
        ok = isinstance(o.value, VTuple) and len(o.value.items) == 3 and isinstance(p.deref(o.value.items[0]), VSeq) \
            and p.deref(o.value.items[0]).tag == 'srows' and all(M.is_intsort(x) for x in o.value.items[1:])
        U.post('returns-(rows, len_1, len_2)', p, z3.BoolVal(ok))
        if not ok:
            continue
        rs, l1, l2 = p.deref(o.value.items[0]), Z(o.value.items[1]), Z(o.value.items[2])
        L1, L2, P, S_ = ctx(p)
        E1, E2 = lens_of_case(len1, len2, r)
        U.post('len_1-and-len_2-are-the-numbers-of-prefix-and-suffix-rows (r, or 1 where there is no table)', p, z3.And(l1 == E1, l2 == E2, l1 == L1, l2 == L2))
        for lbl, g in one_mode_post(rs.arr, Z(rs.n), a1, len1, a2, len2, rng, E1, E2, P, S_):
            U.post(lbl, p, g)
        forward_form(U, p, rs.arr, Z(rs.n), len1, len2, rng, L1, L2, P, S_)
        calls = p.ghost.get('lhs_calls', [])
        want = [x for x, nm in ((sh1, names[0]), (sh2, names[1])) if nm is not None]
        U.post('one-Latin-hypercube-table-per-side-that-has-modes: sample_lhs(shape of that side, r, seed) with the seed object itself', p,
               z3.BoolVal(len(calls) == len(want) and all(c['sh'] is w and c['m'] is r and c['seed'] is seed for c, w in zip(calls, want))))
        U.canary('canary-all-rows-carry-mode-index-0', p, z3.Implies(z3.And(0 <= t_, t_ < rs.n), SRow.gn(rs.arr[t_]) == 0))
    U.post('a-return-path-exists', U.pre, z3.BoolVal(nret >= 1))


for _case in ('last', 'first', 'middle'):
    for _kind in ('list', 'array'):
        def _mk(case=_case, kind=_kind):
            @unit(f'sample.sample_tt.one_mode.{case}.{kind}', props=('C14', 'C20', 'C10'))
            def u(U):
                _one_mode_unit(U, case, kind)
        _mk()


def call_one_mode(ex, st, args, kwargs, node):
    """one_mode(sh1, sh2, rng) by contract (units sample.sample_tt.one_mode.*); r and seed are read from the enclosing scope at call time."""
    if kwargs or len(args) != 3:
        raise M.Unsupported('one_mode calling pattern')
    a1, len1 = seq_arr_len(st, args[0])
    a2, len2 = seq_arr_len(st, args[1])
    rng, r = args[2], st.vars.get('r')
    if not (M.is_intsort(rng) and M.is_intsort(r)):
        raise M.Unsupported('one_mode: the mode size and the expected rank must be integers in this contract case')
    rng, r = Z(rng), Z(r)
    ex.oblige(st, 'call-pre', 'one_mode: r >= 1, rng >= 0, mode sizes >= 1, at least one other mode',
              z3.And(r >= 1, rng >= 0, len1 >= 0, len2 >= 0, len1 + len2 >= 1, _sizes(a1, len1), _sizes(a2, len2)), node)
    b = ex.fresh('blk', Block)
    E1, E2 = lens_of_case(len1, len2, r)
    L1, L2 = Block.bl1(b), Block.bl2(b)          # the strides are carried by the block value, so that the layout formula keeps one syntactic form
    st.assume(L1 == E1, L2 == E2)
    for lbl, g in one_mode_post(Block.brows(b), Block.blen(b), a1, len1, a2, len2, rng, L1, L2, Block.bpre(b), Block.bsuf(b)):
        st.assume(g)
    st.ghost['one_mode_calls'] = st.ghost.get('one_mode_calls', []) + [dict(seed=st.vars.get('seed'), r=st.vars.get('r'))]
    return VTuple([st.alloc(X.VSRows(Block.brows(b), Block.blen(b), b)), L1, L2])


def block_facts(B, upto, narr, d, r):
    """Layout of the blocks B[0 .. upto-1] of sample_tt: block k belongs to mode k (prefixes over the modes < k, suffixes over the modes > k)."""
    b = B[k_]
    L1, L2 = Block.bl1(b), Block.bl2(b)
    e = Block.brows(b)[t_]
    gn, ga, gb = SRow.gn(e), SRow.ga(e), SRow.gb(e)
    dom = z3.And(0 <= k_, k_ < upto)
    return [('block-k-has-n_k*L1_k*L2_k-rows (L1_0 = 1, L2_(d-1) = 1, else r)',
             z3.ForAll([k_], z3.Implies(dom, z3.And(L1 == z3.If(k_ == 0, 1, r), L2 == z3.If(k_ == d - 1, 1, r), Block.blen(b) == narr[k_] * L1 * L2)), patterns=[B[k_]])),
            ('rows-of-block-k-have-d-entries-and-a-position-decoding: t = (nn*L1 + a)*L2 + b',
             z3.ForAll([k_, t_], z3.Implies(z3.And(dom, 0 <= t_, t_ < Block.blen(b)),
                                            z3.And(SRow.w(e) == d, 0 <= gn, gn < narr[k_], 0 <= ga, ga < L1, 0 <= gb, gb < L2, t_ == X.spos(gn, ga, gb, L1, L2))),
                       patterns=[Block.brows(B[k_])[t_]])),
            ('row-t-of-block-k-is-prefix_k[a] (+) [nn] (+) suffix_k[b] with nn in column k',
             z3.ForAll([k_, t_, c_], z3.Implies(z3.And(dom, 0 <= t_, t_ < Block.blen(b), 0 <= c_, c_ < d),
                                                SRow.vals(e)[c_] == z3.If(c_ < k_, Block.bpre(b)[ga][c_], z3.If(c_ == k_, gn, Block.bsuf(b)[gb][c_ - k_ - 1]))),
                       patterns=[SRow.vals(Block.brows(B[k_])[t_])[c_]])),
            ('prefixes-of-block-k-lie-inside-the-modes-before-k',
             z3.ForAll([k_, a_, c_], z3.Implies(z3.And(dom, 0 <= a_, a_ < L1, 0 <= c_, c_ < k_), z3.And(0 <= Block.bpre(b)[a_][c_], Block.bpre(b)[a_][c_] < narr[c_])),
                       patterns=[Block.bpre(B[k_])[a_][c_]])),
            ('suffixes-of-block-k-lie-inside-the-modes-after-k',
             z3.ForAll([k_, a_, c_], z3.Implies(z3.And(dom, 0 <= a_, a_ < L2, 0 <= c_, c_ < d - 1 - k_),
                                                z3.And(0 <= Block.bsuf(b)[a_][c_], Block.bsuf(b)[a_][c_] < narr[k_ + 1 + c_])),
                       patterns=[Block.bsuf(B[k_])[a_][c_]]))]


def _sample_tt_unit(U, nkind, skind):
    fn = U.func('sample', 'sample_tt')
    st = U.state()
    d, r = z3.Ints('d r')
    narr = z3.Const('n', IA)
    n = st.alloc(VSeq(narr, d, lambda x: x, tag='int')) if nkind == 'list' else X.ivec(d, narr)
    seed = {'int': z3.Int('seed'), 'none': NONE, 'generator': R.VGen('caller')}[skind]

    def parts(s):
        Is, idx, idm = s.deref(s.vars['I']), s.deref(s.vars['idx']), s.deref(s.vars['idx_many'])
        if not (isinstance(Is, VSeq) and Is.tag == 'sblocks' and isinstance(idx, VSeq) and idx.tag == 'int' and isinstance(idm, VSeq) and idm.tag == 'int'):
            raise M.ContractMismatch('sample_tt: I / idx / idx_many are not the lists the contract was written for')
        return Is, idx, idm

    def offsets(idx, B, upto):
        return [('idx-starts-at-0', idx[0] == 0),
                ('idx-advances-by-the-block-length', z3.ForAll([k_, k2_], z3.Implies(z3.And(0 <= k_, k2_ == k_ + 1, k2_ <= upto), idx[k2_] == idx[k_] + Block.blen(B[k_])),
                                                               patterns=[z3.MultiPattern(idx[k_], idx[k2_])]))]

    def inv(ex, s, j):
        Is, idx, idm = parts(s)
        return [('one-block-one-offset-one-stride-per-processed-mode', z3.And(Is.n == j, idx.n == j + 1, idm.n == j))] + offsets(idx.arr, Is.arr, j) + \
            [('idx_many[k]-is-the-number-of-suffix-rows: 1 for the last mode, r otherwise',
              z3.ForAll([k_], z3.Implies(z3.And(0 <= k_, k_ < j), idm.arr[k_] == z3.If(k_ == d - 1, 1, r)), patterns=[idm.arr[k_]]))] + \
            block_facts(Is.arr, j, narr, d, r)

    def body_end(ex_, s, o, j):
        calls = s.ghost.get('one_mode_calls', [])
        ex_.oblige(s, 'canary', 'canary-loop-body-unreachable', False, None, assume=False)
        ex_.oblige(s, 'post', 'each-mode-calls-one_mode-once-and-one_mode-sees-the-caller-s-seed-and-r-unchanged (every Latin-hypercube table is sample_lhs(.., r, seed))',
                   z3.BoolVal(len(calls) == 1 and calls[0]['seed'] is seed and calls[0]['r'] is r), None, assume=False)

    ex = U.executor(fn, loops={6: {'inv': inv, 'body_end': body_end}}, type_hints={'I': X.blocks_kind, 'idx': 'intseq', 'idx_many': 'intseq'})
    ex.opt = True
    ex.local_contracts = {'one_mode': (('sh1', 'sh2', 'rng'), call_one_mode)}
    st.vars.update(n=n, r=r, seed=seed)
    res = U.run(ex, st, pre=[d >= 2, r >= 1, _sizes(narr, d)])
    U.assumed.append('sample.sample_tt.one_mode (units sample.sample_tt.one_mode.*)')
    U.cover('precondition-satisfiable', U.pre)
    for p, o in res:
        if o.kind != 'return':
            U.post('no-exception', p, False)
            continue
        v = o.value
        ok = isinstance(v, VTuple) and len(v.items) == 3 and isinstance(v.items[0], VArr) and v.items[0].tag == 'sstack' \
            and all(isinstance(x, VArr) and x.ndim == 1 and x.tag == 'ivec' for x in v.items[1:])
        U.post('returns-(I, idx, idx_many): the stacked blocks and two integer vectors', p, z3.BoolVal(ok))
        if not ok:
            continue
        Rm, idx, idm = v.items
        B, off = Rm.blocks, Rm.off
        ix, im = idx.t, idm.t
        L1 = lambda k: z3.If(k == 0, 1, r)
        L2 = lambda k: z3.If(k == d - 1, 1, r)
        kk, tt, cc = z3.Ints('kk tt cc')
        U.post('d-blocks-d+1-offsets-d-strides', p, z3.And(Rm.nblk == d, Z(idx.shape[0]) == d + 1, Z(idm.shape[0]) == d))
        U.post('integer-arrays', p, z3.BoolVal(Rm.dtype == 'i' and idx.dtype == 'i' and idm.dtype == 'i'))
        # block k of the stacked array starts at row idx[k]: idx[k] = off[k] for every k (induction over k along the two recurrences)
        U.lemma('block-k-starts-at-row-idx[k].base', p, ix[0] == off[0], kind='lemma-base')
        U.lemma('block-k-starts-at-row-idx[k].step', list(p.pc) + [0 <= kk, kk < d, ix[kk] == off[kk]], ix[kk + 1] == off[kk + 1], kind='lemma-step')
        starts = z3.ForAll([k_], z3.Implies(z3.And(0 <= k_, k_ <= d), ix[k_] == off[k_]), patterns=[ix[k_]])
        hyp = list(p.pc) + [starts]
        U.post('I-has-idx[d]-rows-and-d-columns', hyp, z3.And(Z(Rm.shape[0]) == ix[d], Z(Rm.shape[1]) == d))
        dk = z3.And(0 <= kk, kk < d)
        b1, b2 = Block.bl1(B[kk]), Block.bl2(B[kk])
        U.post('idx[0]=0-and-block-k-has-idx[k+1]-idx[k] = n_k*l1*l2-rows-for-its-strides-l1 = L1_k, l2 = L2_k', hyp,
               z3.And(ix[0] == 0, z3.Implies(dk, z3.And(ix[kk + 1] - ix[kk] == narr[kk] * b1 * b2, b1 == L1(kk), b2 == L2(kk)))))
        U.post('block-k-has-idx[k+1]-idx[k] = n_k*L1_k*L2_k-rows', [dk, ix[kk + 1] - ix[kk] == narr[kk] * b1 * b2, b1 == L1(kk), b2 == L2(kk)],
               ix[kk + 1] - ix[kk] == narr[kk] * L1(kk) * L2(kk), qf=True)
        U.post('idx_many[k]-is-the-stride-L2_k: r, and 1 for the last mode', hyp, z3.Implies(dk, im[kk] == L2(kk)))
        e = Block.brows(B[kk])[tt]
        gn, ga, gb = SRow.gn(e), SRow.ga(e), SRow.gb(e)
        dt = z3.And(dk, 0 <= tt, tt < ix[kk + 1] - ix[kk])
        U.post('row-idx[k]+t-carries-a-decoding (nn, a, b) of its position t', hyp,
               z3.Implies(dt, z3.And(0 <= gn, gn < narr[kk], 0 <= ga, ga < L1(kk), 0 <= gb, gb < L2(kk), tt == X.spos(gn, ga, gb, L1(kk), L2(kk)))))
        U.post('row-idx[k]+t-decodes-as-t = (nn*L1_k + a)*L2_k + b (mode index slowest, suffix fastest)',
               [tt == X.spos(gn, ga, gb, L1(kk), L2(kk)), X.spos_def(gn, ga, gb, L1(kk), L2(kk))], tt == (gn * L1(kk) + ga) * L2(kk) + gb, qf=True)
        ent = X.stack_entry(Rm, kk, tt, cc)
        U.post('row-idx[k]+t-is-prefix_k[a] (+) [nn] (+) suffix_k[b]', hyp,
               z3.Implies(z3.And(dt, 0 <= cc, cc < d),
                          ent == z3.If(cc < kk, Block.bpre(B[kk])[ga][cc], z3.If(cc == kk, gn, Block.bsuf(B[kk])[gb][cc - kk - 1]))))
        U.post('every-entry-lies-inside-its-mode', hyp, z3.Implies(z3.And(dt, 0 <= cc, cc < d), z3.And(0 <= ent, ent < narr[cc])))
        # the same read forwards, for an arbitrary block kk (first the instance of the block facts for that block, then the two arithmetic lemmas)
        bk = (Block.brows(B[kk]), Block.blen(B[kk]), kk, d - 1 - kk, narr[kk], L1(kk), L2(kk), Block.bpre(B[kk]), Block.bsuf(B[kk]))
        U.post('block-k: number of rows', hyp + [dk], bk[1] == narr[kk] * L1(kk) * L2(kk))
        for lbl, g in row_layout(*bk):
            U.post('block-k: ' + lbl, hyp + [dk], g)
        forward_form(U, hyp, *bk, extra=[dk], tag='block-k: ')
        # the layout contract that unit svd.svd_incomplete.shapes assumes (its precondition list, with blk[k] = n_k * L1_k)
        blk = lambda k: narr[k] * L1(k)
        U.post('svd_incomplete-layout: idx[0] = 0, idx[d] = number of samples', hyp, z3.And(ix[0] == 0, ix[d] == Z(Rm.shape[0])))
        U.post('svd_incomplete-layout: idx_many >= 1 and blk >= 1', hyp, z3.Implies(dk, z3.And(im[kk] >= 1, blk(kk) >= 1)))
        U.post('svd_incomplete-layout: idx[k+1] - idx[k] = blk[k] * idx_many[k]', [dk, ix[kk + 1] - ix[kk] == narr[kk] * L1(kk) * L2(kk), im[kk] == L2(kk)],
               ix[kk + 1] - ix[kk] == blk(kk) * im[kk], qf=True)           # from the two posts above (pure arithmetic)
        U.post('svd_incomplete-layout: idx is strictly increasing', hyp, z3.Implies(dk, ix[kk] < ix[kk + 1]))
        U.post('svd_incomplete-layout: idx_many[d-1] = 1 and idx_many[0] >= 1', hyp, z3.And(im[d - 1] == 1, im[0] >= 1))
        U.post('svd_incomplete-layout: sample indices are non-negative', hyp, z3.Implies(z3.And(dt, 0 <= cc, cc < d), ent >= 0))
        U.post('arguments-are-not-modified', p, z3.BoolVal(nkind != 'list' or (p.heap[n.oid].arr is narr and p.heap[n.oid].n is d)))
        U.canary('canary-every-block-has-r-rows', hyp, z3.Implies(dk, ix[kk + 1] - ix[kk] == r))


for _nk, _sk in (('list', 'int'), ('array', 'generator'), ('list', 'none')):
    def _mk2(nk=_nk, sk=_sk):
        @unit(f'sample.sample_tt.{nk}.seed_{sk}', props=('C14', 'C20', 'C10'))
        def u(U):
            _sample_tt_unit(U, nk, sk)
    _mk2()


# ----------------------------------------------------------------------------------------------
# sample.sample_lhs, element level: what call_sample_lhs above states entry by entry.  Unit sample.sample_lhs.counts (contracts/sample.py)
# proves the same fact in multiset form ("no value outside [0, n_c) is used in column c"); this unit proves it for the elements of the
# vector that is written to column c: the m // n_c repetitions of arange(n_c) followed by the draw without replacement.
# (rand.shuffle permutes that column in place - the elements stay the same multiset; model-table fact of ttvc/rnd.py.)

@unit('sample.sample_lhs.bounds', props=('C14',))
def u_lhs_bounds(U):
    fn = U.func('sample', 'sample_lhs')
    st = U.state()
    d, m = z3.Ints('d m')
    narr = z3.Const('n', IA)

    def body_end(ex_, s, o, j):
        cols = s.ghost.get('columns', [])
        ok = len(cols) == 1 and isinstance(cols[0][1], VArr) and cols[0][1].tag == 'ivec' and cols[0][1].t is not None
        if not ok:
            # the contract is keyed to ONE logged column store `I[:, c] = <integer vector>` per mode; a source that prepares the column
            # in another way has not been seen by the store hook: the contract does not talk about this code (undecided)
            raise M.ContractMismatch('sample_lhs: one mode does not fill exactly one column with one integer vector (as seen by the store model)')
        col, vec = cols[0]
        ex_.oblige(s, 'post', 'mode-c-fills-column-c-with-m-entries', z3.And(col == j, Z(vec.shape[0]) == m), None, assume=False)
        ex_.oblige(s, 'post', 'every-entry-of-column-c-lies-in-[0, n_c)', z3.Implies(z3.And(0 <= t_, t_ < m), z3.And(0 <= vec.t[t_], vec.t[t_] < narr[j])), None,
                   assume=False)

    def inv(ex_, s, j):
        I = s.vars['I']
        return [('result-shape', z3.And(Z(I.shape[0]) == m, Z(I.shape[1]) == d) if isinstance(I, VArr) and I.ndim == 2 else z3.BoolVal(False))]

    for nm, nv in (('array', X.ivec(d, narr)), ('list', None)):
        ex = U.executor(fn, loops={0: {'inv': inv, 'body_end': body_end}}, lenient=True)
        ex.opt = True
        st = U.state()
        if nv is None:
            nv = st.alloc(VSeq(narr, d, lambda x: x, tag='int'))
        st.vars.update(n=nv, m=m, seed=z3.Int('seed'))
        res = U.run(ex, st, pre=[d >= 1, m >= 1, _sizes(narr, d)])
        U.cover(f'{nm}: precondition-satisfiable', U.pre)
        for p, o in res:
            if o.kind != 'return':
                U.post('no-exception', p, False)
                continue
            I = p.deref(o.value)
            U.post('integer-array-of-shape-(m,d)', p,
                   z3.And(Z(I.shape[0]) == m, Z(I.shape[1]) == d, z3.BoolVal(I.dtype == 'i')) if isinstance(I, VArr) and I.ndim == 2 else False)
        U.canary(f'{nm}: canary-unreachable', U.pre, False)


# ==============================================================================================
# utils._range, element level (the unit utils._range of contracts/misc.py is shape level): the column 0, 1, .., n-1

@unit('utils._range.elements', props=('C15',))
def u_range_elems(U):
    fn = U.func('utils', '_range')
    ex = U.executor(fn)
    ex.opt = True
    st = U.state()
    n = z3.Int('n')
    st.vars.update(n=n)
    res = U.run(ex, st, pre=[n >= 1])
    U.cover('precondition-satisfiable', U.pre)
    for p, o in res:
        v = p.deref(o.value) if o.kind == 'return' else None
        ok = X.is_imat(v)
        U.post('returns-an-integer-matrix-with-element-level-rows', p, z3.BoolVal(bool(ok)))
        if ok:
            U.post('integer-column-of-shape-(n,1)', p, z3.And(z3.BoolVal(v.dtype == 'i'), Z(v.shape[0]) == n, Z(v.shape[1]) == 1))
            U.post('entry-i-is-i', p, z3.Implies(z3.And(0 <= t_, t_ < n), v.rows[t_][0] == t_))
            U.canary('canary-all-zero', p, z3.Implies(z3.And(0 <= t_, t_ < n), v.rows[t_][0] == 0))


def call_range_elems(ex, st, args, kwargs, node):
    """teneva._range(n) by contract (unit utils._range.elements)"""
    if kwargs or len(args) != 1 or not M.is_intsort(args[0]):
        raise M.Unsupported('_range calling pattern')
    n = Z(args[0])
    ex.oblige(st, 'call-pre', '_range: n >= 1', n >= 1, node)
    rows = ex.fresh('range', IM)
    st.assume(z3.ForAll([t_], z3.Implies(z3.And(0 <= t_, t_ < n), rows[t_][0] == t_), patterns=[rows[t_]]))
    out = X.imat(rows, args[0], 1)
    out.iota = True
    return out


# ==============================================================================================
# optima.optima_tt_beam  (C15: "multi-indices inside the tensor bounds"; mechanism "beam search over partial products of the orthogonalised
# tensor keeping the k rows of largest norm, index table extended by Kronecker products"; why_tests_cant: "a wrong index bookkeeping in the
# beam (Kronecker order of old and new indices) still returns a valid-looking index whose value is simply not the optimum")
#
# Element level, for every well-formed Y (d >= 2), k >= 1, both sweep directions, ret_all in {False, True}, to_orth=True:
#   * after t modes the index table I has t columns and c >= 1 rows (c <= k from the second mode on); row s is a valid multi-index
#     PREFIX (left-to-right: modes 0..t-1) resp. SUFFIX (right-to-left: modes d-t..d-1):  0 <= I[s, col] < n_mode(col);
#   * LAYOUT CONSISTENCY: row s of Q (column s for the right-to-left sweep) is  sc * (product of the slices of the orthogonalised tensor
#     selected by row s of I)  with one common factor sc - i.e. the np.kron / np.hstack assembly of I enumerates (old candidate, new mode
#     index) in the same order as the C-order reshape of the einsum result, and the top-k selection gathers I and Q with the same
#     positions.  (chain / ichain of the theory; the scale factor is carried as a ghost value sc' = 2^p0 * sc.)
#   * the selection keeps min(k, c * n) candidates (distinct positions, all of them row numbers of the extended table);
#   * the result is one multi-index of length d inside the bounds of the tensor the caller passed (ret_all: a (c, d) table, 1 <= c <= k);
#   * to_orth=True: the in-place scalings `Q *= ..` act on a reshape of a core of the list returned by orthogonalize, the argument list
#     is not modified.
# Not covered: WHICH candidates are kept (the norms / argsort values are not interpreted: bounded suite C15), sc > 0, to_orth=False (there
# the first `Q *= ..` writes through a view into the caller's first core - the business of frames / C09), d = 1.

AXB = T.axioms('shape', 'mulI', 'chain', 'ichain', 'smulr', 'qdm')
_Yq = z3.Const('Y!q', T.TT)
_x1, _x2 = z3.Const('ix1!q', T.IDX), z3.Const('ix2!q', T.IDX)
_kq, _cq, _o1, _o2, _lq, _hq = z3.Ints('k!q c!q o1!q o2!q lo!q hi!q')
# agreement lemmas (proved by induction in unit optima.optima_tt_beam.lemmas): the products only depend on the index entries they read
AGREE_L = z3.ForAll([_Yq, _x1, _x2, _kq],
                    z3.Implies(z3.And(_kq >= 0, z3.ForAll([_cq], z3.Implies(z3.And(0 <= _cq, _cq <= _kq), _x1[_cq] == _x2[_cq]))),
                               T.chain(_Yq, _x1, _kq) == T.chain(_Yq, _x2, _kq)),
                    patterns=[z3.MultiPattern(T.chain(_Yq, _x1, _kq), T.chain(_Yq, _x2, _kq))])
AGREE_R = z3.ForAll([_Yq, _x1, _x2, _o1, _o2, _lq, _hq],
                    z3.Implies(z3.And(_lq >= 0, _lq <= _hq, _lq - _o1 >= 0, _lq - _o2 >= 0,
                                      z3.ForAll([_cq], z3.Implies(z3.And(_lq <= _cq, _cq <= _hq), _x1[_cq - _o1] == _x2[_cq - _o2]))),
                               X.ichain(_Yq, _x1, _o1, _lq, _hq) == X.ichain(_Yq, _x2, _o2, _lq, _hq)),
                    patterns=[z3.MultiPattern(X.ichain(_Yq, _x1, _o1, _lq, _hq), X.ichain(_Yq, _x2, _o2, _lq, _hq))])


@unit('optima.optima_tt_beam.lemmas', props=('C15',))
def u_beam_lemmas(U):
    """The two agreement lemmas, for arbitrary tensors and index vectors (constants), by induction over the length of the product."""
    Y, a, b = z3.Const('Y', T.TT), z3.Const('ia', T.IDX), z3.Const('ib', T.IDX)
    k, c, o1, o2, lo, hi = z3.Ints('k c o1 o2 lo hi')
    AX = T.axioms('chain', 'ichain')
    agree = lambda upto: z3.ForAll([c], z3.Implies(z3.And(0 <= c, c <= upto), a[c] == b[c]), patterns=[a[c]])
    U.lemma('left-product-depends-only-on-the-entries-0..k.base', [agree(z3.IntVal(0))], T.chain(Y, a, 0) == T.chain(Y, b, 0), axioms=AX, kind='lemma-base')
    U.lemma('left-product-depends-only-on-the-entries-0..k.step', [k >= 1, agree(k), T.chain(Y, a, k - 1) == T.chain(Y, b, k - 1)],
            T.chain(Y, a, k) == T.chain(Y, b, k), axioms=AX, kind='lemma-step')
    agr = lambda frm: z3.ForAll([c], z3.Implies(z3.And(frm <= c, c <= hi), a[c - o1] == b[c - o2]), patterns=[a[c - o1]])
    dom = [hi - o1 >= 0, hi - o2 >= 0]
    U.lemma('interval-product-depends-only-on-the-entries-it-reads.base', dom + [agr(hi), a[hi - o1] == b[hi - o2]],
            X.ichain(Y, a, o1, hi, hi) == X.ichain(Y, b, o2, hi, hi), axioms=AX, kind='lemma-base')
    U.lemma('interval-product-depends-only-on-the-entries-it-reads.step',
            [lo >= 0, lo < hi, lo - o1 >= 0, lo - o2 >= 0, agr(lo), a[lo - o1] == b[lo - o2], X.ichain(Y, a, o1, lo + 1, hi) == X.ichain(Y, b, o2, lo + 1, hi)],
            X.ichain(Y, a, o1, lo, hi) == X.ichain(Y, b, o2, lo, hi), axioms=AX, kind='lemma-step')
    U.cover('axioms-consistent', [k >= 1], axioms=AX)
    U.canary('canary-products-of-different-lengths-agree', [k >= 1], T.chain(Y, a, k) == T.chain(Y, a, k - 1), axioms=AX)


def _beam_unit(U, l2r, ret_all):
    fn = U.func('optima', 'optima_tt_beam')
    AX = AXB + [AGREE_L if l2r else AGREE_R]
    st = U.state()
    Y, arr, d = S.tt_param(st, 'Y', z3.Int('d'))
    k = z3.Int('k')
    s_, col = z3.Ints('s!b col!b')

    def tables(s):
        I, Q, Zs = s.vars.get('I'), s.vars.get('Q'), s.deref(s.vars.get('Z'))
        if not (X.is_imat(I) and X.is_qvecs(Q) and Q.axis == (0 if l2r else 1) and isinstance(Zs, VSeq) and Zs.tag == 'core'):
            raise M.ContractMismatch('optima_tt_beam: I / Q / Z are not the index table, the candidate matrix and the orthogonalised list')
        return I, Q, Zs

    def mode_of(col_, j):
        """the tensor mode that column col_ of I belongs to after j completed iterations"""
        return col_ if l2r else d - 1 - j + col_

    def product(Zarr, row, j):
        return T.chain(Zarr, row, j) if l2r else X.ichain(Zarr, row, d - 1 - j, d - 1 - j, d - 1)

    def inv(ex, s, j):
        I, Q, Zs = tables(s)
        c = Z(I.shape[0])
        sc = s.ghost.get('sc')
        if sc is None:
            sc = s.ghost['sc'] = T.pow2r(M.to_real(s.vars['p0']))          # before the loop: Q was scaled once
        bond = T.d2(Zs.arr[j]) if l2r else T.d0(Zs.arr[d - 1 - j])
        return [('table-shapes: one row of I and one vector of Q per candidate, one column of I per processed mode',
                 z3.And(c >= 1, Z(I.shape[1]) == j + 1, Z(Q.shape[0 if l2r else 1]) == c, Z(Q.shape[1 if l2r else 0]) == bond)),
                ('at-most-k-candidates-from-the-second-mode-on', z3.Implies(j >= 1, c <= k)),
                ('rows-of-I-are-valid-multi-index-prefixes (suffixes for the right-to-left sweep)',
                 z3.ForAll([s_, col], z3.Implies(z3.And(0 <= s_, s_ < c, 0 <= col, col <= j),
                                                 z3.And(0 <= I.rows[s_][col], I.rows[s_][col] < T.d1(Zs.arr[mode_of(col, j)]))), patterns=[I.rows[s_][col]])),
                ('layout-consistency: vector s of Q is the (scaled) product of the slices selected by row s of I',
                 z3.ForAll([s_], z3.Implies(z3.And(0 <= s_, s_ < c), Q.vecs[s_] == T.smul(sc, product(Zs.arr, I.rows[s_], j))), patterns=[Q.vecs[s_]]))]

    def havoc_hook(ex, h, pre, j):
        c, w, r = ex.fresh_int('c'), ex.fresh_int('w'), ex.fresh_int('r')
        h.assume(c >= 0, w >= 0, r >= 0)
        h.vars['I'] = X.imat(ex.fresh('I', IM), c, w)
        h.vars['Q'] = X.qvecs((c, r) if l2r else (r, c), ex.fresh('Q', X.MatA), 0 if l2r else 1)
        h.ghost['sc'] = ex.fresh_real('sc')

    def body_end(ex, s, o, j):
        if o.kind not in ('normal', 'continue'):
            return
        I, Q, Zs = tables(s)
        ex.oblige(s, 'canary', 'canary-loop-body-unreachable', False, None, assume=False)
        # the statements of one pass, read back from the provenance of the final values: Q = (gathered Q) [* 2^p0], I = gathered I
        src = getattr(Q, 'scaled_from', None) or Q
        gq, gi = getattr(src, 'gathered', None), getattr(I, 'gathered', None)
        if gq is None or gi is None:
            raise M.ContractMismatch('optima_tt_beam: a pass does not end with the gathered tables I[ind, :] and Q[ind, :] / Q[:, ind]')
        ex.oblige(s, 'post', 'I-and-Q-are-gathered-with-the-same-positions', z3.BoolVal(gq[1] is gi[1]), None, assume=False)
        ext = Z(gi[0].shape[0])
        ex.oblige(s, 'post', 'selection-keeps-min(k, number of extended candidates)', Z(I.shape[0]) == z3.If(k < ext, k, ext), None, assume=False)
        if src is not Q:
            s.ghost['sc'] = T.rmul(Q.factor, s.ghost['sc'])
        # the same statement as the layout invariant, read off the decoding maps of the two assemblies (a cheap syntactic cross-check)
        hp, qmap = getattr(gi[0], 'hparts', None), getattr(gq[0], 'qmap', None)
        if hp is not None and qmap is not None and all(getattr(x, 'rowmap', None) is not None for x in hp):
            u = z3.Int('u!b')
            cand = [x.rowmap[0](u) for x in hp if not getattr(x.rowmap[1], 'iota', False)]
            mode = [x.rowmap[0](u) for x in hp if getattr(x.rowmap[1], 'iota', False)]
            ex.oblige(s, 'post', 'np.kron-assembly-of-I-enumerates-(candidate, mode index)-in-the-order-of-the-reshape-of-Q',
                      z3.And(z3.BoolVal(len(cand) == 1 and len(mode) == 1), *([cand[0] == qmap[0](u), mode[0] == qmap[1](u)] if len(cand) == 1 and len(mode) == 1 else [])),
                      None, assume=False)
        if not l2r:
            # proof hint (a definition, no new fact): names the product over the OLD modes along the NEW rows, so that the two-term patterns of
            # the recursion axiom of ichain and of the agreement lemma find it
            aux = ex.fresh('tailprod', X.MatA)
            s.assume(z3.ForAll([s_], aux[s_] == X.ichain(Zs.arr, I.rows[s_], d - 1 - (j + 1), d - 1 - j, d - 1), patterns=[I.rows[s_]]))

    ex = U.executor(fn, loops={0: {'inv': inv, 'havoc_hook': havoc_hook, 'body_end': body_end}}, callees={'utils._range': call_range_elems}, axioms=AX)
    ex.opt, ex.opt_axis, ex.mode = True, (0 if l2r else 1), 'ematch'
    st.vars.update(Y=Y, k=k, l2r=l2r, ret_all=ret_all, to_orth=True, p=NONE)
    res = U.run(ex, st, pre=[T.wf(arr, d), k >= 1])
    U.assumed.extend(['transformation.orthogonalize (unit transformation.orthogonalize.stab)', 'utils._range (unit utils._range.elements)',
                      'agreement lemmas (unit optima.optima_tt_beam.lemmas)'])
    U.cover('precondition-satisfiable', U.pre, axioms=AX)
    for p, o in res:
        if o.kind != 'return':
            U.post('no-exception', p, False, axioms=AX, mode='ematch')
            continue
        v = p.deref(o.value)
        Zs = p.deref(p.vars['Z'])
        U.post('argument-list-is-not-modified', p, z3.BoolVal(p.heap[Y.oid].arr is arr and p.heap[Y.oid].n is d and Zs is not p.heap[Y.oid]))
        zn = p.ghost.get('orth_result')
        U.post('the-sweep-runs-over-the-list-returned-by-orthogonalize (a fresh list, not the argument)', p,
               z3.BoolVal(zn is not None and Zs.arr is zn and not z3.eq(zn, arr)))
        I, Q, _ = tables(p)
        U.post('the-sweep-starts-at-the-pivot-of-the-orthogonalisation: every other core is orthonormal towards it (hypothesis of L-ORTHNORM)', p,
               z3.Implies(z3.And(0 < s_, s_ < d), orthR(Zs.arr[s_])) if l2r else z3.Implies(z3.And(0 <= s_, s_ < d - 1), orthL(Zs.arr[s_])), axioms=AX, mode='ematch')
        if ret_all:
            ok = X.is_imat(v) and v is I
            U.post('returns-the-whole-index-table', p, z3.BoolVal(bool(ok)))
            if not ok:
                continue
            U.post('table-of-shape-(c,d)-with-1<=c<=k', p, z3.And(Z(v.shape[1]) == d, Z(v.shape[0]) >= 1, Z(v.shape[0]) <= k), axioms=AX, mode='ematch')
            ent = v.rows[s_][col]
            dom = z3.And(0 <= s_, s_ < Z(v.shape[0]), 0 <= col, col < d)
        else:
            ok = isinstance(v, VArr) and v.ndim == 1 and v.tag == 'ivec' and getattr(v, 'src', None) is not None and v.src[0] is I.rows
            U.post('returns-one-row-of-the-index-table', p, z3.BoolVal(bool(ok)))
            if not ok:
                continue
            U.post('it-is-the-first-row (best candidate first)', p, v.src[1] == 0)
            U.post('multi-index-of-length-d', p, Z(v.shape[0]) == d, axioms=AX, mode='ematch')
            ent = v.t[col]
            dom = z3.And(0 <= col, col < d)
        U.post('every-index-lies-inside-the-mode-of-the-tensor-that-was-passed', p, z3.Implies(dom, z3.And(0 <= ent, ent < T.d1(arr[col]))), axioms=AX, mode='ematch')
        sc = p.ghost['sc']
        full = T.chain(Zs.arr, I.rows[s_], d - 1) if l2r else X.ichain(Zs.arr, I.rows[s_], 0, 0, d - 1)
        U.post('final-layout-consistency: vector s of Q is sc * (product of ALL slices of the orthogonalised tensor at row s of I)', p,
               z3.Implies(z3.And(0 <= s_, s_ < Z(I.shape[0])), Q.vecs[s_] == T.smul(sc, full)), axioms=AX, mode='ematch')
        U.canary('canary-first-index-is-zero', p, z3.Implies(dom, ent == 0), axioms=AX)


for _l2r in (True, False):
    for _ra in (False, True):
        def _mk3(l2r=_l2r, ra=_ra):
            @unit(f'optima.optima_tt_beam.{"l2r" if l2r else "r2l"}.{"all" if ra else "best"}', props=('C15',))
            def u(U):
                _beam_unit(U, l2r, ra)
        _mk3()


# ==============================================================================================
# optima.optima_tt_max / optima.optima_tt, index level  (C15 "multi-indices inside the tensor bounds together with values that equal the
# tensor entries at those indices").  The units of contracts/optima.py treat indices as abstract objects; here they are integer vectors and
# the beam is used through the contract proved above (a multi-index of length d inside the bounds of the tensor it was given).

from contracts.act import val as tt_val      # noqa: E402   val(Y, i) = chain(Y, i, d-1)[0, 0]  (unit act_one.get)

AXV = T.axioms('shape', 'mulI')


def _tt(st, v, what):
    v = st.deref(v)
    if not (isinstance(v, VSeq) and v.tag == 'core'):
        raise M.Unsupported(f'{what}: expected a TT list')
    return v


def _ivec(st, v, what):
    v = st.deref(v)
    if not (isinstance(v, VArr) and v.ndim == 1 and v.tag == 'ivec' and v.t is not None and not callable(v.t)):
        raise M.Unsupported(f'{what}: expected an integer vector')
    return v


def valid_index(ix, arr, d):
    return z3.ForAll([c_], z3.Implies(z3.And(0 <= c_, c_ < d), z3.And(0 <= ix[c_], ix[c_] < T.d1(arr[c_]))), patterns=[ix[c_]])


def call_get_val(ex, st, args, kwargs, node):
    """teneva.get(Y, i) by contract (unit act_one.get): for a well-formed Y and a multi-index inside its bounds the entry val(Y, i)."""
    if kwargs or len(args) != 2:
        raise M.Unsupported('get calling pattern')
    Ys, i = _tt(st, args[0], 'get'), _ivec(st, args[1], 'get')
    ex.oblige(st, 'call-pre', 'get: well-formed tensor, one index per mode, every index inside its mode',
              z3.And(T.wf(Ys.arr, Ys.n), Z(i.shape[0]) == Ys.n, valid_index(i.t, Ys.arr, Ys.n)), node)
    st.ghost['get_calls'] = st.ghost.get('get_calls', []) + [(Ys, i)]
    return tt_val(Ys.arr, i.t, Ys.n)


def _fresh_index(ex, st, Ys, name):
    ix = ex.fresh(name, IA)
    st.assume(valid_index(ix, Ys.arr, Ys.n))
    out = X.ivec(Ys.n, ix)
    out.index_of = Ys
    return out


def call_beam(ex, st, args, kwargs, node):
    """optima_tt_beam(Y, k, l2r=..) with ret_all=False, to_orth=True (units optima.optima_tt_beam.l2r.best / .r2l.best)."""
    if len(args) != 2 or set(kwargs) - {'l2r'} or not isinstance(kwargs.get('l2r', True), bool) or not M.is_intsort(args[1]):
        raise M.Unsupported('optima_tt_beam calling pattern')
    Ys = _tt(st, args[0], 'optima_tt_beam')
    ex.oblige(st, 'call-pre', 'optima_tt_beam: well-formed tensor and k >= 1', z3.And(T.wf(Ys.arr, Ys.n), Z(args[1]) >= 1), node)
    out = _fresh_index(ex, st, Ys, 'beam')
    st.ghost['beam_calls'] = st.ghost.get('beam_calls', []) + [dict(Y=Ys, k=args[1], l2r=kwargs.get('l2r', True), out=out)]
    return out


@unit('optima.optima_tt_max.bounds', props=('C15',))
def u_tt_max_bounds(U):
    fn = U.func('optima', 'optima_tt_max')
    ex = U.executor(fn, callees={'optima.optima_tt_beam': call_beam, 'act_one.get': call_get_val}, axioms=AXV)
    ex.opt = True
    st = U.state()
    Y, arr, d = S.tt_param(st, 'Y', z3.Int('d'))
    k = z3.Int('k')
    st.vars.update(Y=Y, k=k)
    res = U.run(ex, st, pre=[T.wf(arr, d), k >= 1])
    U.assumed.extend(['optima.optima_tt_beam (units optima.optima_tt_beam.*.best)', 'act_one.get (unit act_one.get)'])
    U.cover('precondition-satisfiable', U.pre, axioms=AXV)
    for p, o in res:
        if o.kind != 'return':
            U.post('no-exception', p, False, axioms=AXV)
            continue
        calls = p.ghost.get('beam_calls', [])
        okc = len(calls) == 2 and all(z3.eq(c['Y'].arr, arr) and c['k'] is k for c in calls) and sorted(c['l2r'] for c in calls) == [False, True]
        U.post('one-sweep-per-direction-over-the-given-tensor-with-the-given-k', p, z3.BoolVal(okc))
        ok = isinstance(o.value, VTuple) and len(o.value.items) == 2 and isinstance(o.value.items[0], VArr) and M.is_num(o.value.items[1])
        U.post('returns-(index, value)', p, z3.BoolVal(ok))
        if not (ok and okc):
            continue
        i, y = o.value.items
        U.post('the-index-is-the-result-of-one-of-the-two-sweeps', p, z3.BoolVal(any(i is c['out'] for c in calls)))
        U.post('multi-index-of-length-d-inside-the-bounds-of-the-tensor', p, z3.And(Z(i.shape[0]) == d, valid_index(i.t, arr, d)), axioms=AXV)
        U.post('reported-value-is-the-entry-at-the-reported-index', p, Z(y) == tt_val(arr, i.t, d), axioms=AXV)
    U.canary('canary-unreachable', U.pre, False, axioms=AXV)


def call_tt_max(ex, st, args, kwargs, node):
    """optima_tt_max(Y, k) by contract (unit optima.optima_tt_max.bounds)"""
    if kwargs or len(args) != 2 or not M.is_intsort(args[1]):
        raise M.Unsupported('optima_tt_max calling pattern')
    Ys = _tt(st, args[0], 'optima_tt_max')
    ex.oblige(st, 'call-pre', 'optima_tt_max: well-formed tensor and k >= 1', z3.And(T.wf(Ys.arr, Ys.n), Z(args[1]) >= 1), node)
    out = _fresh_index(ex, st, Ys, 'imax')
    st.ghost['max_calls'] = st.ghost.get('max_calls', []) + [dict(Y=Ys, k=args[1], out=out)]
    return VTuple([out, tt_val(Ys.arr, out.t, Ys.n)])


def _same_modes(new, old, d):
    return z3.ForAll([c_], z3.Implies(z3.And(0 <= c_, c_ < d), T.d1(new[c_]) == T.d1(old[c_])), patterns=[new[c_]])


def call_const_shape(ex, st, args, kwargs, node):
    """teneva.const(n, v) (unit tensors.const.plain): d = len(n) rank-one cores of the requested mode sizes"""
    if kwargs or len(args) != 2:
        raise M.Unsupported('const calling pattern')
    nv = _ivec(st, args[0], 'const')
    ex.need_num(st, args[1], node)
    d = Z(nv.shape[0])
    ex.oblige(st, 'call-pre', 'const: at least two modes of size >= 1',
              z3.And(d >= 2, z3.ForAll([c_], z3.Implies(z3.And(0 <= c_, c_ < d), nv.t[c_] >= 1), patterns=[nv.t[c_]])), node)
    new = ex.fresh('Const', T.TT)
    st.assume(z3.ForAll([c_], z3.Implies(z3.And(0 <= c_, c_ < d), z3.And(T.d0(new[c_]) == 1, T.d1(new[c_]) == nv.t[c_], T.d2(new[c_]) == 1)), patterns=[new[c_]]))
    return st.alloc(VSeq(new, d, M.mk_core, 'core'))


def _call_binary(name, unitname):
    def h(ex, st, args, kwargs, node):
        if kwargs or len(args) != 2:
            raise M.Unsupported(f'{name} calling pattern')
        A, B = _tt(st, args[0], name), _tt(st, args[1], name)
        ex.oblige(st, 'call-pre', f'{name}: two well-formed tensors of the same shape',
                  z3.And(T.wf(A.arr, A.n), T.wf(B.arr, B.n), A.n == B.n, _same_modes(A.arr, B.arr, A.n)), node)
        new = ex.fresh(name.capitalize(), T.TT)
        st.assume(T.wf(new, A.n), _same_modes(new, A.arr, A.n))
        return st.alloc(VSeq(new, A.n, M.mk_core, 'core'))
    h.__doc__ = f'teneva.{name}(Y1, Y2) for two TT-tensors, shape level (unit {unitname}): a fresh well-formed tensor with the same mode sizes'
    return h


@unit('optima.optima_tt.bounds', props=('C15',))
def u_tt_bounds(U):
    fn = U.func('optima', 'optima_tt')
    ex = U.executor(fn, callees={'optima.optima_tt_max': call_tt_max, 'act_one.get': call_get_val, 'tensors.const': call_const_shape,
                                 'act_two.sub': _call_binary('sub', 'act_two.sub.tt_tt'), 'act_two.mul': _call_binary('mul', 'act_two.mul.tt_tt')}, axioms=AXV)
    ex.opt = True
    st = U.state()
    Y, arr, d = S.tt_param(st, 'Y', z3.Int('d'))
    k = z3.Int('k')
    st.vars.update(Y=Y, k=k)
    res = U.run(ex, st, pre=[T.wf(arr, d), k >= 1])
    U.assumed.extend(['optima.optima_tt_max (unit optima.optima_tt_max.bounds)', 'act_one.get (unit act_one.get)', 'props.shape (unit props.shape)',
                      'tensors.const (unit tensors.const.plain)', 'act_two.sub (unit act_two.sub.tt_tt)', 'act_two.mul (unit act_two.mul.tt_tt)'])
    U.cover('precondition-satisfiable', U.pre, axioms=AXV)
    for p, o in res:
        if o.kind != 'return':
            U.post('no-exception', p, False, axioms=AXV)
            continue
        v = o.value
        ok = isinstance(v, VTuple) and len(v.items) == 4 and all(isinstance(v.items[j], VArr) for j in (0, 2)) and all(M.is_num(v.items[j]) for j in (1, 3))
        U.post('returns-(i_min, y_min, i_max, y_max)', p, z3.BoolVal(ok))
        if not ok:
            continue
        i_min, y_min, i_max, y_max = v.items
        for nm, i, y in (('minimum', i_min, y_min), ('maximum', i_max, y_max)):
            U.post(f'index-of-the-{nm}-has-length-d-and-lies-inside-the-bounds-of-the-tensor', p, z3.And(Z(i.shape[0]) == d, valid_index(i.t, arr, d)), axioms=AXV)
            U.post(f'reported-{nm}-is-the-entry-of-the-given-tensor-at-its-index', p, Z(y) == tt_val(arr, i.t, d), axioms=AXV)
        U.post('reported-minimum-does-not-exceed-reported-maximum', p, Z(y_min) <= Z(y_max), axioms=AXV)
        mc = p.ghost.get('max_calls', [])
        U.post('first-search-on-the-given-tensor-second-on-the-squared-shifted-one-both-with-k', p,
               z3.BoolVal(len(mc) == 2 and z3.eq(mc[0]['Y'].arr, arr) and not z3.eq(mc[1]['Y'].arr, arr) and all(c['k'] is k for c in mc)))
    U.canary('canary-unreachable', U.pre, False, axioms=AXV)


# ==============================================================================================
# optima.optima_qtt  (C15 "the quantised variant agrees after mapping indices back"; here: WHAT is returned, as a relation over the callee
# contracts).  For every well-formed Y with all mode sizes 2^q (q >= 1), k >= 1, e >= 0, r >= 0:
#   * no exception; the conversion is tt_to_qtt(Y, e, r) with the caller's e and r, the search is optima_tt(Z, k) on the converted tensor
#     with the caller's k, both indices come back through ind_qtt_to_tt(., q) with q = int(log2 n) = log2 n;
#   * both returned multi-indices have length d and lie inside the bounds of the ORIGINAL tensor: component c is the binary value of q
#     binary digits, hence in [0, 2^q) (lemma binary-value-of-q-digits-is-below-2^q, induction over the digits);
#   * both reported values are get(Y, index) on the tensor the CALLER passed (not on the QTT approximation): true entries at the
#     reported indices, whatever the truncation accuracy e was;
#   * the reported minimum does not exceed the reported maximum: optima_tt orders the entries of the QTT approximation Z, the values are
#     re-evaluated on Y, and the final swap `if y_min > y_max` restores the order where an inexact conversion flipped it (without that
#     swap - the tree before the C15 repair - the post `reported-minimum-does-not-exceed-reported-maximum` is not provable).
# For every well-formed Y with mode sizes >= 2: ValueError is the only exception; it is raised if the mode sizes differ or the common size is
# not 2^int(log2 n); if the call returns, all mode sizes equal 2^q.
# Not covered: mode size 1 = 2^0 (passes the shape test and then fails inside tt_to_qtt with a reshape error - outside "q >= 1" of the
# conversion contract), WHICH entries are found / agreement with optima_tt on Y (bounded suite C15).

from ttvc import mx_qtt as XQ                # noqa: E402   hval (theory group 'hval')
from contracts.qtt import lemma_log2_of_pow2, log2_int     # noqa: E402

AXQT = T.axioms('shape', 'mulI', 'hval', 'pow2')
hval = XQ.hval
b_ = z3.Int('b!s')


def binary(a, q):
    return z3.ForAll([b_], z3.Implies(z3.And(0 <= b_, b_ < q), z3.And(0 <= a[b_], a[b_] <= 1)), patterns=[a[b_]])


def _qtt_handlers(qterm_of):
    def call_tt_to_qtt(ex, st, args, kwargs, node):
        """tt_to_qtt(Y, e, r) (unit act_one.tt_to_qtt): a fresh well-formed list of d*q cores of mode size 2"""
        if kwargs or len(args) != 3:
            raise M.Unsupported('tt_to_qtt calling pattern')
        Ys = _tt(st, args[0], 'tt_to_qtt')
        q = qterm_of(st)
        e, r = M.to_real(ex.need_num(st, args[1], node)), M.to_real(ex.need_num(st, args[2], node))
        ex.oblige(st, 'call-pre', 'tt_to_qtt: well-formed tensor, q >= 1, e >= 0, r >= 0', z3.And(T.wf(Ys.arr, Ys.n), q >= 1, e >= 0, r >= 0), node)
        ex.oblige(st, 'call-pre', 'tt_to_qtt: all mode sizes are 2^q',
                  z3.ForAll([c_], z3.Implies(z3.And(0 <= c_, c_ < Ys.n), T.d1(Ys.arr[c_]) == T.pow2(q)), patterns=[Ys.arr[c_]]), node)
        new = ex.fresh('Zqtt', T.TT)
        ln = T.mul_canon(Ys.n, q)
        st.assume(T.wf(new, ln), z3.ForAll([c_], z3.Implies(z3.And(0 <= c_, c_ < ln), T.d1(new[c_]) == 2), patterns=[new[c_]]))
        st.ghost['qtt_conv'] = st.ghost.get('qtt_conv', []) + [dict(Y=Ys, e=e, r=r, q=q, d=Ys.n, out=new)]
        return st.alloc(VSeq(new, ln, M.mk_core, 'core'))

    def call_optima_tt(ex, st, args, kwargs, node):
        """optima_tt(Z, k) (units optima.optima_tt, optima.optima_tt.bounds)"""
        if kwargs or len(args) != 2 or not M.is_intsort(args[1]):
            raise M.Unsupported('optima_tt calling pattern')
        Zs = _tt(st, args[0], 'optima_tt')
        ex.oblige(st, 'call-pre', 'optima_tt: well-formed tensor and k >= 1', z3.And(T.wf(Zs.arr, Zs.n), Z(args[1]) >= 1), node)
        i1, i2 = _fresh_index(ex, st, Zs, 'imin'), _fresh_index(ex, st, Zs, 'imax')
        y1, y2 = tt_val(Zs.arr, i1.t, Zs.n), tt_val(Zs.arr, i2.t, Zs.n)
        st.assume(y1 <= y2)
        st.ghost['search'] = st.ghost.get('search', []) + [dict(Z=Zs, k=args[1], out=(i1, i2))]
        return VTuple([i1, y1, i2, y2])

    def call_ind_qtt_to_tt(ex, st, args, kwargs, node):
        """ind_qtt_to_tt(i, q) for one multi-index (unit grid.ind_qtt_to_tt.single): component c is the binary value hval(block c, 0, q) of the
        q digits of block c (here only: SOME q binary digits - the link to the positions q*c + b of the argument is not needed)."""
        if kwargs or len(args) != 2 or not M.is_intsort(args[1]):
            raise M.Unsupported('ind_qtt_to_tt calling pattern')
        i, q = _ivec(st, args[0], 'ind_qtt_to_tt'), Z(args[1])
        conv = st.ghost.get('qtt_conv', [])
        if len(conv) != 1:
            raise M.Unsupported('ind_qtt_to_tt: the dimension of the original tensor is not known at this call')
        d = conv[0]['d']
        ex.oblige(st, 'call-pre', 'ind_qtt_to_tt: q >= 1, d*q binary digits',
                  z3.And(q >= 1, Z(i.shape[0]) == T.mul_canon(d, q),
                         z3.ForAll([c_], z3.Implies(z3.And(0 <= c_, c_ < Z(i.shape[0])), z3.And(0 <= i.t[c_], i.t[c_] <= 1)), patterns=[i.t[c_]])), node)
        out, blk = ex.fresh('itt', IA), ex.fresh('digits', IM)
        st.assume(z3.ForAll([c_], z3.Implies(z3.And(0 <= c_, c_ < d), z3.And(out[c_] == hval(blk[c_], 0, q), binary(blk[c_], q))), patterns=[out[c_]]))
        res = X.ivec(d, out)
        st.ghost['back'] = st.ghost.get('back', []) + [dict(arg=i, q=args[1], out=res)]
        return res

    return {'act_one.tt_to_qtt': call_tt_to_qtt, 'optima.optima_tt': call_optima_tt, 'grid.ind_qtt_to_tt': call_ind_qtt_to_tt, 'act_one.get': call_get_val}


def hval_range_lemma(U, q):
    """0 <= hval(a, 0, q) < 2^q for q binary digits: downward induction over the position (Horner form)."""
    a = z3.Const('a', IA)
    kk = z3.Int('kk')
    AX = T.axioms('hval', 'pow2')
    U.lemma('binary-value-of-q-digits-is-below-2^q.base', [q >= 0, binary(a, q)], z3.And(0 <= hval(a, q, q), hval(a, q, q) <= T.pow2(q - q) - 1), axioms=AX, kind='lemma-base')
    U.lemma('binary-value-of-q-digits-is-below-2^q.step',
            [q >= 0, binary(a, q), 0 <= kk, kk < q, 0 <= hval(a, kk + 1, q), hval(a, kk + 1, q) <= T.pow2(q - (kk + 1)) - 1, T.pow2(q - kk) >= 1],
            z3.And(0 <= hval(a, kk, q), hval(a, kk, q) <= T.pow2(q - kk) - 1), axioms=AX, kind='lemma-step')
    av = z3.Const('a!r', IA)
    return z3.ForAll([av], z3.Implies(z3.And(q >= 0, binary(av, q)), z3.And(0 <= hval(av, 0, q), hval(av, 0, q) < T.pow2(q))), patterns=[hval(av, 0, q)])


def _optima_qtt_unit(U, valid):
    fn = U.func('optima', 'optima_qtt')
    st = U.state()
    Y, arr, d = S.tt_param(st, 'Y', z3.Int('d'))
    k, q0 = z3.Ints('k q')
    e, r = z3.Real('e'), z3.Real('r')

    def qterm_of(s):
        qv = s.vars.get('q')
        if not M.is_intsort(qv):
            raise M.Unsupported('optima_qtt: the local q is not an integer at the conversion')
        return Z(qv)

    def inv(ex, s, j):
        n = s.vars.get('n')
        if not (isinstance(n, VArr) and n.ndim == 1 and n.tag == 'ivec' and n.t is not None):
            raise M.ContractMismatch('optima_qtt: n is not the shape vector inside the validation loop')
        return [('mode-sizes-seen-so-far-equal-the-first', z3.ForAll([c_], z3.Implies(z3.And(1 <= c_, c_ <= j), n.t[c_] == n.t[0]), patterns=[n.t[c_]])),
                ('cores-seen-so-far-have-the-first-mode-size', z3.ForAll([c_], z3.Implies(z3.And(0 <= c_, c_ <= j), T.d1(arr[c_]) == n.t[0]), patterns=[arr[c_]]))]

    qx = z3.Int('qcode')                 # names int(log2 n) in the validation case (a definition in the precondition list)
    rng = hval_range_lemma(U, q0 if valid else qx)
    ex = U.executor(fn, loops={0: {'inv': inv}}, callees=_qtt_handlers(qterm_of), axioms=AXQT + [rng])
    ex.opt = True
    st.vars.update(Y=Y, k=k, e=e, r=r)
    modes = z3.ForAll([c_], z3.Implies(z3.And(0 <= c_, c_ < d), T.d1(arr[c_]) == T.pow2(q0)), patterns=[arr[c_]])
    if valid:
        lem = lemma_log2_of_pow2(U, T.d1(arr[0]), q0)
        pre = [T.wf(arr, d), k >= 1, e >= 0, r >= 0, q0 >= 1, modes, lem]
    else:
        pre = [T.wf(arr, d), k >= 1, e >= 0, r >= 0, z3.ForAll([c_], z3.Implies(z3.And(0 <= c_, c_ < d), T.d1(arr[c_]) >= 2), patterns=[arr[c_]]),
               qx == log2_int(T.d1(arr[0])), qx >= 1]
        # qx >= 1 is the lemma below (n >= 2 gives log2 n >= 1), proved from instances of the axioms of group 'pow2r' (quantifier-free)
        n0 = T.d1(arr[0])
        one = z3.RealVal(1)
        U.lemma('int(log2 n) >= 1 for n >= 2', [n0 >= 2, qx == log2_int(n0), (z3.ToReal(z3.IntVal(1)) <= T.log2(z3.ToReal(n0))) == (T.pow2r(one) <= z3.ToReal(n0)),
                                               T.pow2r(one) == 2 * T.pow2r(z3.RealVal(0)), T.pow2r(z3.RealVal(0)) == 1], qx >= 1, qf=True)
    AX = ex.axioms
    res = U.run(ex, st, pre=pre)
    U.assumed.extend(['props.shape (unit props.shape)', 'act_one.tt_to_qtt (unit act_one.tt_to_qtt)', 'optima.optima_tt (units optima.optima_tt, optima.optima_tt.bounds)',
                      'grid.ind_qtt_to_tt (unit grid.ind_qtt_to_tt.single)', 'act_one.get (unit act_one.get)'])
    U.cover('precondition-satisfiable', U.pre, axioms=AX)
    nret = 0
    for p, o in res:
        if o.kind == 'raise':
            U.raise_iff('only-ValueError-is-raised', p, o.exc == 'ValueError')
            if valid:
                U.raise_iff('no-exception-for-power-of-two-shapes', p, False, axioms=AX)
            else:
                U.raise_iff('raised-only-if-the-mode-sizes-differ-or-the-common-size-is-not-2^int(log2 n)', p,
                            z3.Not(z3.And(z3.ForAll([c_], z3.Implies(z3.And(0 <= c_, c_ < d), T.d1(arr[c_]) == T.d1(arr[0])), patterns=[arr[c_]]),
                                          T.d1(arr[0]) == T.pow2(qx))), axioms=AX)
            continue
        nret += 1
        v = o.value
        ok = isinstance(v, VTuple) and len(v.items) == 4 and all(isinstance(v.items[j], VArr) and v.items[j].ndim == 1 for j in (0, 2)) \
            and all(M.is_num(v.items[j]) for j in (1, 3))
        U.post('returns-(i_min, y_min, i_max, y_max)', p, z3.BoolVal(ok))
        if not ok:
            continue
        i_min, y_min, i_max, y_max = v.items
        conv, search, back, gets = p.ghost.get('qtt_conv', []), p.ghost.get('search', []), p.ghost.get('back', []), p.ghost.get('get_calls', [])
        qv = Z(p.vars['q'])
        U.post('a-return-means: all mode sizes equal 2^q with q = int(log2 n)', p,
               z3.Implies(z3.And(0 <= c_, c_ < d), T.d1(arr[c_]) == T.pow2(qv)), axioms=AX)
        okc = len(conv) == 1 and len(search) == 1 and len(back) == 2 and len(gets) == 2
        if okc:           # the documented pipeline (otherwise only the statements about the returned values below are checked)
            U.post('conversion-of-the-given-tensor-with-the-caller-s-accuracy-and-rank-cap', p,
                   z3.And(z3.BoolVal(z3.eq(conv[0]['Y'].arr, arr)), conv[0]['e'] == e, conv[0]['r'] == r))
            U.post('search-on-the-converted-tensor-with-the-caller-s-k', p, z3.BoolVal(z3.eq(search[0]['Z'].arr, conv[0]['out']) and search[0]['k'] is k))
            outs = (back[0]['out'], back[1]['out'])
            U.post('both-found-indices-are-mapped-back-with-q = int(log2 n), and these two are what is returned (in either order)', p,
                   z3.And(z3.BoolVal(back[0]['arg'] is search[0]['out'][0] and back[1]['arg'] is search[0]['out'][1]
                                     and ((i_min is outs[0] and i_max is outs[1]) or (i_min is outs[1] and i_max is outs[0]))),
                          Z(back[0]['q']) == qv, Z(back[1]['q']) == qv))
            U.post('the-two-evaluations-are-get(Y, .) on the tensor the caller passed, at the two mapped-back indices', p,
                   z3.BoolVal(all(z3.eq(g[0].arr, arr) for g in gets) and gets[0][1] is outs[0] and gets[1][1] is outs[1]))
            U.canary('canary-the-reported-values-are-those-of-the-QTT-approximation', p,
                     Z(y_min) == tt_val(search[0]['Z'].arr, search[0]['out'][0].t, search[0]['Z'].n), axioms=AX)
        for nm, i, y in (('minimum', i_min, y_min), ('maximum', i_max, y_max)):
            U.post(f'index-of-the-{nm}-has-length-d-and-lies-inside-the-bounds-of-the-ORIGINAL-tensor', p,
                   z3.And(Z(i.shape[0]) == d, z3.Implies(z3.And(0 <= c_, c_ < d), z3.And(0 <= i.t[c_], i.t[c_] < T.d1(arr[c_])))), axioms=AX)
            U.post(f'reported-{nm}-is-the-entry-of-the-tensor-the-caller-passed-at-the-returned-index', p, Z(y) == tt_val(arr, i.t, d), axioms=AX)
        U.post('reported-minimum-does-not-exceed-reported-maximum', p, Z(y_min) <= Z(y_max), axioms=AX)
    if valid:
        U.post('a-return-path-exists', U.pre, z3.BoolVal(nret >= 1))
    else:
        U.post('validation-can-fail-and-can-pass', U.pre, z3.BoolVal(nret >= 1 and any(o.kind == 'raise' for _, o in res)))


@unit('optima.optima_qtt.power_of_two', props=('C15',))
def u_qtt_ok(U):
    _optima_qtt_unit(U, True)


@unit('optima.optima_qtt.validation', props=('C15',))
def u_qtt_any(U):
    _optima_qtt_unit(U, False)


# ==============================================================================================
# sample.sample  (C14 "right-to-left marginal vectors, then mode-by-mode conditional draws with the left partial product carried along";
# "all samplers return integer arrays of the requested shape inside the tensor bounds"; C10)
#
# Control / shape tier.  For every well-formed Y (d >= 2), m >= 1 (int), seed int / None / Generator, any unsert:
#   * _rand is called once, with the seed object; EVERY draw comes from the generator it returns (never the global one);
#   * right-to-left pass: phi[d] = [1], phi[i] = (sum over the mode of Y[i]) @ phi[i+1] is a vector of length r_i (i = d-1 .. 1): the
#     marginal vectors of the modes >= i; every product has matching dimensions;
#   * mode 0: ONE draw choice(n_0, m, p=p) with p = max(Y[0] @ phi[1] + unsert, 0) / sum (a vector of length n_0: what the code
#     normalises is the clipped, unsert-shifted marginal of mode 0);  phi[0] = the slices Y[0][0, ind, :]  (m x r_1);
#   * mode i >= 1: the (m, n_i) matrix einsum('ma,aib,b->mi', phi[i-1], Y[i], phi[i+1]) (left partial product at the drawn prefix x core x
#     right marginal), clipped at 0; per row ONE draw choice(n_i, p=row / row.sum()) - m draws in row order; the drawn indices go to
#     column i of the result and select the slices that extend the left partial products phi[i] (m x r_(i+1));
#   * the result is the integer array of shape (m, d); every entry of column i is a drawn index in [0, n_i); no index / shape error.
# Not covered: that the probability vectors are valid (non-negative with a positive sum - needs a non-negative tensor; a zero sum makes
# Generator.choice raise), the VALUES of the marginals / conditionals (the chain of conditionals multiplies to the entry: bounded suite C14
# with the auditing generator), float m.

def _sample_unit(U, skind):
    from contracts.misc import logging_rand
    fn = U.func('sample', 'sample')
    AX = T.axioms('shape', 'mulI')
    st = U.state()
    Y, arr, d = S.tt_param(st, 'Y', z3.Int('d'))
    m = z3.Int('m')
    seed = {'int': z3.Int('seed'), 'none': NONE, 'generator': R.VGen('caller')}[skind]
    PhiE = X.PhiE
    tq = z3.Int('t!p')

    def phi_of(s):
        ph = s.deref(s.vars['phi'])
        if not (isinstance(ph, VSeq) and ph.tag == 'phi'):
            raise M.ContractMismatch('sample: phi is not the list of interface arrays')
        return ph

    def right_vectors(ph, lo):
        """phi[t] for lo <= t <= d are the marginal vectors: length r_t (1 for t = d)"""
        e = ph.arr[tq]
        return z3.ForAll([tq], z3.Implies(z3.And(lo <= tq, tq <= d), z3.And(PhiE.kind(e) == 1, PhiE.n0(e) == z3.If(tq == d, 1, T.d0(arr[tq])))), patterns=[ph.arr[tq]])

    def inv0(ex, s, j):
        ph = phi_of(s)
        return [('phi-has-d+1-entries', ph.n == d + 1), ('marginal-vectors-of-the-modes-done-have-the-length-of-the-left-rank', right_vectors(ph, d - j))]

    def inv1(ex, s, j):
        ph = phi_of(s)
        res = s.vars.get('res')
        if not (isinstance(res, VArr) and res.ndim == 2):
            raise M.ContractMismatch('sample: res is not the result matrix')
        e = ph.arr[tq]
        return [('phi-has-d+1-entries', ph.n == d + 1), ('marginal-vectors-of-the-modes-still-to-draw', right_vectors(ph, j + 1)),
                ('left-partial-products-of-the-modes-drawn: m rows of the width of the right rank',
                 z3.ForAll([tq], z3.Implies(z3.And(0 <= tq, tq <= j), z3.And(PhiE.kind(e) == 2, PhiE.n0(e) == m, PhiE.n1(e) == T.d2(arr[tq]))), patterns=[ph.arr[tq]])),
                ('result-keeps-shape-(m,d)', z3.And(Z(res.shape[0]) == m, Z(res.shape[1]) == d, z3.BoolVal(res.dtype == 'i')))]

    def reset_log(ex, h, pre, j):
        h.ghost['pre_log'], h.ghost['pre_cols'] = pre.ghost.get('drawlog', []), pre.ghost.get('columns', [])
        h.ghost['ndraw'], h.ghost['drawlog'], h.ghost['columns'] = ex.fresh_int('ndraw'), [], []
        h.ghost['phi_head'] = phi_of(h).arr
        old = pre.vars.get('res')
        if isinstance(old, VArr) and old.ndim == 2:          # column stores do not rebind res: same kind of array, any shape (the invariant fixes it)
            a, b = ex.fresh_int('rows'), ex.fresh_int('cols')
            h.assume(a >= 0, b >= 0)
            h.vars['res'] = VArr((a, b), None, None, old.dtype)

    def end1(ex, s, o, j):
        log, cols = s.ghost.get('drawlog', []), s.ghost.get('columns', [])
        g = s.vars.get('rand')
        ok = len(log) == 1 and log[0]['gen'] is g and log[0]['method'] == 'choice' and 'family' in log[0] and log[0]['params'][1] is True
        ex.oblige(s, 'post', 'every-mode-takes-exactly-one-family-of-conditional-draws-choice(n, p=row/row.sum())-from-the-seeded-generator', z3.BoolVal(ok), None, assume=False)
        if ok:
            clip = getattr(log[0]['rows_of'], 'clipped', None)
            cond = getattr(clip[0], 'cond_of', None) if clip is not None and clip[1] == 0 else None
            ex.oblige(s, 'post', 'one-draw-per-sample-over-the-indices-of-the-current-mode', z3.And(log[0]['family'] == m, log[0]['params'][0] == T.d1(arr[j + 1])), None,
                      assume=False)
            head = s.ghost['phi_head']
            ex.oblige(s, 'post', 'the-conditionals-are-the-rows-of-einsum(left partial product, core, right marginal)-clipped-at-0',
                      z3.And(cond[0].t == head[j], z3.BoolVal(cond[1].tag == 'core' and cond[1].t is not None), cond[1].t == arr[j + 1], cond[2].t == head[j + 2])
                      if cond is not None and getattr(cond[1], 't', None) is not None else z3.BoolVal(False), None, assume=False)
        ex.oblige(s, 'canary', 'canary-loop-body-unreachable', False, None, assume=False)
        gs = s.ghost.get('gathers', [])
        okg = ok and len(gs) == 1 and gs[0][0].tag == 'core' and gs[0][0].t is not None and getattr(gs[0][1], 't', None) is log[0]['out']
        ex.oblige(s, 'post', 'the-left-partial-products-are-extended-by-the-slices-of-the-current-core-at-the-indices-just-drawn',
                  z3.And(z3.BoolVal(True), gs[0][0].t == arr[j + 1]) if okg else z3.BoolVal(False), None, assume=False)
        okc = len(cols) == 1 and isinstance(cols[0][1], VArr) and cols[0][1].tag == 'ivec' and ok and cols[0][1].t is log[0]['out']
        ex.oblige(s, 'post', 'the-drawn-indices-are-written-to-one-column-of-the-result', z3.BoolVal(bool(okc)), None, assume=False)
        if okc:
            ex.oblige(s, 'post', 'it-is-the-column-of-the-current-mode', cols[0][0] == j + 1, None, assume=False)

    ex = U.executor(fn, loops={0: {'inv': inv0}, 1: {'inv': inv1, 'havoc_hook': reset_log, 'body_end': end1}}, axioms=AX, callees={'utils._rand': logging_rand})
    ex.opt = ex.opt_phi = ex.np_scalar_div = ex.misc_shapes = True
    ex.mode = 'ematch'
    st.vars.update(Y=Y, m=m, seed=seed, unsert=z3.Real('unsert'))
    res = U.run(ex, st, pre=[T.wf(arr, d), m >= 1])
    U.assumed.append('utils._rand (unit utils._rand)')
    U.cover('precondition-satisfiable', U.pre, axioms=AX)
    for p, o in res:
        if o.kind != 'return':
            U.post('no-exception', p, False, axioms=AX, mode='ematch')
            continue
        rcalls = p.ghost.get('randcalls', [])
        U.post('seed-goes-through-_rand-exactly-once', p, z3.BoolVal(len(rcalls) == 1 and rcalls[0][0] is seed))
        if len(rcalls) != 1:
            continue
        g = rcalls[0][1]
        if skind == 'generator':
            U.post('a-generator-object-is-used-as-it-is', p, z3.BoolVal(g is seed))
        U.post('the-conditional-draws-use-the-generator-returned-by-_rand', p, z3.BoolVal(p.vars.get('rand') is g))
        log0, cols0 = p.ghost.get('pre_log', []), p.ghost.get('pre_cols', [])
        ok0 = len(log0) == 1 and log0[0]['gen'] is g and log0[0]['method'] == 'choice' and log0[0]['params'][1] is True and len(log0[0]['shape']) == 1
        U.post('mode-0-takes-one-draw-choice(n_0, m, p=..)-from-that-generator', p, z3.BoolVal(ok0))
        if ok0:
            U.post('it-draws-m-indices-of-mode-0', p, z3.And(log0[0]['params'][0] == T.d1(arr[0]), Z(log0[0]['shape'][0]) == m), axioms=AX, mode='ematch')
            okc = len(cols0) == 1 and isinstance(cols0[0][1], VArr) and cols0[0][1].t is log0[0]['out']
            U.post('and-writes-them-to-column-0', p, z3.And(z3.BoolVal(bool(okc)), cols0[0][0] == 0) if okc else False)
        v = p.deref(o.value)
        ok = isinstance(v, VArr) and v.ndim == 2
        U.post('returns-a-matrix', p, z3.BoolVal(ok))
        if ok:
            U.post('integer-array-of-shape-(m,d)', p, z3.And(z3.BoolVal(v.dtype == 'i'), Z(v.shape[0]) == m, Z(v.shape[1]) == d), axioms=AX, mode='ematch')
            U.canary('canary-no-samples', p, Z(v.shape[0]) == 0, axioms=AX)
        U.post('argument-list-is-not-modified', p, z3.BoolVal(p.heap[Y.oid].arr is arr and p.heap[Y.oid].n is d))


for _sk in ('int', 'none', 'generator'):
    def _mk4(sk=_sk):
        @unit(f'sample.sample.seed_{sk}', props=('C14', 'C10'))
        def u(U):
            _sample_unit(U, sk)
    _mk4()


# ==============================================================================================
# Hand-made mutants (MUT_BASE=/tmp/base tools/mut.sh <file> '<sed>' <unit>) and the NAMED obligation that reports each.
# "undecided" = Unsupported / ContractMismatch (exit 2): listed where a restructured-but-equivalent variant leaves the modelled subset.
#
# sample.py / sample.sample_tt.one_mode.*  and  sample.sample_tt.*
#   s/itertools.product(lhs_1, lhs_2)/itertools.product(lhs_2, lhs_1)/        one_mode.middle: inv-keep.loop5.row-t-is-prefix[a] (+) [nn] (+) suffix[b]   (failed)
#   s/np.concatenate(\[i, \[n\], j\])/np.concatenate([j, [n], i])/              one_mode.middle: inv-keep.loop5.every-row-has-..-position-decoding, ..row-t-is-prefix.. (failed)
#   s/np.concatenate(\[i, \[n\], j\])/np.concatenate([i, [n+1], j])/            one_mode.middle: inv-keep.loop5.every-row-has-..-position-decoding (failed)
#   s/lhs_2 = sample_lhs(sh2, r, seed)/lhs_2 = sample_lhs(sh2, r, None)/      one_mode.first / .middle: post.one-Latin-hypercube-table-per-side-..-with-the-seed-object-itself (refuted / failed)
#   s/idx_many.append(len_2)/idx_many.append(len_1)/                          sample_tt: inv-keep.loop6.idx_many[k]-is-the-number-of-suffix-rows (failed)
#   s/idx.append(idx\[-1\] + len(pnts))/idx.append(len(pnts))/                sample_tt: inv-keep.loop6.idx-advances-by-the-block-length (failed)
#   s/one_mode(n\[:i\], n\[i+1:\], n\[i\])/one_mode(n[:i], n[i:], n[i])/      sample_tt: inv-keep.loop6.idx_many[k].., block-k-has-n_k*L1_k*L2_k-rows, suffixes-of-block-k-.. (failed)
#   quiet (equivalent): len_1, len_2 = len(lhs_2), len(lhs_1)  (both tables have r rows)
#   undecided: np.concatenate(I) for np.vstack(I); sample_lhs(sh1, r, seed=seed); nested for loops instead of itertools.product (loop ordinals)
# sample.py / sample.sample_lhs.bounds
#   s/np.repeat(np.arange(k), m \/\/ k)/np.repeat(np.arange(k+1), m \/\/ k)/   post.every-entry-of-column-c-lies-in-[0, n_c), call-pre.choice-without-replacement-.. (failed)
#   s/rand.choice(k, m-len(I1), replace=False)/rand.choice(k+1, .../          post.every-entry-of-column-c-lies-in-[0, n_c) (failed)
#   s/np.concatenate(\[I1, I2\])/np.concatenate([I1, I1])/                     call-pre.column-assignment-length-matches (failed)
# optima.py / optima.optima_tt_beam.{l2r,r2l}.{best,all}
#   s/I_l = np.kron(I, teneva._ones(n))/I_l = np.kron(teneva._ones(n), I)/    l2r: post.np.kron-assembly-of-I-enumerates-(candidate, mode index)-in-the-order-of-the-reshape-of-Q (failed);
#                                                                             inv-keep.loop0.layout-consistency times out (undecided)
#   s/I_r = np.kron(teneva._ones(n), I)/I_r = np.kron(I, teneva._ones(n))/    r2l: the same post (failed)
#   s/I_r = np.kron(teneva._ones(I.shape\[0\]), teneva._range(n))/..kron(teneva._range(n), teneva._ones(I.shape[0]))/   l2r: the same post (failed)
#   s/np.hstack((I_l, I_r))/np.hstack((I_r, I_l))/                            l2r: inv-keep.loop0.rows-of-I-are-valid-multi-index-prefixes (failed); r2l: undecided (timeout)
#   s/(k+1):-1\]/(k+1+1):-1]/                                                 post.selection-keeps-min(k, ..), inv-keep.loop0.at-most-k-candidates-from-the-second-mode-on (failed)
#   s/0 if l2r else len(Y)-1, use_stab/len(Y)-1 if l2r else 0, use_stab/      post.the-sweep-starts-at-the-pivot-of-the-orthogonalisation.. (failed, both directions)
#   s/return I if ret_all else I\[0\]/.. else I[-1]/                          post.it-is-the-first-row (best candidate first) (failed)
#   s/axis=1 if l2r else 0/axis=0 if l2r else 1/                              call-pre.selected-positions-are-row-numbers-of-the-index-table (failed)
#   s/G = Z\[0 if l2r else -1\]/G = Z[-1 if l2r else 0]/                      call-pre.first-core-reshape: r1 = 1 .., inv-init.loop0.* (failed)
#   undecided: np.concatenate((I_l, I_r), axis=1); Q.reshape(Q.shape[0]*n, r2); I[ind[::-1], :]
# optima.py / optima.optima_qtt.power_of_two
#   delete the final `if y_min > y_max: swap`  (the tree before the C15 repair)  post.reported-minimum-does-not-exceed-reported-maximum (failed)
#   swap replaced by i_min, y_min, i_max, y_max = i_min, y_max, i_max, y_min     post.reported-minimum/maximum-is-the-entry-of-the-tensor-the-caller-passed-.. (failed)
#   s/y_min = teneva.get(Y, i_min)/y_min = teneva.get(Z, i_min)/              call-pre.get: .. every index inside its mode, post.reported-*-is-the-entry-of-the-tensor-the-caller-passed (failed)
#   s/y_max = teneva.get(Y, i_max)/y_max = y_max/                             post.reported-maximum-is-the-entry-of-the-tensor-the-caller-passed-at-the-returned-index (failed)
#   s/ind_qtt_to_tt(i_max, q)/ind_qtt_to_tt(i_min, q)/                        post.both-found-indices-are-mapped-back-.. (failed)
#   s/tt_to_qtt(Y, e, r)/tt_to_qtt(Y, r, e)/                                  post.conversion-of-the-given-tensor-with-the-caller-s-accuracy-and-rank-cap (failed)
#   s/= optima_tt(Z, k)/= optima_tt(Z, q)/                                    post.search-on-the-converted-tensor-with-the-caller-s-k (failed)
#   s/q = int(np.log2(n))/q = int(np.log2(n)) + 1/                            raise-iff.no-exception-for-power-of-two-shapes (failed), post.a-return-path-exists (refuted)
#   undecided: get(Y, i_min, _to_item=True)
# sample.py / sample.sample.seed_*
#   s/range(d-1, 0, -1)/range(d-1, 1, -1)/                                    call-pre.matmul: right operand is a vector of length r2 (failed)
#   s/np.sum(Y\[i\], axis=1) @ phi\[i+1\]/np.sum(Y[i-1], axis=1) @ phi[i+1]/   call-pre.matmul: right operand is a vector of length cols(A), inv-keep.loop0.marginal-vectors-.. (failed)
#   s/rand.choice(c.shape\[1\], p=/rand.choice(c.shape[0], p=/                 call-pre.choice-probabilities-have-the-length-of-the-population (failed)
#   s/res\[:, i\] = ind/res[:, i-1] = ind/  (inside sample)                   post.it-is-the-column-of-the-current-mode (failed)
#   einsum('ma,aib,b->mi', phi[i-1], Y[i], phi[i+1]) -> .., phi[i])           call-pre.einsum: right operand is a vector of length r2, post.the-conditionals-are-the-rows-of-einsum(..) (failed)
#   s/enumerate(Y\[1:\], start=1)/enumerate(Y[1:], start=0)/                  call-pre.einsum: left operand .., post.it-is-the-column-of-the-current-mode, inv-keep.loop1.left-partial-products-.. (failed)
#   c[:, ind] -> c[:, res[:, 0]]                                              post.the-left-partial-products-are-extended-by-the-slices-of-the-current-core-at-the-indices-just-drawn (failed)
#   rand = teneva._rand(seed) -> teneva._rand()   (inside sample)             post.seed-goes-through-_rand-exactly-once (failed)
#   undecided: np.random.choice(..) (not in the model table; frames / C10 reports it); p.ravel() for p.flatten()
