"""Sidecar contracts for the three one-line helpers of teneva/utils.py that every other unit uses THROUGH THE MODEL TABLE
(`teneva._reshape`, `teneva._ones`, `teneva._is_num`).  The model-table entries of these names are contracts that the other units
assume at each call; the units below discharge them against the helpers' own source, so that a change of the helper (default order
of `_reshape`, dtype / shape of `_ones`, the set of types accepted by `_is_num`) fails a named obligation instead of being invisible
to the deductive tier.  The bodies are executed with the NumPy-level models (`np.reshape`, `np.ones`, `isinstance`); what is compared
is the helper's result with the term the model-table entry of the helper hands to its callers.

Not covered: the NumPy functions themselves (assumption A-NP); reshape patterns other than the four unfoldings / foldings the library
uses (for them the engine raises Unsupported in the callers as well)."""
import z3
from ttvc.units import unit
from ttvc.symex import VStr, VTuple, VArr, VOpaque, NONE, Z, Unsupported
from ttvc import models as M, theory as T

_PROPS = ('C02', 'C03', 'C04', 'C05', 'C08', 'C17', 'C20')


def _value(o):
    return o.value


def _reshape_cases():
    r1, n, r2 = z3.Ints('r1 n r2')
    g = z3.Const('G', T.Core)
    a = z3.Const('A', T.Mat)
    return (r1, n, r2, g, a), {
        # label: (argument, target shape, expected tag, expected term, facts about the argument)
        'core_to_left_unfolding': (lambda: M.mk_core(g), VTuple([T.mul_canon(r1, n), r2]), 'mat', lambda: T.unfL(g),
                                   [T.d0(g) == r1, T.d1(g) == n, T.d2(g) == r2]),
        'core_to_right_unfolding': (lambda: M.mk_core(g), VTuple([r1, T.mul_canon(n, r2)]), 'mat', lambda: T.unfR(g),
                                    [T.d0(g) == r1, T.d1(g) == n, T.d2(g) == r2]),
        'matrix_to_core_rows_split': (lambda: M.mk_mat(a), VTuple([r1, n, -1]), 'core', lambda: T.foldL(a, r1, n),
                                      [T.rows(a) == T.mul_canon(r1, n), T.cols(a) == r2]),
        'matrix_to_core_columns_split': (lambda: M.mk_mat(a), VTuple([-1, n, r2]), 'core', lambda: T.foldR(a, n, r2),
                                         [T.rows(a) == r1, T.cols(a) == T.mul_canon(n, r2)]),
    }


def _reshape_unit(case):
    def u(U):
        fn = U.func('utils', '_reshape')
        ax = T.axioms('mulI')
        (r1, n, r2, g, a), cases = _reshape_cases()
        arg, shp, tag, term, facts = cases[case]
        pre = [r1 >= 1, n >= 1, r2 >= 1]
        ex = U.executor(fn, axioms=ax)
        st = U.state()
        st.vars.update(A=arg(), n=shp)
        if 'order' in fn.defaults:
            st.vars['order'] = ex.ev(fn.defaults['order'], st)  # the default expression of the CURRENT signature
        res = U.run(ex, st, pre=pre + facts)
        n_ret = 0
        for p, o in res:
            if o.kind != 'return':
                U.post('no-exception', p, z3.BoolVal(False))
                continue
            n_ret += 1
            v = p.deref(o.value) if hasattr(p, 'deref') else o.value
            if not isinstance(v, VArr) or v.t is None or v.tag != tag:
                raise Unsupported(f'_reshape: the result carries no {tag} term (the NumPy-level model did not recognise the pattern)')
            U.post(f'result-is-the-Fortran-order-{tag}-that-the-model-table-entry-of-teneva._reshape-promises', p, v.t == term(), axioms=ax)
        U.cover('precondition-satisfiable', pre + facts, axioms=ax)
        if n_ret == 0:
            raise Unsupported('_reshape: no returning path')
        U.canary('canary-C-order-fold-equals-Fortran-order-fold', pre + [T.rows(a) == T.mul_canon(r1, n), T.cols(a) == r2],
                 T.foldLC(a, r1, n) == T.foldL(a, r1, n), axioms=ax)
    return u


for _c in _reshape_cases()[1]:
    unit(f'utils._reshape.default_order.{_c}', props=_PROPS)(_reshape_unit(_c))


@unit('utils._ones.integer_matrix', props=('C05', 'C06', 'C10'))
def u_ones(U):
    fn = U.func('utils', '_ones')
    k, m = z3.Ints('k m')
    for label, with_m in (('two-arguments', True), ('default-m', False)):
        ex = U.executor(fn)
        st = U.state()
        st.vars.update(k=k)
        if with_m:
            st.vars.update(m=m)
        elif 'm' in fn.defaults:
            st.vars['m'] = ex.ev(fn.defaults['m'], st)          # the default expression of the CURRENT signature
        res = U.run(ex, st, pre=[k >= 1, m >= 1])
        for p, o in res:
            if o.kind != 'return':
                U.post(f'{label}: no-exception', p, z3.BoolVal(False))
                continue
            v = p.deref(o.value) if hasattr(p, 'deref') else o.value
            if not isinstance(v, VArr):
                raise Unsupported('_ones: result is not an array value')
            U.post(f'{label}: two-dimensional', p, z3.BoolVal(v.ndim == 2))
            if v.ndim == 2:
                U.post(f'{label}: shape-is-(k,m)', p, z3.And(Z(v.shape[0]) == k, Z(v.shape[1]) == (m if with_m else 1)))
            U.post(f'{label}: integer-dtype', p, z3.BoolVal(v.dtype == 'i'))
    U.cover('precondition-satisfiable', [k >= 1, m >= 1])
    U.canary('canary-k-equals-m', [k >= 1, m >= 1], k == m)


@unit('utils._is_num.int_or_float', props=('C01', 'C05', 'C06', 'C08'))
def u_is_num(U):
    fn = U.func('utils', '_is_num')
    g = z3.Const('G', T.Core)
    vals = [('python-int', z3.Int('i'), True), ('python-float', z3.Real('x'), True), ('None', NONE, False),
            ('ndarray', M.mk_core(g), False), ('string', VStr('abc'), False)]
    for label, val, expect in vals:
        ex = U.executor(fn)
        st = U.state()
        st.vars.update(A=val)
        res = U.run(ex, st)
        for p, o in res:
            if o.kind != 'return':
                U.post(f'{label}: no-exception', p, z3.BoolVal(False))
                continue
            r = ex.truth(p, o.value) if not isinstance(o.value, bool) else o.value
            U.post(f'{label}: is_num-is-{expect}', p, Z(r) == z3.BoolVal(expect))
    U.cover('context-satisfiable', [])
    U.canary('canary-false', [], z3.BoolVal(False))
