"""Sidecar contracts for teneva/cross.py and utils._info_appr (properties C05, C06, C07).

Ghost state of the objective `f` (a logged callable, see `oracle`):
  asked      total number of index rows handed to f so far
  evaluated  total number of rows for which f returned values (not None)
  ncalls     number of calls
"""
import ast as _ast
import z3
from ttvc.units import unit
from ttvc.symex import VOpt, VStr, VRec, VSeq, VArr, VFunc, VTuple, VRef, NONE, Z, strcode
from ttvc import models as M, theory as T
from contracts import spec as S


# ----------------------------------------------------------------------------------------------
# utils._info_appr — priority order of the stop reasons (C06: "stops with exactly one documented reason that is
# consistent with the counters"; shared by cross / als / als_func)

def info_appr_post(old, new, nswp, e, e_vld, ret):
    """Postcondition of _info_appr as label -> formula (taken from the property statement: 'e_vld' / 'e' only when
    the reported value is within [0, threshold], 'nswp' only when the sweep counter reached nswp, priority
    e_vld > e > nswp, an existing reason is never overwritten, everything else in info untouched)."""
    c_vld = z3.And(z3.Not(e_vld.isnone), old['e_vld'] >= 0, old['e_vld'] <= e_vld.val)
    c_e = z3.And(z3.Not(e.isnone), old['e'] >= 0, old['e'] <= e.val)
    c_n = z3.And(z3.Not(nswp.isnone), old['nswp'] >= nswp.val)
    was_none = S.as_opt(old['stop']).isnone
    post = {
        'keeps-earlier-reason': z3.Implies(z3.Not(was_none), S.same_opt(new['stop'], old['stop'])),
        'e_vld-iff-validation-error-within-threshold':
            z3.Implies(was_none, S.stop_is(new['stop'], 'e_vld') == c_vld),
        'e-iff-convergence-within-threshold-and-no-e_vld':
            z3.Implies(was_none, S.stop_is(new['stop'], 'e') == z3.And(z3.Not(c_vld), c_e)),
        'nswp-iff-sweeps-reached-and-nothing-earlier':
            z3.Implies(was_none, S.stop_is(new['stop'], 'nswp') == z3.And(z3.Not(c_vld), z3.Not(c_e), c_n)),
        'no-reason-otherwise':
            z3.Implies(z3.And(was_none, z3.Not(c_vld), z3.Not(c_e), z3.Not(c_n)), S.as_opt(new['stop']).isnone),
        'returns-the-reason': S.same_opt(ret, new['stop']),
        'frame-counters-untouched': z3.And([new[k] == old[k] for k in ('e', 'e_vld', 'nswp', 'r') if k in old]),
    }
    if 'm' in old:
        post['frame-counters-untouched'] = z3.And(post['frame-counters-untouched'], new['m'] == old['m'],
                                                  new['m_cache'] == old['m_cache'],
                                                  S.same_opt(new['m_max'], old['m_max']))
    return post


@unit('utils._info_appr', props=('C06', 'C05', 'C07'))
def u_info_appr(U):
    fn = U.func('utils', '_info_appr')
    ex = U.executor(fn)
    st = U.state()
    info, old = S.info_record(st)
    nswp, e, e_vld = S.opt_int('nswp'), S.opt_real('e'), S.opt_real('e_vld')
    st.vars.update(info=info, t=z3.Real('t0'), nswp=nswp, e=e, e_vld=e_vld, log=False)
    res = U.run(ex, st, pre=[])
    U.cover('some-path', U.pre)
    for p, o in res:
        if o.kind != 'return':
            U.post('no-exception', p.pc, False)
            continue
        new = p.heap[info.oid].fields
        ret = o.value
        for lbl, g in info_appr_post(old, new, nswp, e, e_vld, ret).items():
            U.post(lbl, p, g)
        U.post('only-documented-reasons', p, S.stop_in(new['stop'], ('e_vld', 'e', 'nswp')),
               extra=[old['stop'].isnone, z3.Not(S.as_opt(new['stop']).isnone)])
        U.canary('canary-always-stops', p.pc + [old['stop'].isnone], z3.Not(S.as_opt(new['stop']).isnone))


def _as_opt_arg(a):
    return a if isinstance(a, VOpt) else VOpt(z3.BoolVal(a is NONE), Z(0) if a is NONE else a)


def call_info_appr(ex, st, args, kwargs, node):
    """Call-site contract of teneva._info_appr(info, t, nswp, e, e_vld, log): havoc info['stop'], info['t'];
    assume the postcondition proved by unit utils._info_appr."""
    info = st.deref(args[0])
    old = dict(info.fields)
    for k in ('stop', 'e', 'e_vld', 'nswp'):
        if k not in old:
            ex.oblige(st, 'call-pre', f'_info_appr: info[{k!r}] is set', False, node)
            return NONE
    nswp, e, e_vld = [_as_opt_arg(a) for a in args[2:5]]
    new = dict(old)
    new['stop'] = VOpt(ex.fresh_bool('stop_none'), VStr(ex.fresh_int('stop_str')))
    new['t'] = ex.fresh_real('t')
    ret = new['stop']
    for lbl, g in info_appr_post(old, new, nswp, e, e_vld, ret).items():
        st.assume(g)
    info.fields.update(new)
    return ret


M.CALLEES['utils._info_appr'] = call_info_appr


# ----------------------------------------------------------------------------------------------
# cross._func_eval — budget / None checks around every objective call (C06), cache accounting (C05)

def oracle(ex_, st_, name='f'):
    """The objective as a ghost-logged callable."""
    def h(ex, st, args, kwargs, node):
        I = st.deref(args[0])
        n = Z(I.shape[0])
        st.ghost['ncalls'] = st.ghost['ncalls'] + 1
        st.ghost['asked'] = st.ghost['asked'] + n
        isnone = ex.fresh_bool('f_none')
        st.ghost['answers_none'] = isnone
        st.ghost['evaluated'] = st.ghost['evaluated'] + z3.If(isnone, 0, n)
        st.ghost['last_width'] = I.shape[1] if I.ndim == 2 else None
        return VOpt(isnone, VArr((n,), None, None))
    return VFunc(name, h)


def fresh_ghost(st):
    st.ghost.update(asked=z3.Int('asked0'), evaluated=z3.Int('evaluated0'), ncalls=z3.Int('ncalls0'))
    return dict(st.ghost)


def func_eval_post(old, new, nI, n_new, g_old, g_new, ret_none, with_cache):
    """Postcondition of _func_eval for a batch of nI rows of which n_new are handed to the objective if it is consulted
    (without cache n_new = nI; with a cache n_new = number of rows not yet in the cache).  Taken from C06: never more
    than m indices in total, info['m'] = number of indices actually evaluated, every other request counted in
    info['m_cache'], 'm' only when the next batch would exceed the budget, 'func' when the objective returned None,
    counters change only after a successful call."""
    mm = S.as_opt_num(old['m_max'])
    fits = z3.Or(mm.isnone, old['m'] + n_new <= mm.val)
    wanted = n_new > 0 if with_cache else z3.BoolVal(True)          # is there anything to ask?
    called = g_new['ncalls'] == g_old['ncalls'] + 1
    none = g_new.get('answers_none', z3.BoolVal(False))
    blocked = z3.And(wanted, z3.Not(fits))
    success = z3.And(z3.Not(blocked), z3.Not(z3.And(called, none)))
    return {
        'objective-consulted-iff-something-to-ask-and-it-fits-the-budget': called == z3.And(wanted, fits),
        'at-most-one-call': z3.Or(called, g_new['ncalls'] == g_old['ncalls']),
        'asked-grows-by-the-new-rows-iff-consulted': g_new['asked'] == g_old['asked'] + z3.If(called, n_new, 0),
        'evaluated-grows-iff-answered': g_new['evaluated'] == g_old['evaluated'] + z3.If(z3.And(called, z3.Not(none)), n_new, 0),
        'stop-m-when-budget-blocks': z3.Implies(blocked, S.stop_is(new['stop'], 'm')),
        'stop-func-when-objective-returns-None': z3.Implies(z3.And(called, none), S.stop_is(new['stop'], 'func')),
        'stop-unchanged-on-success': z3.Implies(success, S.same_opt(new['stop'], old['stop'])),
        'evaluated-counter-only-after-success': new['m'] == old['m'] + z3.If(success, n_new, 0),
        'cache-hit-counter': new['m_cache'] == old['m_cache'] + (z3.If(success, nI - n_new, 0) if with_cache else 0),
        'result-None-iff-not-successful': ret_none == z3.Not(success),
        'frame': z3.And(S.same_opt(new['m_max'], old['m_max']), new['nswp'] == old['nswp'], new['e'] == old['e'],
                        new['e_vld'] == old['e_vld'], new['r'] == old['r']),
    }


def func_eval_consequences(old, new, nI, g_old, g_new):
    """What C06 states, derived from the postcondition under the caller's invariant asked = evaluated = info['m'] and
    asked <= m_max: the budget is never exceeded and info['m'] keeps counting exactly the evaluated indices."""
    mm = S.as_opt_num(old['m_max'])
    return {
        'never-more-than-m-indices-in-total': z3.Implies(z3.Not(mm.isnone), g_new['asked'] <= mm.val),
        'info-m-equals-number-of-evaluated-indices': new['m'] == g_new['evaluated'],
        'stop-m-only-when-nothing-was-asked':
            z3.Implies(z3.And(S.stop_is(new['stop'], 'm'), z3.Not(S.stop_is(old['stop'], 'm'))),
                       z3.And(z3.Not(mm.isnone), g_new['asked'] == g_old['asked'])),
        'requests-are-evaluated-or-cached-on-success':
            z3.Implies(z3.And(S.as_opt(old['stop']).isnone, S.as_opt(new['stop']).isnone),
                       new['m'] + new['m_cache'] == old['m'] + old['m_cache'] + z3.If(new['m_cache'] == old['m_cache'],
                                                                                      new['m'] - old['m'], nI)),
    }


def caller_invariant(f, g):
    mm = S.as_opt_num(f['m_max'])
    return [f['m'] >= 0, f['m_cache'] >= 0, g['asked'] == f['m'], g['evaluated'] == f['m'],
            z3.Implies(z3.Not(mm.isnone), f['m'] <= mm.val)]


def _func_eval_unit(U, with_cache):
    fn = U.func('cross', '_func_eval')
    st = U.state()
    info, old = S.info_record(st)
    nI, dI = z3.Int('nI'), z3.Int('dI')
    I = VArr((nI, dI), None, None, 'i')
    g_old = fresh_ghost(st)
    ncalls0 = g_old['ncalls']
    cache = st.alloc(M.VMap('cache')) if with_cache else NONE

    def body_end(ex_, s_, o_, j_):
        # the loop that fills the cache runs only after the objective answered, once per new row
        if s_.heap[cache.oid].writes > 0:
            ex_.oblige(s_, 'post', 'cache-written-only-after-a-successful-call',
                       z3.And(s_.ghost['ncalls'] == ncalls0 + 1, z3.Not(s_.ghost.get('answers_none', z3.BoolVal(True)))), None,
                       assume=False)

    loops = {0: {'inv': lambda ex_, s_, j_: [], 'body_end': body_end}} if with_cache else {}
    ex = U.executor(fn, loops=loops)
    st.vars.update(f=oracle(ex, st), I=I, info=info, cache=cache)
    pre = [nI >= 0, dI >= 1] + caller_invariant(old, g_old)
    res = U.run(ex, st, pre=pre)
    U.cover('precondition-satisfiable', U.pre)
    U.cover('reachable-with-a-reason-already-set', U.pre + [z3.Not(old['stop'].isnone)])
    for p, o in res:
        if o.kind != 'return':
            U.post('no-exception', p, False)
            continue
        new = p.heap[info.oid].fields
        ret_none = z3.BoolVal(o.value is NONE) if not isinstance(o.value, VOpt) else o.value.isnone
        if with_cache:
            filt = p.ghost.get('filtered', [])
            if len(filt) != 1:
                raise M.ContractMismatch('_func_eval(cache): expected exactly one filtered comprehension (rows not in the cache)')
            n_new = filt[0][1]
            U.post('filter-ranges-over-the-requested-rows', p, filt[0][0] == nI)
        else:
            n_new = nI
        for lbl, g in func_eval_post(old, new, nI, n_new, g_old, p.ghost, ret_none, with_cache).items():
            U.post(lbl, p, g)
        for lbl, g in func_eval_consequences(old, new, nI, g_old, p.ghost).items():
            U.post(lbl, p, g)
        if o.value is not NONE:
            v = p.deref(o.value)
            U.post('result-one-value-per-requested-row', p, Z(v.shape[0]) == nI if isinstance(v, VArr) and v.ndim == 1 else False)
        U.canary('canary-always-consulted', p, p.ghost['ncalls'] == ncalls0 + 1)


@unit('cross._func_eval.nocache', props=('C06', 'C05'))
def u_func_eval(U):
    _func_eval_unit(U, False)


@unit('cross._func_eval.cache', props=('C06', 'C05'))
def u_func_eval_cache(U):
    _func_eval_unit(U, True)


def _havoc_eval(ex, st, info, N, with_cache, node, who):
    """Shared by the call-site contracts of _func_eval and _func: havoc the counters / the objective's log and assume
    the postcondition proved by the units cross._func_eval.*"""
    old = dict(info.fields)
    g_old = dict(st.ghost)
    for c in caller_invariant(old, g_old):
        ex.oblige(st, 'call-pre', f'{who}: counters consistent (asked = evaluated = info[m] <= m_max)', c, node)
    new = dict(old)
    new['stop'] = VOpt(ex.fresh_bool('stop_none'), VStr(ex.fresh_int('stop_str')))
    new['m'], new['m_cache'] = ex.fresh_int('m'), ex.fresh_int('m_cache')
    for k in ('asked', 'evaluated', 'ncalls'):
        st.ghost[k] = ex.fresh_int(k)
    st.ghost['answers_none'] = ex.fresh_bool('f_none')
    n_new = N
    if with_cache:
        n_new = ex.fresh_int('n_new')
        st.assume(n_new >= 0, n_new <= N)
    ret_none = ex.fresh_bool('ret_none')
    for lbl, g in func_eval_post(old, new, N, n_new, g_old, st.ghost, ret_none, with_cache).items():
        st.assume(g)
    for lbl, g in func_eval_consequences(old, new, N, g_old, st.ghost).items():
        st.assume(g)
    info.fields.update(new)
    st.ghost['last_request'] = dict(N=N, n_new=n_new, old=old, g_old=g_old, ret_none=ret_none)
    return ret_none


def call_func_eval(ex, st, args, kwargs, node):
    """Call-site contract of _func_eval(f, I, info, cache)."""
    I = st.deref(args[1])
    info = st.deref(args[2])
    cache = st.deref(args[3]) if len(args) > 3 else st.deref(kwargs.get('cache', NONE))
    if isinstance(cache, VOpt):
        raise M.Unsupported('_func_eval with a cache of unknown None-ness: split the contract case')
    nI = Z(I.shape[0])
    ret_none = _havoc_eval(ex, st, info, nI, cache is not NONE, node, '_func_eval')
    st.ghost.setdefault('eval_calls', []).append(dict(I=I, nI=nI))
    return VOpt(ret_none, VArr((nI,), None, None))


M.CALLEES['cross._func_eval'] = call_func_eval


# ----------------------------------------------------------------------------------------------
# cross._func — assembly of the index batch (C06 domain / layout) around one _func_eval call

AXF = T.axioms('mulI')


def _func_unit(U, has_r, has_c):
    fn = U.func('cross', '_func')
    ex = U.executor(fn, axioms=AXF)
    st = U.state()
    info, old = S.info_record(st)
    g_old = fresh_ghost(st)
    n, r1, w1, r2, w2 = z3.Ints('n r1 w1 r2 w2')
    Ig = VArr((n, 1), None, None, 'i')
    Ir = VArr((r1, w1), None, None, 'i') if has_r else NONE
    Ic = VArr((r2, w2), None, None, 'i') if has_c else NONE
    st.vars.update(f=M.VOpaque('f'), Ig=Ig, Ir=Ir, Ic=Ic, info=info, cache=NONE)
    pre = [n >= 1, r1 >= 1, r2 >= 1, w1 >= 1, w2 >= 1] + caller_invariant(old, g_old)
    res = U.run(ex, st, pre=pre)
    U.cover('precondition-satisfiable', U.pre, axioms=AXF)
    R1 = r1 if has_r else z3.IntVal(1)
    R2 = r2 if has_c else z3.IntVal(1)
    N = T.mul_canon(R1, n, R2)
    width = (w1 if has_r else 0) + 1 + (w2 if has_c else 0)
    for p, o in res:
        if o.kind != 'return':
            U.post('no-exception', p, False, axioms=AXF)
            continue
        calls = p.ghost.get('eval_calls', [])
        U.post('exactly-one-evaluation-request', p, z3.BoolVal(len(calls) == 1))
        if len(calls) != 1:
            continue
        I = calls[0]['I']
        U.post('batch-has-one-row-per-entry-of-the-cross', p, calls[0]['nI'] == N, axioms=AXF)
        U.post('batch-rows-are-multi-indices-of-width-left+1+right', p,
               Z(I.shape[1]) == width if isinstance(I, VArr) and I.ndim == 2 else False, axioms=AXF)
        U.post('batch-is-integer-valued', p, z3.BoolVal(isinstance(I, VArr) and I.dtype == 'i'))
        refused = p.ghost['last_request']['ret_none']
        if o.value is NONE:
            U.post('returns-None-only-when-evaluation-returned-None', p, refused)
        else:
            v = p.deref(o.value)
            ok = isinstance(v, VArr) and v.ndim == 3
            U.post('returns-block-only-when-evaluation-succeeded', p, z3.Not(refused))
            U.post('result-is-the-r1-x-n-x-r2-block', p,
                   z3.And(Z(v.shape[0]) == R1, Z(v.shape[1]) == n, Z(v.shape[2]) == R2) if ok else False, axioms=AXF)


for _hr in (False, True):
    for _hc in (False, True):
        def _mk(hr=_hr, hc=_hc):
            @unit(f'cross._func.{"r" if hr else "-"}{"c" if hc else "-"}', props=('C06', 'C05'))
            def u(U):
                _func_unit(U, hr, hc)
        _mk()


def call_func(ex, st, args, kwargs, node):
    """Call-site contract of cross._func(f, Ig, Ir, Ic, info, cache) for the control tier of cross(): the batch has
    some number N >= 0 of rows; the effect on info and on the objective's log is that of one _func_eval call; the result
    is None iff the evaluation was refused / failed."""
    info = st.deref(args[4])
    cache = st.deref(args[5]) if len(args) > 5 else NONE
    N = ex.fresh_int('Nbatch')
    st.assume(N >= 0)
    ret_none = _havoc_eval(ex, st, info, N, cache is not NONE, node, '_func')
    return VOpt(ret_none, M.VOpaque('Z'))


M.CALLEES['cross._func'] = call_func


# ----------------------------------------------------------------------------------------------
# cross._iter — one QR + maxvol step (shape tier, C06 "well-formed at every exit" / C05)

def _iter_unit(U, ltr, has_I):
    fn = U.func('cross', '_iter')
    from contracts import maxvol as _MV

    def c_maxvol(ex_, s_, a_, k_, node_):
        # the call-site contract of utils._maxvol (proved by unit utils._maxvol); the returned coefficient matrix is remembered so
        # that the postcondition can say WHICH core is built from it
        out = _MV.call_maxvol_dispatch(ex_, s_, a_, k_, node_)
        s_.ghost['B_maxvol'] = s_.deref(out.items[1])
        return out

    ex = U.executor(fn, axioms=T.axioms('shape', 'mulI'), lenient=True, callees={'utils._maxvol': c_maxvol})
    st = U.state()
    Zc, z = S.core_param('Z')
    r1, n, r2 = T.d0(z), T.d1(z), T.d2(z)
    w = z3.Int('w')
    rows_I = r1 if ltr else r2
    Ig = VArr((n, 1), None, None, 'i')
    I = VArr((rows_I, w), None, None, 'i') if has_I else NONE
    dr_min, dr_max = z3.Ints('dr_min dr_max')
    st.vars.update(Z=Zc, Ig=Ig, I=I, tau=z3.Real('tau'), dr_min=dr_min, dr_max=dr_max, tau0=z3.Real('tau0'), k0=z3.Int('k0'),
                   ltr=ltr)
    res = U.run(ex, st, pre=[r1 >= 1, n >= 1, r2 >= 1, w >= 1, dr_min >= 0, dr_max >= dr_min])
    U.cover('precondition-satisfiable', U.pre)
    for p, o in res:
        if o.kind != 'return':
            U.post('no-exception', p, False)
            continue
        G, R, In = [p.deref(x) for x in o.value.items]
        okG = isinstance(G, VArr) and G.ndim == 3
        okR = isinstance(R, VArr) and R.ndim == 2
        okI = isinstance(In, VArr) and In.ndim == 2
        rn = Z(G.shape[2] if ltr else G.shape[0]) if okG else z3.IntVal(-1)
        U.post('new-rank-at-least-1', p, rn >= 1)
        if ltr:
            U.post('core-is-r1-x-n-x-new-rank', p, z3.And(Z(G.shape[0]) == r1, Z(G.shape[1]) == n) if okG else False)
            U.post('carry-is-new-rank-x-r2', p, z3.And(Z(R.shape[0]) == rn, Z(R.shape[1]) == r2) if okR else False)
        else:
            U.post('core-is-new-rank-x-n-x-r2', p, z3.And(Z(G.shape[1]) == n, Z(G.shape[2]) == r2) if okG else False)
            U.post('carry-is-r1-x-new-rank', p, z3.And(Z(R.shape[0]) == r1, Z(R.shape[1]) == rn) if okR else False)
        # value level (C05: the cores interpolate; what is stored is the maxvol coefficient matrix in the library's Fortran-order
        # layout): the left (ltr) / right (rtl) unfolding of the new core IS the coefficient matrix B (resp. its transpose)
        Bm = p.ghost.get('B_maxvol')
        if isinstance(Bm, VArr) and Bm.t is not None:
            if not okG or G.t is None or G.tag != 'core':
                raise M.ContractMismatch('_iter: the returned core is not built by a modelled fold of the maxvol coefficient matrix')
            if ltr:
                U.post('core-is-the-Fortran-order-fold-of-the-coefficient-matrix: unfL(G) = B', p, G.t == T.foldL(Bm.t, r1, n))
            else:
                U.post('core-is-the-Fortran-order-fold-of-the-transposed-coefficient-matrix: unfR(G) = B^T', p,
                       G.t == T.foldR(T.tr(Bm.t), n, r2))
        else:
            raise M.ContractMismatch('_iter: no maxvol coefficient matrix was produced through utils._maxvol')
        U.post('one-multi-index-per-new-rank', p, Z(In.shape[0]) == rn if okI else False)
        U.post('multi-indices-one-position-longer', p, Z(In.shape[1]) == (w + 1 if has_I else 1) if okI else False)
        U.post('multi-indices-are-integers', p, z3.BoolVal(okI and In.dtype == 'i'))


for _l in (True, False):
    for _h in (True, False):
        def _mk(l=_l, h=_h):
            @unit(f'cross._iter.{"ltr" if l else "rtl"}.{"I" if h else "none"}', props=('C06', 'C05'))
            def u(U):
                _iter_unit(U, l, h)
        _mk()


# ----------------------------------------------------------------------------------------------
# cross() head: argument validation (C06: "missing stop criteria are rejected with ValueError before any evaluation")

def opt_arr(name):
    return VOpt(z3.Bool(name + '_none'), M.VOpaque(name))


def _is_head_end(stmt):
    return isinstance(stmt, _ast.Assign) and isinstance(stmt.targets[0], _ast.Name) and stmt.targets[0].id == '_time'


@unit('cross.cross.validate', props=('C06',))
def u_cross_validate(U):
    fn = U.func('cross', 'cross')
    # the head ends where the clock is read for the first time
    if not any(_is_head_end(s_) for s_ in fn.body):
        raise M.ContractMismatch('cross(): the statement `_time = tpc()` that ends the validation head is gone')
    ex = U.executor(fn, stop_at=_is_head_end)
    st = U.state()
    m, e, nswp, e_vld = S.opt_int('m'), S.opt_real('e'), S.opt_int('nswp'), S.opt_real('e_vld')
    I_vld, y_vld = opt_arr('I_vld'), opt_arr('y_vld')
    info = st.alloc(VRec({}))                 # possibly the shared default dict: nothing may be read before the update
    g_old = fresh_ghost(st)
    st.vars.update(f=oracle(ex, st), Y0=M.VOpaque('Y0'), m=m, e=e, nswp=nswp, tau=z3.Real('tau'), dr_min=z3.Int('dr_min'),
                   dr_max=z3.Int('dr_max'), tau0=z3.Real('tau0'), k0=z3.Int('k0'), info=info, cache=NONE, I_vld=I_vld,
                   y_vld=y_vld, e_vld=e_vld, cb=NONE, func=NONE, m_cache_scale=z3.Real('mcs'), log=False)
    res = U.run(ex, st)
    no_vld = z3.Or(I_vld.isnone, y_vld.isnone)
    bad = z3.Or(z3.And(m.isnone, e.isnone, nswp.isnone, z3.Or(no_vld, e_vld.isnone)), z3.And(z3.Not(e_vld.isnone), no_vld))
    U.cover('rejecting-reachable', [bad])
    U.cover('accepting-reachable', [z3.Not(bad)])
    for p, o in res:
        if o.kind == 'raise':
            U.raise_iff('rejects-only-missing-stop-criteria-or-missing-validation-data', p, bad)
            U.raise_iff('raises-ValueError', p, o.exc == 'ValueError')
            U.raise_iff('rejected-before-any-evaluation', p, z3.And(p.ghost['ncalls'] == g_old['ncalls'],
                                                                  z3.BoolVal(len(p.heap[info.oid].fields) == 0)))
        elif o.kind == 'stop':
            U.raise_iff('accepts-only-sufficient-stop-criteria', p, z3.Not(bad))
            U.raise_iff('no-evaluation-during-validation', p, p.ghost['ncalls'] == g_old['ncalls'])
        else:
            U.post('head-ends-at-the-clock', p, False)
    U.canary('canary-never-rejects', [], z3.Not(bad))


# ----------------------------------------------------------------------------------------------
# cross() as a whole, control tier: counters, budget, stop contract, reported values (C06 / C05).
# Array contents are not interpreted here (lenient tier): _iter / tensordot results are opaque cores.

erank_f = z3.Function('erank_f', T.TT, z3.IntSort(), z3.RealSort())
acc_f = z3.Function('acc_f', T.TT, z3.IntSort(), T.TT, z3.RealSort())
aod_f = z3.Function('aod_f', T.TT, z3.IntSort(), z3.RealSort())


def _tt_of(st, v):
    v = st.deref(v)
    if not (isinstance(v, VSeq) and v.tag == 'core'):
        raise M.Unsupported('expected a TT list')
    return v


def _cross_unit(U, with_cache, with_cb):
    fn = U.func('cross', 'cross')
    st = U.state()
    Y0, A0, d = S.tt_param(st, 'Y0', z3.Int('d'))
    m, e, nswp, e_vld = S.opt_int('m'), S.opt_real('e'), S.opt_int('nswp'), S.opt_real('e_vld')
    I_vld, y_vld = opt_arr('I_vld'), opt_arr('y_vld')
    # info may be the shared default dict: on entry it holds arbitrary left-overs of an earlier call (C10), so every
    # field starts with an unconstrained value and must be reset by the function before it matters
    info, _leftover = S.info_record(st, prefix='leftover')
    cache = st.alloc(M.VMap('cache')) if with_cache else NONE
    st.ghost.update(asked=z3.IntVal(0), evaluated=z3.IntVal(0), ncalls=z3.IntVal(0))
    cb_log = []

    def cb_handler(ex, s, args, kwargs, node):
        # A-CB: the callback neither writes nor retains its arguments; it returns an arbitrary value
        r = ex.fresh_bool('cb_is_True')
        s.ghost['cb_true'] = r
        s.ghost['cb_calls'] = s.ghost.get('cb_calls', 0) + 1
        return r

    callees = {
        'props.erank': lambda ex, s, a, k, n_: erank_f(_tt_of(s, a[0]).arr, _tt_of(s, a[0]).n),
        'data.accuracy_on_data': lambda ex, s, a, k, n_: aod_f(_tt_of(s, a[0]).arr, _tt_of(s, a[0]).n),
        'act_two.accuracy': lambda ex, s, a, k, n_: acc_f(_tt_of(s, a[0]).arr, _tt_of(s, a[0]).n, _tt_of(s, a[1]).arr),
        'cross._iter': lambda ex, s, a, k, n_: VTuple([M.VOpaque('G'), M.VOpaque('R'), M.VOpaque('I')]),
        # the control tier does not follow shapes (unit cross.cross.shapes does): contractions are opaque here
        'np.tensordot': lambda ex, s, a, k, n_: M.VOpaque('tensordot'),
    }

    def fields(s):
        return s.heap[info.oid].fields

    def common(ex, s):
        f = fields(s)
        Ys = s.deref(s.vars['Y'])
        out = [(f'counters-consistent-{i}', c) for i, c in enumerate(caller_invariant(f, s.ghost))]
        out += [('tensor-length', Ys.n == d),
                ('budget-is-the-requested-one', S.same_opt(f['m_max'], s.ghost['m_max0'])),
                ('sweep-counter', f['nswp'] == s.ghost['_j2']),
                ('nswp-not-yet-reached-while-running',
                 z3.Implies(S.as_opt(f['stop']).isnone, z3.Or(nswp.isnone, f['nswp'] < nswp.val))),
                ('result-list-is-a-copy', z3.BoolVal(s.vars['Y'].oid != Y0.oid and s.heap[Y0.oid].arr is A0)),
                ('a-pending-reason-comes-from-the-pre-iteration',
                 z3.Or(S.as_opt(f['stop']).isnone, S.stop_in(f['stop'], ('e_vld', 'nswp')))),
                ('a-pending-nswp-reason-is-justified',
                 z3.Implies(S.stop_is(f['stop'], 'nswp'), z3.And(z3.Not(nswp.isnone), f['nswp'] >= nswp.val))),
                ('cache-hits-only-with-a-cache', z3.BoolVal(True) if with_cache else f['m_cache'] == 0)]
        return out

    def inv_pre(ex, s, j):       # the two pre-iteration loops: the objective is not consulted, info is complete
        f = fields(s)
        Ys = s.deref(s.vars['Y'])
        return [('no-evaluation-before-the-first-sweep', z3.And(s.ghost['ncalls'] == 0, s.ghost['asked'] == 0, f['m'] == 0)),
                ('tensor-length', Ys.n == d), ('index-lists-length', s.deref(s.vars['Ir']).n == d + 1),
                ('index-lists-length-c', s.deref(s.vars['Ic']).n == d + 1)]

    def inv_while(ex, s, j):
        f = fields(s)
        return common(ex, s) + [('a-reason-is-pending-only-at-the-first-entry', z3.Or(S.as_opt(f['stop']).isnone, j == 0))]

    def inv_ltr(ex, s, j):
        f = fields(s)
        return common(ex, s) + [('a-reason-is-pending-only-at-the-very-first-request',
                                 z3.Or(S.as_opt(f['stop']).isnone, z3.And(j == 0, s.ghost['_j2'] == 0)))]

    def inv_rtl(ex, s, j):
        f = fields(s)
        return common(ex, s) + [('no-reason-pending', S.as_opt(f['stop']).isnone)]

    def havoc_hook(ex, h, pre, j):
        # the opaque index lists keep their length (their elements are rebound inside the loops)
        for nm in ('Ir', 'Ic', 'Ig'):
            if nm in h.vars and nm in pre.vars:
                h.assume(h.deref(h.vars[nm]).n == pre.deref(pre.vars[nm]).n)

    loops = {0: {'inv': inv_pre, 'havoc_hook': havoc_hook}, 1: {'inv': inv_pre, 'havoc_hook': havoc_hook},
             2: {'inv': inv_while, 'havoc_hook': havoc_hook}, 3: {'inv': inv_ltr, 'havoc_hook': havoc_hook},
             4: {'inv': inv_rtl, 'havoc_hook': havoc_hook}}
    ex = U.executor(fn, loops=loops, callees=callees, lenient=True)
    if ex.nloops != 5:
        raise M.ContractMismatch(f'cross(): expected 5 loops (two pre-iteration sweeps, while, two half-sweeps), found {ex.nloops}')
    m_max0 = VOpt(z3.Or(m.isnone, m.val == 0), m.val)            # int(m) if m else None
    st.ghost['m_max0'] = m_max0
    st.vars.update(f=oracle(ex, st), Y0=Y0, m=m, e=e, nswp=nswp, tau=z3.Real('tau'), dr_min=z3.Int('dr_min'),
                   dr_max=z3.Int('dr_max'), tau0=z3.Real('tau0'), k0=z3.Int('k0'), info=info, cache=cache, I_vld=I_vld,
                   y_vld=y_vld, e_vld=e_vld, cb=VFunc('cb', cb_handler) if with_cb else NONE, func=NONE,
                   m_cache_scale=z3.Real('mcs'), log=False)
    res = U.run(ex, st, pre=[d >= 2, z3.Or(m.isnone, m.val >= 0), st.vars['m_cache_scale'] >= 0])
    U.cover('precondition-satisfiable', U.pre)
    nret = 0
    for p, o in res:
        if o.kind == 'raise':
            continue                      # argument validation: unit cross.cross.validate
        if o.kind != 'return':
            U.post('only-returns-or-validation-errors', p, False)
            continue
        nret += 1
        f = fields(p)
        stop = S.as_opt(f['stop'])
        Ys = p.deref(o.value)
        in_ltr, in_rtl = 'loop3:body' in p.trace, 'loop4:body' in p.trace
        early = (in_ltr and 'loop3:exit' not in p.trace) or (in_rtl and 'loop4:exit' not in p.trace)
        U.post('returns-the-working-copy-not-the-initial-tensor', p,
               z3.BoolVal(isinstance(o.value, VRef) and o.value.oid != Y0.oid and isinstance(Ys, VSeq) and p.heap[Y0.oid].arr is A0))
        U.post('result-has-d-cores', p, Ys.n == d)
        U.post('exactly-one-documented-stop-reason', p, S.stop_in(f['stop'], S.STOP_REASONS))
        U.post('never-more-than-m-indices-in-total', p, z3.Implies(z3.Not(m_max0.isnone), p.ghost['asked'] <= m_max0.val))
        U.post('info-m-equals-number-of-evaluated-indices', p, f['m'] == p.ghost['evaluated'])
        U.post('reported-rank-is-that-of-the-returned-tensor', p, f['r'] == erank_f(Ys.arr, Ys.n))
        U.post('reported-validation-error-is-that-of-the-returned-tensor', p, f['e_vld'] == aod_f(Ys.arr, Ys.n))
        Yold = p.deref(p.vars['Yold'])
        U.post('reported-convergence-is-relative-to-the-copy-taken-at-sweep-start', p, f['e'] == acc_f(Ys.arr, Ys.n, Yold.arr))
        if not early:
            # (at an early return a reason pending from the pre-iteration was justified by the values reported then;
            # the values are recomputed for the numerically identical tensor - not expressible in the control tier)
            U.post('stop-e-only-if-reported-value-within-threshold', p,
                   z3.Implies(S.stop_is(f['stop'], 'e'), z3.And(z3.Not(e.isnone), f['e'] >= 0, f['e'] <= e.val)))
            U.post('stop-e_vld-only-if-reported-value-within-threshold', p,
                   z3.Implies(S.stop_is(f['stop'], 'e_vld'), z3.And(z3.Not(e_vld.isnone), f['e_vld'] >= 0, f['e_vld'] <= e_vld.val)))
        else:
            U.post('stop-e-never-pending-at-an-interruption', p, z3.Not(S.stop_is(f['stop'], 'e')))
        U.post('stop-nswp-after-exactly-nswp-sweeps', p,
               z3.Implies(z3.And(S.stop_is(f['stop'], 'nswp'), nswp.val >= 1), f['nswp'] == nswp.val))
        U.post('stop-nswp-only-if-requested', p, z3.Implies(S.stop_is(f['stop'], 'nswp'), z3.And(z3.Not(nswp.isnone), f['nswp'] >= nswp.val)))
        if early:
            lr = p.ghost['last_request']
            U.post('interrupted-only-by-budget-objective-or-a-reason-pending-from-the-pre-iteration', p,
                   z3.Or(S.stop_in(f['stop'], ('m', 'func')),
                         z3.And(p.ghost['_j2'] == 0, f['nswp'] == 0, S.stop_in(f['stop'], ('e_vld', 'nswp')))))
            U.post('stop-m-only-when-the-next-batch-would-exceed-the-budget', p,
                   z3.Implies(S.stop_is(f['stop'], 'm'),
                              z3.And(z3.Not(m_max0.isnone), lr['n_new'] >= 1 if with_cache else lr['N'] >= 0,
                                     lr['old']['m'] + lr['n_new'] > m_max0.val, f['m'] == lr['old']['m'])))
            U.post('stop-func-only-when-the-objective-returned-None', p,
                   z3.Implies(S.stop_is(f['stop'], 'func'), p.ghost['answers_none']))
            U.post('sweep-counter-counts-completed-sweeps-only', p, f['nswp'] == p.ghost['_j2'])
        else:
            U.post('end-of-sweep-reasons', p, S.stop_in(f['stop'], ('conv', 'cb', 'e_vld', 'e', 'nswp')))
            U.post('sweep-counter-incremented-once-per-sweep', p, f['nswp'] == p.ghost['_j2'] + 1)
            conv = f['m_cache'] > z3.ToReal(f['m']) * p.vars['m_cache_scale'] if with_cache else None
            if with_cb:
                U.post('stop-cb-only-right-after-the-callback-returned-True', p,
                       z3.Implies(S.stop_is(f['stop'], 'cb'), p.ghost.get('cb_true', z3.BoolVal(False))))
                U.post('callback-True-stops-this-sweep', p,
                       z3.Implies(p.ghost.get('cb_true', z3.BoolVal(False)), S.stop_in(f['stop'], ('cb', 'conv'))))
            else:
                U.post('stop-cb-needs-a-callback', p, z3.Not(S.stop_is(f['stop'], 'cb')))
            if not with_cache:
                U.post('stop-conv-needs-a-cache', p, z3.Not(S.stop_is(f['stop'], 'conv')))
        U.canary('canary-always-stops-by-nswp', p, S.stop_is(f['stop'], 'nswp'))
    U.post('three-return-sites-reached', U.pre, z3.BoolVal(nret >= 3))


for _wc in (False, True):
    for _cb in (False, True):
        def _mk(wc=_wc, cb=_cb):
            @unit(f'cross.cross.{"cache" if wc else "nocache"}.{"cb" if cb else "nocb"}', props=('C06', 'C05'))
            def u(U):
                _cross_unit(U, wc, cb)
        _mk()


# ----------------------------------------------------------------------------------------------
# cross(): shape tier (C06: "however and whenever it is interrupted it returns a well-formed TT-tensor of the original
# shape"; C05: "a TT-tensor of the same shape").  The carries R, the index lists Ir / Ic and the cores are followed through
# the two pre-iteration sweeps and both half-sweeps; contents are not interpreted.  erank / accuracy / accuracy_on_data
# are called under the precondition wf(Y) with the mode sizes of Y0, so every return site has to establish it.

def _cross_shapes_unit(U):
    fn = U.func('cross', 'cross')
    st = U.state()
    Y0, A0, d = S.tt_param(st, 'Y0', z3.Int('d'))
    info, _left = S.info_record(st, prefix='leftover')
    k = z3.Int('k!cs')
    t_ = z3.Int('t!cs')
    rw = M.optarr_rows
    dr_min, dr_max = z3.Ints('dr_min dr_max')
    AX = T.axioms('shape')

    def same_modes(Yarr):
        return z3.ForAll([k], z3.Implies(z3.And(0 <= k, k < d), T.d1(Yarr[k]) == T.d1(A0[k])), patterns=[Yarr[k]])

    def need_wf(ex, s, Yv, node, who):
        Ys = _tt_of(s, Yv)
        ex.oblige(s, 'call-pre', f'{who}: argument is a well-formed TT-tensor', z3.And(Ys.n == d, T.wf(Ys.arr, d)), node)
        ex.oblige(s, 'call-pre', f'{who}: argument has the mode sizes of Y0', same_modes(Ys.arr), node)

    def c_erank(ex, s, a, kw, node):
        need_wf(ex, s, a[0], node, 'erank')
        return ex.fresh_real('erank')

    def c_acc(ex, s, a, kw, node):
        need_wf(ex, s, a[0], node, 'accuracy')
        need_wf(ex, s, a[1], node, 'accuracy (previous sweep)')
        return ex.fresh_real('acc')

    def c_aod(ex, s, a, kw, node):
        need_wf(ex, s, a[0], node, 'accuracy_on_data')
        return ex.fresh_real('aod')

    def rows_of(s, v, what):
        """`v.shape[0] if v is not None else 1` for an element of Ir / Ic (None or an array)."""
        v = s.deref(v)
        if v is NONE:
            return z3.IntVal(1), z3.BoolVal(True)
        if isinstance(v, VOpt):
            w = s.deref(v.val)
            if isinstance(w, VArr) and w.ndim == 2:
                return z3.If(v.isnone, 1, Z(w.shape[0])), v.isnone
        if isinstance(v, VArr) and v.ndim == 2:
            return Z(v.shape[0]), z3.BoolVal(False)
        raise M.ContractMismatch(f'cross(): {what} is neither None nor a 2-D index array')

    def width_of(s, v):
        """number of columns of an element of Ir / Ic: 0 for None (no index positions on that side)"""
        v = s.deref(v)
        if v is NONE:
            return z3.IntVal(0)
        if isinstance(v, VOpt):
            w = s.deref(v.val)
            if isinstance(w, VArr) and w.ndim == 2:
                return z3.If(v.isnone, 0, Z(w.shape[1]))
        if isinstance(v, VArr) and v.ndim == 2:
            return Z(v.shape[1])
        raise M.ContractMismatch('cross(): an element of Ir / Ic is neither None nor a 2-D index array')

    def c_func(ex, s, a, kw, node):
        # contract of _func proved by the units cross._func.* / cross._func_eval.*: the r1 x n x r2 block, or None with
        # info['stop'] set to 'm' / 'func'; the batch handed to the objective has width(Ir) + 1 + width(Ic) columns
        ex.oblige(s, 'call-pre', '_func: the batch rows are multi-indices of width d (C06: "batches of width d")',
                  width_of(s, a[2]) + 1 + width_of(s, a[3]) == d, node)
        n_i, none_g = rows_of(s, a[1], 'Ig[i]')
        ex.oblige(s, 'call-pre', '_func: the grid block Ig[i] is an array', z3.Not(none_g), node)
        r1, _ = rows_of(s, a[2], 'Ir[i]')
        r2, _ = rows_of(s, a[3], 'Ic[i+1]')
        rec = s.deref(a[4])
        ret_none = ex.fresh_bool('Z_none')
        new_stop = VOpt(ex.fresh_bool('stop_none'), VStr(ex.fresh_int('stop_str')))
        s.assume(z3.Implies(ret_none, S.stop_in(new_stop, ('m', 'func'))))
        rec.fields['stop'] = new_stop
        tz = ex.fresh('Zblk', T.Core)
        s.assume(T.d0(tz) == r1, T.d1(tz) == n_i, T.d2(tz) == r2)
        return VOpt(ret_none, M.mk_core(tz))

    def c_iter(ex, s, a, kw, node):
        # contract of _iter proved by the units cross._iter.*
        Zv = s.deref(a[0])
        if isinstance(Zv, VOpt):
            ex.oblige(s, 'call-pre', '_iter: the block is not None', z3.Not(Zv.isnone), node)
            Zv = s.deref(Zv.val)
        if not (isinstance(Zv, VArr) and Zv.ndim == 3):
            raise M.ContractMismatch('cross(): _iter is called with something that is not a 3-D block')
        r1, n_i, r2 = [Z(x) for x in Zv.shape]
        ltr = kw.get('ltr', a[8] if len(a) > 8 else True)
        if not isinstance(ltr, bool):
            raise M.ContractMismatch('cross(): _iter direction is not a literal')
        g_rows, g_none = rows_of(s, a[1], 'Ig[i]')
        i_rows, i_none = rows_of(s, a[2], 'I')
        mn = Z(ex.need_num(s, a[4], node)) if len(a) > 4 else z3.IntVal(0)
        mx = Z(ex.need_num(s, a[5], node)) if len(a) > 5 else z3.IntVal(0)
        ex.oblige(s, 'call-pre', '_iter: block non-empty, grid block has one row per mode index',
                  z3.And(r1 >= 1, n_i >= 1, r2 >= 1, z3.Not(g_none), g_rows == n_i), node)
        ex.oblige(s, 'call-pre', '_iter: old multi-indices are None or one per row (ltr) / column (rtl) of the block',
                  z3.Or(i_none, i_rows == (r1 if ltr else r2)), node)
        ex.oblige(s, 'call-pre', '_iter: consistent rank-growth request', z3.And(mn >= 0, mx >= mn), node)
        rn = ex.fresh_int('rnew')
        s.assume(rn >= 1)
        tg, tr = ex.fresh('Giter', T.Core), ex.fresh('Riter', T.Mat)
        if ltr:
            s.assume(T.d0(tg) == r1, T.d1(tg) == n_i, T.d2(tg) == rn, T.rows(tr) == rn, T.cols(tr) == r2)
        else:
            s.assume(T.d0(tg) == rn, T.d1(tg) == n_i, T.d2(tg) == r2, T.rows(tr) == r1, T.cols(tr) == rn)
        return VTuple([M.mk_core(tg), M.mk_mat(tr), VArr((rn, width_of(s, a[2]) + 1), None, None, 'i')])

    callees = {'props.erank': c_erank, 'act_two.accuracy': c_acc, 'data.accuracy_on_data': c_aod,
               'cross._func': c_func, 'cross._iter': c_iter}

    def parts(s):
        Y, Ir, Ic = [s.deref(s.vars[x]) for x in ('Y', 'Ir', 'Ic')]
        for v, nm in ((Y, 'Y'), (Ir, 'Ir'), (Ic, 'Ic')):
            if not isinstance(v, VSeq):
                raise M.ContractMismatch(f'cross(): {nm} is not a list')
        if Y.tag != 'core' or Ir.tag != 'optarr' or Ic.tag != 'optarr':
            raise M.ContractMismatch('cross(): Y / Ir / Ic are not the list of cores / lists of optional index arrays')
        R = s.deref(s.vars['R']) if 'R' in s.vars else None
        if R is not None and not (isinstance(R, VArr) and R.ndim == 2):
            raise M.ContractMismatch('cross(): the carry R is not a matrix')
        return Y, Ir, Ic, R

    def irw(Ir, t):
        return rw(Ir.arr[t])

    def base(s):
        Y, Ir, Ic, R = parts(s)
        return [('lengths', z3.And(Y.n == d, Ir.n == d + 1, Ic.n == d + 1)),
                ('Ir[0]-and-Ic[d]-stay-None', z3.And(Ir.arr[0] == 0, Ic.arr[d] == 0)),
                ('left-index-sets-non-empty', z3.ForAll([t_], z3.Implies(z3.And(0 <= t_, t_ <= d), irw(Ir, t_) >= 1), patterns=[Ir.arr[t_]])),
                ('right-index-sets-non-empty', z3.ForAll([t_], z3.Implies(z3.And(0 <= t_, t_ <= d), irw(Ic, t_) >= 1), patterns=[Ic.arr[t_]])),
                ('left-multi-indices-have-one-position-per-mode-to-the-left',
                 z3.ForAll([t_], z3.Implies(z3.And(0 <= t_, t_ <= d, Ir.arr[t_] != 0), M.OCOLS(Ir.arr[t_]) == t_), patterns=[Ir.arr[t_]])),
                ('right-multi-indices-have-one-position-per-mode-to-the-right',
                 z3.ForAll([t_], z3.Implies(z3.And(0 <= t_, t_ <= d, Ic.arr[t_] != 0), M.OCOLS(Ic.arr[t_]) == d - t_), patterns=[Ic.arr[t_]]))]

    def set_from(seq, lo, hi, what):
        return (what, z3.ForAll([t_], z3.Implies(z3.And(lo <= t_, t_ <= hi), seq.arr[t_] != 0), patterns=[seq.arr[t_]]))

    def Lshape(Y, Ir, kk, last_one):
        r_next = z3.If(kk == d - 1, 1, irw(Ir, kk + 1)) if last_one else irw(Ir, kk + 1)
        return z3.And(T.d0(Y.arr[kk]) == irw(Ir, kk), T.d1(Y.arr[kk]) == T.d1(A0[kk]), T.d2(Y.arr[kk]) == r_next)

    def Rshape(Y, Ic, kk, first_one):
        r_prev = z3.If(kk == 0, 1, irw(Ic, kk)) if first_one else irw(Ic, kk)
        return z3.And(T.d0(Y.arr[kk]) == r_prev, T.d1(Y.arr[kk]) == T.d1(A0[kk]), T.d2(Y.arr[kk]) == irw(Ic, kk + 1))

    def q(Y, lo, hi, body):
        return z3.ForAll([k], z3.Implies(z3.And(lo <= k, k < hi), body), patterns=[Y.arr[k]])

    def inv_pre_ltr(ex, s, j):
        Y, Ir, Ic, R = parts(s)
        i = j
        return base(s) + [
            ('cores-left-of-i-carry-the-new-left-index-sets', q(Y, 0, i, Lshape(Y, Ir, k, False))),
            ('cores-from-i-on-are-those-of-Y0', q(Y, i, d, Y.arr[k] == A0[k])),
            ('carry-fits-between-core-i-1-and-core-i', z3.And(Z(R.shape[0]) == irw(Ir, i), Z(R.shape[1]) == z3.If(i < d, T.d0(A0[i]), 1))),
            set_from(Ir, 1, i, 'left-index-sets-of-the-processed-modes-are-set')]

    def rtl_inv(s, j, pre_iteration):
        Y, Ir, Ic, R = parts(s)
        i = d - 1 - j
        return base(s) + [
            set_from(Ir, 1, d, 'all-left-index-sets-are-set'),
            set_from(Ic, i + 1 if pre_iteration else 0, d - 1, 'right-index-sets-of-the-processed-modes-are-set'),
            ('cores-right-of-i-carry-the-new-right-index-sets', q(Y, i + 1, d, Rshape(Y, Ic, k, False))),
            ('cores-up-to-i-carry-the-left-index-sets', q(Y, 0, i + 1, Lshape(Y, Ir, k, True))),
            ('carry-fits-between-core-i-and-core-i+1',
             z3.And(Z(R.shape[0]) == z3.If(i == d - 1, 1, irw(Ir, i + 1)), Z(R.shape[1]) == irw(Ic, i + 1)))]

    def inv_while(ex, s, j):
        Y, Ir, Ic, R = parts(s)
        return base(s) + [('all-cores-carry-the-right-index-sets', q(Y, 0, d, Rshape(Y, Ic, k, True))),
                          set_from(Ir, 1, d, 'all-left-index-sets-are-set'), set_from(Ic, 0, d - 1, 'all-right-index-sets-are-set')]

    def inv_ltr(ex, s, j):
        Y, Ir, Ic, R = parts(s)
        i = j
        return base(s) + [
            ('cores-left-of-i-carry-the-new-left-index-sets', q(Y, 0, i, Lshape(Y, Ir, k, False))),
            ('cores-from-i-on-carry-the-right-index-sets', q(Y, i, d, Rshape(Y, Ic, k, True))),
            ('carry-fits-between-core-i-1-and-core-i',
             z3.And(Z(R.shape[0]) == irw(Ir, i), Z(R.shape[1]) == z3.If(i == 0, 1, irw(Ic, i)))),
            set_from(Ir, 1, d, 'all-left-index-sets-are-set'), set_from(Ic, 0, d - 1, 'all-right-index-sets-are-set')]

    loops = {0: {'inv': inv_pre_ltr}, 1: {'inv': lambda ex, s, j: rtl_inv(s, j, True)}, 2: {'inv': inv_while},
             3: {'inv': inv_ltr}, 4: {'inv': lambda ex, s, j: rtl_inv(s, j, False)}}
    ex = U.executor(fn, loops=loops, callees=callees, axioms=AX, lenient=True)
    if ex.nloops != 5:
        raise M.ContractMismatch(f'cross(): expected 5 loops (two pre-iteration sweeps, while, two half-sweeps), found {ex.nloops}')
    m = S.opt_int('m')
    st.vars.update(f=M.VOpaque('f'), Y0=Y0, m=m, e=S.opt_real('e'), nswp=S.opt_int('nswp'), tau=z3.Real('tau'),
                   dr_min=dr_min, dr_max=dr_max, tau0=z3.Real('tau0'), k0=z3.Int('k0'), info=info, cache=NONE,
                   I_vld=opt_arr('I_vld'), y_vld=opt_arr('y_vld'), e_vld=S.opt_real('e_vld'), cb=NONE, func=NONE,
                   m_cache_scale=z3.Real('mcs'), log=False)
    res = U.run(ex, st, pre=[T.wf(A0, d), dr_min >= 0, dr_max >= dr_min, z3.Or(m.isnone, m.val >= 0)])
    U.cover('precondition-satisfiable', U.pre, axioms=AX)
    nret = 0
    for p, o in res:
        if o.kind == 'raise':
            continue                      # argument validation: unit cross.cross.validate
        if o.kind != 'return':
            U.post('only-returns-or-validation-errors', p, False)
            continue
        nret += 1
        Ys = p.deref(o.value)
        ok = isinstance(Ys, VSeq) and Ys.tag == 'core'
        U.post('result-is-a-well-formed-TT-tensor', p, z3.And(Ys.n == d, T.wf(Ys.arr, d)) if ok else False, axioms=AX)
        U.post('result-has-the-mode-sizes-of-Y0', p, same_modes(Ys.arr) if ok else False, axioms=AX)
    U.post('three-return-sites-reached', U.pre, z3.BoolVal(nret >= 3))


@unit('cross.cross.shapes', props=('C06', 'C05', 'C11'))
def u_cross_shapes(U):
    _cross_shapes_unit(U)
