"""Sidecar contracts for teneva/cross.py and utils._info_appr (properties C05, C06, C07)."""
import z3
from ttvc.units import unit
from ttvc.symex import VOpt, VStr, VRec, VSeq, VArr, VFunc, VTuple, NONE, Z, strcode
from ttvc import models as M, theory as T
from contracts import spec as S


# ----------------------------------------------------------------------------------------------
# utils._info_appr — priority order of the stop reasons (C06: "stops with exactly one documented reason that is
# consistent with the counters"; shared by cross / als / als_func)

def info_appr_post(old, new, nswp, e, e_vld, ret):
    """Postcondition of _info_appr as label -> formula (taken from the property statement: 'e_vld' / 'e' only when
    the reported value is within [0, threshold], 'nswp' only when the sweep counter reached nswp, priority
    e_vld > e > nswp, an existing reason is never overwritten, everything else in info untouched)."""
    c_vld = z3.And(z3.Not(e_vld.isnone), old['e_vld'] >= 0, old['e_vld'] <= e_vld.val)
    c_e = z3.And(z3.Not(e.isnone), old['e'] >= 0, old['e'] <= e.val)
    c_n = z3.And(z3.Not(nswp.isnone), old['nswp'] >= nswp.val)
    was_none = old['stop'].isnone
    post = {
        'keeps-earlier-reason': z3.Implies(z3.Not(was_none), S.same_opt(new['stop'], old['stop'])),
        'e_vld-iff-validation-error-within-threshold':
            z3.Implies(was_none, S.stop_is(new['stop'], 'e_vld') == c_vld),
        'e-iff-convergence-within-threshold-and-no-e_vld':
            z3.Implies(was_none, S.stop_is(new['stop'], 'e') == z3.And(z3.Not(c_vld), c_e)),
        'nswp-iff-sweeps-reached-and-nothing-earlier':
            z3.Implies(was_none, S.stop_is(new['stop'], 'nswp') == z3.And(z3.Not(c_vld), z3.Not(c_e), c_n)),
        'no-reason-otherwise':
            z3.Implies(z3.And(was_none, z3.Not(c_vld), z3.Not(c_e), z3.Not(c_n)), S.as_opt(new['stop']).isnone),
        'returns-the-reason': S.same_opt(ret, new['stop']),
        'frame-counters-untouched': z3.And([new[k] == old[k] for k in ('e', 'e_vld', 'nswp', 'r') if k in old]),
    }
    if 'm' in old:
        post['frame-counters-untouched'] = z3.And(post['frame-counters-untouched'], new['m'] == old['m'],
                                                  new['m_cache'] == old['m_cache'],
                                                  S.same_opt(new['m_max'], old['m_max']))
    return post


@unit('utils._info_appr', props=('C06', 'C05', 'C07'))
def u_info_appr(U):
    fn = U.func('utils', '_info_appr')
    ex = U.executor(fn)
    st = U.state()
    info, old = S.info_record(st)
    nswp, e, e_vld = S.opt_int('nswp'), S.opt_real('e'), S.opt_real('e_vld')
    st.vars.update(info=info, t=z3.Real('t0'), nswp=nswp, e=e, e_vld=e_vld, log=False)
    res = U.run(ex, st, pre=[])
    U.cover('some-path', U.pre)
    for p, o in res:
        if o.kind != 'return':
            U.post('no-exception', p.pc, False)
            continue
        new = p.heap[info.oid].fields
        ret = o.value
        for lbl, g in info_appr_post(old, new, nswp, e, e_vld, ret).items():
            U.post(lbl, p.pc, g)
        U.post('only-documented-reasons', p.pc + [old['stop'].isnone, z3.Not(S.as_opt(new['stop']).isnone)],
               S.stop_in(new['stop'], ('e_vld', 'e', 'nswp')))
        U.canary('canary-always-stops', p.pc + [old['stop'].isnone], z3.Not(S.as_opt(new['stop']).isnone))


def call_info_appr(ex, st, args, kwargs, node):
    """Call-site contract of teneva._info_appr(info, t, nswp, e, e_vld, log): havoc info['stop'], info['t'];
    assume the postcondition proved by unit utils._info_appr."""
    info = st.deref(args[0])
    old = dict(info.fields)
    nswp, e, e_vld = [a if isinstance(a, VOpt) else (VOpt(z3.BoolVal(a is NONE), Z(0) if a is NONE else a))
                      for a in args[2:5]]
    new = dict(old)
    new['stop'] = VOpt(ex.fresh_bool('stop_none'), VStr(ex.fresh_int('stop_str')))
    new['t'] = ex.fresh_real('t')
    ret = new['stop']
    for lbl, g in info_appr_post(old, new, nswp, e, e_vld, ret).items():
        st.assume(g)
    info.fields.update(new)
    return ret


M.CALLEES['utils._info_appr'] = call_info_appr


# ----------------------------------------------------------------------------------------------
# cross._func_eval — budget / None checks around every objective call (C06), functional part (C05)

def oracle(ex_, st_, name='f'):
    """The objective as a ghost-logged callable: `asked` = total number of rows handed to it."""
    def h(ex, st, args, kwargs, node):
        I = st.deref(args[0])
        n = Z(I.shape[0])
        st.ghost['ncalls'] = st.ghost['ncalls'] + 1
        st.ghost['asked'] = st.ghost['asked'] + n
        st.ghost['last_batch'] = I
        isnone = ex.fresh_bool('f_none')
        st.ghost['answers_none'] = isnone
        return VOpt(isnone, VArr((n,), None, None))
    return VFunc(name, h)


def func_eval_post(old, new, nI, g_old, g_new, ret_none):
    called = g_new['ncalls'] == g_old['ncalls'] + 1
    fits = z3.Or(old['m_max'].isnone, old['m'] + nI <= old['m_max'].val)
    ans_none = g_new.get('answers_none', z3.BoolVal(False))
    ok = z3.And(called, z3.Not(ans_none))
    return {
        'objective-consulted-iff-batch-fits-budget': called == fits,
        'at-most-one-call': z3.Or(called, g_new['ncalls'] == g_old['ncalls']),
        'stop-m-iff-not-consulted': S.stop_is(new['stop'], 'm') == z3.Not(called),
        'stop-func-iff-objective-returned-None': S.stop_is(new['stop'], 'func') == z3.And(called, ans_none),
        'no-stop-on-success': z3.Implies(ok, S.as_opt(new['stop']).isnone),
        'counter-updated-only-after-success': new['m'] == z3.If(ok, old['m'] + nI, old['m']),
        'result-None-iff-stopped': ret_none == z3.Not(S.as_opt(new['stop']).isnone),
        'asked-grows-by-batch-iff-consulted': g_new['asked'] == z3.If(called, g_old['asked'] + nI, g_old['asked']),
        'never-more-than-m-indices': z3.Implies(z3.Not(old['m_max'].isnone), g_new['asked'] <= old['m_max'].val),
        'asked-equals-evaluated-while-running': z3.Implies(S.as_opt(new['stop']).isnone, g_new['asked'] == new['m']),
        'frame': z3.And(new['m_cache'] == old['m_cache'], S.same_opt(new['m_max'], old['m_max']),
                        new['nswp'] == old['nswp'], new['e'] == old['e'], new['e_vld'] == old['e_vld']),
    }


@unit('cross._func_eval.nocache', props=('C06', 'C05'))
def u_func_eval(U):
    fn = U.func('cross', '_func_eval')
    ex = U.executor(fn)
    st = U.state()
    info, old = S.info_record(st)
    nI, dI = z3.Int('nI'), z3.Int('dI')
    I = VArr((nI, dI), None, None, 'i')
    st.ghost.update(asked=z3.Int('asked0'), ncalls=z3.Int('ncalls0'))
    g_old = dict(st.ghost)
    st.vars.update(f=oracle(ex, st), I=I, info=info, cache=NONE)
    pre = [nI >= 0, dI >= 1, old['stop'].isnone, old['m'] >= 0, g_old['asked'] == old['m'],
           z3.Implies(z3.Not(old['m_max'].isnone), old['m'] <= old['m_max'].val)]
    res = U.run(ex, st, pre=pre)
    U.cover('precondition-satisfiable', U.pre)
    for p, o in res:
        if o.kind != 'return':
            U.post('no-exception', p.pc, False)
            continue
        new = p.heap[info.oid].fields
        ret_none = z3.BoolVal(o.value is NONE) if not isinstance(o.value, VOpt) else o.value.isnone
        for lbl, g in func_eval_post(old, new, nI, g_old, p.ghost, ret_none).items():
            U.post(lbl, p.pc, g)
        if o.value is not NONE:
            v = p.deref(o.value)
            U.post('result-one-value-per-row', p.pc, Z(v.shape[0]) == nI if isinstance(v, VArr) and v.ndim == 1 else False)
        U.canary('canary-always-consulted', p.pc, p.ghost['ncalls'] == g_old['ncalls'] + 1)
