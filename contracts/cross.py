"""Sidecar contracts for teneva/cross.py and utils._info_appr (properties C05, C06, C07).

Ghost state of the objective `f` (a logged callable, see `oracle`):
  asked      total number of index rows handed to f so far
  evaluated  total number of rows for which f returned values (not None)
  ncalls     number of calls
"""
import ast as _ast
import z3
from ttvc.units import unit
from ttvc.symex import VOpt, VStr, VRec, VSeq, VArr, VFunc, VTuple, VRef, NONE, Z, strcode
from ttvc import models as M, theory as T
from contracts import spec as S


# ----------------------------------------------------------------------------------------------
# utils._info_appr — priority order of the stop reasons (C06: "stops with exactly one documented reason that is
# consistent with the counters"; shared by cross / als / als_func)

def info_appr_post(old, new, nswp, e, e_vld, ret):
    """Postcondition of _info_appr as label -> formula (taken from the property statement: 'e_vld' / 'e' only when
    the reported value is within [0, threshold], 'nswp' only when the sweep counter reached nswp, priority
    e_vld > e > nswp, an existing reason is never overwritten, everything else in info untouched)."""
    c_vld = z3.And(z3.Not(e_vld.isnone), old['e_vld'] >= 0, old['e_vld'] <= e_vld.val)
    c_e = z3.And(z3.Not(e.isnone), old['e'] >= 0, old['e'] <= e.val)
    c_n = z3.And(z3.Not(nswp.isnone), old['nswp'] >= nswp.val)
    was_none = S.as_opt(old['stop']).isnone
    post = {
        'keeps-earlier-reason': z3.Implies(z3.Not(was_none), S.same_opt(new['stop'], old['stop'])),
        'e_vld-iff-validation-error-within-threshold':
            z3.Implies(was_none, S.stop_is(new['stop'], 'e_vld') == c_vld),
        'e-iff-convergence-within-threshold-and-no-e_vld':
            z3.Implies(was_none, S.stop_is(new['stop'], 'e') == z3.And(z3.Not(c_vld), c_e)),
        'nswp-iff-sweeps-reached-and-nothing-earlier':
            z3.Implies(was_none, S.stop_is(new['stop'], 'nswp') == z3.And(z3.Not(c_vld), z3.Not(c_e), c_n)),
        'no-reason-otherwise':
            z3.Implies(z3.And(was_none, z3.Not(c_vld), z3.Not(c_e), z3.Not(c_n)), S.as_opt(new['stop']).isnone),
        'returns-the-reason': S.same_opt(ret, new['stop']),
        'frame-counters-untouched': z3.And([new[k] == old[k] for k in ('e', 'e_vld', 'nswp', 'r') if k in old]),
    }
    if 'm' in old:
        post['frame-counters-untouched'] = z3.And(post['frame-counters-untouched'], new['m'] == old['m'],
                                                  new['m_cache'] == old['m_cache'],
                                                  S.same_opt(new['m_max'], old['m_max']))
    return post


@unit('utils._info_appr', props=('C06', 'C05', 'C07'))
def u_info_appr(U):
    fn = U.func('utils', '_info_appr')
    ex = U.executor(fn)
    st = U.state()
    info, old = S.info_record(st)
    nswp, e, e_vld = S.opt_int('nswp'), S.opt_real('e'), S.opt_real('e_vld')
    st.vars.update(info=info, t=z3.Real('t0'), nswp=nswp, e=e, e_vld=e_vld, log=False)
    res = U.run(ex, st, pre=[])
    U.cover('some-path', U.pre)
    for p, o in res:
        if o.kind != 'return':
            U.post('no-exception', p.pc, False)
            continue
        new = p.heap[info.oid].fields
        ret = o.value
        for lbl, g in info_appr_post(old, new, nswp, e, e_vld, ret).items():
            U.post(lbl, p, g)
        U.post('only-documented-reasons', p, S.stop_in(new['stop'], ('e_vld', 'e', 'nswp')),
               extra=[old['stop'].isnone, z3.Not(S.as_opt(new['stop']).isnone)])
        U.canary('canary-always-stops', p.pc + [old['stop'].isnone], z3.Not(S.as_opt(new['stop']).isnone))


def _as_opt_arg(a):
    return a if isinstance(a, VOpt) else VOpt(z3.BoolVal(a is NONE), Z(0) if a is NONE else a)


def call_info_appr(ex, st, args, kwargs, node):
    """Call-site contract of teneva._info_appr(info, t, nswp, e, e_vld, log): havoc info['stop'], info['t'];
    assume the postcondition proved by unit utils._info_appr."""
    info = st.deref(args[0])
    old = dict(info.fields)
    for k in ('stop', 'e', 'e_vld', 'nswp'):
        if k not in old:
            ex.oblige(st, 'call-pre', f'_info_appr: info[{k!r}] is set', False, node)
            return NONE
    nswp, e, e_vld = [_as_opt_arg(a) for a in args[2:5]]
    new = dict(old)
    new['stop'] = VOpt(ex.fresh_bool('stop_none'), VStr(ex.fresh_int('stop_str')))
    new['t'] = ex.fresh_real('t')
    ret = new['stop']
    for lbl, g in info_appr_post(old, new, nswp, e, e_vld, ret).items():
        st.assume(g)
    info.fields.update(new)
    return ret


M.CALLEES['utils._info_appr'] = call_info_appr


# ----------------------------------------------------------------------------------------------
# cross._func_eval — budget / None checks around every objective call (C06), cache accounting (C05)

def oracle(ex_, st_, name='f'):
    """The objective as a ghost-logged callable."""
    def h(ex, st, args, kwargs, node):
        I = st.deref(args[0])
        n = Z(I.shape[0])
        st.ghost['ncalls'] = st.ghost['ncalls'] + 1
        st.ghost['asked'] = st.ghost['asked'] + n
        isnone = ex.fresh_bool('f_none')
        st.ghost['answers_none'] = isnone
        st.ghost['evaluated'] = st.ghost['evaluated'] + z3.If(isnone, 0, n)
        st.ghost['last_width'] = I.shape[1] if I.ndim == 2 else None
        return VOpt(isnone, VArr((n,), None, None))
    return VFunc(name, h)


def fresh_ghost(st):
    st.ghost.update(asked=z3.Int('asked0'), evaluated=z3.Int('evaluated0'), ncalls=z3.Int('ncalls0'))
    return dict(st.ghost)


def func_eval_post(old, new, nI, n_new, g_old, g_new, ret_none, with_cache):
    """Postcondition of _func_eval for a batch of nI rows of which n_new are handed to the objective if it is consulted
    (without cache n_new = nI; with a cache n_new = number of rows not yet in the cache).  Taken from C06: never more
    than m indices in total, info['m'] = number of indices actually evaluated, every other request counted in
    info['m_cache'], 'm' only when the next batch would exceed the budget, 'func' when the objective returned None,
    counters change only after a successful call."""
    fits = z3.Or(old['m_max'].isnone, old['m'] + n_new <= old['m_max'].val)
    wanted = n_new > 0 if with_cache else z3.BoolVal(True)          # is there anything to ask?
    called = g_new['ncalls'] == g_old['ncalls'] + 1
    none = g_new.get('answers_none', z3.BoolVal(False))
    blocked = z3.And(wanted, z3.Not(fits))
    success = z3.And(z3.Not(blocked), z3.Not(z3.And(called, none)))
    return {
        'objective-consulted-iff-something-to-ask-and-it-fits-the-budget': called == z3.And(wanted, fits),
        'at-most-one-call': z3.Or(called, g_new['ncalls'] == g_old['ncalls']),
        'asked-grows-by-the-new-rows-iff-consulted': g_new['asked'] == g_old['asked'] + z3.If(called, n_new, 0),
        'evaluated-grows-iff-answered': g_new['evaluated'] == g_old['evaluated'] + z3.If(z3.And(called, z3.Not(none)), n_new, 0),
        'stop-m-when-budget-blocks': z3.Implies(blocked, S.stop_is(new['stop'], 'm')),
        'stop-func-when-objective-returns-None': z3.Implies(z3.And(called, none), S.stop_is(new['stop'], 'func')),
        'stop-unchanged-on-success': z3.Implies(success, S.same_opt(new['stop'], old['stop'])),
        'evaluated-counter-only-after-success': new['m'] == old['m'] + z3.If(success, n_new, 0),
        'cache-hit-counter': new['m_cache'] == old['m_cache'] + (z3.If(success, nI - n_new, 0) if with_cache else 0),
        'result-None-iff-not-successful': ret_none == z3.Not(success),
        'frame': z3.And(S.same_opt(new['m_max'], old['m_max']), new['nswp'] == old['nswp'], new['e'] == old['e'],
                        new['e_vld'] == old['e_vld'], new['r'] == old['r']),
    }


def func_eval_consequences(old, new, nI, g_old, g_new):
    """What C06 states, derived from the postcondition under the caller's invariant asked = evaluated = info['m'] and
    asked <= m_max: the budget is never exceeded and info['m'] keeps counting exactly the evaluated indices."""
    return {
        'never-more-than-m-indices-in-total': z3.Implies(z3.Not(old['m_max'].isnone), g_new['asked'] <= old['m_max'].val),
        'info-m-equals-number-of-evaluated-indices': new['m'] == g_new['evaluated'],
        'stop-m-only-when-nothing-was-asked':
            z3.Implies(z3.And(S.stop_is(new['stop'], 'm'), z3.Not(S.stop_is(old['stop'], 'm'))),
                       z3.And(z3.Not(old['m_max'].isnone), g_new['asked'] == g_old['asked'])),
        'requests-are-evaluated-or-cached-on-success':
            z3.Implies(z3.And(S.as_opt(old['stop']).isnone, S.as_opt(new['stop']).isnone),
                       new['m'] + new['m_cache'] == old['m'] + old['m_cache'] + z3.If(new['m_cache'] == old['m_cache'],
                                                                                      new['m'] - old['m'], nI)),
    }


def caller_invariant(f, g):
    return [f['m'] >= 0, f['m_cache'] >= 0, g['asked'] == f['m'], g['evaluated'] == f['m'],
            z3.Implies(z3.Not(f['m_max'].isnone), f['m'] <= f['m_max'].val)]


def _func_eval_unit(U, with_cache):
    fn = U.func('cross', '_func_eval')
    st = U.state()
    info, old = S.info_record(st)
    nI, dI = z3.Int('nI'), z3.Int('dI')
    I = VArr((nI, dI), None, None, 'i')
    g_old = fresh_ghost(st)
    ncalls0 = g_old['ncalls']
    cache = st.alloc(M.VMap('cache')) if with_cache else NONE

    def body_end(ex_, s_, o_, j_):
        # the loop that fills the cache runs only after the objective answered, once per new row
        if s_.heap[cache.oid].writes > 0:
            ex_.oblige(s_, 'post', 'cache-written-only-after-a-successful-call',
                       z3.And(s_.ghost['ncalls'] == ncalls0 + 1, z3.Not(s_.ghost.get('answers_none', z3.BoolVal(True)))), None,
                       assume=False)

    loops = {0: {'inv': lambda ex_, s_, j_: [], 'body_end': body_end}} if with_cache else {}
    ex = U.executor(fn, loops=loops)
    st.vars.update(f=oracle(ex, st), I=I, info=info, cache=cache)
    pre = [nI >= 0, dI >= 1] + caller_invariant(old, g_old)
    res = U.run(ex, st, pre=pre)
    U.cover('precondition-satisfiable', U.pre)
    U.cover('reachable-with-a-reason-already-set', U.pre + [z3.Not(old['stop'].isnone)])
    for p, o in res:
        if o.kind != 'return':
            U.post('no-exception', p, False)
            continue
        new = p.heap[info.oid].fields
        ret_none = z3.BoolVal(o.value is NONE) if not isinstance(o.value, VOpt) else o.value.isnone
        if with_cache:
            filt = p.ghost.get('filtered', [])
            if len(filt) != 1:
                raise M.ContractMismatch('_func_eval(cache): expected exactly one filtered comprehension (rows not in the cache)')
            n_new = filt[0][1]
            U.post('filter-ranges-over-the-requested-rows', p, filt[0][0] == nI)
        else:
            n_new = nI
        for lbl, g in func_eval_post(old, new, nI, n_new, g_old, p.ghost, ret_none, with_cache).items():
            U.post(lbl, p, g)
        for lbl, g in func_eval_consequences(old, new, nI, g_old, p.ghost).items():
            U.post(lbl, p, g)
        if o.value is not NONE:
            v = p.deref(o.value)
            U.post('result-one-value-per-requested-row', p, Z(v.shape[0]) == nI if isinstance(v, VArr) and v.ndim == 1 else False)
        U.canary('canary-always-consulted', p, p.ghost['ncalls'] == ncalls0 + 1)


@unit('cross._func_eval.nocache', props=('C06', 'C05'))
def u_func_eval(U):
    _func_eval_unit(U, False)


@unit('cross._func_eval.cache', props=('C06', 'C05'))
def u_func_eval_cache(U):
    _func_eval_unit(U, True)


def _havoc_eval(ex, st, info, N, with_cache, node, who):
    """Shared by the call-site contracts of _func_eval and _func: havoc the counters / the objective's log and assume
    the postcondition proved by the units cross._func_eval.*"""
    old = dict(info.fields)
    g_old = dict(st.ghost)
    for c in caller_invariant(old, g_old):
        ex.oblige(st, 'call-pre', f'{who}: counters consistent (asked = evaluated = info[m] <= m_max)', c, node)
    new = dict(old)
    new['stop'] = VOpt(ex.fresh_bool('stop_none'), VStr(ex.fresh_int('stop_str')))
    new['m'], new['m_cache'] = ex.fresh_int('m'), ex.fresh_int('m_cache')
    for k in ('asked', 'evaluated', 'ncalls'):
        st.ghost[k] = ex.fresh_int(k)
    st.ghost['answers_none'] = ex.fresh_bool('f_none')
    n_new = N
    if with_cache:
        n_new = ex.fresh_int('n_new')
        st.assume(n_new >= 0, n_new <= N)
    ret_none = ex.fresh_bool('ret_none')
    for lbl, g in func_eval_post(old, new, N, n_new, g_old, st.ghost, ret_none, with_cache).items():
        st.assume(g)
    for lbl, g in func_eval_consequences(old, new, N, g_old, st.ghost).items():
        st.assume(g)
    info.fields.update(new)
    st.ghost['last_request'] = dict(N=N, n_new=n_new, old=old, g_old=g_old, ret_none=ret_none)
    return ret_none


def call_func_eval(ex, st, args, kwargs, node):
    """Call-site contract of _func_eval(f, I, info, cache)."""
    I = st.deref(args[1])
    info = st.deref(args[2])
    cache = st.deref(args[3]) if len(args) > 3 else st.deref(kwargs.get('cache', NONE))
    if isinstance(cache, VOpt):
        raise M.Unsupported('_func_eval with a cache of unknown None-ness: split the contract case')
    nI = Z(I.shape[0])
    ret_none = _havoc_eval(ex, st, info, nI, cache is not NONE, node, '_func_eval')
    st.ghost.setdefault('eval_calls', []).append(dict(I=I, nI=nI))
    return VOpt(ret_none, VArr((nI,), None, None))


M.CALLEES['cross._func_eval'] = call_func_eval


# ----------------------------------------------------------------------------------------------
# cross._func — assembly of the index batch (C06 domain / layout) around one _func_eval call

AXF = T.axioms('mulI')


def _func_unit(U, has_r, has_c):
    fn = U.func('cross', '_func')
    ex = U.executor(fn, axioms=AXF)
    st = U.state()
    info, old = S.info_record(st)
    g_old = fresh_ghost(st)
    n, r1, w1, r2, w2 = z3.Ints('n r1 w1 r2 w2')
    Ig = VArr((n, 1), None, None, 'i')
    Ir = VArr((r1, w1), None, None, 'i') if has_r else NONE
    Ic = VArr((r2, w2), None, None, 'i') if has_c else NONE
    st.vars.update(f=M.VOpaque('f'), Ig=Ig, Ir=Ir, Ic=Ic, info=info, cache=NONE)
    pre = [n >= 1, r1 >= 1, r2 >= 1, w1 >= 1, w2 >= 1] + caller_invariant(old, g_old)
    res = U.run(ex, st, pre=pre)
    U.cover('precondition-satisfiable', U.pre, axioms=AXF)
    R1 = r1 if has_r else z3.IntVal(1)
    R2 = r2 if has_c else z3.IntVal(1)
    N = T.mul_canon(R1, n, R2)
    width = (w1 if has_r else 0) + 1 + (w2 if has_c else 0)
    for p, o in res:
        if o.kind != 'return':
            U.post('no-exception', p, False, axioms=AXF)
            continue
        calls = p.ghost.get('eval_calls', [])
        U.post('exactly-one-evaluation-request', p, z3.BoolVal(len(calls) == 1))
        if len(calls) != 1:
            continue
        I = calls[0]['I']
        U.post('batch-has-one-row-per-entry-of-the-cross', p, calls[0]['nI'] == N, axioms=AXF)
        U.post('batch-rows-are-multi-indices-of-width-left+1+right', p,
               Z(I.shape[1]) == width if isinstance(I, VArr) and I.ndim == 2 else False, axioms=AXF)
        U.post('batch-is-integer-valued', p, z3.BoolVal(isinstance(I, VArr) and I.dtype == 'i'))
        refused = p.ghost['last_request']['ret_none']
        if o.value is NONE:
            U.post('returns-None-only-when-evaluation-returned-None', p, refused)
        else:
            v = p.deref(o.value)
            ok = isinstance(v, VArr) and v.ndim == 3
            U.post('returns-block-only-when-evaluation-succeeded', p, z3.Not(refused))
            U.post('result-is-the-r1-x-n-x-r2-block', p,
                   z3.And(Z(v.shape[0]) == R1, Z(v.shape[1]) == n, Z(v.shape[2]) == R2) if ok else False, axioms=AXF)


for _hr in (False, True):
    for _hc in (False, True):
        def _mk(hr=_hr, hc=_hc):
            @unit(f'cross._func.{"r" if hr else "-"}{"c" if hc else "-"}', props=('C06', 'C05'))
            def u(U):
                _func_unit(U, hr, hc)
        _mk()


def call_func(ex, st, args, kwargs, node):
    """Call-site contract of cross._func(f, Ig, Ir, Ic, info, cache) for the control tier of cross(): the batch has
    some number N >= 0 of rows; the effect on info and on the objective's log is that of one _func_eval call; the result
    is None iff the evaluation was refused / failed."""
    info = st.deref(args[4])
    cache = st.deref(args[5]) if len(args) > 5 else NONE
    N = ex.fresh_int('Nbatch')
    st.assume(N >= 0)
    ret_none = _havoc_eval(ex, st, info, N, cache is not NONE, node, '_func')
    return VOpt(ret_none, M.VOpaque('Z'))


M.CALLEES['cross._func'] = call_func


# ----------------------------------------------------------------------------------------------
# cross() head: argument validation (C06: "missing stop criteria are rejected with ValueError before any evaluation")

def opt_arr(name):
    return VOpt(z3.Bool(name + '_none'), M.VOpaque(name))


def _is_head_end(stmt):
    return isinstance(stmt, _ast.Assign) and isinstance(stmt.targets[0], _ast.Name) and stmt.targets[0].id == '_time'


@unit('cross.cross.validate', props=('C06',))
def u_cross_validate(U):
    fn = U.func('cross', 'cross')
    # the head ends where the clock is read for the first time
    if not any(_is_head_end(s_) for s_ in fn.body):
        raise M.ContractMismatch('cross(): the statement `_time = tpc()` that ends the validation head is gone')
    ex = U.executor(fn, stop_at=_is_head_end)
    st = U.state()
    m, e, nswp, e_vld = S.opt_int('m'), S.opt_real('e'), S.opt_int('nswp'), S.opt_real('e_vld')
    I_vld, y_vld = opt_arr('I_vld'), opt_arr('y_vld')
    info = st.alloc(VRec({}))                 # possibly the shared default dict: nothing may be read before the update
    g_old = fresh_ghost(st)
    st.vars.update(f=oracle(ex, st), Y0=M.VOpaque('Y0'), m=m, e=e, nswp=nswp, tau=z3.Real('tau'), dr_min=z3.Int('dr_min'),
                   dr_max=z3.Int('dr_max'), tau0=z3.Real('tau0'), k0=z3.Int('k0'), info=info, cache=NONE, I_vld=I_vld,
                   y_vld=y_vld, e_vld=e_vld, cb=NONE, func=NONE, m_cache_scale=z3.Real('mcs'), log=False)
    res = U.run(ex, st)
    no_vld = z3.Or(I_vld.isnone, y_vld.isnone)
    bad = z3.Or(z3.And(m.isnone, e.isnone, nswp.isnone, z3.Or(no_vld, e_vld.isnone)), z3.And(z3.Not(e_vld.isnone), no_vld))
    U.cover('rejecting-reachable', [bad])
    U.cover('accepting-reachable', [z3.Not(bad)])
    for p, o in res:
        if o.kind == 'raise':
            U.raise_iff('rejects-only-missing-stop-criteria-or-missing-validation-data', p, bad)
            U.raise_iff('raises-ValueError', p, o.exc == 'ValueError')
            U.raise_iff('rejected-before-any-evaluation', p, z3.And(p.ghost['ncalls'] == g_old['ncalls'],
                                                                  z3.BoolVal(len(p.heap[info.oid].fields) == 0)))
        elif o.kind == 'stop':
            U.raise_iff('accepts-only-sufficient-stop-criteria', p, z3.Not(bad))
            U.raise_iff('no-evaluation-during-validation', p, p.ghost['ncalls'] == g_old['ncalls'])
        else:
            U.post('head-ends-at-the-clock', p, False)
    U.canary('canary-never-rejects', [], z3.Not(bad))
