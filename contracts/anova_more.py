"""Sidecar contracts for the rest of teneva/anova.py and for anova_func.ANOVA_func.cores (C13, partly C10 / C11).

`self` is a record (VRec) of the attributes a contract case uses; the methods a function calls on `self` are fields of that record
holding callee contracts (VFunc), see ttvc/mx_anova.py.  Spec functions (asum, ccnt, csum, cmean, rmean, dotp) are declared there."""
import z3
from ttvc.units import unit
from ttvc.symex import VOpt, VStr, VRec, VSeq, VArr, VFunc, VTuple, VRef, VList, VSym, VOpaque, NONE, Z
from ttvc import models as M, theory as T, vec as V, rnd as R
from ttvc import mx_anova as X
from contracts import spec as S
from contracts.act import val

IA, RA, RAA = X.IA, X.RA, X.RAA
AXC = T.axioms('shape', 'centry')


# ----------------------------------------------------------------------------------------------
# ANOVA.cores_1, noise = 0: the VALUE of the returned tensor.
#
# The unit runs the real cores_1 (as contracts/anova.py does), re-derives the core pattern from the final state and then proves, by
# induction over the chain of slices, the statement of C13:
#     val(cores, i) = f0 + sum_k f1_k[i_k]          for every multi-index i of the observed domain (0 <= i_k < shapes[k]),
# for every rank r >= 2 and every d >= 2.  The induction carries the row vector  chain(k) = [1, sum_{t<=k} f1_t[i_t], 0, .., 0].
# The matrix products are evaluated entry-wise: ent(mm(P, S), 0, b) = dotp(P, 0, S, b, r) (group 'dotp'), the tail of the dot
# product beyond the first two columns vanishes because the tail of the row P does (lemma schema `dot-tail`, itself an induction),
# and the two leading terms are written out (lemma schema `dot-2`).  Entries of slices are entries of cores (group 'slent').
# NOT covered: noise > 0 (the result then differs from the model by terms of the order of the noise: bounded suite C13).

def _pattern_fns(F1, f0, shapes, d, r, noise):
    a_, m_, b_ = z3.Ints('a m b')

    def pattern(G, k):
        e = T.centry(G, a_, m_, b_)
        first = z3.And(z3.Implies(z3.And(a_ == 0, b_ == 0), e == 1), z3.Implies(z3.And(a_ == 0, b_ == 1), e == F1[k][m_]))
        mid = z3.And(z3.Implies(z3.And(a_ == 0, b_ == 0), e == 1), z3.Implies(z3.And(a_ == 1, b_ == 1), e == 1),
                     z3.Implies(z3.And(a_ == 0, b_ == 1), e == F1[k][m_]))
        last = z3.And(z3.Implies(z3.And(a_ == 0, b_ == 0), e == F1[k][m_] + f0), z3.Implies(z3.And(a_ == 1, b_ == 0), e == 1))
        desig = z3.If(k == 0, z3.And(a_ == 0, b_ <= 1), z3.If(k == d - 1, z3.And(a_ <= 1, b_ == 0),
                                                              z3.Or(z3.And(a_ == 0, b_ <= 1), z3.And(a_ == 1, b_ == 1))))
        rng_ok = z3.And(0 <= a_, a_ < T.d0(G), 0 <= m_, m_ < T.d1(G), 0 <= b_, b_ < T.d2(G))
        return z3.Implies(rng_ok, z3.And(z3.If(k == 0, first, z3.If(k == d - 1, last, mid)),
                                         z3.Implies(z3.And(z3.Not(desig), noise == 0), e == 0)))

    def dims(G, k):
        return z3.And(T.d0(G) == z3.If(k == 0, 1, r), T.d1(G) == shapes[k], T.d2(G) == z3.If(k == d - 1, 1, r))
    return pattern, dims, (a_, m_, b_)


AXV = T.axioms('shape', 'centry', 'chain', 'dotp', 'slent', 'asum')


def dot_lemmas(U):
    """Two lemma schemas about the partial dot product, proved for ARBITRARY constants P, S, i, j, rr (nothing else in the context),
    hence usable for any terms:  dot-2 (closed, returned as a quantified fact) and dot-tail (returned as a function that gives the
    premise and the conclusion of an instance)."""
    P, Sm = z3.Consts('P!l S!l', T.Mat)
    i, j, c, rr, b = z3.Ints('i!l j!l c!l r!l b!l')
    AXD = T.axioms('dotp', 'centry')
    two = lambda A, i_, B, j_: T.rmul(T.ent(A, i_, 0), T.ent(B, 0, j_)) + T.rmul(T.ent(A, i_, 1), T.ent(B, 1, j_))
    step = lambda c0: X.dotp(P, i, Sm, j, c0 + 1) == X.dotp(P, i, Sm, j, c0) + T.rmul(T.ent(P, i, c0), T.ent(Sm, c0, j))
    # hint instances of the recursive definition at c = 0, 1 (they name the intermediate partial sums)
    U.lemma('dot-2: the-first-two-terms-of-a-dot-product-written-out', [], X.dotp(P, i, Sm, j, 2) == two(P, i, Sm, j), axioms=AXD, mode='ematch',
            extra=[step(z3.IntVal(0)), step(z3.IntVal(1)), X.dotp(P, i, Sm, j, 0) == 0])
    tail_zero = z3.ForAll([b], z3.Implies(z3.And(2 <= b, b < rr), T.ent(P, i, b) == 0), patterns=[T.ent(P, i, b)])
    U.lemma('dot-tail.base', [tail_zero, rr >= 2], X.dotp(P, i, Sm, j, 2) == X.dotp(P, i, Sm, j, 2), axioms=AXD, mode='ematch', kind='lemma-base')
    U.lemma('dot-tail.step', [tail_zero, rr >= 2, 2 <= c, c + 1 <= rr, X.dotp(P, i, Sm, j, c) == X.dotp(P, i, Sm, j, 2)],
            X.dotp(P, i, Sm, j, c + 1) == X.dotp(P, i, Sm, j, 2), axioms=AXD, mode='ematch', kind='lemma-step')
    A_, B_ = z3.Consts('A!l B!l', T.Mat)
    dot2 = z3.ForAll([A_, i, B_, j], X.dotp(A_, i, B_, j, 2) == two(A_, i, B_, j), patterns=[X.dotp(A_, i, B_, j, 2)])

    def tail(Pt, it, St, rt):
        """instance for the row `it` of Pt, the matrix St and the length rt >= 2: (premise, conclusion for every column j)"""
        prem = z3.And(rt >= 2, z3.ForAll([b], z3.Implies(z3.And(2 <= b, b < rt), T.ent(Pt, it, b) == 0), patterns=[T.ent(Pt, it, b)]))
        concl = z3.ForAll([j], X.dotp(Pt, it, St, j, rt) == X.dotp(Pt, it, St, j, 2), patterns=[X.dotp(Pt, it, St, j, rt)])
        return prem, concl
    return dot2, tail


@unit('anova_more.ANOVA.cores_1.value', props=('C13',))
def u_cores_1_value(U):
    fn = U.func('anova', 'ANOVA.cores_1')
    st = U.state()
    d, r = z3.Int('d'), z3.Int('r')
    noise, f0 = z3.Real('noise'), z3.Real('f0')
    shapes, F1 = z3.Const('shapes', IA), z3.Const('f1', RAA)
    f1ref = st.alloc(VSeq(F1, d, lambda tt: V.RVec(shapes[tt.arg(1)], tt), tag='rvecs'))
    selfrec = st.alloc(VRec({'rand': R.VGen('seed'), 'shapes': VArr((d,), shapes, 'ivec', 'i'), 'f1_arr': f1ref, 'f0': f0, 'd': d}))
    pattern, dims, (a_, m_, b_) = _pattern_fns(F1, f0, shapes, d, r, noise)
    kq, t, kk = z3.Int('k!q'), z3.Int('t!a'), z3.Int('kk')

    def all_dims(C, upto):
        return z3.ForAll([kq], z3.Implies(z3.And(0 <= kq, kq < upto), dims(C[kq], kq)), patterns=[C[kq]])

    def all_pattern(C, upto):
        return z3.ForAll([kq, a_, m_, b_], z3.Implies(z3.And(0 <= kq, kq < upto), pattern(C[kq], kq)), patterns=[T.centry(C[kq], a_, m_, b_)])

    def inv(ex, s, j):
        Cs = s.deref(s.vars['cores'])
        return [('one-core-per-processed-mode', Cs.n == j + 1), ('shapes-so-far', all_dims(Cs.arr, j + 1)), ('pattern-so-far', all_pattern(Cs.arr, j + 1))]

    ex = U.executor(fn, loops={0: {'inv': inv}}, axioms=AXC, type_hints={'cores': 'tt'})
    ex.mode = 'ematch'
    st.vars.update(self=selfrec, r=r, noise=noise)
    pre = [d >= 2, r >= 2, noise == 0, z3.ForAll([t], z3.Implies(z3.And(0 <= t, t < d), shapes[t] >= 1), patterns=[shapes[t]])]
    res = U.run(ex, st, pre=pre)
    U.cover('precondition-satisfiable', U.pre, axioms=AXC)
    dot2, tail = dot_lemmas(U)
    ix = z3.Const('ix', T.IDX)
    ixok = z3.ForAll([t], z3.Implies(z3.And(0 <= t, t < d), z3.And(0 <= ix[t], ix[t] < shapes[t])), patterns=[ix[t]])
    bq = z3.Int('b!q')
    for p, o in res:
        if o.kind != 'return':
            U.post('no-exception', p, False, axioms=AXC, mode='ematch')
            continue
        Cs = p.deref(o.value)
        C = Cs.arr
        U.post('d-cores', p, Cs.n == d, axioms=AXC, mode='ematch')
        U.post('core-shapes-(1,n,r)-(r,n,r)-(r,n,1)', p, z3.Implies(z3.And(0 <= kk, kk < d), dims(C[kk], kk)), axioms=AXC, mode='ematch')
        U.post('designated-entries-are-the-additive-model-pattern-and-every-other-entry-is-zero', p,
               z3.Implies(z3.And(0 <= kk, kk < d), pattern(C[kk], kk)), axioms=AXC, mode='ematch')
        # from here on only the three facts just proved are used (and the preconditions)
        ctx = list(pre) + [ixok, all_dims(C, d), all_pattern(C, d), dot2]
        ch = lambda k: T.chain(C, ix, k)

        def Q(k, k1):
            """chain(k) = [1, asum(k1), 0, ..., 0] (1 x r), k1 = k + 1"""
            return z3.And(T.rows(ch(k)) == 1, T.cols(ch(k)) == r, T.ent(ch(k), 0, 0) == 1, T.ent(ch(k), 0, 1) == X.asum(F1, ix, k1),
                          z3.ForAll([bq], z3.Implies(z3.And(2 <= bq, bq < r), T.ent(ch(k), 0, bq) == 0), patterns=[T.ent(ch(k), 0, bq)]))
        U.lemma('partial-chain-is-the-row-(1, partial-sum, 0, ..).base', ctx, Q(z3.IntVal(0), z3.IntVal(1)), axioms=AXV, mode='ematch', kind='lemma-base',
                extra=[X.asum(F1, ix, 0) == 0])
        S_k = T.sl(C[kk], ix[kk])
        prem, concl = tail(ch(kk - 1), z3.IntVal(0), S_k, r)
        step_ctx = ctx + [1 <= kk, kk <= d - 2, Q(kk - 1, kk)]
        U.lemma('partial-chain-is-the-row-(1, partial-sum, 0, ..).step.premise-of-dot-tail', step_ctx, prem, axioms=AXV, mode='ematch', kind='lemma-step')
        U.lemma('partial-chain-is-the-row-(1, partial-sum, 0, ..).step', step_ctx + [concl], Q(kk, kk + 1), axioms=AXV, mode='ematch', kind='lemma-step')
        allQ = z3.ForAll([kq], z3.Implies(z3.And(0 <= kq, kq <= d - 2), Q(kq, kq + 1)), patterns=[ch(kq)])
        # last core: [f1 + f0, 1, 0, ..]^T
        dm, dl = z3.Ints('d!m2 d!m1')
        names = [dm == d - 2, dl == d - 1]
        S_l = T.sl(C[dl], ix[dl])
        prem_l, concl_l = tail(ch(dm), z3.IntVal(0), S_l, r)
        fin_ctx = ctx + names + [Q(dm, dl)]
        U.lemma('value.premise-of-dot-tail', fin_ctx, prem_l, axioms=AXV, mode='ematch')
        goal = T.ent(T.chain(C, ix, dl), 0, 0) == f0 + X.asum(F1, ix, d)
        U.lemma('value.last-step-of-the-chain', fin_ctx + [concl_l], goal, axioms=AXV, mode='ematch')
        # the statement of C13 (noise = 0), assembled: Q(d-2) is an instance of the induction, the last step was just proved
        U.post('evaluates-at-every-multi-index-of-the-observed-domain-to-f0-plus-the-sum-of-the-per-mode-terms',
               ctx + [allQ, z3.Implies(Q(dm, dl), goal)] + names, val(C, ix, d) == f0 + X.asum(F1, ix, d), axioms=AXV, mode='ematch')
        U.canary('canary-value-is-the-constant-term-alone', ctx + [allQ], val(C, ix, d) == f0, axioms=AXV)
        U.canary('canary-context-of-the-induction-step', step_ctx + [concl], False, axioms=AXV)
        U.canary('canary-context-of-the-last-step', fin_ctx + [concl_l], False, axioms=AXV)
        U.post('fitted-tables-untouched', p, z3.BoolVal(p.heap[f1ref.oid].arr is F1 and p.heap[selfrec.oid].fields['f0'] is f0))
