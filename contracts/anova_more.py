"""Sidecar contracts for the rest of teneva/anova.py and for anova_func.ANOVA_func.cores (C13, partly C10 / C11).

`self` is a record (VRec) of the attributes a contract case uses; the methods a function calls on `self` are fields of that record
holding callee contracts (VFunc), see ttvc/mx_anova.py.  Spec functions (asum, ccnt, csum, cmean, rmean, dotp) are declared there."""
import z3
from ttvc.units import unit
from ttvc.symex import VOpt, VStr, VRec, VSeq, VArr, VFunc, VTuple, VRef, VList, VSym, VOpaque, NONE, Z
from ttvc import models as M, theory as T, vec as V, rnd as R
from ttvc import mx_anova as X
from contracts import spec as S
from contracts.act import val

IA, RA, RAA = X.IA, X.RA, X.RAA
AXC = T.axioms('shape', 'centry')


# ----------------------------------------------------------------------------------------------
# ANOVA.cores_1, noise = 0: the VALUE of the returned tensor.
#
# The unit runs the real cores_1 (as contracts/anova.py does), re-derives the core pattern from the final state and then proves, by
# induction over the chain of slices, the statement of C13:
#     val(cores, i) = f0 + sum_k f1_k[i_k]          for every multi-index i of the observed domain (0 <= i_k < shapes[k]),
# for every rank r >= 2 and every d >= 2.  The induction carries the row vector  chain(k) = [1, sum_{t<=k} f1_t[i_t], 0, .., 0].
# The matrix products are evaluated entry-wise: ent(mm(P, S), 0, b) = dotp(P, 0, S, b, r) (group 'dotp'), the tail of the dot
# product beyond the first two columns vanishes because the tail of the row P does (lemma schema `dot-tail`, itself an induction),
# and the two leading terms are written out (lemma schema `dot-2`).  Entries of slices are entries of cores (group 'slent').
# NOT covered: noise > 0 (the result then differs from the model by terms of the order of the noise: bounded suite C13).

def _pattern_fns(F1, f0, shapes, d, r, noise):
    a_, m_, b_ = z3.Ints('a m b')

    def pattern(G, k):
        e = T.centry(G, a_, m_, b_)
        first = z3.And(z3.Implies(z3.And(a_ == 0, b_ == 0), e == 1), z3.Implies(z3.And(a_ == 0, b_ == 1), e == F1[k][m_]))
        mid = z3.And(z3.Implies(z3.And(a_ == 0, b_ == 0), e == 1), z3.Implies(z3.And(a_ == 1, b_ == 1), e == 1),
                     z3.Implies(z3.And(a_ == 0, b_ == 1), e == F1[k][m_]))
        last = z3.And(z3.Implies(z3.And(a_ == 0, b_ == 0), e == F1[k][m_] + f0), z3.Implies(z3.And(a_ == 1, b_ == 0), e == 1))
        desig = z3.If(k == 0, z3.And(a_ == 0, b_ <= 1), z3.If(k == d - 1, z3.And(a_ <= 1, b_ == 0),
                                                              z3.Or(z3.And(a_ == 0, b_ <= 1), z3.And(a_ == 1, b_ == 1))))
        rng_ok = z3.And(0 <= a_, a_ < T.d0(G), 0 <= m_, m_ < T.d1(G), 0 <= b_, b_ < T.d2(G))
        return z3.Implies(rng_ok, z3.And(z3.If(k == 0, first, z3.If(k == d - 1, last, mid)),
                                         z3.Implies(z3.And(z3.Not(desig), noise == 0), e == 0)))

    def dims(G, k):
        return z3.And(T.d0(G) == z3.If(k == 0, 1, r), T.d1(G) == shapes[k], T.d2(G) == z3.If(k == d - 1, 1, r))
    return pattern, dims, (a_, m_, b_)


AXV = T.axioms('shape', 'centry', 'chain', 'dotp', 'slent', 'asum')


def dot_lemmas(U):
    """Two lemma schemas about the partial dot product, proved for ARBITRARY constants P, S, i, j, rr (nothing else in the context),
    hence usable for any terms:  dot-2 (closed, returned as a quantified fact) and dot-tail (returned as a function that gives the
    premise and the conclusion of an instance)."""
    P, Sm = z3.Consts('P!l S!l', T.Mat)
    i, j, c, rr, b = z3.Ints('i!l j!l c!l r!l b!l')
    AXD = T.axioms('dotp', 'centry')
    two = lambda A, i_, B, j_: T.rmul(T.ent(A, i_, 0), T.ent(B, 0, j_)) + T.rmul(T.ent(A, i_, 1), T.ent(B, 1, j_))
    step = lambda c0: X.dotp(P, i, Sm, j, c0 + 1) == X.dotp(P, i, Sm, j, c0) + T.rmul(T.ent(P, i, c0), T.ent(Sm, c0, j))
    # hint instances of the recursive definition at c = 0, 1 (they name the intermediate partial sums)
    U.lemma('dot-2: the-first-two-terms-of-a-dot-product-written-out', [], X.dotp(P, i, Sm, j, 2) == two(P, i, Sm, j), axioms=AXD, mode='ematch',
            extra=[step(z3.IntVal(0)), step(z3.IntVal(1)), X.dotp(P, i, Sm, j, 0) == 0])
    tail_zero = z3.ForAll([b], z3.Implies(z3.And(2 <= b, b < rr), T.ent(P, i, b) == 0), patterns=[T.ent(P, i, b)])
    U.lemma('dot-tail.base', [tail_zero, rr >= 2], X.dotp(P, i, Sm, j, 2) == X.dotp(P, i, Sm, j, 2), axioms=AXD, mode='ematch', kind='lemma-base')
    U.lemma('dot-tail.step', [tail_zero, rr >= 2, 2 <= c, c + 1 <= rr, X.dotp(P, i, Sm, j, c) == X.dotp(P, i, Sm, j, 2)],
            X.dotp(P, i, Sm, j, c + 1) == X.dotp(P, i, Sm, j, 2), axioms=AXD, mode='ematch', kind='lemma-step')
    A_, B_ = z3.Consts('A!l B!l', T.Mat)
    dot2 = z3.ForAll([A_, i, B_, j], X.dotp(A_, i, B_, j, 2) == two(A_, i, B_, j), patterns=[X.dotp(A_, i, B_, j, 2)])

    def tail(Pt, it, St, rt):
        """instance for the row `it` of Pt, the matrix St and the length rt >= 2: (premise, conclusion for every column j)"""
        prem = z3.And(rt >= 2, z3.ForAll([b], z3.Implies(z3.And(2 <= b, b < rt), T.ent(Pt, it, b) == 0), patterns=[T.ent(Pt, it, b)]))
        concl = z3.ForAll([j], X.dotp(Pt, it, St, j, rt) == X.dotp(Pt, it, St, j, 2), patterns=[X.dotp(Pt, it, St, j, rt)])
        return prem, concl
    return dot2, tail


@unit('anova_more.ANOVA.cores_1.value', props=('C13',))
def u_cores_1_value(U):
    fn = U.func('anova', 'ANOVA.cores_1')
    st = U.state()
    d, r = z3.Int('d'), z3.Int('r')
    noise, f0 = z3.Real('noise'), z3.Real('f0')
    shapes, F1 = z3.Const('shapes', IA), z3.Const('f1', RAA)
    f1ref = st.alloc(VSeq(F1, d, lambda tt: V.RVec(shapes[tt.arg(1)], tt), tag='rvecs'))
    selfrec = st.alloc(VRec({'rand': R.VGen('seed'), 'shapes': VArr((d,), shapes, 'ivec', 'i'), 'f1_arr': f1ref, 'f0': f0, 'd': d}))
    pattern, dims, (a_, m_, b_) = _pattern_fns(F1, f0, shapes, d, r, noise)
    kq, t, kk = z3.Int('k!q'), z3.Int('t!a'), z3.Int('kk')

    def all_dims(C, upto):
        return z3.ForAll([kq], z3.Implies(z3.And(0 <= kq, kq < upto), dims(C[kq], kq)), patterns=[C[kq]])

    def all_pattern(C, upto):
        return z3.ForAll([kq, a_, m_, b_], z3.Implies(z3.And(0 <= kq, kq < upto), pattern(C[kq], kq)), patterns=[T.centry(C[kq], a_, m_, b_)])

    def inv(ex, s, j):
        Cs = s.deref(s.vars['cores'])
        return [('one-core-per-processed-mode', Cs.n == j + 1), ('shapes-so-far', all_dims(Cs.arr, j + 1)), ('pattern-so-far', all_pattern(Cs.arr, j + 1))]

    ex = U.executor(fn, loops={0: {'inv': inv}}, axioms=AXC, type_hints={'cores': 'tt'})
    ex.mode = 'ematch'
    st.vars.update(self=selfrec, r=r, noise=noise)
    pre = [d >= 2, r >= 2, noise == 0, z3.ForAll([t], z3.Implies(z3.And(0 <= t, t < d), shapes[t] >= 1), patterns=[shapes[t]])]
    res = U.run(ex, st, pre=pre)
    U.cover('precondition-satisfiable', U.pre, axioms=AXC)
    dot2, tail = dot_lemmas(U)
    ix = z3.Const('ix', T.IDX)
    ixok = z3.ForAll([t], z3.Implies(z3.And(0 <= t, t < d), z3.And(0 <= ix[t], ix[t] < shapes[t])), patterns=[ix[t]])
    bq = z3.Int('b!q')
    for p, o in res:
        if o.kind != 'return':
            U.post('no-exception', p, False, axioms=AXC, mode='ematch')
            continue
        Cs = p.deref(o.value)
        C = Cs.arr
        U.post('d-cores', p, Cs.n == d, axioms=AXC, mode='ematch')
        U.post('core-shapes-(1,n,r)-(r,n,r)-(r,n,1)', p, z3.Implies(z3.And(0 <= kk, kk < d), dims(C[kk], kk)), axioms=AXC, mode='ematch')
        U.post('designated-entries-are-the-additive-model-pattern-and-every-other-entry-is-zero', p,
               z3.Implies(z3.And(0 <= kk, kk < d), pattern(C[kk], kk)), axioms=AXC, mode='ematch')
        # from here on only the three facts just proved are used (and the preconditions)
        ctx = list(pre) + [ixok, all_dims(C, d), all_pattern(C, d), dot2]
        ch = lambda k: T.chain(C, ix, k)

        def Q(k, k1):
            """chain(k) = [1, asum(k1), 0, ..., 0] (1 x r), k1 = k + 1"""
            return z3.And(T.rows(ch(k)) == 1, T.cols(ch(k)) == r, T.ent(ch(k), 0, 0) == 1, T.ent(ch(k), 0, 1) == X.asum(F1, ix, k1),
                          z3.ForAll([bq], z3.Implies(z3.And(2 <= bq, bq < r), T.ent(ch(k), 0, bq) == 0), patterns=[T.ent(ch(k), 0, bq)]))
        U.lemma('partial-chain-is-the-row-(1, partial-sum, 0, ..).base', ctx, Q(z3.IntVal(0), z3.IntVal(1)), axioms=AXV, mode='ematch', kind='lemma-base',
                extra=[X.asum(F1, ix, 0) == 0])
        S_k = T.sl(C[kk], ix[kk])
        prem, concl = tail(ch(kk - 1), z3.IntVal(0), S_k, r)
        step_ctx = ctx + [1 <= kk, kk <= d - 2, Q(kk - 1, kk)]
        U.lemma('partial-chain-is-the-row-(1, partial-sum, 0, ..).step.premise-of-dot-tail', step_ctx, prem, axioms=AXV, mode='ematch', kind='lemma-step')
        U.lemma('partial-chain-is-the-row-(1, partial-sum, 0, ..).step', step_ctx + [concl], Q(kk, kk + 1), axioms=AXV, mode='ematch', kind='lemma-step')
        allQ = z3.ForAll([kq], z3.Implies(z3.And(0 <= kq, kq <= d - 2), Q(kq, kq + 1)), patterns=[ch(kq)])
        # last core: [f1 + f0, 1, 0, ..]^T
        dm, dl = z3.Ints('d!m2 d!m1')
        names = [dm == d - 2, dl == d - 1]
        S_l = T.sl(C[dl], ix[dl])
        prem_l, concl_l = tail(ch(dm), z3.IntVal(0), S_l, r)
        fin_ctx = ctx + names + [Q(dm, dl)]
        U.lemma('value.premise-of-dot-tail', fin_ctx, prem_l, axioms=AXV, mode='ematch')
        goal = T.ent(T.chain(C, ix, dl), 0, 0) == f0 + X.asum(F1, ix, d)
        U.lemma('value.last-step-of-the-chain', fin_ctx + [concl_l], goal, axioms=AXV, mode='ematch')
        # the statement of C13 (noise = 0), assembled: Q(d-2) is an instance of the induction, the last step was just proved
        U.post('evaluates-at-every-multi-index-of-the-observed-domain-to-f0-plus-the-sum-of-the-per-mode-terms',
               ctx + [allQ, z3.Implies(Q(dm, dl), goal)] + names, val(C, ix, d) == f0 + X.asum(F1, ix, d), axioms=AXV, mode='ematch')
        U.canary('canary-value-is-the-constant-term-alone', ctx + [allQ], val(C, ix, d) == f0, axioms=AXV)
        U.canary('canary-context-of-the-induction-step', step_ctx + [concl], False, axioms=AXV)
        U.canary('canary-context-of-the-last-step', fin_ctx + [concl_l], False, axioms=AXV)
        U.post('fitted-tables-untouched', p, z3.BoolVal(p.heap[f1ref.oid].arr is F1 and p.heap[selfrec.oid].fields['f0'] is f0))


# ----------------------------------------------------------------------------------------------
# ANOVA.build_0 / build_1: the fitted first-order model.
#
# Data: I_trn is the (N x d) integer matrix with columns ICOL[k] (ICOL[k][s] = I_trn[s, k]), y_trn the real vector y of length N.
#   build_0:  self.f0 = rmean(y, N), the sample mean (defining equation  f0 * N = y_0 + .. + y_{N-1}  proved as a separate
#             quantifier-free obligation from the definition of rmean); needs N >= 1.
#   build_1:  self.f1 is a list of d dicts; the dict of mode k has exactly the observed values of that mode as keys - every point of
#             self.domain[k] is a key, and every key x occurs in column k (ccnt(ICOL[k], x, N) >= 1) - and
#                   f1[k][x] = cmean(y, ICOL[k], x, N) - f0      (conditional sample mean minus the constant term).
#             Precondition (class invariant established by ANOVA.build through np.unique, see unit anova_more.ANOVA.build.domain):
#             every point of self.domain[k] occurs in column k.  f0 / domain are not modified.
# cmean / rmean are defined through ccnt / csum / rsum (recursive over the sample index) in ttvc/mx_anova.py.
# NOT covered: build_2 (pair tables): bounded suite.

def _data(st, N, d):
    ICOL, y = z3.Const('Icol', z3.ArraySort(z3.IntSort(), IA)), z3.Const('y', RA)
    return X.IMat2((N, d), ICOL), ICOL, V.RVec(N, y), y


@unit('anova_more.ANOVA.build_0', props=('C13',))
def u_build_0(U):
    fn = U.func('anova', 'ANOVA.build_0')
    st = U.state()
    N, d = z3.Ints('N d')
    I_trn, ICOL, y_trn, y = _data(st, N, d)
    selfrec = st.alloc(VRec({}))
    ex = U.executor(fn, callees={'np.mean': X.np_mean, 'np.sum': X.np_sum})
    ex.anova = True
    st.vars.update(self=selfrec, I_trn=I_trn, y_trn=y_trn)
    res = U.run(ex, st, pre=[N >= 1, d >= 1])
    U.cover('precondition-satisfiable', U.pre)
    for p, o in res:
        if o.kind != 'return':
            U.post('no-exception', p, False)
            continue
        f = p.deref(selfrec).fields
        ok = set(f) == {'f0'} and M.is_num(f.get('f0'))
        U.post('sets-exactly-the-attribute-f0-to-a-number', p, z3.BoolVal(ok))
        if ok:
            # the hint is the instance of the defining axiom of rmean (group 'cmean') for this data
            U.post('f0-is-the-sample-mean: f0-times-the-number-of-samples-is-the-sum-of-the-values', p,
                   M.to_real(f['f0']) * z3.ToReal(N) == X.rsum(y, N), qf=True, extra=[z3.Implies(N >= 1, X.rmean(y, N) * z3.ToReal(N) == X.rsum(y, N))])
            U.canary('canary-f0-is-zero', p, M.to_real(f['f0']) == 0)
        U.post('returns-None', p, z3.BoolVal(o.value is NONE))


def _domain_seq(st, DM, d, shapes):
    return st.alloc(VSeq(DM, d, lambda t: VArr((shapes[t.arg(1)],), t, 'ivec', 'i'), tag='ivecs'))


def table_ok(c, k, DM, shapes, ICOL, y, N, f0):
    """the table with code c is the first-order table of mode k: (every domain point is a key, every key is an observed value
    with the conditional mean minus f0 as its value)"""
    jq, xq = z3.Ints('j!t x!t')
    return (z3.Implies(z3.And(0 <= jq, jq < shapes[k]), X.TDOM(c)[DM[k][jq]]),
            z3.Implies(X.TDOM(c)[xq], z3.And(X.ccnt(ICOL[k], xq, N) >= 1, X.TVAL(c)[xq] == X.cmean(y, ICOL[k], xq, N) - f0)), jq, xq)


@unit('anova_more.ANOVA.build_1', props=('C13',))
def u_build_1(U):
    fn = U.func('anova', 'ANOVA.build_1')
    st = U.state()
    N, d = z3.Ints('N d')
    f0 = z3.Real('f0')
    I_trn, ICOL, y_trn, y = _data(st, N, d)
    DM, shapes = z3.Const('domain', z3.ArraySort(z3.IntSort(), IA)), z3.Const('shapes', IA)
    domref = _domain_seq(st, DM, d, shapes)
    selfrec = st.alloc(VRec({'domain': domref, 'f0': f0}))
    kq, jq, xq, tq = z3.Ints('k!q j!q x!q t!q')

    def tables_ok(F, upto):
        a, b, j_, x_ = table_ok(F[kq], kq, DM, shapes, ICOL, y, N, f0)
        rng = z3.And(0 <= kq, kq < upto)
        return [('every-observed-value-of-the-mode-is-a-key', z3.ForAll([kq, j_], z3.Implies(rng, a), patterns=[z3.MultiPattern(F[kq], DM[kq][j_])])),
                ('every-key-is-an-observed-value-and-holds-the-conditional-mean-minus-f0',
                 z3.ForAll([kq, x_], z3.Implies(rng, b), patterns=[X.TDOM(F[kq])[x_], X.TVAL(F[kq])[x_]]))]

    def f1_of(s):
        ref = s.deref(s.vars['self']).fields.get('f1')
        o = s.deref(ref) if ref is not None else None
        if not (isinstance(o, VSeq) and o.tag == 'tables'):
            raise M.ContractMismatch('self.f1 is not the list of tables')
        return o

    def inv_outer(ex, s, j):
        F = f1_of(s)
        return [('one-table-per-processed-mode', F.n == j)] + tables_ok(F.arr, j)

    def inv_inner(ex, s, j):
        F, k = f1_of(s), Z(s.vars['k'])
        cur = s.deref(s.vars['f1_curr'])
        if not isinstance(cur, X.KMap):
            raise M.ContractMismatch('f1_curr is not a dict')
        return [('one-table-per-processed-mode', F.n == k), ('mode-in-range', z3.And(0 <= k, k < d))] + [(l + '(kept)', g) for l, g in tables_ok(F.arr, k)] + \
            [('processed-points-are-keys', z3.ForAll([tq], z3.Implies(z3.And(0 <= tq, tq < j), cur.dom[DM[k][tq]]), patterns=[DM[k][tq]])),
             ('every-key-is-an-observed-value-and-holds-the-conditional-mean-minus-f0(current)',
              z3.ForAll([xq], z3.Implies(cur.dom[xq], z3.And(X.ccnt(ICOL[k], xq, N) >= 1, cur.val[xq] == X.cmean(y, ICOL[k], xq, N) - f0)),
                        patterns=[cur.dom[xq], cur.val[xq]]))]

    def hook(ex, h, pre_, j):
        X.havoc_attr(ex, h, 'self', 'f1')

    ex = U.executor(fn, loops={0: {'inv': inv_outer, 'havoc_hook': hook}, 1: {'inv': inv_inner}}, callees={'np.mean': X.np_mean, 'np.sum': X.np_sum},
                    type_hints={'self.f1': lambda ex_, s_: X.table_seq(ex_, s_)})
    ex.anova, ex.attr_havoc = True, {'self.f1'}
    ex.mode = 'ematch'
    st.vars.update(self=selfrec, I_trn=I_trn, y_trn=y_trn)
    pre = [N >= 1, d >= 1,
           z3.ForAll([kq], z3.Implies(z3.And(0 <= kq, kq < d), shapes[kq] >= 0), patterns=[shapes[kq]]),
           z3.ForAll([kq, jq], z3.Implies(z3.And(0 <= kq, kq < d, 0 <= jq, jq < shapes[kq]), X.ccnt(ICOL[kq], DM[kq][jq], N) >= 1), patterns=[DM[kq][jq]])]
    res = U.run(ex, st, pre=pre)
    U.cover('precondition-satisfiable', U.pre)
    kk, jj, xx = z3.Ints('kk jj xx')
    for p, o in res:
        if o.kind != 'return':
            U.post('no-exception', p, False, mode='ematch')
            continue
        F = f1_of(p)
        U.post('one-table-per-mode', p, F.n == d, mode='ematch')
        a, b, j_, x_ = table_ok(F.arr[kk], kk, DM, shapes, ICOL, y, N, f0)
        U.post('every-observed-value-of-the-mode-is-a-key', list(p.pc) + [0 <= kk, kk < d], z3.substitute(a, (j_, jj)), mode='ematch')
        U.post('every-key-is-an-observed-value-and-holds-the-conditional-mean-minus-f0', list(p.pc) + [0 <= kk, kk < d], z3.substitute(b, (x_, xx)), mode='ematch')
        f = p.deref(selfrec).fields
        U.post('constant-term-and-domain-untouched', p, z3.BoolVal(f['f0'] is f0 and f['domain'] is domref and p.heap[domref.oid].arr is DM and set(f) == {'f0', 'domain', 'f1'}))
        U.canary('canary-no-keys', list(p.pc) + [0 <= kk, kk < d, 0 <= jj, jj < shapes[kk]], z3.Not(X.TDOM(F.arr[kk])[DM[kk][jj]]))
        U.canary('canary-values-are-zero', list(p.pc) + [0 <= kk, kk < d, X.TDOM(F.arr[kk])[xx]], X.TVAL(F.arr[kk])[xx] == 0)


# ----------------------------------------------------------------------------------------------
# ANOVA.calc_0 / calc_1 / calc / __call__: the value of the fitted model at a multi-index.
#
# The fitted first-order tables are the list self.f1 of d dicts: table k has the values F1[k] (Int -> Real) and the key set DOM1[k].
#   calc_0()   = f0
#   calc_1(x)  = asum(F1, x, len x) = sum_k F1[k][x_k]        for a multi-index x of length <= d whose entries are keys (KeyError
#                otherwise: obligation `key-present`; longer x: IndexError, obligation `list-index-in-range`)
#   calc(i)    = calc_0() [+ calc_1(i) if order >= 1] [+ calc_2(i) if order >= 2]      (call-site contracts of the three methods)
#   __call__(I): 1-D I -> calc(I); 2-D I -> 1-D array with calc(row) per row, element by element; any other ndim -> ValueError.

def _f1_tables(st, F1, DOM1, d):
    return st.alloc(VSeq(F1, d, lambda t: X.KMap(t, DOM1[t.arg(1)], frozen=True), tag='tables'))


def in_domain(DOM1, ix, n):
    t = z3.Int('t!d')
    return z3.ForAll([t], z3.Implies(z3.And(0 <= t, t < n), DOM1[t][ix[t]]), patterns=[ix[t]])


@unit('anova_more.ANOVA.calc_0', props=('C13',))
def u_calc_0(U):
    fn = U.func('anova', 'ANOVA.calc_0')
    st = U.state()
    f0 = z3.Real('f0')
    selfrec = st.alloc(VRec({'f0': f0}))
    ex = U.executor(fn)
    ex.anova = True
    st.vars.update(self=selfrec)
    for p, o in U.run(ex, st):
        U.post('returns-the-constant-term', p, M.to_real(o.value) == f0 if o.kind == 'return' and M.is_num(o.value) else z3.BoolVal(False))
        U.post('object-untouched', p, z3.BoolVal(p.deref(selfrec).fields == {'f0': f0}))


@unit('anova_more.ANOVA.calc_1', props=('C13',))
def u_calc_1(U):
    fn = U.func('anova', 'ANOVA.calc_1')
    st = U.state()
    d, n = z3.Ints('d n')
    F1, DOM1, ix = z3.Const('f1', RAA), z3.Const('dom1', z3.ArraySort(z3.IntSort(), X.BA)), z3.Const('ix', T.IDX)
    f1ref = _f1_tables(st, F1, DOM1, d)
    selfrec = st.alloc(VRec({'f1': f1ref}))

    def inv(ex, s, j):
        res = s.vars['res']
        if not M.is_num(res):
            raise M.ContractMismatch('res is not a number')
        return [('accumulated-sum-of-the-per-mode-terms', M.to_real(res) == X.asum(F1, ix, j))]

    AXS = T.axioms('asum')
    ex = U.executor(fn, loops={0: {'inv': inv}}, axioms=AXS)
    ex.anova = True
    ex.mode = 'ematch'
    st.vars.update(self=selfrec, x=VArr((n,), ix, 'ivec', 'i'))
    res = U.run(ex, st, pre=[d >= 1, 0 <= n, n <= d, in_domain(DOM1, ix, n)])
    U.cover('precondition-satisfiable', U.pre, axioms=AXS)
    for p, o in res:
        if o.kind != 'return' or not M.is_num(o.value):
            U.post('returns-a-number', p, False, axioms=AXS, mode='ematch')
            continue
        U.post('sum-of-the-per-mode-terms-at-the-multi-index', p, M.to_real(o.value) == X.asum(F1, ix, n), axioms=AXS, mode='ematch')
        U.post('tables-untouched', p, z3.BoolVal(p.heap[f1ref.oid].arr is F1 and p.deref(selfrec).fields == {'f1': f1ref}))
        U.canary('canary-sum-is-zero', list(p.pc) + [n >= 1], M.to_real(o.value) == 0, axioms=AXS)


def call_calc_1(F1, DOM1, d, log=None):
    """call-site contract of calc_1 (proved by unit anova_more.ANOVA.calc_1)"""
    def h(ex, st, args, kwargs, node):
        x = st.deref(args[0]) if len(args) == 1 and not kwargs else None
        if not (isinstance(x, VArr) and x.ndim == 1 and x.tag == 'ivec' and x.t is not None):
            raise M.Unsupported('calc_1 of something else than one integer multi-index')
        n = Z(x.shape[0])
        ex.oblige(st, 'call-pre', 'calc_1: multi-index not longer than the number of modes', z3.And(0 <= n, n <= d), node)
        ex.oblige(st, 'call-pre', 'calc_1: every index is an observed value of its mode', in_domain(DOM1, x.t, n), node)
        if log is not None:
            log.append(('calc_1', x))
        return X.asum(F1, x.t, n)
    return VFunc('ANOVA.calc_1', h)


# ---- calc_2: the pair terms.  self.f2 is the list of the d(d-1)/2 pair tables in storage order; W[i1][i2] NAMES the table of the
# pair of modes i1 < i2, i.e. the one stored at the position p with 2p = i1 (2d - 3 - i1) + 2 (i2 - 1) - the position that
# pair_num_to_num returns (call-site contract = what unit anova.ANOVA.pair_num_to_num proves).
#   calc_2(x) = p2out(W, x, n, n) = sum_{i1 < i2 < n} W[i1][i2][x_i1][x_i2]      for a multi-index of length 1 <= n <= d whose
#   pairs of entries are keys of their tables (KeyError otherwise: obligation `key-present`).

from contracts.anova import pair_number_twice

BAA = z3.ArraySort(z3.IntSort(), X.BA)


def call_pair_num(d, log=None):
    def h(ex, st, args, kwargs, node):
        if len(args) != 2 or kwargs:
            raise M.Unsupported('pair_num_to_num calling pattern')
        x1, x2 = [Z(ex.need_num(st, a, node)) for a in args]
        ex.oblige(st, 'call-pre', 'pair_num_to_num: two different modes in range (AssertionError for equal modes)',
                  z3.And(d >= 2, 0 <= x1, x1 < d, 0 <= x2, x2 < d, x1 != x2), node)
        ctx = list(ex.axioms) + list(st.pc)
        if M.quick_unsat(ctx + [x1 >= x2]):
            lo, hi = x1, x2
        elif M.quick_unsat(ctx + [x1 <= x2]):
            lo, hi = x2, x1
        else:
            lo, hi = z3.If(x1 < x2, x1, x2), z3.If(x1 < x2, x2, x1)
        v = ex.fresh_int('pairpos')
        st.assume(2 * v == pair_number_twice(d, lo, hi), v >= 0, 2 * v < d * (d - 1))
        if log is not None:
            log.append((x1, x2, v))
        return v
    return VFunc('ANOVA.pair_num_to_num', h)


def pair_tables(st, F2C, npairs):
    return st.alloc(VSeq(F2C, npairs, lambda c: X.KMap2(X.T2VAL(c), X.T2DOM(c)), tag='tables2'))


def w_names_the_tables(W, WD, F2C, d):
    i1, i2, pos = z3.Ints('i1!w i2!w p!w')
    return z3.ForAll([i1, i2, pos], z3.Implies(z3.And(0 <= i1, i1 < i2, i2 < d, 2 * pos == pair_number_twice(d, i1, i2)),
                                               z3.And(W[i1][i2] == X.T2VAL(F2C[pos]), WD[i1][i2] == X.T2DOM(F2C[pos]))),
                     patterns=[z3.MultiPattern(F2C[pos], W[i1][i2]), z3.MultiPattern(F2C[pos], WD[i1][i2])])


def pairs_in_domain(WD, ix, n):
    a, b = z3.Ints('a!d b!d')
    return z3.ForAll([a, b], z3.Implies(z3.And(0 <= a, a < b, b < n), WD[a][b][ix[a]][ix[b]]), patterns=[z3.MultiPattern(ix[a], ix[b])])


@unit('anova_more.ANOVA.calc_2', props=('C13',))
def u_calc_2(U):
    fn = U.func('anova', 'ANOVA.calc_2')
    st = U.state()
    d, n, npairs = z3.Ints('d n npairs')
    F2C, ix = z3.Const('f2', IA), z3.Const('ix', T.IDX)
    W, WD = z3.Const('W', X.RAAAA), z3.Const('WD', z3.ArraySort(z3.IntSort(), z3.ArraySort(z3.IntSort(), BAA)))
    f2ref = pair_tables(st, F2C, npairs)
    calls = []
    selfrec = st.alloc(VRec({'f2': f2ref, 'd': d, 'pair_num_to_num': call_pair_num(d, calls)}))

    def num(v):
        if not M.is_num(v):
            raise M.ContractMismatch('not a number')
        return M.to_real(v)

    def inv_outer(ex, s, j):
        return [('accumulated-pair-terms-of-the-processed-first-modes', num(s.vars['res']) == X.p2out(W, ix, n, j))]

    def inv_inner(ex, s, j):
        i1, x1 = Z(s.vars['i1']), Z(s.vars['x1'])
        return [('first-mode-in-range', z3.And(0 <= i1, i1 < n)), ('x1-is-the-index-of-the-first-mode', x1 == ix[i1]),
                ('accumulated-pair-terms', num(s.vars['res']) == X.p2out(W, ix, n, i1) + X.p2in(W, ix, i1, i1 + 1 + j))]

    AXP = T.axioms('psum2')
    ex = U.executor(fn, loops={0: {'inv': inv_outer}, 1: {'inv': inv_inner}}, axioms=AXP)
    ex.anova = True
    ex.nl_exact = True
    st.vars.update(self=selfrec, x=VArr((n,), ix, 'ivec', 'i'))
    pre = [d >= 2, 1 <= n, n <= d, 2 * npairs == d * (d - 1), w_names_the_tables(W, WD, F2C, d), pairs_in_domain(WD, ix, n)]
    res = U.run(ex, st, pre=pre)
    U.assumed.append('ANOVA.pair_num_to_num (unit anova.ANOVA.pair_num_to_num)')
    U.cover('precondition-satisfiable', U.pre, axioms=AXP)
    for p, o in res:
        if o.kind != 'return' or not M.is_num(o.value):
            U.post('returns-a-number', p, False, axioms=AXP)
            continue
        U.post('sum-of-the-pair-terms-over-all-pairs-of-modes', p, M.to_real(o.value) == X.p2out(W, ix, n, n), axioms=AXP)
        U.post('tables-untouched', p, z3.BoolVal(p.heap[f2ref.oid].arr is F2C and set(p.deref(selfrec).fields) == {'f2', 'd', 'pair_num_to_num'}))
        U.canary('canary-sum-is-zero', list(p.pc) + [n >= 2], M.to_real(o.value) == 0, axioms=AXP)
    U.post('positions-come-from-pair_num_to_num', U.pre, z3.BoolVal(len(calls) >= 1))
