"""Sidecar contracts for the rest of teneva/anova.py and for anova_func.ANOVA_func.cores (C13, partly C10 / C11).

`self` is a record (VRec) of the attributes a contract case uses; the methods a function calls on `self` are fields of that record
holding callee contracts (VFunc), see ttvc/mx_anova.py.  Spec functions (asum, ccnt, csum, cmean, rmean, dotp) are declared there."""
import z3
from ttvc.units import unit
from ttvc.symex import VOpt, VStr, VRec, VSeq, VArr, VFunc, VTuple, VRef, VList, VSym, VOpaque, NONE, Z
from ttvc import models as M, theory as T, vec as V, rnd as R
from ttvc import mx_anova as X
from contracts import spec as S
from contracts.act import val

IA, RA, RAA = X.IA, X.RA, X.RAA
AXC = T.axioms('shape', 'centry')


def expect_for_loops(fn, n):
    """The invariants below are written for the `for` loops of the current source (j = number of completed iterations of a known
    iterable); any other loop structure (a while loop, more / fewer loops) is a different function: ContractMismatch (undecided)."""
    import ast
    loops = [x for x in ast.walk(fn.node) if isinstance(x, (ast.For, ast.While))]
    if len(loops) != n or not all(isinstance(x, ast.For) for x in loops):
        raise M.ContractMismatch(f'{fn.qual}: the contract expects exactly {n} for-loop(s)')


# ----------------------------------------------------------------------------------------------
# ANOVA.cores_1, noise = 0: the VALUE of the returned tensor.
#
# The unit runs the real cores_1 (as contracts/anova.py does), re-derives the core pattern from the final state and then proves, by
# induction over the chain of slices, the statement of C13:
#     val(cores, i) = f0 + sum_k f1_k[i_k]          for every multi-index i of the observed domain (0 <= i_k < shapes[k]),
# for every rank r >= 2 and every d >= 2.  The induction carries the row vector  chain(k) = [1, sum_{t<=k} f1_t[i_t], 0, .., 0].
# The matrix products are evaluated entry-wise: ent(mm(P, S), 0, b) = dotp(P, 0, S, b, r) (group 'dotp'), the tail of the dot
# product beyond the first two columns vanishes because the tail of the row P does (lemma schema `dot-tail`, itself an induction),
# and the two leading terms are written out (lemma schema `dot-2`).  Entries of slices are entries of cores (group 'slent').
# NOT covered: noise > 0 (the result then differs from the model by terms of the order of the noise: bounded suite C13).

def _pattern_fns(F1, f0, shapes, d, r, noise):
    a_, m_, b_ = z3.Ints('a m b')

    def pattern(G, k):
        e = T.centry(G, a_, m_, b_)
        first = z3.And(z3.Implies(z3.And(a_ == 0, b_ == 0), e == 1), z3.Implies(z3.And(a_ == 0, b_ == 1), e == F1[k][m_]))
        mid = z3.And(z3.Implies(z3.And(a_ == 0, b_ == 0), e == 1), z3.Implies(z3.And(a_ == 1, b_ == 1), e == 1),
                     z3.Implies(z3.And(a_ == 0, b_ == 1), e == F1[k][m_]))
        last = z3.And(z3.Implies(z3.And(a_ == 0, b_ == 0), e == F1[k][m_] + f0), z3.Implies(z3.And(a_ == 1, b_ == 0), e == 1))
        desig = z3.If(k == 0, z3.And(a_ == 0, b_ <= 1), z3.If(k == d - 1, z3.And(a_ <= 1, b_ == 0),
                                                              z3.Or(z3.And(a_ == 0, b_ <= 1), z3.And(a_ == 1, b_ == 1))))
        rng_ok = z3.And(0 <= a_, a_ < T.d0(G), 0 <= m_, m_ < T.d1(G), 0 <= b_, b_ < T.d2(G))
        return z3.Implies(rng_ok, z3.And(z3.If(k == 0, first, z3.If(k == d - 1, last, mid)),
                                         z3.Implies(z3.And(z3.Not(desig), noise == 0), e == 0)))

    def dims(G, k):
        return z3.And(T.d0(G) == z3.If(k == 0, 1, r), T.d1(G) == shapes[k], T.d2(G) == z3.If(k == d - 1, 1, r))
    return pattern, dims, (a_, m_, b_)


AXV = T.axioms('shape', 'centry', 'chain', 'dotp', 'slent', 'asum')


def dot_lemmas(U):
    """Two lemma schemas about the partial dot product, proved for ARBITRARY constants P, S, i, j, rr (nothing else in the context),
    hence usable for any terms:  dot-2 (closed, returned as a quantified fact) and dot-tail (returned as a function that gives the
    premise and the conclusion of an instance)."""
    P, Sm = z3.Consts('P!l S!l', T.Mat)
    i, j, c, rr, b = z3.Ints('i!l j!l c!l r!l b!l')
    AXD = T.axioms('dotp', 'centry')
    two = lambda A, i_, B, j_: T.rmul(T.ent(A, i_, 0), T.ent(B, 0, j_)) + T.rmul(T.ent(A, i_, 1), T.ent(B, 1, j_))
    step = lambda c0: X.dotp(P, i, Sm, j, c0 + 1) == X.dotp(P, i, Sm, j, c0) + T.rmul(T.ent(P, i, c0), T.ent(Sm, c0, j))
    # hint instances of the recursive definition at c = 0, 1 (they name the intermediate partial sums)
    U.lemma('dot-2: the-first-two-terms-of-a-dot-product-written-out', [], X.dotp(P, i, Sm, j, 2) == two(P, i, Sm, j), axioms=AXD, mode='ematch',
            extra=[step(z3.IntVal(0)), step(z3.IntVal(1)), X.dotp(P, i, Sm, j, 0) == 0])
    tail_zero = z3.ForAll([b], z3.Implies(z3.And(2 <= b, b < rr), T.ent(P, i, b) == 0), patterns=[T.ent(P, i, b)])
    U.lemma('dot-tail.base', [tail_zero, rr >= 2], X.dotp(P, i, Sm, j, 2) == X.dotp(P, i, Sm, j, 2), axioms=AXD, mode='ematch', kind='lemma-base')
    U.lemma('dot-tail.step', [tail_zero, rr >= 2, 2 <= c, c + 1 <= rr, X.dotp(P, i, Sm, j, c) == X.dotp(P, i, Sm, j, 2)],
            X.dotp(P, i, Sm, j, c + 1) == X.dotp(P, i, Sm, j, 2), axioms=AXD, mode='ematch', kind='lemma-step')
    A_, B_ = z3.Consts('A!l B!l', T.Mat)
    dot2 = z3.ForAll([A_, i, B_, j], X.dotp(A_, i, B_, j, 2) == two(A_, i, B_, j), patterns=[X.dotp(A_, i, B_, j, 2)])

    def tail(Pt, it, St, rt):
        """instance for the row `it` of Pt, the matrix St and the length rt >= 2: (premise, conclusion for every column j)"""
        prem = z3.And(rt >= 2, z3.ForAll([b], z3.Implies(z3.And(2 <= b, b < rt), T.ent(Pt, it, b) == 0), patterns=[T.ent(Pt, it, b)]))
        concl = z3.ForAll([j], X.dotp(Pt, it, St, j, rt) == X.dotp(Pt, it, St, j, 2), patterns=[X.dotp(Pt, it, St, j, rt)])
        return prem, concl
    return dot2, tail


@unit('anova_more.ANOVA.cores_1.value', props=('C13', 'C11'))
def u_cores_1_value(U):
    fn = U.func('anova', 'ANOVA.cores_1')
    expect_for_loops(fn, 1)
    st = U.state()
    d, r = z3.Int('d'), z3.Int('r')
    noise, f0 = z3.Real('noise'), z3.Real('f0')
    shapes, F1 = z3.Const('shapes', IA), z3.Const('f1', RAA)
    f1ref = st.alloc(VSeq(F1, d, lambda tt: V.RVec(shapes[tt.arg(1)], tt), tag='rvecs'))
    selfrec = st.alloc(VRec({'rand': R.VGen('seed'), 'shapes': VArr((d,), shapes, 'ivec', 'i'), 'f1_arr': f1ref, 'f0': f0, 'd': d}))
    pattern, dims, (a_, m_, b_) = _pattern_fns(F1, f0, shapes, d, r, noise)
    kq, t, kk = z3.Int('k!q'), z3.Int('t!a'), z3.Int('kk')

    def all_dims(C, upto):
        return z3.ForAll([kq], z3.Implies(z3.And(0 <= kq, kq < upto), dims(C[kq], kq)), patterns=[C[kq]])

    def all_pattern(C, upto):
        return z3.ForAll([kq, a_, m_, b_], z3.Implies(z3.And(0 <= kq, kq < upto), pattern(C[kq], kq)), patterns=[T.centry(C[kq], a_, m_, b_)])

    def inv(ex, s, j):
        Cs = s.deref(s.vars['cores'])
        return [('one-core-per-processed-mode', Cs.n == j + 1), ('shapes-so-far', all_dims(Cs.arr, j + 1)), ('pattern-so-far', all_pattern(Cs.arr, j + 1))]

    ex = U.executor(fn, loops={0: {'inv': inv}}, axioms=AXC, type_hints={'cores': 'tt'})
    ex.mode = 'ematch'
    st.vars.update(self=selfrec, r=r, noise=noise)
    pre = [d >= 2, r >= 2, noise == 0, z3.ForAll([t], z3.Implies(z3.And(0 <= t, t < d), shapes[t] >= 1), patterns=[shapes[t]])]
    res = U.run(ex, st, pre=pre)
    U.cover('precondition-satisfiable', U.pre, axioms=AXC)
    dot2, tail = dot_lemmas(U)
    ix = z3.Const('ix', T.IDX)
    ixok = z3.ForAll([t], z3.Implies(z3.And(0 <= t, t < d), z3.And(0 <= ix[t], ix[t] < shapes[t])), patterns=[ix[t]])
    bq = z3.Int('b!q')
    for p, o in res:
        if o.kind != 'return':
            U.post('no-exception', p, False, axioms=AXC, mode='ematch')
            continue
        Cs = p.deref(o.value)
        C = Cs.arr
        U.post('d-cores', p, Cs.n == d, axioms=AXC, mode='ematch')
        U.post('core-shapes-(1,n,r)-(r,n,r)-(r,n,1)', p, z3.Implies(z3.And(0 <= kk, kk < d), dims(C[kk], kk)), axioms=AXC, mode='ematch')
        U.post('designated-entries-are-the-additive-model-pattern-and-every-other-entry-is-zero', p,
               z3.Implies(z3.And(0 <= kk, kk < d), pattern(C[kk], kk)), axioms=AXC, mode='ematch')
        # from here on only the three facts just proved are used (and the preconditions)
        ctx = list(pre) + [ixok, all_dims(C, d), all_pattern(C, d), dot2]
        ch = lambda k: T.chain(C, ix, k)

        def Q(k, k1):
            """chain(k) = [1, asum(k1), 0, ..., 0] (1 x r), k1 = k + 1"""
            return z3.And(T.rows(ch(k)) == 1, T.cols(ch(k)) == r, T.ent(ch(k), 0, 0) == 1, T.ent(ch(k), 0, 1) == X.asum(F1, ix, k1),
                          z3.ForAll([bq], z3.Implies(z3.And(2 <= bq, bq < r), T.ent(ch(k), 0, bq) == 0), patterns=[T.ent(ch(k), 0, bq)]))
        U.lemma('partial-chain-is-the-row-(1, partial-sum, 0, ..).base', ctx, Q(z3.IntVal(0), z3.IntVal(1)), axioms=AXV, mode='ematch', kind='lemma-base',
                extra=[X.asum(F1, ix, 0) == 0])
        S_k = T.sl(C[kk], ix[kk])
        prem, concl = tail(ch(kk - 1), z3.IntVal(0), S_k, r)
        step_ctx = ctx + [1 <= kk, kk <= d - 2, Q(kk - 1, kk)]
        U.lemma('partial-chain-is-the-row-(1, partial-sum, 0, ..).step.premise-of-dot-tail', step_ctx, prem, axioms=AXV, mode='ematch', kind='lemma-step')
        U.lemma('partial-chain-is-the-row-(1, partial-sum, 0, ..).step', step_ctx + [concl], Q(kk, kk + 1), axioms=AXV, mode='ematch', kind='lemma-step')
        allQ = z3.ForAll([kq], z3.Implies(z3.And(0 <= kq, kq <= d - 2), Q(kq, kq + 1)), patterns=[ch(kq)])
        # last core: [f1 + f0, 1, 0, ..]^T
        dm, dl = z3.Ints('d!m2 d!m1')
        names = [dm == d - 2, dl == d - 1]
        S_l = T.sl(C[dl], ix[dl])
        prem_l, concl_l = tail(ch(dm), z3.IntVal(0), S_l, r)
        fin_ctx = ctx + names + [Q(dm, dl)]
        U.lemma('value.premise-of-dot-tail', fin_ctx, prem_l, axioms=AXV, mode='ematch')
        goal = T.ent(T.chain(C, ix, dl), 0, 0) == f0 + X.asum(F1, ix, d)
        U.lemma('value.last-step-of-the-chain', fin_ctx + [concl_l], goal, axioms=AXV, mode='ematch')
        # the statement of C13 (noise = 0), assembled: Q(d-2) is an instance of the induction, the last step was just proved
        U.post('evaluates-at-every-multi-index-of-the-observed-domain-to-f0-plus-the-sum-of-the-per-mode-terms',
               ctx + [allQ, z3.Implies(Q(dm, dl), goal)] + names, val(C, ix, d) == f0 + X.asum(F1, ix, d), axioms=AXV, mode='ematch')
        U.canary('canary-value-is-the-constant-term-alone', ctx + [allQ], val(C, ix, d) == f0, axioms=AXV)
        U.canary('canary-context-of-the-induction-step', step_ctx + [concl], False, axioms=AXV)
        U.canary('canary-context-of-the-last-step', fin_ctx + [concl_l], False, axioms=AXV)
        U.post('fitted-tables-untouched', p, z3.BoolVal(p.heap[f1ref.oid].arr is F1 and p.heap[selfrec.oid].fields['f0'] is f0))


# ----------------------------------------------------------------------------------------------
# ANOVA.build_0 / build_1: the fitted first-order model.
#
# Data: I_trn is the (N x d) integer matrix with columns ICOL[k] (ICOL[k][s] = I_trn[s, k]), y_trn the real vector y of length N.
#   build_0:  self.f0 = rmean(y, N), the sample mean (defining equation  f0 * N = y_0 + .. + y_{N-1}  proved as a separate
#             quantifier-free obligation from the definition of rmean); needs N >= 1.
#   build_1:  self.f1 is a list of d dicts; the dict of mode k has exactly the observed values of that mode as keys - every point of
#             self.domain[k] is a key, and every key x occurs in column k (ccnt(ICOL[k], x, N) >= 1) - and
#                   f1[k][x] = cmean(y, ICOL[k], x, N) - f0      (conditional sample mean minus the constant term).
#             Precondition (class invariant established by ANOVA.build through np.unique, see unit anova_more.ANOVA.build.domain):
#             every point of self.domain[k] occurs in column k.  f0 / domain are not modified.
# cmean / rmean are defined through ccnt / csum / rsum (recursive over the sample index) in ttvc/mx_anova.py.
# NOT covered: build_2 (pair tables): bounded suite.

def _data(st, N, d):
    ICOL, y = z3.Const('Icol', z3.ArraySort(z3.IntSort(), IA)), z3.Const('y', RA)
    return X.IMat2((N, d), ICOL), ICOL, V.RVec(N, y), y


@unit('anova_more.ANOVA.build_0', props=('C13',))
def u_build_0(U):
    fn = U.func('anova', 'ANOVA.build_0')
    st = U.state()
    N, d = z3.Ints('N d')
    I_trn, ICOL, y_trn, y = _data(st, N, d)
    selfrec = st.alloc(VRec({}))
    ex = U.executor(fn, callees={'np.mean': X.np_mean, 'np.sum': X.np_sum})
    ex.anova = True
    st.vars.update(self=selfrec, I_trn=I_trn, y_trn=y_trn)
    res = U.run(ex, st, pre=[N >= 1, d >= 1])
    U.cover('precondition-satisfiable', U.pre)
    for p, o in res:
        if o.kind != 'return':
            U.post('no-exception', p, False)
            continue
        f = p.deref(selfrec).fields
        ok = set(f) == {'f0'} and M.is_num(f.get('f0'))
        U.post('sets-exactly-the-attribute-f0-to-a-number', p, z3.BoolVal(ok))
        if ok:
            # the hint is the instance of the defining axiom of rmean (group 'cmean') for this data
            U.post('f0-is-the-sample-mean: f0-times-the-number-of-samples-is-the-sum-of-the-values', p,
                   M.to_real(f['f0']) * z3.ToReal(N) == X.rsum(y, N), qf=True, extra=[z3.Implies(N >= 1, X.rmean(y, N) * z3.ToReal(N) == X.rsum(y, N))])
            U.canary('canary-f0-is-zero', p, M.to_real(f['f0']) == 0)
        U.post('returns-None', p, z3.BoolVal(o.value is NONE))


def _domain_seq(st, DM, d, shapes):
    return st.alloc(VSeq(DM, d, lambda t: VArr((shapes[t.arg(1)],), t, 'ivec', 'i'), tag='ivecs'))


def table_ok(c, k, DM, shapes, ICOL, y, N, f0):
    """the table with code c is the first-order table of mode k: (every domain point is a key, every key is an observed value
    with the conditional mean minus f0 as its value)"""
    jq, xq = z3.Ints('j!t x!t')
    return (z3.Implies(z3.And(0 <= jq, jq < shapes[k]), X.TDOM(c)[DM[k][jq]]),
            z3.Implies(X.TDOM(c)[xq], z3.And(X.ccnt(ICOL[k], xq, N) >= 1, X.TVAL(c)[xq] == X.cmean(y, ICOL[k], xq, N) - f0)), jq, xq)


@unit('anova_more.ANOVA.build_1', props=('C13', 'C11'))
def u_build_1(U):
    fn = U.func('anova', 'ANOVA.build_1')
    expect_for_loops(fn, 2)
    st = U.state()
    N, d = z3.Ints('N d')
    f0 = z3.Real('f0')
    I_trn, ICOL, y_trn, y = _data(st, N, d)
    DM, shapes = z3.Const('domain', z3.ArraySort(z3.IntSort(), IA)), z3.Const('shapes', IA)
    domref = _domain_seq(st, DM, d, shapes)
    selfrec = st.alloc(VRec({'domain': domref, 'f0': f0}))
    kq, jq, xq, tq = z3.Ints('k!q j!q x!q t!q')

    def tables_ok(F, upto):
        a, b, j_, x_ = table_ok(F[kq], kq, DM, shapes, ICOL, y, N, f0)
        rng = z3.And(0 <= kq, kq < upto)
        return [('every-observed-value-of-the-mode-is-a-key', z3.ForAll([kq, j_], z3.Implies(rng, a), patterns=[z3.MultiPattern(F[kq], DM[kq][j_])])),
                ('every-key-is-an-observed-value-and-holds-the-conditional-mean-minus-f0',
                 z3.ForAll([kq, x_], z3.Implies(rng, b), patterns=[X.TDOM(F[kq])[x_], X.TVAL(F[kq])[x_]]))]

    def f1_of(s):
        ref = s.deref(s.vars['self']).fields.get('f1')
        o = s.deref(ref) if ref is not None else None
        if not (isinstance(o, VSeq) and o.tag == 'tables'):
            raise M.ContractMismatch('self.f1 is not the list of tables')
        return o

    def inv_outer(ex, s, j):
        F = f1_of(s)
        return [('one-table-per-processed-mode', F.n == j)] + tables_ok(F.arr, j)

    def inv_inner(ex, s, j):
        F, k = f1_of(s), Z(s.vars['k'])
        cur = s.deref(s.vars['f1_curr'])
        if not isinstance(cur, X.KMap):
            raise M.ContractMismatch('f1_curr is not a dict')
        return [('one-table-per-processed-mode', F.n == k), ('mode-in-range', z3.And(0 <= k, k < d))] + [(l + '(kept)', g) for l, g in tables_ok(F.arr, k)] + \
            [('processed-points-are-keys', z3.ForAll([tq], z3.Implies(z3.And(0 <= tq, tq < j), cur.dom[DM[k][tq]]), patterns=[DM[k][tq]])),
             ('every-key-is-an-observed-value-and-holds-the-conditional-mean-minus-f0(current)',
              z3.ForAll([xq], z3.Implies(cur.dom[xq], z3.And(X.ccnt(ICOL[k], xq, N) >= 1, cur.val[xq] == X.cmean(y, ICOL[k], xq, N) - f0)),
                        patterns=[cur.dom[xq], cur.val[xq]]))]

    def hook(ex, h, pre_, j):
        X.havoc_attr(ex, h, 'self', 'f1')

    ex = U.executor(fn, loops={0: {'inv': inv_outer, 'havoc_hook': hook}, 1: {'inv': inv_inner}}, callees={'np.mean': X.np_mean, 'np.sum': X.np_sum},
                    type_hints={'self.f1': lambda ex_, s_: X.table_seq(ex_, s_)})
    ex.anova, ex.attr_havoc = True, {'self.f1'}
    ex.mode = 'ematch'
    st.vars.update(self=selfrec, I_trn=I_trn, y_trn=y_trn)
    pre = [N >= 1, d >= 1,
           z3.ForAll([kq], z3.Implies(z3.And(0 <= kq, kq < d), shapes[kq] >= 0), patterns=[shapes[kq]]),
           z3.ForAll([kq, jq], z3.Implies(z3.And(0 <= kq, kq < d, 0 <= jq, jq < shapes[kq]), X.ccnt(ICOL[kq], DM[kq][jq], N) >= 1), patterns=[DM[kq][jq]])]
    res = U.run(ex, st, pre=pre)
    U.cover('precondition-satisfiable', U.pre)
    kk, jj, xx = z3.Ints('kk jj xx')
    for p, o in res:
        if o.kind != 'return':
            U.post('no-exception', p, False, mode='ematch')
            continue
        F = f1_of(p)
        U.post('one-table-per-mode', p, F.n == d, mode='ematch')
        a, b, j_, x_ = table_ok(F.arr[kk], kk, DM, shapes, ICOL, y, N, f0)
        U.post('every-observed-value-of-the-mode-is-a-key', list(p.pc) + [0 <= kk, kk < d], z3.substitute(a, (j_, jj)), mode='ematch')
        U.post('every-key-is-an-observed-value-and-holds-the-conditional-mean-minus-f0', list(p.pc) + [0 <= kk, kk < d], z3.substitute(b, (x_, xx)), mode='ematch')
        f = p.deref(selfrec).fields
        U.post('constant-term-and-domain-untouched', p, z3.BoolVal(f['f0'] is f0 and f['domain'] is domref and p.heap[domref.oid].arr is DM and set(f) == {'f0', 'domain', 'f1'}))
        U.canary('canary-no-keys', list(p.pc) + [0 <= kk, kk < d, 0 <= jj, jj < shapes[kk]], z3.Not(X.TDOM(F.arr[kk])[DM[kk][jj]]))
        U.canary('canary-values-are-zero', list(p.pc) + [0 <= kk, kk < d, X.TDOM(F.arr[kk])[xx]], X.TVAL(F.arr[kk])[xx] == 0)


# ----------------------------------------------------------------------------------------------
# ANOVA.calc_0 / calc_1 / calc / __call__: the value of the fitted model at a multi-index.
#
# The fitted first-order tables are the list self.f1 of d dicts: table k has the values F1[k] (Int -> Real) and the key set DOM1[k].
#   calc_0()   = f0
#   calc_1(x)  = asum(F1, x, len x) = sum_k F1[k][x_k]        for a multi-index x of length <= d whose entries are keys (KeyError
#                otherwise: obligation `key-present`; longer x: IndexError, obligation `list-index-in-range`)
#   calc(i)    = calc_0() [+ calc_1(i) if order >= 1] [+ calc_2(i) if order >= 2]      (call-site contracts of the three methods)
#   __call__(I): 1-D I -> calc(I); 2-D I -> 1-D array with calc(row) per row, element by element; any other ndim -> ValueError.

def _f1_tables(st, F1, DOM1, d):
    return st.alloc(VSeq(F1, d, lambda t: X.KMap(t, DOM1[t.arg(1)], frozen=True), tag='tables'))


def in_domain(DOM1, ix, n):
    t = z3.Int('t!d')
    return z3.ForAll([t], z3.Implies(z3.And(0 <= t, t < n), DOM1[t][ix[t]]), patterns=[ix[t]])


@unit('anova_more.ANOVA.calc_0', props=('C13',))
def u_calc_0(U):
    fn = U.func('anova', 'ANOVA.calc_0')
    st = U.state()
    f0 = z3.Real('f0')
    selfrec = st.alloc(VRec({'f0': f0}))
    ex = U.executor(fn)
    ex.anova = True
    st.vars.update(self=selfrec)
    for p, o in U.run(ex, st):
        U.post('returns-the-constant-term', p, M.to_real(o.value) == f0 if o.kind == 'return' and M.is_num(o.value) else z3.BoolVal(False))
        U.post('object-untouched', p, z3.BoolVal(p.deref(selfrec).fields == {'f0': f0}))


@unit('anova_more.ANOVA.calc_1', props=('C13',))
def u_calc_1(U):
    fn = U.func('anova', 'ANOVA.calc_1')
    expect_for_loops(fn, 1)
    st = U.state()
    d, n = z3.Ints('d n')
    F1, DOM1, ix = z3.Const('f1', RAA), z3.Const('dom1', z3.ArraySort(z3.IntSort(), X.BA)), z3.Const('ix', T.IDX)
    f1ref = _f1_tables(st, F1, DOM1, d)
    selfrec = st.alloc(VRec({'f1': f1ref}))

    def inv(ex, s, j):
        res = s.vars['res']
        if not M.is_num(res):
            raise M.ContractMismatch('res is not a number')
        return [('accumulated-sum-of-the-per-mode-terms', M.to_real(res) == X.asum(F1, ix, j))]

    AXS = T.axioms('asum')
    ex = U.executor(fn, loops={0: {'inv': inv}}, axioms=AXS)
    ex.anova = True
    ex.mode = 'ematch'
    st.vars.update(self=selfrec, x=VArr((n,), ix, 'ivec', 'i'))
    res = U.run(ex, st, pre=[d >= 1, 0 <= n, n <= d, in_domain(DOM1, ix, n)])
    U.cover('precondition-satisfiable', U.pre, axioms=AXS)
    for p, o in res:
        if o.kind != 'return' or not M.is_num(o.value):
            U.post('returns-a-number', p, False, axioms=AXS, mode='ematch')
            continue
        U.post('sum-of-the-per-mode-terms-at-the-multi-index', p, M.to_real(o.value) == X.asum(F1, ix, n), axioms=AXS, mode='ematch')
        U.post('tables-untouched', p, z3.BoolVal(p.heap[f1ref.oid].arr is F1 and p.deref(selfrec).fields == {'f1': f1ref}))
        U.canary('canary-sum-is-zero', list(p.pc) + [n >= 1], M.to_real(o.value) == 0, axioms=AXS)


def call_calc_1(F1, DOM1, d, log=None):
    """call-site contract of calc_1 (proved by unit anova_more.ANOVA.calc_1)"""
    def h(ex, st, args, kwargs, node):
        x = st.deref(args[0]) if len(args) == 1 and not kwargs else None
        if not (isinstance(x, VArr) and x.ndim == 1 and x.tag == 'ivec' and x.t is not None):
            raise M.Unsupported('calc_1 of something else than one integer multi-index')
        n = Z(x.shape[0])
        ex.oblige(st, 'call-pre', 'calc_1: multi-index not longer than the number of modes', z3.And(0 <= n, n <= d), node)
        ex.oblige(st, 'call-pre', 'calc_1: every index is an observed value of its mode', in_domain(DOM1, x.t, n), node)
        if log is not None:
            log.append(('calc_1', x))
        return X.asum(F1, x.t, n)
    return VFunc('ANOVA.calc_1', h)


# ---- calc_2: the pair terms.  self.f2 is the list of the d(d-1)/2 pair tables in storage order; W[i1][i2] NAMES the table of the
# pair of modes i1 < i2, i.e. the one stored at the position p with 2p = i1 (2d - 3 - i1) + 2 (i2 - 1) - the position that
# pair_num_to_num returns (call-site contract = what unit anova.ANOVA.pair_num_to_num proves).
#   calc_2(x) = p2out(W, x, n, n) = sum_{i1 < i2 < n} W[i1][i2][x_i1][x_i2]      for a multi-index of length 1 <= n <= d whose
#   pairs of entries are keys of their tables (KeyError otherwise: obligation `key-present`).

from contracts.anova import pair_number_twice

BAA = z3.ArraySort(z3.IntSort(), X.BA)


def call_pair_num(d, log=None):
    def h(ex, st, args, kwargs, node):
        if len(args) != 2 or kwargs:
            raise M.Unsupported('pair_num_to_num calling pattern')
        x1, x2 = [Z(ex.need_num(st, a, node)) for a in args]
        ex.oblige(st, 'call-pre', 'pair_num_to_num: two different modes in range (AssertionError for equal modes)',
                  z3.And(d >= 2, 0 <= x1, x1 < d, 0 <= x2, x2 < d, x1 != x2), node)
        ctx = list(ex.axioms) + list(st.pc)
        if M.quick_unsat(ctx + [x1 >= x2]):
            lo, hi = x1, x2
        elif M.quick_unsat(ctx + [x1 <= x2]):
            lo, hi = x2, x1
        else:
            lo, hi = z3.If(x1 < x2, x1, x2), z3.If(x1 < x2, x2, x1)
        v = ex.fresh_int('pairpos')
        st.assume(2 * v == pair_number_twice(d, lo, hi), v >= 0, 2 * v < d * (d - 1))
        if log is not None:
            log.append((x1, x2, v))
        return v
    return VFunc('ANOVA.pair_num_to_num', h)


def pair_tables(st, F2C, npairs):
    return st.alloc(VSeq(F2C, npairs, lambda c: X.KMap2(X.T2VAL(c), X.T2DOM(c)), tag='tables2'))


def w_names_the_tables(W, WD, F2C, d):
    i1, i2, pos = z3.Ints('i1!w i2!w p!w')
    return z3.ForAll([i1, i2, pos], z3.Implies(z3.And(0 <= i1, i1 < i2, i2 < d, 2 * pos == pair_number_twice(d, i1, i2)),
                                               z3.And(W[i1][i2] == X.T2VAL(F2C[pos]), WD[i1][i2] == X.T2DOM(F2C[pos]))),
                     patterns=[z3.MultiPattern(F2C[pos], W[i1][i2]), z3.MultiPattern(F2C[pos], WD[i1][i2])])


def pairs_in_domain(WD, ix, n):
    a, b = z3.Ints('a!d b!d')
    return z3.ForAll([a, b], z3.Implies(z3.And(0 <= a, a < b, b < n), WD[a][b][ix[a]][ix[b]]), patterns=[z3.MultiPattern(ix[a], ix[b])])


@unit('anova_more.ANOVA.calc_2', props=('C13',))
def u_calc_2(U):
    fn = U.func('anova', 'ANOVA.calc_2')
    expect_for_loops(fn, 2)
    st = U.state()
    d, n, npairs = z3.Ints('d n npairs')
    F2C, ix = z3.Const('f2', IA), z3.Const('ix', T.IDX)
    W, WD = z3.Const('W', X.RAAAA), z3.Const('WD', z3.ArraySort(z3.IntSort(), z3.ArraySort(z3.IntSort(), BAA)))
    f2ref = pair_tables(st, F2C, npairs)
    calls = []
    selfrec = st.alloc(VRec({'f2': f2ref, 'd': d, 'pair_num_to_num': call_pair_num(d, calls)}))

    def num(v):
        if not M.is_num(v):
            raise M.ContractMismatch('not a number')
        return M.to_real(v)

    def inv_outer(ex, s, j):
        return [('accumulated-pair-terms-of-the-processed-first-modes', num(s.vars['res']) == X.p2out(W, ix, n, j))]

    def inv_inner(ex, s, j):
        i1, x1 = Z(s.vars['i1']), Z(s.vars['x1'])
        return [('first-mode-in-range', z3.And(0 <= i1, i1 < n)), ('x1-is-the-index-of-the-first-mode', x1 == ix[i1]),
                ('accumulated-pair-terms', num(s.vars['res']) == X.p2out(W, ix, n, i1) + X.p2in(W, ix, i1, i1 + 1 + j))]

    AXP = T.axioms('psum2')
    ex = U.executor(fn, loops={0: {'inv': inv_outer}, 1: {'inv': inv_inner}}, axioms=AXP)
    ex.anova = True
    ex.nl_exact = True
    st.vars.update(self=selfrec, x=VArr((n,), ix, 'ivec', 'i'))
    pre = [d >= 2, 1 <= n, n <= d, 2 * npairs == d * (d - 1), w_names_the_tables(W, WD, F2C, d), pairs_in_domain(WD, ix, n)]
    res = U.run(ex, st, pre=pre)
    U.assumed.append('ANOVA.pair_num_to_num (unit anova.ANOVA.pair_num_to_num)')
    U.cover('precondition-satisfiable', U.pre, axioms=AXP)
    for p, o in res:
        if o.kind != 'return' or not M.is_num(o.value):
            U.post('returns-a-number', p, False, axioms=AXP)
            continue
        U.post('sum-of-the-pair-terms-over-all-pairs-of-modes', p, M.to_real(o.value) == X.p2out(W, ix, n, n), axioms=AXP)
        U.post('tables-untouched', p, z3.BoolVal(p.heap[f2ref.oid].arr is F2C and set(p.deref(selfrec).fields) == {'f2', 'd', 'pair_num_to_num'}))
        U.canary('canary-sum-is-zero', list(p.pc) + [n >= 2], M.to_real(o.value) == 0, axioms=AXP)
    U.post('positions-come-from-pair_num_to_num', U.pre, z3.BoolVal(len(calls) >= 1))


# ---- calc / __call__

def model_value(f0, order, F1, W, ix, d):
    """the fitted model at the multi-index ix: constant + per-mode terms (order >= 1) + pair terms (order >= 2)"""
    return f0 + z3.If(order >= 1, X.asum(F1, ix, d), 0) + z3.If(order >= 2, X.p2out(W, ix, d, d), 0)


def model_pre(order, DOM1, WD, ix, d):
    return [z3.Implies(order >= 1, in_domain(DOM1, ix, d)), z3.Implies(order >= 2, z3.And(d >= 2, pairs_in_domain(WD, ix, d)))]


def call_calc_2(W, WD, d, log=None):
    """call-site contract of calc_2 (proved by unit anova_more.ANOVA.calc_2)"""
    def h(ex, st, args, kwargs, node):
        x = st.deref(args[0]) if len(args) == 1 and not kwargs else None
        if not (isinstance(x, VArr) and x.ndim == 1 and x.tag == 'ivec' and x.t is not None):
            raise M.Unsupported('calc_2 of something else than one integer multi-index')
        n = Z(x.shape[0])
        ex.oblige(st, 'call-pre', 'calc_2: at least two modes and a multi-index of length 1..d', z3.And(d >= 2, 1 <= n, n <= d), node)
        ex.oblige(st, 'call-pre', 'calc_2: every pair of indices is a key of the table of its pair of modes', pairs_in_domain(WD, x.t, n), node)
        if log is not None:
            log.append(('calc_2', x))
        return X.p2out(W, x.t, n, n)
    return VFunc('ANOVA.calc_2', h)


def _model_consts():
    F1, DOM1 = z3.Const('f1', RAA), z3.Const('dom1', BAA)
    W, WD = z3.Const('W', X.RAAAA), z3.Const('WD', z3.ArraySort(z3.IntSort(), z3.ArraySort(z3.IntSort(), BAA)))
    return F1, DOM1, W, WD


@unit('anova_more.ANOVA.calc', props=('C13',))
def u_calc(U):
    fn = U.func('anova', 'ANOVA.calc')
    st = U.state()
    d, order = z3.Ints('d order')
    f0, ix = z3.Real('f0'), z3.Const('ix', T.IDX)
    F1, DOM1, W, WD = _model_consts()
    log = []
    c0 = VFunc('ANOVA.calc_0', lambda ex, s, a, kw, node: (log.append(('calc_0', None)), f0)[1] if not a and not kw else (_ for _ in ()).throw(M.Unsupported('calc_0 takes no argument')))
    fields = {'order': order, 'calc_0': c0, 'calc_1': call_calc_1(F1, DOM1, d, log), 'calc_2': call_calc_2(W, WD, d, log)}
    selfrec = st.alloc(VRec(fields))
    ex = U.executor(fn)
    ex.anova = True
    ivec = VArr((d,), ix, 'ivec', 'i')
    st.vars.update(self=selfrec, i=ivec)
    res = U.run(ex, st, pre=[d >= 1] + model_pre(order, DOM1, WD, ix, d))
    U.assumed += ['ANOVA.calc_0 / calc_1 / calc_2 (units anova_more.ANOVA.calc_0, .calc_1, .calc_2)']
    U.cover('precondition-satisfiable', U.pre)
    for p, o in res:
        if o.kind != 'return' or not M.is_num(o.value):
            U.post('returns-a-number', p, False)
            continue
        U.post('constant-plus-per-mode-terms-(order>=1)-plus-pair-terms-(order>=2)', p, M.to_real(o.value) == model_value(f0, order, F1, W, ix, d))
        U.post('object-untouched', p, z3.BoolVal(p.deref(selfrec).fields == fields))
        U.canary('canary-value-is-the-constant-term', list(p.pc) + [order >= 1], M.to_real(o.value) == f0)
    U.post('every-term-is-evaluated-at-the-given-multi-index', U.pre, z3.BoolVal(all(x is None or x is ivec for _, x in log) and len(log) >= 3))


def call_calc(f0, order, F1, DOM1, W, WD, d, log=None):
    """call-site contract of calc (proved by unit anova_more.ANOVA.calc)"""
    def h(ex, st, args, kwargs, node):
        x = st.deref(args[0]) if len(args) == 1 and not kwargs else None
        if not (isinstance(x, VArr) and x.ndim == 1 and x.tag == 'ivec' and x.t is not None):
            raise M.Unsupported('calc of something else than one integer multi-index')
        ex.oblige(st, 'call-pre', 'calc: one index per mode', z3.And(d >= 1, Z(x.shape[0]) == d), node)
        for n_, c in enumerate(model_pre(order, DOM1, WD, x.t, d)):
            ex.oblige(st, 'call-pre', ('calc: every index is an observed value of its mode (order >= 1)', 'calc: every pair of indices is a key of its pair table (order >= 2)')[n_], c, node)
        if log is not None:
            log.append(x)
        return model_value(f0, order, F1, W, x.t, d)
    f = VFunc('ANOVA.calc', h)
    f.real_of_argument = True
    return f


def _call_unit(U, ndim):
    fn = U.func('anova', 'ANOVA.__call__')
    st = U.state()
    d, order, K = z3.Ints('d order K')
    f0, ix = z3.Real('f0'), z3.Const('ix', T.IDX)
    ROWS = z3.Const('rows', z3.ArraySort(z3.IntSort(), IA))
    F1, DOM1, W, WD = _model_consts()
    log = []
    fields = {'dtype': M.TypeVal('int'), 'calc': call_calc(f0, order, F1, DOM1, W, WD, d, log)}
    selfrec = st.alloc(VRec(fields))
    ex = U.executor(fn, callees={'np.asanyarray': X.same_int_array, 'np.array': X.real_array})
    ex.anova = True
    s_ = z3.Int('s!r')
    if ndim == 1:
        I, pre = VArr((d,), ix, 'ivec', 'i'), [d >= 1] + model_pre(order, DOM1, WD, ix, d)
    elif ndim == 2:
        I = X.IRows((K, d), ROWS)
        pre = [d >= 1, K >= 0] + [z3.ForAll([s_], z3.Implies(z3.And(0 <= s_, s_ < K), c), patterns=[ROWS[s_]]) for c in model_pre(order, DOM1, WD, ROWS[s_], d)]
    else:
        I, pre = VArr(tuple(z3.Ints('n0 n1 n2'))[:ndim] if ndim else (), None, None, 'i'), []
    st.vars.update(self=selfrec, I=I)
    res = U.run(ex, st, pre=pre)
    U.assumed += ['ANOVA.calc (unit anova_more.ANOVA.calc)']
    U.cover('precondition-satisfiable', U.pre)
    sq = z3.Int('sq')
    for p, o in res:
        if ndim not in (1, 2):
            U.raise_iff('ValueError-for-an-array-that-is-neither-one-multi-index-nor-a-batch', p, z3.BoolVal(o.kind == 'raise' and o.exc == 'ValueError' and not log))
            continue
        if o.kind != 'return':
            U.raise_iff('accepts-a-multi-index-and-a-batch', p, False)
            continue
        v = p.deref(o.value)
        if ndim == 1:
            U.post('single-multi-index: the-model-value', p, M.to_real(v) == model_value(f0, order, F1, W, ix, d) if M.is_num(v) else z3.BoolVal(False))
            U.canary('canary-value-is-the-constant-term', list(p.pc) + [order >= 1], M.to_real(v) == f0 if M.is_num(v) else z3.BoolVal(False))
        else:
            ok = isinstance(v, VArr) and v.ndim == 1 and v.tag == 'rvec' and v.t is not None
            U.post('batch: a-1-D-float-array', p, z3.BoolVal(ok))
            if ok:
                U.post('batch: one-value-per-row', p, Z(v.shape[0]) == K)
                U.post('batch: element-s-is-the-model-value-at-row-s', list(p.pc) + [0 <= sq, sq < K], v.t[sq] == model_value(f0, order, F1, W, ROWS[sq], d))
                U.canary('canary-batch-of-constants', list(p.pc) + [0 <= sq, sq < K, order >= 1], v.t[sq] == f0)
        U.post('object-untouched', p, z3.BoolVal(p.deref(selfrec).fields == fields))


@unit('anova_more.ANOVA.__call__.single', props=('C13',))
def u_call_1(U):
    _call_unit(U, 1)


@unit('anova_more.ANOVA.__call__.batch', props=('C13',))
def u_call_2(U):
    _call_unit(U, 2)


@unit('anova_more.ANOVA.__call__.bad-ndim', props=('C13',))
def u_call_3(U):
    _call_unit(U, 3)
    _call_unit(U, 0)


# ----------------------------------------------------------------------------------------------
# ANOVA.cores (dispatch) - control tier: which builder is called with which arguments, what is returned.  Whole tensors are tokens.
#   * raises ValueError iff order < 1 (and then nothing is built);
#   * cores_1 is called exactly once with (r, noise'), noise' = noise if rel_noise is None else rel_noise * max(|y_max|, |y_min|);
#   * order == 1: the result of cores_1 is returned as it is (unit anova_more.ANOVA.cores_1.value: its value; anova.ANOVA.cores_1: its
#     shape / pattern);
#   * order >= 2: cores_2 is called once with (r, only_near) and the result is add_many([cores_1 result] + cores_2 result, r=r): first-order
#     tensor first, then the pair tensors in storage order, the caller's rank cap and the default accuracy.  What add_many returns
#     for lists of 2 / 3 tensors is the business of the units act_many.add_many.*; nothing is assumed about it here.

def _tts(st, arr, n):
    return st.alloc(VSeq(arr, n, lambda t: VSym(t, 'tt'), tag='tts'))


def _cores_dispatch_unit(U, with_rel):
    fn = U.func('anova', 'ANOVA.cores')
    st = U.state()
    order, r, n2 = z3.Ints('order r n2')
    noise, ymax, ymin, rel = z3.Reals('noise y_max y_min rel_noise')
    only_near = z3.Bool('only_near')
    t1, tsum = z3.Ints('tt_first tt_sum')
    C2 = z3.Const('tts2', IA)
    def rec(s, key, item):
        s.ghost[key] = s.ghost.get(key, []) + [item]          # per-path call log (the ghost state is copied at every fork)

    def c1(ex, s, a, kw, node):
        rec(s, 'c1', (list(a), dict(kw)))
        return VSym(t1, 'tt')

    def c2(ex, s, a, kw, node):
        rec(s, 'c2', (list(a), dict(kw)))
        return _tts(s, C2, n2)

    def add_many(ex, s, a, kw, node):
        rec(s, 'add', ([s.deref(x) for x in a], dict(kw)))
        return VSym(tsum, 'tt')

    fields = {'order': order, 'y_max': ymax, 'y_min': ymin, 'cores_1': VFunc('ANOVA.cores_1', c1), 'cores_2': VFunc('ANOVA.cores_2', c2)}
    selfrec = st.alloc(VRec(fields))
    ex = U.executor(fn, callees={'act_many.add_many': add_many})
    ex.anova = True
    st.vars.update(self=selfrec, r=r, noise=noise, only_near=only_near, rel_noise=VOpt(z3.BoolVal(False), rel) if with_rel else NONE)
    res = U.run(ex, st, pre=[n2 >= 0])
    U.cover('precondition-satisfiable', U.pre)
    absr = lambda x: z3.If(x >= 0, x, -x)
    want_noise = rel * z3.If(absr(ymin) > absr(ymax), absr(ymin), absr(ymax)) if with_rel else noise
    kq = z3.Int('k!q')
    for p, o in res:
        g1, g2, ga = p.ghost.get('c1', []), p.ghost.get('c2', []), p.ghost.get('add', [])
        if o.kind == 'raise':
            U.raise_iff('ValueError-iff-order<1', p, z3.And(order < 1, z3.BoolVal(o.exc == 'ValueError')))
            U.post('nothing-is-built-when-the-order-is-rejected', p, z3.BoolVal(not g1 and not g2 and not ga))
            continue
        U.raise_iff('accepts-every-order>=1', p, order >= 1)
        v = p.deref(o.value)
        U.post('returns-a-tensor', p, z3.BoolVal(isinstance(v, VSym)))
        if isinstance(v, VSym):
            U.post('order-1: the-first-order-tensor-itself; order>=2: the-sum-built-by-add_many', p, v.term == z3.If(order >= 2, tsum, t1))
            U.canary('canary-always-the-first-order-tensor', p, v.term == t1)
        U.post('object-untouched', p, z3.BoolVal(p.deref(selfrec).fields == fields))
        b1 = bind_args('anova', 'ANOVA.cores_1', *g1[0]) if len(g1) == 1 else None
        ok1 = b1 is not None and set(b1) == {'r', 'noise'} and all(M.is_num(x) for x in b1.values())
        U.post('cores_1-called-exactly-once-with-rank-and-noise', p, z3.BoolVal(ok1))
        if ok1:
            U.post('cores_1-gets-the-rank-and-the-(relative)-noise', p, z3.And(Z(b1['r']) == r, M.to_real(b1['noise']) == want_noise))
            U.canary('canary-noise-is-zero', p, M.to_real(b1['noise']) == 0)
        U.post('cores_2-and-add_many-are-called-once-for-order>=2-and-not-at-all-for-order-1', p,
               z3.And(z3.BoolVal(len(g2) == len(ga) and len(g2) <= 1), (order >= 2) == z3.BoolVal(len(g2) == 1)))
        for a, kw in g2:
            b2 = bind_args('anova', 'ANOVA.cores_2', a, kw)
            okc = b2 is not None and set(b2) == {'r', 'only_near'} and M.is_num(b2['r']) and M.is_boolv(b2['only_near'])
            U.post('cores_2-gets-the-rank-and-only_near', p, z3.And(Z(b2['r']) == r, Z(b2['only_near']) == only_near) if okc else z3.BoolVal(False))
        for a, kw in ga:
            ba = bind_args('act_many', 'add_many', a, kw, method=False)
            okl = ba is not None and set(ba) == {'Y_many', 'r'} and isinstance(ba['Y_many'], VSeq) and ba['Y_many'].tag == 'tts' and M.is_num(ba['r'])
            U.post('add_many-gets-one-list-of-tensors-and-only-the-rank-cap', p, z3.BoolVal(okl))
            if okl:
                L = ba['Y_many']
                U.post('add_many: the-caller-s-rank-cap', p, Z(ba['r']) == r)
                U.post('add_many: first-order-tensor-first-then-all-pair-tensors-in-order', list(p.pc) + [0 <= kq, kq < n2],
                       z3.And(L.n == n2 + 1, L.arr[0] == t1, L.arr[kq + 1] == C2[kq]))


@unit('anova_more.ANOVA.cores.dispatch', props=('C13',))
def u_cores_dispatch(U):
    _cores_dispatch_unit(U, False)


@unit('anova_more.ANOVA.cores.dispatch.rel_noise', props=('C13',))
def u_cores_dispatch_rel(U):
    _cores_dispatch_unit(U, True)


# ----------------------------------------------------------------------------------------------
# ANOVA.__init__ (argument validation) and the wrapper anova.anova - control tier (C13; C10: the seed goes through _rand exactly once
# and nowhere else).
#   __init__: raises ValueError iff  order not in {1, 2}  or  (fpath is None and (I_trn is None or y_trn is None))  or
#             (fpath is not None and (I_trn is not None or y_trn is not None));  otherwise self.order = order, self.rand is the
#             generator that teneva._rand makes from the seed (called exactly once, with the seed), and the model comes from exactly one
#             of build(I_trn, y_trn) (no fpath) / load(fpath); nothing is built or loaded when the arguments are rejected.
#   anova:    ANOVA(I_trn, y_trn, order, seed, fpath) in this order, then .cores(r, noise) of that object, whose result is returned;
#             only_near / rel_noise stay at their defaults.

def bind_args(module, qual, a, kw, method=True):
    """positional / keyword arguments of a call -> {parameter name: value} by the signature read from the source (so that
    `f(x, k=v)` and `f(x, v)` are the same call); None if the call does not fit the signature."""
    from ttvc import symex
    params = symex.load_func(module, qual).params[1 if method else 0:]
    if len(a) > len(params):
        return None
    out = dict(zip(params, a))
    for k, v in kw.items():
        if k in out or k not in params:
            return None
        out[k] = v
    return out


def _tok(name):
    return VSym(z3.Const(name, z3.DeclareSort('PyObj')), name)


def _rec(s, key, item):
    s.ghost[key] = s.ghost.get(key, []) + [item]


def _same_arg(v, opt):
    """the value handed over is the (optional) parameter itself"""
    return v is opt


@unit('anova_more.ANOVA.__init__', props=('C13', 'C10'))
def u_init(U):
    fn = U.func('anova', 'ANOVA.__init__')
    st = U.state()
    order = z3.Int('order')
    I_trn, y_trn = VOpt(z3.Bool('I_none'), _tok('I_trn')), VOpt(z3.Bool('y_none'), _tok('y_trn'))
    seed, fpath = S.opt_int('seed'), S.opt_str('fpath')
    gen = R.VGen('from-seed')

    def rand(ex, s, a, kw, node):
        _rec(s, 'rand', (list(a), dict(kw)))
        M.used('teneva._rand(seed) -> numpy Generator derived from the seed (contract proved by unit utils._rand)')
        return gen
    build = VFunc('ANOVA.build', lambda ex, s, a, kw, node: (_rec(s, 'build', (list(a), dict(kw))), NONE)[1])
    load = VFunc('ANOVA.load', lambda ex, s, a, kw, node: (_rec(s, 'load', (list(a), dict(kw))), NONE)[1])
    selfrec = st.alloc(VRec({'build': build, 'load': load}))
    ex = U.executor(fn, callees={'utils._rand': rand})
    ex.anova = True
    st.vars.update(self=selfrec, I_trn=I_trn, y_trn=y_trn, order=order, seed=seed, fpath=fpath)
    res = U.run(ex, st)
    U.assumed.append('utils._rand (unit utils._rand)')
    bad = z3.Or(z3.Not(z3.Or(order == 1, order == 2)),
                z3.And(fpath.isnone, z3.Or(I_trn.isnone, y_trn.isnone)),
                z3.And(z3.Not(fpath.isnone), z3.Or(z3.Not(I_trn.isnone), z3.Not(y_trn.isnone))))
    for p, o in res:
        gr, gb, gl = p.ghost.get('rand', []), p.ghost.get('build', []), p.ghost.get('load', [])
        U.post('seed-goes-through-_rand-exactly-once', p, z3.BoolVal(len(gr) == 1 and bind_args('utils', '_rand', *gr[0], method=False) == {'seed': seed}))
        f = p.deref(selfrec).fields
        if o.kind == 'raise':
            U.raise_iff('ValueError-iff-the-arguments-are-invalid', p, z3.And(bad, z3.BoolVal(o.exc == 'ValueError')))
            U.post('nothing-is-built-or-loaded-when-the-arguments-are-rejected', p, z3.BoolVal(not gb and not gl))
            continue
        U.raise_iff('accepts-exactly-the-valid-arguments', p, z3.Not(bad))
        U.post('returns-None', p, z3.BoolVal(o.value is NONE))
        U.post('generator-and-order-are-stored', p, z3.And(z3.BoolVal(f.get('rand') is gen and M.is_num(f.get('order')) and set(f) == {'build', 'load', 'rand', 'order'}),
                                                        Z(f['order']) == order if M.is_num(f.get('order')) else False))
        U.post('exactly-one-of-build-and-load', p, z3.BoolVal(len(gb) + len(gl) == 1))
        U.post('build-iff-no-fpath', p, z3.BoolVal(len(gb) == 1) == fpath.isnone)
        for a, kw in gb:
            U.post('build-gets-the-samples-and-the-values', p, z3.BoolVal(bind_args('anova', 'ANOVA.build', a, kw) == {'I_trn': I_trn, 'y_trn': y_trn}))
        for a, kw in gl:
            U.post('load-gets-the-path', p, z3.BoolVal(bind_args('anova', 'ANOVA.load', a, kw) == {'fpath': fpath}))
    U.canary('canary-never-accepts', [], bad)
    U.canary('canary-always-accepts', [], z3.Not(bad))


@unit('anova_more.anova', props=('C13', 'C10'))
def u_anova(U):
    fn = U.func('anova', 'anova')
    st = U.state()
    order, r = z3.Ints('order r')
    noise = z3.Real('noise')
    I_trn, y_trn, out = _tok('I_trn'), _tok('y_trn'), _tok('cores')
    seed, fpath = S.opt_int('seed'), S.opt_str('fpath')

    def cores(ex, s, a, kw, node):
        _rec(s, 'cores', (list(a), dict(kw)))
        return out

    def ctor(ex, s, a, kw, node):
        _rec(s, 'ctor', (list(a), dict(kw)))
        return s.alloc(VRec({'cores': VFunc('ANOVA.cores', cores)}))

    ex = U.executor(fn, callees={'ANOVA': ctor})
    ex.anova = True
    st.vars.update(I_trn=I_trn, y_trn=y_trn, r=r, order=order, noise=noise, seed=seed, fpath=fpath)
    res = U.run(ex, st)
    U.assumed.append('ANOVA.__init__ / ANOVA.cores (units anova_more.ANOVA.__init__, anova_more.ANOVA.cores.dispatch)')
    for p, o in res:
        gc, gk = p.ghost.get('ctor', []), p.ghost.get('cores', [])
        bc = bind_args('anova', 'ANOVA.__init__', *gc[0]) if len(gc) == 1 else None
        want = {'I_trn': I_trn, 'y_trn': y_trn, 'order': order, 'seed': seed, 'fpath': fpath}
        U.post('one-ANOVA-object-from-(I_trn, y_trn, order, seed, fpath)', p, z3.BoolVal(bc is not None and set(bc) == set(want) and all(bc[k] is want[k] for k in want)))
        bk = bind_args('anova', 'ANOVA.cores', *gk[0]) if len(gk) == 1 else None
        okk = bk is not None and set(bk) == {'r', 'noise'} and all(M.is_num(x) for x in bk.values())
        U.post('one-call-of-cores-with-rank-and-noise-only', p, z3.BoolVal(okk))
        if okk:
            U.post('cores-gets-the-rank-and-the-noise', p, z3.And(Z(bk['r']) == r, M.to_real(bk['noise']) == noise))
            U.canary('canary-noise-is-zero', p, M.to_real(bk['noise']) == 0)
        U.post('returns-what-cores-returns', p, z3.BoolVal(o.kind == 'return' and o.value is out))


# ----------------------------------------------------------------------------------------------
# anova_func.ANOVA_func.cores - control tier (C13, functional variant): how the coefficient tensor is assembled.
#
# self.coeffs = [c0, cf_1, .., cf_d] (constant term, then one vector of n-1 Chebyshev coefficients per mode; the fit itself is not
# under contract).  Whole tensors are tokens; VALM(Y) is an ARBITRARY additive valuation of tensors (think: the value at a fixed
# multi-index): add(A, B) has VALM(A) + VALM(B) (unit act_two.add.tt_tt: values add up), the tensor delta(shape, idx, v) with
# idx = q e_i (i = the mode at hand) has dterm(i, q, v) and with idx = 0 has dzero(v) (unit tensors.delta: v at idx, 0 elsewhere) - the call-site
# contract OBLIGES that the shape is [n] * d and that idx is exactly that unit vector / the zero vector, inside the shape.  Proved:
#   * the tensor before truncation is the formal sum   c0 delta(0,..,0) + sum_i sum_p cf_i[p] delta((p+1) e_i),
#         VALM(A) = dzero(c0) + fsum_out(C, L, d),
#     every fitted coefficient exactly once, whatever its magnitude, at position p+1 of its own mode;
#   * e is None: that tensor is returned as it is; otherwise the result is truncate(A, e) with the caller's accuracy and no rank cap.
# NOT covered: coeffs (the ridge fits), the element-level meaning of the formal sum (units tensors.delta / act_two.add), truncate.

VALM = z3.Function('valm', z3.IntSort(), z3.RealSort())


@unit('anova_more.ANOVA_func.cores', props=('C13',))
def u_func_cores(U):
    fn = U.func('anova_func', 'ANOVA_func.cores')
    expect_for_loops(fn, 2)
    st = U.state()
    d, n = z3.Ints('d n')
    c0 = z3.Real('c0')
    C, L = z3.Const('cf', RAA), z3.Const('cflen', IA)
    tail = st.alloc(VSeq(C, d, lambda t: V.RVec(L[t.arg(1)], t), tag='rvecs'))
    cfs = st.alloc(X.CfsList(c0, tail))
    selfrec = st.alloc(VRec({'coeffs': cfs, 'd': d, 'n': n}))
    e = S.opt_real('e')
    tq = z3.Int('t!q')

    def delta(ex, s, a, kw, node):
        b = bind_args('tensors', 'delta', a, kw, method=False)
        if b is None or set(b) != {'n', 'i', 'v'}:
            raise M.Unsupported('delta calling pattern')
        shp, idx, v = s.deref(b['n']), s.deref(b['i']), ex.need_num(s, b['v'], node)
        if not (isinstance(shp, VSeq) and shp.tag == 'int' and isinstance(idx, VArr) and idx.ndim == 1 and idx.tag == 'ivec' and idx.t is not None):
            raise M.Unsupported('delta of something else than a list of mode sizes and an integer multi-index')
        ex.oblige(s, 'call-pre', 'delta: d modes of size n each', z3.And(shp.n == d, z3.ForAll([tq], z3.Implies(z3.And(0 <= tq, tq < d), shp.arr[tq] == n))), node)
        ex.oblige(s, 'call-pre', 'delta: one index per mode', Z(idx.shape[0]) == d, node)
        D = ex.fresh_int('delta')
        if '_j0' in s.ghost:             # inside the loop over the modes: mode i = number of completed iterations of that loop
            i = s.ghost['_j0']
            q = idx.t[i]
            ex.oblige(s, 'call-pre', 'delta: the multi-index is q e_i - zero in every mode but the current one',
                      z3.And(0 <= i, i < d, z3.ForAll([tq], z3.Implies(z3.And(0 <= tq, tq < d, tq != i), idx.t[tq] == 0))), node)
            ex.oblige(s, 'call-pre', 'delta: the multi-index is inside the shape', z3.And(0 <= q, q < n), node)
            s.assume(VALM(D) == X.dterm(i, q, M.to_real(v)))
        else:
            ex.oblige(s, 'call-pre', 'delta: the multi-index of the constant term is (0, .., 0)',
                      z3.ForAll([tq], z3.Implies(z3.And(0 <= tq, tq < d), idx.t[tq] == 0)), node)
            ex.oblige(s, 'call-pre', 'delta: the multi-index is inside the shape', n >= 1, node)
            s.assume(VALM(D) == X.dzero(M.to_real(v)))
        return VSym(D, 'tt')

    def add(ex, s, a, kw, node):
        if len(a) != 2 or kw or not all(isinstance(x, VSym) for x in a):
            raise M.Unsupported('add of something else than two tensors')
        R_ = ex.fresh_int('sum')
        s.assume(VALM(R_) == VALM(a[0].term) + VALM(a[1].term))
        return VSym(R_, 'tt')

    def truncate(ex, s, a, kw, node):
        b = bind_args('transformation', 'truncate', a, kw, method=False)
        if b is None or not isinstance(b.get('Y'), VSym):
            raise M.Unsupported('truncate calling pattern')
        T_ = ex.fresh_int('trunc')
        _rec(s, 'trunc', (b, T_))
        return VSym(T_, 'tt')

    def tok(v):
        if not isinstance(v, VSym):
            raise M.ContractMismatch('A is not a tensor')
        return v.term

    def the_idx(s):
        idx = s.vars['idx']
        if not (isinstance(idx, VArr) and idx.ndim == 1 and idx.tag == 'ivec' and idx.t is not None):
            raise M.ContractMismatch('idx is not an integer vector')
        return idx

    def inv_outer(ex, s, j):
        return [('formal-sum-of-the-processed-modes', VALM(tok(s.vars['A'])) == X.dzero(c0) + X.fsum_out(C, L, j)),
                ('idx-has-one-entry-per-mode', Z(the_idx(s).shape[0]) == d)]

    def inv_inner(ex, s, j):
        i, idx = Z(s.vars['i']), the_idx(s)
        return [('mode-in-range', z3.And(0 <= i, i < d)), ('idx-has-one-entry-per-mode', Z(idx.shape[0]) == d),
                ('idx-is-zero-outside-the-current-mode', z3.ForAll([tq], z3.Implies(z3.And(0 <= tq, tq < d, tq != i), idx.t[tq] == 0), patterns=[idx.t[tq]])),
                ('formal-sum-of-the-processed-coefficients', VALM(tok(s.vars['A'])) == X.dzero(c0) + X.fsum_out(C, L, i) + X.fsum_in(C, i, j))]

    AXF = T.axioms('fsum')
    ex = U.executor(fn, loops={0: {'inv': inv_outer}, 1: {'inv': inv_inner}}, axioms=AXF,
                    callees={'tensors.delta': delta, 'act_two.add': add, 'transformation.truncate': truncate, 'np.zeros': X.int_zeros})
    ex.anova = True
    st.vars.update(self=selfrec, e=e)
    kq = z3.Int('k!q')
    pre = [d >= 2, n >= 2, z3.ForAll([kq], z3.Implies(z3.And(0 <= kq, kq < d), L[kq] == n - 1), patterns=[L[kq]])]
    res = U.run(ex, st, pre=pre)
    U.assumed += ['tensors.delta (unit tensors.delta)', 'act_two.add (unit act_two.add.tt_tt)', 'transformation.truncate (units transformation.truncate.*)']
    U.cover('precondition-satisfiable', U.pre, axioms=AXF)
    for p, o in res:
        v = p.deref(o.value) if o.kind == 'return' else None
        if not isinstance(v, VSym):
            U.post('returns-a-tensor', p, False, axioms=AXF)
            continue
        gt = p.ghost.get('trunc', [])
        U.post('truncation-iff-an-accuracy-is-given', p, z3.BoolVal(len(gt) == 1) == z3.Not(e.isnone), axioms=AXF)
        U.post('at-most-one-truncation', p, z3.BoolVal(len(gt) <= 1))
        if gt:
            b, T_ = gt[0]
            U.post('result-is-the-truncation-with-the-caller-s-accuracy-and-no-rank-cap', p,
                   z3.And(z3.BoolVal(set(b) == {'Y', 'e'} and M.is_num(S.as_opt_num(b.get('e', NONE)).val)), v.term == T_, M.to_real(S.as_opt_num(b.get('e', 0)).val) == e.val), axioms=AXF)
            A_ = b['Y'].term
        else:
            A_ = v.term
        U.post('every-fitted-coefficient-enters-the-formal-sum-exactly-once-at-its-own-position', p, VALM(A_) == X.dzero(c0) + X.fsum_out(C, L, d), axioms=AXF)
        U.canary('canary-only-the-constant-term', p, VALM(A_) == X.dzero(c0), axioms=AXF)
        U.post('object-untouched', p, z3.BoolVal(p.deref(selfrec).fields == {'coeffs': cfs, 'd': d, 'n': n} and p.heap[tail.oid].arr is C))


# ----------------------------------------------------------------------------------------------
# ANOVA.build: the observed domain, then the model through build_0 / build_1 / build_2.
#
#   * self.d = number of columns of I_trn, self.dtype = its dtype, y_max / y_min are numbers (their values are not under contract);
#   * for every mode k:  self.domain[k] = np.unique(I_trn[:, k]) = unq(ICOL[k], N) - the sorted DISTINCT observed values of column k
#     (axiom group 'unique': strictly increasing, each occurs in the column, every entry of the column is among them) - and
#     self.shapes[k] = its length;
#   * then build_0 (always), build_1 iff order >= 1 (else f1 = []), build_2 iff order >= 2 (else f2 = []), each once, on the same data;
#     the call-site contracts are the units anova_more.ANOVA.build_0 / build_1 - the precondition of build_1 ("every domain point
#     occurs in its column") is PROVED here from the np.unique facts - so that afterwards  f0 = rmean(y, N)  and, for order >= 1,
#     f1[k][x] = cmean(y, ICOL[k], x, N) - f0  with exactly the observed values of mode k as keys.  build_2 is not under contract
#     (its result is an opaque attribute).

class _Sel:
    """k -> f(k): lets table_ok read the domain / the mode sizes from a list of coded vectors"""
    def __init__(self, f):
        self.f = f

    def __getitem__(self, k):
        return self.f(k)


@unit('anova_more.ANOVA.build', props=('C13', 'C11'))
def u_build(U):
    fn = U.func('anova', 'ANOVA.build')
    expect_for_loops(fn, 1)
    st = U.state()
    N, d, order = z3.Ints('N d order')
    I_trn, ICOL, y_trn, y = _data(st, N, d)
    kq, jq, xq = z3.Ints('k!q j!q x!q')
    f2tok = _tok('f2')

    def domain_of(s):
        rec = s.deref(s.vars['self'])
        dom, shp = s.deref(rec.fields.get('domain')), rec.fields.get('shapes')
        if not (isinstance(dom, VSeq) and dom.tag == 'ivecs' and isinstance(shp, VArr) and shp.ndim == 1 and shp.tag == 'ivec' and shp.t is not None):
            raise M.ContractMismatch('self.domain / self.shapes are not the list of integer vectors / the integer vector of their lengths')
        return dom, shp

    def dom_ok(dom, shp, upto):
        c = dom.arr[kq]
        return z3.ForAll([kq], z3.Implies(z3.And(0 <= kq, kq < upto),
                                          z3.And(X.DARR(c) == X.unq(ICOL[kq], N), X.DLEN(c) == X.unqlen(ICOL[kq], N), shp.t[kq] == X.unqlen(ICOL[kq], N))),
                         patterns=[dom.arr[kq], shp.t[kq]])

    def inv(ex, s, j):
        dom, shp = domain_of(s)
        return [('one-domain-per-processed-mode', dom.n == j), ('one-size-per-mode', Z(shp.shape[0]) == d),
                ('domain-is-the-sorted-distinct-values-of-the-column-and-shapes-its-length', dom_ok(dom, shp, j))]

    def hook(ex, h, pre_, j):
        X.havoc_attr(ex, h, 'self', 'domain')
        X.havoc_attr(ex, h, 'self', 'shapes')

    def same_data(a, kw, name):
        b = bind_args('anova', 'ANOVA.' + name, a, kw)
        return b is not None and set(b) == {'I_trn', 'y_trn'} and b['I_trn'] is I_trn and b['y_trn'] is y_trn

    def build_0(ex, s, a, kw, node):
        _rec(s, 'b0', same_data(a, kw, 'build_0'))
        ex.oblige(s, 'call-pre', 'build_0: at least one sample', N >= 1, node)
        s.deref(s.vars['self']).fields['f0'] = X.rmean(y, N)
        return NONE

    def build_1(ex, s, a, kw, node):
        _rec(s, 'b1', same_data(a, kw, 'build_1'))
        rec = s.deref(s.vars['self'])
        dom, shp = domain_of(s)
        if not M.is_num(rec.fields.get('f0')):           # AttributeError in build_1 (it reads self.f0)
            ex.oblige(s, 'call-pre', 'build_1: the constant term is set before (self.f0 is read)', False, node)
            rec.fields['f0'] = ex.fresh_real('undef')
        ex.oblige(s, 'call-pre', 'build_1: samples, one domain per mode', z3.And(N >= 1, d >= 1, dom.n == d), node)
        ex.oblige(s, 'call-pre', 'build_1: domain lengths are non-negative', z3.ForAll([kq], z3.Implies(z3.And(0 <= kq, kq < d), X.DLEN(dom.arr[kq]) >= 0)), node)
        ex.oblige(s, 'call-pre', 'build_1: every domain point occurs in its column',
                  z3.ForAll([kq, jq], z3.Implies(z3.And(0 <= kq, kq < d, 0 <= jq, jq < X.DLEN(dom.arr[kq])), X.ccnt(ICOL[kq], X.DARR(dom.arr[kq])[jq], N) >= 1)), node)
        F = ex.fresh('f1', IA)
        rec.fields['f1'] = X.table_seq(ex, s, F, d)
        DMs, shs = _Sel(lambda k: X.DARR(dom.arr[k])), _Sel(lambda k: X.DLEN(dom.arr[k]))
        a_, b_, j_, x_ = table_ok(F[kq], kq, DMs, shs, ICOL, y, N, M.to_real(rec.fields['f0']))
        rng = z3.And(0 <= kq, kq < d)
        s.assume(z3.ForAll([kq, j_], z3.Implies(rng, a_), patterns=[z3.MultiPattern(F[kq], X.DARR(dom.arr[kq])[j_])]),
                 z3.ForAll([kq, x_], z3.Implies(rng, b_), patterns=[X.TDOM(F[kq])[x_], X.TVAL(F[kq])[x_]]))
        return NONE

    def build_2(ex, s, a, kw, node):
        _rec(s, 'b2', same_data(a, kw, 'build_2'))
        s.deref(s.vars['self']).fields['f2'] = f2tok
        return NONE

    methods = {'build_0': VFunc('ANOVA.build_0', build_0), 'build_1': VFunc('ANOVA.build_1', build_1), 'build_2': VFunc('ANOVA.build_2', build_2)}
    selfrec = st.alloc(VRec(dict(methods, order=order)))
    AXU = T.axioms('unique')
    ex = U.executor(fn, loops={0: {'inv': inv, 'havoc_hook': hook}}, axioms=AXU,
                    callees={'np.asanyarray': X.same_array, 'np.unique': X.np_unique, 'np.zeros': X.int_zeros},
                    type_hints={'self.domain': lambda ex_, s_: X.ivec_seq(ex_, s_)})
    ex.anova, ex.attr_havoc = True, {'self.domain', 'self.shapes'}
    ex.mode = 'ematch'
    st.vars.update(self=selfrec, I_trn=I_trn, y_trn=y_trn)
    res = U.run(ex, st, pre=[N >= 1, d >= 1])
    U.assumed += ['ANOVA.build_0 / build_1 (units anova_more.ANOVA.build_0, anova_more.ANOVA.build_1)']
    U.cover('precondition-satisfiable', U.pre, axioms=AXU)
    kk, jj, xx, aa, bb = z3.Ints('kk jj xx aa bb')
    for p, o in res:
        if o.kind != 'return':
            U.post('no-exception', p, False, axioms=AXU, mode='ematch')
            continue
        f = p.deref(selfrec).fields
        dom, shp = domain_of(p)
        ctx = list(p.pc) + [0 <= kk, kk < d]
        pts, ln = X.DARR(dom.arr[kk]), X.DLEN(dom.arr[kk])
        U.post('d-dtype-and-value-range-are-set', p, z3.And(z3.BoolVal(isinstance(f.get('dtype'), M.TypeVal) and f['dtype'].name == 'int' and M.is_num(f.get('y_max'))
                                                                     and M.is_num(f.get('y_min')) and M.is_num(f.get('d'))), Z(f['d']) == d if M.is_num(f.get('d')) else False), axioms=AXU, mode='ematch')
        U.post('one-domain-and-one-size-per-mode', p, z3.And(dom.n == d, Z(shp.shape[0]) == d), axioms=AXU, mode='ematch')
        U.post('domain-of-a-mode-is-np.unique-of-its-column-and-shapes-holds-its-length', ctx,
               z3.And(pts == X.unq(ICOL[kk], N), ln == X.unqlen(ICOL[kk], N), shp.t[kk] == ln), axioms=AXU, mode='ematch')
        U.post('domain-points-are-strictly-increasing-(distinct)', ctx + [0 <= aa, aa < bb, bb < ln], pts[aa] < pts[bb], axioms=AXU, mode='ematch')
        U.post('every-domain-point-occurs-in-its-column', ctx + [0 <= jj, jj < ln], X.ccnt(ICOL[kk], pts[jj], N) >= 1, axioms=AXU, mode='ematch')
        U.post('every-entry-of-the-column-is-a-domain-point', ctx + [0 <= jj, jj < N],
               z3.And(0 <= X.upos(ICOL[kk], N, jj), X.upos(ICOL[kk], N, jj) < ln, pts[X.upos(ICOL[kk], N, jj)] == ICOL[kk][jj]), axioms=AXU, mode='ematch')
        U.post('between-one-and-N-points-per-mode', ctx, z3.And(1 <= ln, ln <= N), axioms=AXU, mode='ematch')
        U.post('constant-term-is-the-sample-mean-(build_0-once-on-the-data)', p, z3.And(z3.BoolVal(p.ghost.get('b0') == [True] and M.is_num(f.get('f0'))),
                                                                                   M.to_real(f['f0']) == X.rmean(y, N) if M.is_num(f.get('f0')) else False), axioms=AXU, mode='ematch')
        b1, b2 = p.ghost.get('b1', []), p.ghost.get('b2', [])
        U.post('build_1-once-on-the-data-iff-order>=1-else-no-first-order-tables', p,
               z3.And(z3.BoolVal(b1 in ([], [True])), (order >= 1) == z3.BoolVal(b1 == [True]),
                      z3.BoolVal(b1 == [True] or (isinstance(p.deref(f.get('f1')), VList) and not p.deref(f['f1']).items))), axioms=AXU, mode='ematch')
        U.post('build_2-once-on-the-data-iff-order>=2-else-no-pair-tables', p,
               z3.And(z3.BoolVal(b2 in ([], [True])), (order >= 2) == z3.BoolVal(b2 == [True]),
                      z3.BoolVal((b2 == [True] and f.get('f2') is f2tok) or (isinstance(p.deref(f.get('f2')), VList) and not p.deref(f['f2']).items))), axioms=AXU, mode='ematch')
        if b1 == [True]:
            F = p.deref(f['f1'])
            DMs, shs = _Sel(lambda k: X.DARR(dom.arr[k])), _Sel(lambda k: X.DLEN(dom.arr[k]))
            a_, b_, j_, x_ = table_ok(F.arr[kk], kk, DMs, shs, ICOL, y, N, X.rmean(y, N))
            U.post('order>=1: every-observed-value-of-a-mode-is-a-key-of-its-table', ctx, z3.substitute(a_, (j_, jj)), axioms=AXU, mode='ematch')
            U.post('order>=1: every-key-is-an-observed-value-and-holds-the-conditional-mean-minus-the-sample-mean', ctx, z3.substitute(b_, (x_, xx)), axioms=AXU, mode='ematch')
        U.post('methods-untouched', p, z3.BoolVal(all(f.get(k) is v for k, v in methods.items())))
        U.canary('canary-empty-domains', ctx, ln == 0, axioms=AXU)


# ----------------------------------------------------------------------------------------------
# Hand-made mutants (MUT_BASE=/tmp/base tools/mut.sh <file> '<sed>' <units>) and the named obligation that reports each.
# R(f, g) abbreviates the sed address '/def f/,/def g/' that restricts the edit to one method of teneva/anova.py.
#
# anova_more.ANOVA.cores_1.value      (anova.py, R(cores_1, cores_2))
#   s/core\[1, :, 1\] = 1\./core[1, :, 0] = 1./                              inv-keep loop0.pattern-so-far
#   s/self.f1_arr\[self.d-1\] + self.f0/self.f1_arr[self.d-1]/               post designated-entries-are-the-additive-model-pattern-and-every-other-entry-is-zero
#   s/core\[0, :, 1\] = self.f1_arr\[i\]/core[0, :, 1] = self.f1_arr[i-1]/    call-pre fibre-assignment-length-matches, inv-keep loop0.pattern-so-far
#   s/range(1, self.d-1)/range(1, self.d-2)/                                  post d-cores, core-shapes-.., designated-entries-..
#   s/core\[1, :, 0\] = 1\./core[0, :, 0] = 1./                               post designated-entries-..
#   quiet (equivalent): `core[1, :, 1] = 1.0 * 1`; undecided: -self.f1_arr[0] (Unsupported fibre value), while loop for the for loop (ContractMismatch)
#   (the value lemmas are consequences of the pattern posts: a mutant of the source fails at the pattern, a wrong lemma at its own label)
# anova_more.ANOVA.build_0            (anova.py)
#   s/self.f0 = np.mean(y_trn)/self.f0 = np.mean(y_trn[:-1])/                safety mean-of-a-non-empty-array (refuted, N = 1), post f0-is-the-sample-mean: f0-times-.. (refuted)
#   s/self.f0 = np.mean(y_trn)/self.f0 = -np.mean(y_trn)/                    post f0-is-the-sample-mean: .. (refuted)
#   s/self.f0 = np.mean(y_trn)/self.f1 = np.mean(y_trn)/                     post sets-exactly-the-attribute-f0-to-a-number (refuted)
#   s/self.f0 = np.mean(y_trn)/self.f0 = np.sum(y_trn)/                      post f0-is-the-sample-mean: .. (refuted)
#   s/self.f0 = np.mean(y_trn)/self.f0 = np.sum(y_trn) \/ (len(y_trn)-1)/    safety division-by-nonzero, post f0-is-the-sample-mean: ..
#   quiet (equivalent): y_trn.mean(), np.sum(y_trn) / len(y_trn); undecided: np.mean(I_trn) (Unsupported)
# anova_more.ANOVA.build_1            (R(build_1, build_2))
#   s/idx = I_trn\[:, k\] == x/idx = I_trn[:, 0] == x/                        safety mean-of-a-non-empty-selection, inv-keep loop1.every-key-is-an-observed-value-..(current)
#   s/np.mean(y_trn\[idx\]) - self.f0/np.mean(y_trn[idx]) + self.f0/          inv-keep loop1.every-key-..(current)
#   s/np.mean(y_trn\[idx\]) - self.f0/np.mean(y_trn[idx])/                    inv-keep loop1.every-key-..(current)
#   s/np.mean(y_trn\[idx\]) - self.f0/np.mean(y_trn) - self.f0/               inv-keep loop1.every-key-..(current)
#   s/f1_curr\[x\] = value/f1_curr[k] = value/                                inv-keep loop1.processed-points-are-keys, loop1.every-key-..(current)
#   s/enumerate(self.domain)/enumerate(self.domain[:-1])/                     post one-table-per-mode, every-observed-value-.., every-key-..
#   quiet (equivalent): y_trn[idx].mean(), `for k in range(len(self.domain)): dm = self.domain[k]`; undecided: mask written inline (Unsupported),
#   self.f1.append moved out of the loop (Unsupported)
# anova_more.ANOVA.build              (R(build, build_0))
#   s/np.unique(I_trn\[:, k\])/np.unique(I_trn[:, 0])/                        inv-keep loop0.domain-is-the-sorted-distinct-values-of-the-column-and-shapes-its-length
#   s/self.shapes\[k\] = len(points)/self.shapes[k] = len(points) + 1/        inv-keep loop0.domain-is-..   (likewise self.shapes[0] = ..)
#   s/for k in range(self.d):/for k in range(self.d - 1):/                    post every-domain-point-occurs-in-its-column, every-entry-of-the-column-.., between-one-and-N-..
#   s/if self.order >= 1:/if self.order > 1:/                                 post build_1-once-on-the-data-iff-order>=1-..
#   s/if self.order >= 2:/if self.order >= 1:/                                post build_2-once-on-the-data-iff-order>=2-..
#   s/self.d = I_trn.shape\[1\]/self.d = I_trn.shape[0]/                      inv-init loop0.one-size-per-mode
#   delete `self.build_0(I_trn, y_trn)`                                       call-pre build_1: the constant term is set before.., post constant-term-is-the-sample-mean-..
#   s/self.build_1(I_trn, y_trn)/self.build_1(y_trn, I_trn)/                  post build_1-once-on-the-data-..
#   undecided: points[::-1] appended (ContractMismatch: no element-level value)
# anova_more.ANOVA.calc_0 / calc_1 / calc_2 / calc      (R(calc, calc_0), R(calc_1, calc_2), R(calc_2, cores))
#   calc_0: s/return self.f0/return -self.f0/, /return 0./                   post returns-the-constant-term (refuted); `self.f0 = 0.` first: post object-untouched
#   calc_1: s/self.f1\[num\]\[x1\]/self.f1[x1][num]/                          safety list-index-in-range, key-present, inv-keep loop0.accumulated-sum-..
#           s/res = 0\./res = 1./                                             inv-init loop0.accumulated-sum-of-the-per-mode-terms
#           s/res += self.f1/res -= self.f1/                                  inv-keep loop0.accumulated-sum-..
#           s/enumerate(x)/enumerate(x[1:])/                                  safety slice-in-range, key-present, inv-keep .., post sum-of-the-per-mode-terms-..
#   calc_2: s/x\[i1+1:\], start=i1+1/x[i1:], start=i1+1/                      call-pre pair_num_to_num: two different modes.., safety key-present, inv-keep loop1.accumulated-pair-terms
#           s/start=i1+1/start=i1/                                            call-pre pair_num_to_num: .., safety key-present, inv-keep loop1.accumulated-pair-terms
#           s/\[x1, x2\]/[x2, x1]/                                            safety key-present, inv-keep loop1.accumulated-pair-terms
#           s/pair_num_to_num(i1, i2)/pair_num_to_num(i1, i1)/                call-pre pair_num_to_num: two different modes in range
#           s/self.f2\[num\]/self.f2[num+1]/                                  safety list-index-in-range, key-present, inv-keep loop1..
#           s/enumerate(x\[:-1\])/enumerate(x[:-2])/                          safety slice-in-range, post sum-of-the-pair-terms-over-all-pairs-of-modes
#           quiet (equivalent): enumerate(x) for enumerate(x[:-1]), pair_num_to_num(i2, i1)
#   calc:   s/if self.order >= 1:/if self.order > 1:/                         post constant-plus-per-mode-terms-.. (refuted)
#           s/res += self.calc_2(i)/res -= self.calc_2(i)/                    post constant-plus-.. (refuted)
#           s/res = self.calc_0()/res = 0./                                   post constant-plus-.., every-term-is-evaluated-at-the-given-multi-index
#           s/self.calc_1(i)/self.calc_1(i[:-1])/                             post constant-plus-.., every-term-is-evaluated-..
#           s/if self.order >= 2:/if self.order >= 1:/                        call-pre calc_2: .., post constant-plus-..
#           quiet (equivalent): res = res + self.calc_1(i); undecided: res = self.f0 (Unsupported: attribute outside the contract case)
# anova_more.ANOVA.__call__.{single,batch,bad-ndim}      (R(__call__, __getitem__))
#   s/return self.calc(I)/return 2 * self.calc(I)/                            single: post single-multi-index: the-model-value (refuted)
#   s/self.calc(i) for i in I\]/-self.calc(i) for i in I]/                    batch: post batch: element-s-is-the-model-value-at-row-s (refuted)
#   s/raise ValueError(..)/return None/                                       bad-ndim: raise-iff ValueError-for-an-array-that-is-neither-.. (refuted)
#   undecided: the two ndim tests swapped, I[1:] / I[0] in the comprehension (Unsupported)
# anova_more.ANOVA.cores.dispatch[.rel_noise]            (R(cores(self, cores_1))
#   s/if self.order < 1:/if self.order <= 1:/                                 raise-iff ValueError-iff-order<1 (refuted)
#   s/max(abs(self.y_max), abs(self.y_min))/min(..)/  and  /abs(max(self.y_max, self.y_min))/      post cores_1-gets-the-rank-and-the-(relative)-noise (refuted)
#   s/self.cores_1(r, noise)/self.cores_1(noise, r)/                          post cores_1-gets-the-rank-and-the-(relative)-noise
#   s/add_many(\[cores\] + cores2_many, r=r)/add_many(cores2_many, r=r)/      post add_many: first-order-tensor-first-then-all-pair-tensors-in-order
#   s/add_many(\[cores\] + cores2_many, r=r)/add_many([cores] + cores2_many)/ post add_many-gets-one-list-of-tensors-and-only-the-rank-cap
#   s/if self.order >= 2:/if self.order > 2:/                                 post cores_2-and-add_many-are-called-once-for-order>=2-.., order-1: the-first-order-tensor-itself; ..
#   s/if rel_noise is not None:/if rel_noise is None:/                        safety operand-not-None, post cores_1-gets-the-rank-and-..
#   s/self.cores_2(r, only_near)/self.cores_2(r)/                             post cores_2-gets-the-rank-and-only_near
#   quiet (equivalent): keyword arguments, the product written the other way round
# anova_more.ANOVA.__init__                               (R(__init__, __call__))
#   s/in \[1, 2\]/in [1, 2, 3]/                                               raise-iff accepts-exactly-the-valid-arguments (refuted)
#   s/if fpath is None:/if fpath is not None:/                                raise-iff (both), post build-iff-no-fpath
#   s/I_trn is None or y_trn is None/I_trn is None and y_trn is None/         raise-iff accepts-exactly-the-valid-arguments
#   s/I_trn is not None or y_trn is not None/I_trn is not None/               raise-iff accepts-exactly-the-valid-arguments
#   s/self.build(I_trn, y_trn)/self.build(y_trn, I_trn)/                      post build-gets-the-samples-and-the-values
#   s/teneva._rand(seed)/teneva._rand()/                                      post seed-goes-through-_rand-exactly-once
#   s/self.order = order/self.order = 1/                                      post generator-and-order-are-stored
#   quiet (equivalent): `if order not in (1, 2):`
# anova_more.anova                                        (anova.py, the last return statement)
#   ANOVA(I_trn, y_trn, order, None, fpath) / (y_trn, I_trn, ..) / (.., fpath, seed)          post one-ANOVA-object-from-(I_trn, y_trn, order, seed, fpath)
#   .cores(r) / .cores(r, noise, rel_noise=noise)                            post one-call-of-cores-with-rank-and-noise-only
#   .cores(noise, r)                                                          post cores-gets-the-rank-and-the-noise
#   quiet (equivalent): keyword arguments in any order
# anova_more.ANOVA_func.cores                             (anova_func.py, '/def cores(self, e/,/^def anova_func/')
#   `if abs(p) < 1.E-12: continue` inserted in the inner loop (absolute-threshold skip)       inv-keep loop1.formal-sum-of-the-processed-coefficients
#   s/idx\[i\] = pi + 1/idx[i] = pi/                                          inv-keep loop1.formal-sum-of-the-processed-coefficients
#   s/idx\[i\] = pi + 1/idx[i] = pi + 2/                                      call-pre delta: the multi-index is inside the shape, inv-keep loop1.formal-sum-..
#   s/idx\[i\] = pi + 1/idx[0] = pi + 1/                                      call-pre delta: the multi-index is q e_i - zero in every mode but the current one
#   delete `idx[:] = 0`                                                       inv-init loop1.idx-is-zero-outside-the-current-mode
#   s/enumerate(cfs\[1:\])/enumerate(cfs[1:][:-1])/                           post every-fitted-coefficient-enters-the-formal-sum-exactly-once-at-its-own-position
#   s/idx, cfs\[0\])/idx, 0.)/                                                inv-init loop0.formal-sum-of-the-processed-modes
#   s/idx, p))/idx, abs(p)))/                                                 inv-keep loop1.formal-sum-of-the-processed-coefficients
#   s/return A if e is None else teneva.truncate(A, e)/return teneva.truncate(A, e)/          post truncation-iff-an-accuracy-is-given
#   s/teneva.truncate(A, e)/teneva.truncate(A, e, 2)/                         post result-is-the-truncation-with-the-caller-s-accuracy-and-no-rank-cap
#   quiet (equivalent): add(delta, A), enumerate(cf, 1) with idx[i] = pi, renamed loop variables
