"""Sidecar contracts (tier T1) for act_one.interface / get_and_grad (C01), svd.svd_matrix / transformation.full_matrix (C03),
core.core_dot / core_dot_inv / core_dot_maxvol / core_qr_rand (C04, C10) and data.cache_to_data (C10).
Model-table entries and spec symbols: ttvc/mx_core.py; standard-model interpretations: lemmas/spotcheck_ext_core.py."""
import z3
from ttvc.units import unit
from ttvc.symex import VOpt, VStr, VRec, VSeq, VArr, VFunc, VTuple, VRef, VList, NONE, Z
from ttvc import models as M, theory as T
from ttvc import mx_act as XA
from ttvc import mx_core as X
from contracts import spec as S
from contracts.act import val

k_ = z3.Int('k!cm')
t_ = z3.Int('t!cm')
kk = z3.Int('kk')


# ----------------------------------------------------------------------------------------------
# act_one.interface(Y, P=None, i=None, norm='linalg', ltr=False)
#
# Spec.  Let M_k be the matrix that the sweep takes from core k (an r_k x r_{k+1} matrix):
#     P None,  i None :  M_k = msum(Y[k])                       = sum_m Y[k][:, m, :]
#     P modes, i None :  M_k = wsum(Y[k], P[k])                 = sum_m P[k][m] Y[k][:, m, :]
#     P shared,i None :  M_k = wsum(Y[k], P)
#     P None,  i given:  M_k = sl(Y[k], i_k)                    = Y[k][:, i_k, :]
#     P modes, i given:  M_k = P[k][i_k] * sl(Y[k], i_k)
#     P shared,i given:  M_k = P[i_k] * sl(Y[k], i_k)
# and  rch(M, k, d) = M_k ... M_{d-1} [[1]]  (right partial chain, r_k x 1),  lch(M, k) = [[1]] M_0 ... M_{k-1}  (left, 1 x r_k).
# The function returns a NEW list phi of d+1 vectors, phi[k] of length r_k (r_0 = r_d = 1), with
#     ltr=False:  phi[k] = c_k * rch(M, k, d)        ltr=True:  phi[k] = c_k * lch(M, k)^T
# where c_k = 1 for norm=None and some c_k > 0 for norm 'l...' (divided by its 2-norm) / 'n...' (divided by the mode size n_k) - the
# vector at the start of the sweep (phi[d] resp. phi[0]) is exactly [1] for every norm.  With ltr=True the list Y, the multi-index i
# and the PER-MODE weight list P are reversed, a shared weight vector is not; the result is reversed back.
# Links to the spec functions of C01 (lemmas by induction, proved at unit level):
#     lch(M, k) @ rch(M, k, d) = lch(M, d)   for every bond k                      (left times right interface = the full contraction)
#     lch(M, k+1) = chain(Y, i, k)           (P None, i given; so lch(M, d) = [[val(Y, i)]])
#     lch(M, k+1) = wchain(Y, P, k)          (i None, P given; the chain of weighted mode sums of mean(): lch(M, d) = [[weighted sum]])
# Loop invariant over the sweep: the entries already written are those multiples of the partial chains; the scale factors are a ghost
# array whose update (c_k = factor of this step * c_{k+1}) is read off the stored value.
# Preconditions: wf(Y); i within the mode sizes; len(P[k]) = n_k (einsum) resp. > i_k; for norm 'l': no partial chain vanishes
# (else NumPy divides by zero: nan entries with a RuntimeWarning - outside the contract; the bounded suite C01 / C11 covers it).
# Not covered: rounding (A-REAL); P or i given as Python lists (modelled as arrays / list of arrays); a shared P with integer entries
# (np.int64 is not an `int`: isinstance(P[0], (int, float)) is False and P[k] is a number - NumPy raises in einsum).

AXI = T.axioms('shape', 'smulr', 'elem', 'wsum', 'mchain', 'sc1', 'cnorm')
Ms = z3.Const('Ms', X.MS)


def _iface_setup(st, pcase, with_i):
    """Symbolic arguments, the definition of the matrix sequence Ms (spec constant) and the preconditions."""
    Y, A, d = S.tt_param(st, 'Y')
    pre = [T.wf(A, d)]
    ix = z3.Const('ix', T.IDX)
    i = VArr((d,), ix, 'ivec', 'i') if with_i else NONE
    if with_i:
        pre.append(T.index_ok(ix, A, d))
    Pv, W, Parr = NONE, None, None
    if pcase == 'modes':
        Parr, Plen = z3.Const('P', XA.WL), z3.Const('Plen', XA.IA)
        Pv = st.alloc(XA.WSeq(Parr, Plen, d))
        cmp_ = (lambda a, b: a > b) if with_i else (lambda a, b: a == b)
        pre.append(z3.ForAll([k_], z3.Implies(z3.And(0 <= k_, k_ < d), cmp_(Plen[k_], ix[k_] if with_i else T.d1(A[k_]))), patterns=[Plen[k_]]))
        W = lambda k: Parr[k]
    elif pcase == 'shared':
        pt, plen = z3.Const('p', XA.RA), z3.Int('plen')
        Pv = XA.mk_wvec(plen, pt)
        pre.append(plen >= 1)
        pre.append(z3.ForAll([k_], z3.Implies(z3.And(0 <= k_, k_ < d), (plen > ix[k_]) if with_i else (plen == T.d1(A[k_]))), patterns=[A[k_]]))
        W = lambda k: pt
    if with_i:
        mk = (lambda k: T.sl(A[k], ix[k])) if W is None else (lambda k: T.smul(W(k)[ix[k]], T.sl(A[k], ix[k])))
    else:
        mk = (lambda k: T.msum(A[k])) if W is None else (lambda k: T.wsum(A[k], W(k)))
    msdef = z3.ForAll([k_], Ms[k_] == mk(k_), patterns=[Ms[k_]])
    return dict(Y=Y, A=A, d=d, ix=ix, i=i, P=Pv, W=W, Parr=Parr, pre=pre, msdef=msdef, mk=mk)


def r_(A, d, t):
    """The TT-rank r_t (r_d = 1)."""
    return z3.If(t < d, T.d0(A[t]), 1)


def iface_shape_lemmas(U, A, d, hyps, axioms):
    """Induction: rch(Ms, t, d) is an r_t x 1 matrix (downwards from t = d), lch(Ms, t) is a 1 x r_t matrix (upwards from t = 0)."""
    R = lambda t: z3.And(T.rows(X.rch(Ms, t, d)) == r_(A, d, t), T.cols(X.rch(Ms, t, d)) == 1)
    L = lambda t: z3.And(T.rows(X.lch(Ms, t)) == 1, T.cols(X.lch(Ms, t)) == r_(A, d, t))
    U.lemma('right-partial-chain-is-a-column-of-length-r_t.base', hyps, R(d), axioms=axioms, mode='ematch', kind='lemma-base')
    U.lemma('right-partial-chain-is-a-column-of-length-r_t.step', list(hyps) + [kk >= 0, kk < d, R(kk + 1)], R(kk), axioms=axioms, mode='ematch',
            kind='lemma-step')
    U.lemma('left-partial-chain-is-a-row-of-length-r_t.base', hyps, L(z3.IntVal(0)), axioms=axioms, mode='ematch', kind='lemma-base')
    U.lemma('left-partial-chain-is-a-row-of-length-r_t.step', list(hyps) + [kk >= 0, kk < d, L(kk)], L(kk + 1), axioms=axioms, mode='ematch',
            kind='lemma-step')
    return [z3.ForAll([t_], z3.Implies(z3.And(0 <= t_, t_ <= d), R(t_)), patterns=[X.rch(Ms, t_, d)]),
            z3.ForAll([t_], z3.Implies(z3.And(0 <= t_, t_ <= d), L(t_)), patterns=[X.lch(Ms, t_)])]


def iface_link_lemmas(U, cfg, hyps, shape_facts, axioms):
    """lch(Ms, k) @ rch(Ms, k, d) = lch(Ms, d) for every bond (downward induction, one associativity instance per step), and the
    identification of lch with chain / wchain where C01 has such a spec function."""
    A, d = cfg['A'], cfg['d']
    ctx = list(hyps) + list(shape_facts)
    Sp = lambda k: T.mm(X.lch(Ms, k), X.rch(Ms, k, d)) == X.lch(Ms, d)
    U.lemma('left-times-right-interface-is-the-full-contraction.base', ctx, Sp(d), axioms=axioms, mode='ematch', kind='lemma-base')
    U.lemma('left-times-right-interface-is-the-full-contraction.step', ctx + [kk >= 0, kk < d, Sp(kk + 1)], Sp(kk), axioms=axioms, mode='ematch',
            kind='lemma-step', extra=[X.assoc(X.lch(Ms, kk), Ms[kk], X.rch(Ms, kk + 1, d))])
    U.lemmas.append('associativity of the matrix product (instances given as hints; lemmas/TTAlg.lean ax_assoc, spot-checked as group mmassoc)')
    out = [z3.ForAll([t_], z3.Implies(z3.And(0 <= t_, t_ <= d), Sp(t_)), patterns=[X.rch(Ms, t_, d)])]
    if cfg['with_i'] and cfg['W'] is None:
        AXC = list(axioms) + T.axioms('chain', 'smul')
        C = lambda k: X.lch(Ms, k + 1) == T.chain(A, cfg['ix'], k)
        U.lemma('left-partial-chain-is-chain(Y,i,.).base', ctx, C(z3.IntVal(0)), axioms=AXC, mode='ematch', kind='lemma-base', extra=[X.lch(Ms, 0) == T.sc(1)])
        U.lemma('left-partial-chain-is-chain(Y,i,.).step', ctx + [kk >= 1, kk < d, C(kk - 1)], C(kk), axioms=AXC, mode='ematch', kind='lemma-step')
        out.append(z3.ForAll([t_], z3.Implies(z3.And(0 <= t_, t_ < d), C(t_)), patterns=[T.chain(A, cfg['ix'], t_)]))
    if not cfg['with_i'] and cfg['W'] is not None:
        AXC = list(axioms) + T.axioms('wchain', 'smul')
        Wl = z3.Const('W!iface', XA.WL)                # the list of weight vectors as mean() sees it (definition of the spec constant)
        wdef = z3.ForAll([k_], Wl[k_] == cfg['W'](k_), patterns=[Wl[k_]])
        C = lambda k: X.lch(Ms, k + 1) == XA.wchain(A, Wl, k)
        U.lemma('left-partial-chain-is-wchain(Y,P,.).base', ctx + [wdef], C(z3.IntVal(0)), axioms=AXC, mode='ematch', kind='lemma-base', extra=[X.lch(Ms, 0) == T.sc(1)])
        U.lemma('left-partial-chain-is-wchain(Y,P,.).step', ctx + [wdef, kk >= 1, kk < d, C(kk - 1)], C(kk), axioms=AXC, mode='ematch', kind='lemma-step')
        out.append(z3.ForAll([t_], z3.Implies(z3.And(0 <= t_, t_ < d), C(t_)), patterns=[XA.wchain(A, Wl, t_)]))
    return out


def _interface_unit(U, pcase, with_i, norm, ltr):
    fn = U.func('act_one', 'interface')
    st = U.state()
    cfg = _iface_setup(st, pcase, with_i)
    cfg['with_i'] = with_i
    Y, A, d, msdef = cfg['Y'], cfg['A'], cfg['d'], cfg['msdef']
    spec = (lambda t: T.tr(X.lch(Ms, t))) if ltr else (lambda t: X.rch(Ms, t, d))         # the vector that phi[t] is a multiple of
    pos = (lambda t: d - t) if ltr else (lambda t: t)                                       # its position in the list DURING the sweep
    unit_scale = norm is None
    core_at = (lambda t: d - 1 - t) if ltr else (lambda t: t)                               # the core consumed when list position t is written

    def scale_step(kap, t):
        """What one pass does to the scale factor (list positions during the sweep): nothing / times 1/n of the consumed core."""
        return kap[t] == T.rmul(T.divf(1, z3.ToReal(T.d1(A[core_at(t)]))), kap[t + 1])
    pre = list(cfg['pre']) + [msdef]
    if norm == 'linalg':
        pre.append(z3.ForAll([t_], z3.Implies(z3.And(0 <= t_, t_ <= d), X.cnorm(spec(t_)) > 0),
                             patterns=[X.lch(Ms, t_) if ltr else X.rch(Ms, t_, d)]))
    shape_facts = iface_shape_lemmas(U, A, d, pre, AXI)

    def inv(ex, s, j):
        phi = s.deref(s.vars['phi'])
        if not (isinstance(phi, VSeq) and phi.tag == 'optvec'):
            raise M.ContractMismatch('interface(): phi is not the list of optional vectors')
        kap = s.ghost['kappa']
        # during the sweep the list position t holds the vector number pos(t); positions d-j .. d are written
        return [('list-of-d+1-entries', phi.n == d + 1),
                ('written-entries-are-scaled-partial-chains',
                 z3.ForAll([t_], z3.Implies(z3.And(d - j <= t_, t_ <= d), phi.arr[t_] == X.OptMat.some(T.smul(kap[t_], spec(pos(t_))))),
                           patterns=[phi.arr[t_]])),
                ('scale-factors-positive (1 without normalisation, 1 at the start of the sweep)',
                 z3.And(kap[d] == 1, z3.ForAll([t_], z3.Implies(z3.And(d - j <= t_, t_ <= d), (kap[t_] == 1) if unit_scale else (kap[t_] > 0)),
                                               patterns=[kap[t_]]))),
                ] + ([('natural: each pass divides the scale by the mode size of its core',
                       z3.ForAll([t_], z3.Implies(z3.And(d - j <= t_, t_ < d), scale_step(kap, t_)), patterns=[kap[t_]]))] if norm == 'natural' else []) + (
                    [('linalg: every written vector but the start has 2-norm 1',
                      z3.ForAll([t_], z3.Implies(z3.And(d - j <= t_, t_ < d), X.cnorm(X.OptMat.mat(phi.arr[t_])) == 1), patterns=[phi.arr[t_]]))]
                    if norm == 'linalg' else []) + [
                ('arguments-untouched', z3.BoolVal(s.heap[Y.oid].arr is A and (cfg['Parr'] is None or s.heap[cfg['P'].oid].arr is cfg['Parr'])))]

    def havoc_hook(ex, h, pre_, j):
        h.ghost['kappa'] = ex.fresh('kappa', XA.RA)
        # hint term: the partial chain that this pass produces (an instance of the shape lemma, which is in the context)
        m = pos(d - 1 - j)
        h.assume(z3.Implies(z3.And(0 <= m, m <= d), (T.cols(X.lch(Ms, m)) if ltr else T.rows(X.rch(Ms, m, d))) == r_(A, d, m)))

    def body_end(ex, s1, o1, j):
        if o1.kind not in ('normal', 'continue'):
            return
        last = s1.ghost.get('iface_last')
        kap = s1.ghost['kappa']
        if last is None:
            raise M.ContractMismatch('interface(): no vector was stored in this pass')
        k = d - 1 - j
        c = kap[k + 1]
        for x in getattr(last, 'scal', []):
            c = T.rmul(x, c)
        s1.ghost['kappa'] = z3.Store(kap, k, c)

    ex = U.executor(fn, loops={0: {'inv': inv, 'havoc_hook': havoc_hook, 'body_end': body_end}}, axioms=AXI)
    ex.mode = 'ematch'
    ex.core_iface = True
    st.ghost['kappa'] = z3.K(z3.IntSort(), z3.RealVal(1))
    st.vars.update(Y=Y, P=cfg['P'], i=cfg['i'], norm=(NONE if norm is None else VStr(norm)), ltr=ltr)
    res = U.run(ex, st, pre=pre + shape_facts)
    U.cover('precondition-satisfiable', U.pre, axioms=AXI)
    links = iface_link_lemmas(U, cfg, pre, shape_facts, AXI)
    tt = z3.Int('tt')
    for p, o in res:
        if o.kind != 'return':
            U.post('no-exception', p, False, axioms=AXI, mode='ematch')
            continue
        R = p.deref(o.value)
        ok = isinstance(o.value, VRef) and isinstance(R, VSeq) and R.tag == 'optvec'
        U.post('returns-a-list-of-optional-vectors', p, z3.BoolVal(ok))
        if not ok:
            continue
        U.post('arguments-untouched', p, z3.BoolVal(p.heap[Y.oid].arr is A and o.value.oid != Y.oid))
        kap = p.ghost['kappa']
        c = kap[pos(tt)]
        hyp = list(p.pc) + [0 <= tt, tt <= d]
        U.post('d+1-vectors', p, R.n == d + 1, axioms=AXI, mode='ematch')
        U.post('no-entry-is-None', hyp, z3.Not(X.OptMat.is_none(R.arr[tt])), axioms=AXI, mode='ematch')
        U.post('vector-k-is-the-scaled-partial-chain', hyp, R.arr[tt] == X.OptMat.some(T.smul(c, spec(tt))), axioms=AXI, mode='ematch')
        U.post('scale-is-1' if unit_scale else 'scale-is-positive', hyp, (c == 1) if unit_scale else (c > 0), axioms=AXI, mode='ematch')
        notstart = [tt >= 1] if ltr else [tt < d]
        if norm == 'natural':
            U.post('natural: scale of vector k is 1/n of the consumed core times the scale of its neighbour', hyp + notstart,
                   scale_step(kap, pos(tt)), axioms=AXI, mode='ematch')
        if norm == 'linalg':
            U.post('linalg: every vector has 2-norm 1', hyp + notstart, X.cnorm(X.OptMat.mat(R.arr[tt])) == 1, axioms=AXI, mode='ematch')
        U.post('vector-k-has-length-r_k', hyp, T.rows(X.OptMat.mat(R.arr[tt])) == r_(A, d, tt), axioms=AXI, mode='ematch')
        start = z3.IntVal(0) if ltr else d
        U.post('start-of-the-sweep-is-exactly-[1]', p, R.arr[start] == X.OptMat.some(T.sc(1)), axioms=AXI, mode='ematch')
        U.canary('canary-every-vector-is-[1]', hyp, R.arr[tt] == X.OptMat.some(T.sc(1)), axioms=AXI)
    return cfg, links


def _reg_iface(pcase, with_i, norm, ltr):
    name = 'act_one.interface.' + {'none': 'P-', 'modes': 'Pm', 'shared': 'Ps'}[pcase] + ('i' if with_i else '-') + '.' \
        + {None: 'none', 'linalg': 'linalg', 'natural': 'natural'}[norm] + ('.ltr' if ltr else '.rtl')

    @unit(name, props=('C01',))
    def u(U):
        _interface_unit(U, pcase, with_i, norm, ltr)
    return u


for _pc in ('none', 'modes', 'shared'):
    for _wi in (False, True):
        for _nm in ('linalg', None, 'natural'):
            for _ltr in (False, True):
                _reg_iface(_pc, _wi, _nm, _ltr)
