"""Sidecar contracts (tier T1) for act_one.interface / get_and_grad (C01), svd.svd_matrix / transformation.full_matrix (C03),
core.core_dot / core_dot_inv / core_dot_maxvol / core_qr_rand (C04, C10) and data.cache_to_data (C10).
Model-table entries and spec symbols: ttvc/mx_core.py; standard-model interpretations: lemmas/spotcheck_ext_core.py."""
import z3
from ttvc.units import unit
from ttvc.symex import VOpt, VStr, VRec, VSeq, VArr, VFunc, VTuple, VRef, VList, NONE, Z
from ttvc import models as M, theory as T
from ttvc import mx_act as XA
from ttvc import mx_core as X
from contracts import spec as S
from contracts.act import val

k_ = z3.Int('k!cm')
t_ = z3.Int('t!cm')
kk = z3.Int('kk')


# ----------------------------------------------------------------------------------------------
# act_one.interface(Y, P=None, i=None, norm='linalg', ltr=False)
#
# Spec.  Let M_k be the matrix that the sweep takes from core k (an r_k x r_{k+1} matrix):
#     P None,  i None :  M_k = msum(Y[k])                       = sum_m Y[k][:, m, :]
#     P modes, i None :  M_k = wsum(Y[k], P[k])                 = sum_m P[k][m] Y[k][:, m, :]
#     P shared,i None :  M_k = wsum(Y[k], P)
#     P None,  i given:  M_k = sl(Y[k], i_k)                    = Y[k][:, i_k, :]
#     P modes, i given:  M_k = P[k][i_k] * sl(Y[k], i_k)
#     P shared,i given:  M_k = P[i_k] * sl(Y[k], i_k)
# and  rch(M, k, d) = M_k ... M_{d-1} [[1]]  (right partial chain, r_k x 1),  lch(M, k) = [[1]] M_0 ... M_{k-1}  (left, 1 x r_k).
# The function returns a NEW list phi of d+1 vectors, phi[k] of length r_k (r_0 = r_d = 1), with
#     ltr=False:  phi[k] = c_k * rch(M, k, d)        ltr=True:  phi[k] = c_k * lch(M, k)^T
# where c_k = 1 for norm=None and some c_k > 0 for norm 'l...' (divided by its 2-norm) / 'n...' (divided by the mode size n_k) - the
# vector at the start of the sweep (phi[d] resp. phi[0]) is exactly [1] for every norm.  With ltr=True the list Y, the multi-index i
# and the PER-MODE weight list P are reversed, a shared weight vector is not; the result is reversed back.
# Links to the spec functions of C01 (lemmas by induction, proved at unit level):
#     lch(M, k) @ rch(M, k, d) = lch(M, d)   for every bond k                      (left times right interface = the full contraction)
#     lch(M, k+1) = chain(Y, i, k)           (P None, i given; so lch(M, d) = [[val(Y, i)]])
#     lch(M, k+1) = wchain(Y, P, k)          (i None, P given; the chain of weighted mode sums of mean(): lch(M, d) = [[weighted sum]])
# Loop invariant over the sweep: the entries already written are those multiples of the partial chains; the scale factors are a ghost
# array whose update (c_k = factor of this step * c_{k+1}) is read off the stored value.
# Preconditions: wf(Y); i within the mode sizes; len(P[k]) = n_k (einsum) resp. > i_k; for norm 'l': no partial chain vanishes
# (else NumPy divides by zero: nan entries with a RuntimeWarning - outside the contract; the bounded suite C01 / C11 covers it).
# Not covered: rounding (A-REAL); P or i given as Python lists (modelled as arrays / list of arrays); a shared P with integer entries
# (np.int64 is not an `int`: isinstance(P[0], (int, float)) is False and P[k] is a number - NumPy raises in einsum).

AXI = T.axioms('shape', 'smulr', 'elem', 'wsum', 'mchain', 'sc1', 'cnorm')
Ms = z3.Const('Ms', X.MS)


def _iface_setup(st, pcase, with_i):
    """Symbolic arguments, the definition of the matrix sequence Ms (spec constant) and the preconditions."""
    Y, A, d = S.tt_param(st, 'Y')
    pre = [T.wf(A, d)]
    ix = z3.Const('ix', T.IDX)
    i = VArr((d,), ix, 'ivec', 'i') if with_i else NONE
    if with_i:
        pre.append(T.index_ok(ix, A, d))
    Pv, W, Parr = NONE, None, None
    if pcase == 'modes':
        Parr, Plen = z3.Const('P', XA.WL), z3.Const('Plen', XA.IA)
        Pv = st.alloc(XA.WSeq(Parr, Plen, d))
        cmp_ = (lambda a, b: a > b) if with_i else (lambda a, b: a == b)
        pre.append(z3.ForAll([k_], z3.Implies(z3.And(0 <= k_, k_ < d), cmp_(Plen[k_], ix[k_] if with_i else T.d1(A[k_]))), patterns=[Plen[k_]]))
        W = lambda k: Parr[k]
    elif pcase == 'shared':
        pt, plen = z3.Const('p', XA.RA), z3.Int('plen')
        Pv = XA.mk_wvec(plen, pt)
        pre.append(plen >= 1)
        pre.append(z3.ForAll([k_], z3.Implies(z3.And(0 <= k_, k_ < d), (plen > ix[k_]) if with_i else (plen == T.d1(A[k_]))), patterns=[A[k_]]))
        W = lambda k: pt
    if with_i:
        mk = (lambda k: T.sl(A[k], ix[k])) if W is None else (lambda k: T.smul(W(k)[ix[k]], T.sl(A[k], ix[k])))
    else:
        mk = (lambda k: T.msum(A[k])) if W is None else (lambda k: T.wsum(A[k], W(k)))
    msdef = z3.ForAll([k_], Ms[k_] == mk(k_), patterns=[Ms[k_]])
    return dict(Y=Y, A=A, d=d, ix=ix, i=i, P=Pv, W=W, Parr=Parr, pre=pre, msdef=msdef, mk=mk)


def r_(A, d, t):
    """The TT-rank r_t (r_d = 1)."""
    return z3.If(t < d, T.d0(A[t]), 1)


def iface_shape_lemmas(U, A, d, hyps, axioms, Ms=Ms):
    """Induction: rch(Ms, t, d) is an r_t x 1 matrix (downwards from t = d), lch(Ms, t) is a 1 x r_t matrix (upwards from t = 0)."""
    R = lambda t: z3.And(T.rows(X.rch(Ms, t, d)) == r_(A, d, t), T.cols(X.rch(Ms, t, d)) == 1)
    L = lambda t: z3.And(T.rows(X.lch(Ms, t)) == 1, T.cols(X.lch(Ms, t)) == r_(A, d, t))
    U.lemma('right-partial-chain-is-a-column-of-length-r_t.base', hyps, R(d), axioms=axioms, mode='ematch', kind='lemma-base')
    U.lemma('right-partial-chain-is-a-column-of-length-r_t.step', list(hyps) + [kk >= 0, kk < d, R(kk + 1)], R(kk), axioms=axioms, mode='ematch',
            kind='lemma-step')
    U.lemma('left-partial-chain-is-a-row-of-length-r_t.base', hyps, L(z3.IntVal(0)), axioms=axioms, mode='ematch', kind='lemma-base')
    U.lemma('left-partial-chain-is-a-row-of-length-r_t.step', list(hyps) + [kk >= 0, kk < d, L(kk)], L(kk + 1), axioms=axioms, mode='ematch',
            kind='lemma-step')
    return [z3.ForAll([t_], z3.Implies(z3.And(0 <= t_, t_ <= d), R(t_)), patterns=[X.rch(Ms, t_, d)]),
            z3.ForAll([t_], z3.Implies(z3.And(0 <= t_, t_ <= d), L(t_)), patterns=[X.lch(Ms, t_)])]


def iface_link_lemmas(U, cfg, hyps, shape_facts, axioms, Ms=Ms):
    """lch(Ms, k) @ rch(Ms, k, d) = lch(Ms, d) for every bond (downward induction, one associativity instance per step), and the
    identification of lch with chain / wchain where C01 has such a spec function."""
    A, d = cfg['A'], cfg['d']
    ctx = list(hyps) + list(shape_facts)
    Sp = lambda k: T.mm(X.lch(Ms, k), X.rch(Ms, k, d)) == X.lch(Ms, d)
    U.lemma('left-times-right-interface-is-the-full-contraction.base', ctx, Sp(d), axioms=axioms, mode='ematch', kind='lemma-base')
    U.lemma('left-times-right-interface-is-the-full-contraction.step', ctx + [kk >= 0, kk < d, Sp(kk + 1)], Sp(kk), axioms=axioms, mode='ematch',
            kind='lemma-step', extra=[X.assoc(X.lch(Ms, kk), Ms[kk], X.rch(Ms, kk + 1, d))])
    U.lemmas.append('associativity of the matrix product (instances given as hints; lemmas/TTAlg.lean ax_assoc, spot-checked as group mmassoc)')
    out = [z3.ForAll([t_], z3.Implies(z3.And(0 <= t_, t_ <= d), Sp(t_)), patterns=[X.rch(Ms, t_, d)])]
    if cfg['with_i'] and cfg['W'] is None:
        AXC = list(axioms) + T.axioms('chain', 'smul')
        C = lambda k: X.lch(Ms, k + 1) == T.chain(A, cfg['ix'], k)
        U.lemma('left-partial-chain-is-chain(Y,i,.).base', ctx, C(z3.IntVal(0)), axioms=AXC, mode='ematch', kind='lemma-base', extra=[X.lch(Ms, 0) == T.sc(1)])
        U.lemma('left-partial-chain-is-chain(Y,i,.).step', ctx + [kk >= 1, kk < d, C(kk - 1)], C(kk), axioms=AXC, mode='ematch', kind='lemma-step')
        out.append(z3.ForAll([t_], z3.Implies(z3.And(0 <= t_, t_ < d), C(t_)), patterns=[T.chain(A, cfg['ix'], t_)]))
    if not cfg['with_i'] and cfg['W'] is not None:
        AXC = list(axioms) + T.axioms('wchain', 'smul')
        Wl = z3.Const('W!iface', XA.WL)                # the list of weight vectors as mean() sees it (definition of the spec constant)
        wdef = z3.ForAll([k_], Wl[k_] == cfg['W'](k_), patterns=[Wl[k_]])
        C = lambda k: X.lch(Ms, k + 1) == XA.wchain(A, Wl, k)
        U.lemma('left-partial-chain-is-wchain(Y,P,.).base', ctx + [wdef], C(z3.IntVal(0)), axioms=AXC, mode='ematch', kind='lemma-base', extra=[X.lch(Ms, 0) == T.sc(1)])
        U.lemma('left-partial-chain-is-wchain(Y,P,.).step', ctx + [wdef, kk >= 1, kk < d, C(kk - 1)], C(kk), axioms=AXC, mode='ematch', kind='lemma-step')
        out.append(z3.ForAll([t_], z3.Implies(z3.And(0 <= t_, t_ < d), C(t_)), patterns=[XA.wchain(A, Wl, t_)]))
    return out


def _interface_unit(U, pcase, with_i, norm, ltr):
    fn = U.func('act_one', 'interface')
    st = U.state()
    cfg = _iface_setup(st, pcase, with_i)
    cfg['with_i'] = with_i
    Y, A, d, msdef = cfg['Y'], cfg['A'], cfg['d'], cfg['msdef']
    spec = (lambda t: T.tr(X.lch(Ms, t))) if ltr else (lambda t: X.rch(Ms, t, d))         # the vector that phi[t] is a multiple of
    pos = (lambda t: d - t) if ltr else (lambda t: t)                                       # its position in the list DURING the sweep
    unit_scale = norm is None
    core_at = (lambda t: d - 1 - t) if ltr else (lambda t: t)                               # the core consumed when list position t is written

    def scale_step(kap, t):
        """What one pass does to the scale factor (list positions during the sweep): nothing / times 1/n of the consumed core."""
        return kap[t] == T.rmul(T.divf(1, z3.ToReal(T.d1(A[core_at(t)]))), kap[t + 1])
    pre = list(cfg['pre']) + [msdef]
    if norm == 'linalg':
        pre.append(z3.ForAll([t_], z3.Implies(z3.And(0 <= t_, t_ <= d), X.cnorm(spec(t_)) > 0),
                             patterns=[X.lch(Ms, t_) if ltr else X.rch(Ms, t_, d)]))
    shape_facts = iface_shape_lemmas(U, A, d, pre, AXI)

    def inv(ex, s, j):
        phi = s.deref(s.vars['phi'])
        if not (isinstance(phi, VSeq) and phi.tag == 'optvec'):
            raise M.ContractMismatch('interface(): phi is not the list of optional vectors')
        kap = s.ghost['kappa']
        # during the sweep the list position t holds the vector number pos(t); positions d-j .. d are written
        return [('list-of-d+1-entries', phi.n == d + 1),
                ('written-entries-are-scaled-partial-chains',
                 z3.ForAll([t_], z3.Implies(z3.And(d - j <= t_, t_ <= d), phi.arr[t_] == X.OptMat.some(T.smul(kap[t_], spec(pos(t_))))),
                           patterns=[phi.arr[t_]])),
                ('scale-factors-positive (1 without normalisation, 1 at the start of the sweep)',
                 z3.And(kap[d] == 1, z3.ForAll([t_], z3.Implies(z3.And(d - j <= t_, t_ <= d), (kap[t_] == 1) if unit_scale else (kap[t_] > 0)),
                                               patterns=[kap[t_]]))),
                ] + ([('natural: each pass divides the scale by the mode size of its core',
                       z3.ForAll([t_], z3.Implies(z3.And(d - j <= t_, t_ < d), scale_step(kap, t_)), patterns=[kap[t_]]))] if norm == 'natural' else []) + (
                    [('linalg: every written vector but the start has 2-norm 1',
                      z3.ForAll([t_], z3.Implies(z3.And(d - j <= t_, t_ < d), X.cnorm(X.OptMat.mat(phi.arr[t_])) == 1), patterns=[phi.arr[t_]]))]
                    if norm == 'linalg' else []) + [
                ('arguments-untouched', z3.BoolVal(s.heap[Y.oid].arr is A and (cfg['Parr'] is None or s.heap[cfg['P'].oid].arr is cfg['Parr'])))]

    def havoc_hook(ex, h, pre_, j):
        h.ghost['kappa'] = ex.fresh('kappa', XA.RA)
        # hint term: the partial chain that this pass produces (an instance of the shape lemma, which is in the context)
        m = pos(d - 1 - j)
        h.assume(z3.Implies(z3.And(0 <= m, m <= d), (T.cols(X.lch(Ms, m)) if ltr else T.rows(X.rch(Ms, m, d))) == r_(A, d, m)))

    def body_end(ex, s1, o1, j):
        if o1.kind not in ('normal', 'continue'):
            return
        last = s1.ghost.get('iface_last')
        kap = s1.ghost['kappa']
        if last is None:
            raise M.ContractMismatch('interface(): no vector was stored in this pass')
        k = d - 1 - j
        c = kap[k + 1]
        for x in getattr(last, 'scal', []):
            c = T.rmul(x, c)
        s1.ghost['kappa'] = z3.Store(kap, k, c)

    ex = U.executor(fn, loops={0: {'inv': inv, 'havoc_hook': havoc_hook, 'body_end': body_end}}, axioms=AXI)
    ex.mode = 'ematch'
    ex.core_iface = True
    st.ghost['kappa'] = z3.K(z3.IntSort(), z3.RealVal(1))
    st.vars.update(Y=Y, P=cfg['P'], i=cfg['i'], norm=(NONE if norm is None else VStr(norm)), ltr=ltr)
    res = U.run(ex, st, pre=pre + shape_facts)
    U.cover('precondition-satisfiable', U.pre, axioms=AXI)
    links = iface_link_lemmas(U, cfg, pre, shape_facts, AXI)
    tt = z3.Int('tt')
    for p, o in res:
        if o.kind != 'return':
            U.post('no-exception', p, False, axioms=AXI, mode='ematch')
            continue
        R = p.deref(o.value)
        ok = isinstance(o.value, VRef) and isinstance(R, VSeq) and R.tag == 'optvec'
        U.post('returns-a-list-of-optional-vectors', p, z3.BoolVal(ok))
        if not ok:
            continue
        U.post('arguments-untouched', p, z3.BoolVal(p.heap[Y.oid].arr is A and o.value.oid != Y.oid))
        kap = p.ghost['kappa']
        c = kap[pos(tt)]
        hyp = list(p.pc) + [0 <= tt, tt <= d]
        U.post('d+1-vectors', p, R.n == d + 1, axioms=AXI, mode='ematch')
        U.post('no-entry-is-None', hyp, z3.Not(X.OptMat.is_none(R.arr[tt])), axioms=AXI, mode='ematch')
        U.post('vector-k-is-the-scaled-partial-chain', hyp, R.arr[tt] == X.OptMat.some(T.smul(c, spec(tt))), axioms=AXI, mode='ematch')
        if unit_scale:
            U.post('vector-k-is-exactly-the-partial-chain', hyp, R.arr[tt] == X.OptMat.some(spec(tt)), axioms=AXI, mode='ematch')
        U.post('scale-is-1' if unit_scale else 'scale-is-positive', hyp, (c == 1) if unit_scale else (c > 0), axioms=AXI, mode='ematch')
        notstart = [tt >= 1] if ltr else [tt < d]
        if norm == 'natural':
            U.post('natural: scale of vector k is 1/n of the consumed core times the scale of its neighbour', hyp + notstart,
                   scale_step(kap, pos(tt)), axioms=AXI, mode='ematch')
        if norm == 'linalg':
            U.post('linalg: every vector has 2-norm 1', hyp + notstart, X.cnorm(X.OptMat.mat(R.arr[tt])) == 1, axioms=AXI, mode='ematch')
        U.post('vector-k-has-length-r_k', hyp, T.rows(X.OptMat.mat(R.arr[tt])) == r_(A, d, tt), axioms=AXI, mode='ematch')
        start = z3.IntVal(0) if ltr else d
        U.post('start-of-the-sweep-is-exactly-[1]', p, R.arr[start] == X.OptMat.some(T.sc(1)), axioms=AXI, mode='ematch')
        U.canary('canary-every-vector-is-[1]', hyp, R.arr[tt] == X.OptMat.some(T.sc(1)), axioms=AXI)
    return cfg, links


def _reg_iface(pcase, with_i, norm, ltr):
    name = 'act_one.interface.' + {'none': 'P-', 'modes': 'Pm', 'shared': 'Ps'}[pcase] + ('i' if with_i else '-') + '.' \
        + {None: 'none', 'linalg': 'linalg', 'natural': 'natural'}[norm] + ('.ltr' if ltr else '.rtl')

    @unit(name, props=('C01',))
    def u(U):
        _interface_unit(U, pcase, with_i, norm, ltr)
    return u


for _pc in ('none', 'modes', 'shared'):
    for _wi in (False, True):
        for _nm in ('linalg', None, 'natural'):
            for _ltr in (False, True):
                _reg_iface(_pc, _wi, _nm, _ltr)


# ----------------------------------------------------------------------------------------------
# call-site contract of interface(Y, i=i, norm=None, ltr=<literal>)  - proved by the units act_one.interface.P-i.none.rtl / .ltr

def call_interface(ex, st, args, kwargs, node):
    Ys = st.deref(args[0]) if args else None
    iv = st.deref(kwargs.get('i', NONE))
    ltr = kwargs.get('ltr', False)
    if len(args) != 1 or set(kwargs) - {'i', 'norm', 'ltr', 'P'} or kwargs.get('P', NONE) is not NONE or kwargs.get('norm', 0) is not NONE \
            or not isinstance(ltr, bool) or not (isinstance(Ys, VSeq) and Ys.tag == 'core') \
            or not (isinstance(iv, VArr) and iv.ndim == 1 and iv.tag == 'ivec' and iv.t is not None):
        raise M.Unsupported('interface: only interface(<TT>, i=<index vector>, norm=None, ltr=<literal>) has a call-site contract')
    A, d, ix = Ys.arr, Ys.n, iv.t
    ex.oblige(st, 'call-pre', 'interface: well-formed tensor, one index per mode, every index within its mode',
              z3.And(T.wf(A, d), Z(iv.shape[0]) == d, T.index_ok(ix, A, d)), node)
    Mq = z3.Const(f'Ms!{A.get_id()}!{ix.get_id()}', X.MS)            # spec constant: the slices M_k = Y[k][:, i_k, :]
    st.assume(z3.ForAll([k_], Mq[k_] == T.sl(A[k_], ix[k_]), patterns=[Mq[k_]]))     # its definition (not a fact about the code)
    spec = (lambda t: T.tr(X.lch(Mq, t))) if ltr else (lambda t: X.rch(Mq, t, d))
    arr = ex.fresh('phi', X.PHI)
    st.assume(z3.ForAll([t_], z3.Implies(z3.And(0 <= t_, t_ <= d), z3.And(arr[t_] == X.OptMat.some(spec(t_)),
                                                                         T.rows(X.OptMat.mat(arr[t_])) == r_(A, d, t_))), patterns=[arr[t_]]))
    st.ghost.setdefault('iface_calls', []).append(dict(A=A, d=d, ix=ix, ltr=ltr, Ms=Mq, arr=arr))
    return st.alloc(X.mk_optvec(arr, d + 1))


M.CALLEES['act_one.interface'] = call_interface


# ----------------------------------------------------------------------------------------------
# act_one.get_and_grad(Y, i, check_phi=False)
#
# Postconditions (C01 "element gradients"): with M_k = Y[k][:, i_k, :], L_k = lch(M, k) (1 x r_k, = chain(Y, i, k-1) for k >= 1) and
# R_k = rch(M, k, d) (r_k x 1):
#   * value = val(Y, i) (the chained entry);
#   * grad is a NEW list of d arrays, grad[k] has the shape of Y[k], its mode slice i_k is the outer product L_k^T R_{k+1}^T of the
#     left and right interface vectors and every other mode slice is zero;
#   * multilinearity (why this IS the gradient):  L_k @ M_k @ R_{k+1} = [[val(Y, i)]]  for every k, i.e. the entry is the bilinear form
#     of the slice Y[k][:, i_k, :] with coefficient matrix grad[k][:, i_k, :] (the step from this identity to "partial derivatives" is
#     the derivative of a bilinear form: cited, not formalised);
#   * Y and i are untouched, nothing returned aliases them.
# Loop invariant: cores 0..j-1 of grad carry their slice, the others are still zero (the loop writes through the list: `havoc`).
# Not covered: check_phi=True (service flag "should be False"; the branch reads an undefined name `val` -> NameError on the pinned
# tree, outside the subset); rounding.

AXG = T.axioms('shape', 'smulr', 'elem', 'mchain', 'sc1', 'core', 'cslput')
AXGC = AXG + T.axioms('chain', 'smul')          # only where chain(Y, i, .) is mentioned


@unit('act_one.get_and_grad', props=('C01', 'C09'))
def u_get_and_grad(U):
    fn = U.func('act_one', 'get_and_grad')
    st = U.state()
    Y, A, d = S.tt_param(st, 'Y')
    ix = z3.Const('ix', T.IDX)
    iv = VArr((d,), ix, 'ivec', 'i')
    Mq = z3.Const(f'Ms!{A.get_id()}!{ix.get_id()}', X.MS)
    msdef = z3.ForAll([k_], Mq[k_] == T.sl(A[k_], ix[k_]), patterns=[Mq[k_]])
    pre = [T.wf(A, d), T.index_ok(ix, A, d), msdef]
    zero = lambda t: T.zc(T.d0(A[t]), T.d1(A[t]), T.d2(A[t]))
    outer = lambda t: T.mm(T.tr(X.lch(Mq, t)), T.tr(X.rch(Mq, t + 1, d)))

    def inv(ex, s, j):
        g = s.deref(s.vars['grad'])
        if not (isinstance(g, VSeq) and g.tag == 'core'):
            raise M.ContractMismatch('get_and_grad(): grad is not a list of cores')
        return [('one-array-per-core', g.n == d),
                ('processed-arrays-carry-the-outer-product-in-their-slice',
                 z3.ForAll([t_], z3.Implies(z3.And(0 <= t_, t_ < j), g.arr[t_] == X.cslput(zero(t_), ix[t_], outer(t_))), patterns=[g.arr[t_]])),
                ('other-arrays-still-zero', z3.ForAll([t_], z3.Implies(z3.And(j <= t_, t_ < d), g.arr[t_] == zero(t_)), patterns=[g.arr[t_]])),
                ('arguments-untouched', z3.BoolVal(s.heap[Y.oid].arr is A and s.vars['i'].t is ix))]

    ex = U.executor(fn, loops={0: {'inv': inv, 'havoc': ('grad',)}}, axioms=AXG)
    ex.mode = 'ematch'
    ex.core_iface = ex.core_grad = True
    ex.allow_shared_store = True      # `Q[:, k, :] = ..` on the loop variable writes through to grad[k]: handled by the core_grad hook + havoc of grad
    st.vars.update(Y=Y, i=iv, check_phi=False)
    res = U.run(ex, st, pre=pre)
    U.assumed.append('act_one.interface (units act_one.interface.P-i.none.rtl / .ltr)')
    U.cover('precondition-satisfiable', U.pre, axioms=AXG)
    # lemmas about the spec functions (as in the interface units), for the matrix sequence of this call
    shape_facts = iface_shape_lemmas(U, A, d, pre, AXG, Ms=Mq)
    links = iface_link_lemmas(U, dict(A=A, d=d, ix=ix, with_i=True, W=None), pre, shape_facts, AXG, Ms=Mq)
    tt, m = z3.Int('tt'), z3.Int('m')
    for p, o in res:
        if o.kind != 'return':
            U.post('no-exception', p, False, axioms=AXG, mode='ematch')
            continue
        ok = isinstance(o.value, VTuple) and len(o.value.items) == 2 and M.is_num(o.value.items[0]) and isinstance(o.value.items[1], VRef) \
            and isinstance(p.deref(o.value.items[1]), VSeq) and p.deref(o.value.items[1]).tag == 'core'
        U.post('returns-(number, list-of-arrays)', p, z3.BoolVal(ok))
        if not ok:
            continue
        v, gref = o.value.items
        g = p.deref(gref)
        calls = p.ghost.get('iface_calls', [])
        U.post('two-interface-sweeps-over-the-arguments (right-to-left and left-to-right)', p,
               z3.BoolVal(len(calls) == 2 and all(c['A'] is A and c['ix'] is ix for c in calls) and sorted(c['ltr'] for c in calls) == [False, True]))
        U.post('fresh-result-and-arguments-untouched', p, z3.BoolVal(gref.oid != Y.oid and p.heap[Y.oid].arr is A and p.vars['i'].t is ix))
        hyp = list(p.pc) + shape_facts
        U.post('value-is-the-chained-entry', hyp + links, M.to_real(v) == val(A, ix, d), axioms=AXGC, mode='ematch')
        U.post('one-gradient-array-per-core', p, g.n == d, axioms=AXG, mode='ematch')
        hk = hyp + [0 <= tt, tt < d]
        U.post('gradient-array-has-the-shape-of-its-core', hk,
               z3.And(T.d0(g.arr[tt]) == T.d0(A[tt]), T.d1(g.arr[tt]) == T.d1(A[tt]), T.d2(g.arr[tt]) == T.d2(A[tt])), axioms=AXG, mode='ematch')
        U.post('slice-i_k-is-the-outer-product-of-the-left-and-right-interface-vectors', hk, T.sl(g.arr[tt], ix[tt]) == outer(tt), axioms=AXG, mode='ematch')
        U.post('every-other-slice-is-zero', hk + [0 <= m, m < T.d1(A[tt]), m != ix[tt]],
               T.sl(g.arr[tt], m) == T.zeros(T.d0(A[tt]), T.d2(A[tt])), axioms=AXG, mode='ematch')
        U.post('left-interface-vector-is-the-left-partial-chain', hk + links + [tt >= 1], X.lch(Mq, tt) == T.chain(A, ix, tt - 1), axioms=AXGC, mode='ematch')
        U.post('multilinearity: left-interface @ slice @ right-interface is the entry', hk + links,
               T.mm(T.mm(X.lch(Mq, tt), T.sl(A[tt], ix[tt])), X.rch(Mq, tt + 1, d)) == T.chain(A, ix, d - 1), axioms=AXGC, mode='ematch',
               extra=[X.lch(Mq, tt + 1) == T.mm(X.lch(Mq, tt), Mq[tt])])
        U.canary('canary-gradient-slice-is-zero', hk, T.sl(g.arr[tt], ix[tt]) == T.zeros(T.d0(A[tt]), T.d2(A[tt])), axioms=AXG)
        U.canary('canary-value-is-zero', hyp + links, M.to_real(v) == 0, axioms=AXGC)
    U.lemmas.append('derivative of a bilinear form: d(L M R)/dM[a,b] = L[a] R[b] (cited; the multilinearity identity is proved)')


# ----------------------------------------------------------------------------------------------
# svd.svd_matrix / transformation.full_matrix: the bit-interleaving permutation and its inverse (C03: "the matrix variant after its
# index interleaving, which full_matrix inverts")
#
# svd_matrix(Y_full, e, r) for a 2^q x 2^q matrix (q >= 2: svd needs two modes): q = int(log2(rows)) IS the exponent; the matrix is
# reshaped (Fortran order) to 2q axes of size 2 - axes 0..q-1 are the row bits (least significant first), axes q..2q-1 the column bits -,
# transposed with
#       prm[2k] = k,  prm[2k+1] = q + k      (0 <= k < q; a permutation of the 2q axes),
# so that row bit k and column bit k become neighbours, and reshaped (Fortran order) to q modes of size 4 (mode index i_k + 2 j_k);
# exactly that array goes to svd(., e, r) once, with the caller's e and r, and svd's result is returned.
# full_matrix(Y, order='F'): full(Y) is reshaped (order) to 2q axes of size 2, transposed with
#       prm'[k] = 2k,  prm'[q+k] = 2k + 1    (0 <= k < q),
# and reshaped (Fortran order) to 2^q x 2^q.
# Lemma over the two contracts: prm[prm'[b]] = b and prm'[prm[a]] = a for all axes: the two transpositions are inverse to each other
# (with the default order='F' the reshapes are inverse as well, so full_matrix(svd_matrix(A)) = A up to the truncation of svd).
# Level: the permutation vectors element-wise and the data flow (which array is reshaped / transposed / handed on); the element-level
# meaning of reshape / transpose for arrays of symbolic dimension and the size compatibility of the reshapes are NOT modelled
# (bounded suite C03: exhaustive q <= 8 on integer-coded matrices).

AXP = T.axioms('pow2', 'pow2r', 'pow2link')
IA_ = z3.ArraySort(z3.IntSort(), z3.IntSort())


def prm_svd_matrix(prm, q):
    """prm[2k] = k, prm[2k+1] = q + k, stated for a position m: prm[m] = m div 2 (+ q for odd m)."""
    return lambda m: prm[m] == z3.If(m % 2 == 0, m / 2, q + m / 2)


def prm_full_matrix(prm, q):
    """prm'[k] = 2k, prm'[q+k] = 2k+1, stated for a position m."""
    return lambda m: prm[m] == z3.If(m < q, 2 * m, 2 * (m - q) + 1)


def _src(v):
    return getattr(v, 'src', None)


@unit('svd.svd_matrix', props=('C03',))
def u_svd_matrix(U):
    fn = U.func('svd', 'svd_matrix')
    st = U.state()
    q0, n = z3.Int('q'), z3.Int('n')
    e, r = z3.Real('e'), z3.Real('r')
    Yf = VArr((n, n), None, None)
    calls = []

    def c_svd(ex, s, a, kw, node):
        """svd(Z, e, r): call-site contract of unit svd.svd (d cores, well-formed, mode sizes of the array, ranks within the cap)."""
        if len(a) != 3 or kw or not isinstance(a[0], M.VNd):
            raise M.ContractMismatch('svd_matrix(): svd is not called as svd(<dense array>, e, r)')
        sh = s.deref(a[0].shape_ref)
        ee, rr = ex.need_num(s, a[1], node), ex.need_num(s, a[2], node)
        ex.oblige(s, 'call-pre', 'svd: at least two modes, all mode sizes >= 1, e >= 0, r >= 0',
                  z3.And(sh.n >= 2, Z(ee) >= 0, Z(rr) >= 0, z3.ForAll([t_], z3.Implies(z3.And(0 <= t_, t_ < sh.n), sh.arr[t_] >= 1), patterns=[sh.arr[t_]])), node)
        R = ex.fresh('Ysvd', T.TT)
        cap = z3.ToInt(M.to_real(rr))
        s.assume(T.wf(R, sh.n), z3.ForAll([t_], z3.Implies(z3.And(0 <= t_, t_ < sh.n), T.d1(R[t_]) == sh.arr[t_]), patterns=[R[t_]]),
                 z3.ForAll([t_], z3.Implies(z3.And(0 <= t_, t_ < sh.n - 1), T.d2(R[t_]) <= z3.If(cap >= 1, cap, 1)), patterns=[R[t_]]))
        s.ghost.setdefault('svd_calls', []).append(dict(Z=a[0], shape=sh, e=ee, r=rr, R=R))
        return s.alloc(VSeq(R, sh.n, M.mk_core, 'core'))

    ex = U.executor(fn, callees={'svd.svd': c_svd}, axioms=AXP)
    ex.core_perm = True
    st.vars.update(Y_full=Yf, e=e, r=r)
    res = U.run(ex, st, pre=[q0 >= 2, n == T.pow2(q0), e >= 0, r >= 0])
    U.assumed.append('svd.svd (unit svd.svd)')
    U.cover('precondition-satisfiable', U.pre, axioms=AXP)
    m, a_, b_ = z3.Ints('m a b')
    for p, o in res:
        if o.kind != 'return':
            U.post('no-exception', p, False, axioms=AXP)
            continue
        cs = p.ghost.get('svd_calls', [])
        ok = len(cs) == 1 and isinstance(o.value, VRef) and p.deref(o.value).arr is cs[0]['R']
        U.post('one-call-of-svd-and-its-result-is-returned', p, z3.BoolVal(ok))
        if not ok:
            continue
        c = cs[0]
        q = Z(p.vars['q'])
        U.post('thresholds-of-the-caller-are-handed-on', p, z3.And(M.to_real(c['e']) == e, M.to_real(c['r']) == r), axioms=AXP)
        # int(log2(2^q0)) = q0: instances of the characterisation of log2 against powers of two at k = q0 and k = q0 + 1
        x = z3.ToReal(T.pow2(q0))
        hints = [T.pow2r(z3.ToReal(q0)) == z3.ToReal(T.pow2(q0)), T.pow2r(z3.ToReal(q0 + 1)) == 2 * T.pow2r(z3.ToReal(q0)), T.pow2(q0) >= 1,
                 (z3.ToReal(q0) <= T.log2(x)) == (T.pow2r(z3.ToReal(q0)) <= x), (z3.ToReal(q0 + 1) <= T.log2(x)) == (T.pow2r(z3.ToReal(q0 + 1)) <= x)]
        U.post('q-is-the-exponent-of-the-matrix-size', list(p.pc) + hints, q == q0, qf=True)
        Zs = c['Z']
        s2 = _src(Zs)
        s1 = _src(s2[2]) if s2 and s2[0] == 'reshape' else None
        s0 = _src(s1[1]) if s1 and s1[0] == 'transpose' else None
        flow = bool(s2 and s2[:2] == ('reshape', 'F') and s1 and s0 and s0[:2] == ('reshape', 'F') and s0[2] is Yf)
        U.post('svd-receives: F-reshape to q modes <- transpose(prm) <- F-reshape to 2q axes <- the argument', p, z3.BoolVal(flow))
        if not flow:
            continue
        prm = s1[2]
        sh0 = p.deref(s1[1].shape_ref)
        hyp = list(p.pc)
        U.post('first-reshape-gives-2q-axes-of-size-2', hyp + [0 <= m, m < 2 * q], z3.And(sh0.n == 2 * q, sh0.arr[m] == 2), axioms=AXP)
        U.post('modes-handed-to-svd: q modes of size 4', hyp + [0 <= m, m < q], z3.And(c['shape'].n == q, c['shape'].arr[m] == 4), axioms=AXP)
        U.post('permutation-has-2q-entries', p, Z(prm.shape[0]) == 2 * q, axioms=AXP)
        U.post('permutation: prm[2k] = k and prm[2k+1] = q + k', hyp + [0 <= m, m < q], z3.And(prm.t[2 * m] == m, prm.t[2 * m + 1] == q + m), axioms=AXP)
        U.post('permutation (position form): prm[m] = m div 2 (+ q for odd m)', hyp + [0 <= m, m < 2 * q], prm_svd_matrix(prm.t, q)(m), axioms=AXP)
        Rr = p.deref(o.value)
        U.post('result: well-formed QTT tensor with q cores of mode size 4', hyp + [0 <= m, m < q],
               z3.And(Rr.n == q, T.wf(Rr.arr, q), T.d1(Rr.arr[m]) == 4), axioms=AXP)
        U.canary('canary-permutation-is-the-identity', hyp + [0 <= m, m < 2 * q], prm.t[m] == m, axioms=AXP)


@unit('transformation.full_matrix', props=('C03',))
def u_full_matrix(U):
    fn = U.func('transformation', 'full_matrix')
    st = U.state()
    Y, A, q = S.tt_param(st, 'Y', z3.Int('q'))

    def c_full(ex, s, a, kw, node):
        """full(Y): a dense array (shape proved for d = 2, 3 by transformation.full.d2 / .d3; nothing about it is used here)."""
        Ys = s.deref(a[0]) if len(a) == 1 and not kw else None
        if not (isinstance(Ys, VSeq) and Ys.tag == 'core'):
            raise M.ContractMismatch('full_matrix(): full is not called as full(<TT>)')
        ex.oblige(s, 'call-pre', 'full: well-formed tensor', T.wf(Ys.arr, Ys.n), node)
        out = M.VNd(s.alloc(VSeq(ex.fresh('fullshape', IA_), Ys.n, lambda t: t, tag='int')))
        out.src = ('full', Ys.arr)
        return out

    m = z3.Int('m')
    for order in ('F', 'C'):
        ex = U.executor(fn, callees={'transformation.full': c_full}, axioms=AXP)
        ex.core_perm = True
        s0 = st.copy()
        s0.vars.update(Y=Y, order=VStr(order))
        res = U.run(ex, s0, pre=[T.wf(A, q)])
        for p, o in res:
            if o.kind != 'return':
                U.post('no-exception', p, False, axioms=AXP)
                continue
            Rv = o.value
            s3 = _src(Rv)
            s2 = _src(s3[2]) if s3 and s3[0] == 'reshape' else None
            s1 = _src(s2[1]) if s2 and s2[0] == 'transpose' else None
            flow = bool(isinstance(Rv, VArr) and Rv.ndim == 2 and s3 and s3[:2] == ('reshape', 'F') and s2 and s1 and s1[:2] == ('reshape', order)
                        and _src(s1[2]) is not None and _src(s1[2])[0] == 'full' and _src(s1[2])[1] is A)
            U.post(f'order={order}: result: F-reshape to a matrix <- transpose(prm) <- reshape(order) to 2q axes <- full(Y)', p, z3.BoolVal(flow))
            if not flow:
                continue
            prm = s2[2]
            sh1 = p.deref(s2[1].shape_ref)
            hyp = list(p.pc)
            U.post('result-is-a-2^q-x-2^q-matrix', p, z3.And(Z(Rv.shape[0]) == T.pow2(q), Z(Rv.shape[1]) == T.pow2(q)), axioms=AXP)
            U.post('first-reshape-gives-2q-axes-of-size-2', hyp + [0 <= m, m < 2 * q], z3.And(sh1.n == 2 * q, sh1.arr[m] == 2), axioms=AXP)
            U.post('permutation-has-2q-entries', p, Z(prm.shape[0]) == 2 * q, axioms=AXP)
            U.post("permutation: prm'[k] = 2k and prm'[q+k] = 2k+1", hyp + [0 <= m, m < q], z3.And(prm.t[m] == 2 * m, prm.t[q + m] == 2 * m + 1), axioms=AXP)
            U.post("permutation (position form)", hyp + [0 <= m, m < 2 * q], prm_full_matrix(prm.t, q)(m), axioms=AXP)
            U.post('argument-untouched', p, z3.BoolVal(p.heap[Y.oid].arr is A))
            U.canary('canary-permutation-is-the-identity', hyp + [0 <= m, m < 2 * q], prm.t[m] == m, axioms=AXP)
    U.cover('precondition-satisfiable', [T.wf(A, q)], axioms=AXP)


@unit('svd.svd_matrix.full_matrix_inverts', props=('C03',))
def u_perm_inverse(U):
    """Lemma over the two contracts (no code is executed here): any two integer vectors that satisfy the element-wise statements
    proved by the units svd.svd_matrix and transformation.full_matrix are permutations of range(2q) and inverse to each other."""
    q = z3.Int('q')
    P1, P2 = z3.Const('prm', IA_), z3.Const('prm2', IA_)
    a = z3.Int('a')
    f1, f2 = prm_svd_matrix(P1, q), prm_full_matrix(P2, q)
    inr = lambda x: z3.And(0 <= x, x < 2 * q)
    hyp = [q >= 1, inr(a)]
    U.lemma('svd_matrix-permutation-stays-within-the-axes', hyp + [f1(a)], inr(P1[a]), qf=True)
    U.lemma('full_matrix-permutation-stays-within-the-axes', hyp + [f2(a)], inr(P2[a]), qf=True)
    U.lemma('full_matrix-after-svd_matrix: prm[prm2[a]] = a', hyp + [f2(a), f1(P2[a])], P1[P2[a]] == a, qf=True)
    U.lemma('svd_matrix-after-full_matrix: prm2[prm[a]] = a', hyp + [f1(a), f2(P1[a])], P2[P1[a]] == a, qf=True)
    U.canary('canary-the-two-permutations-are-equal', hyp + [f1(a), f2(a)], P1[a] == P2[a], qf=True)
    U.cover('hypotheses-satisfiable', hyp + [f1(a), f2(a), f2(P1[a]), f1(P2[a])])


# ----------------------------------------------------------------------------------------------
# core.core_dot(G, R, ltr=True): the core times a matrix on its right (ltr) / left (not ltr) bond
#
#   ltr:      result shape (r1, n, cols R),  unfL(result) = unfL(G) @ R,  every mode slice  result[:, j, :] = G[:, j, :] @ R
#   not ltr:  result shape (rows R, n, r2),  unfR(result) = R @ unfR(G),  every mode slice  result[:, j, :] = R @ G[:, j, :]
# A number R is the 1 x 1 matrix [[R]] (requires the bond to have size 1).  The result is a new array (reshape of a product), G and R are
# untouched.  Precondition: all dimensions of G >= 1, R has as many rows as G's right bond (ltr) / columns as G's left bond.
# This is the step that pushes a weight matrix into the neighbouring core (C04 mechanism; used by the cross / als sweeps).

AXC = T.axioms('shape', 'mulI', 'unfold', 'elem', 'smulr', 'sc1', 'trtr')
jj = z3.Int('jj')


def core_dot_post(g, rm, h, ltr):
    """What the units core.core_dot.* prove about H = core_dot(G, R, ltr) (g, rm, h: Core / Mat / Core terms)."""
    if ltr:
        return {'shape': z3.And(T.d0(h) == T.d0(g), T.d1(h) == T.d1(g), T.d2(h) == T.cols(rm)),
                'unfolding': T.unfL(h) == T.mm(T.unfL(g), rm),
                'slices': z3.ForAll([jj], z3.Implies(z3.And(0 <= jj, jj < T.d1(g)), T.sl(h, jj) == T.mm(T.sl(g, jj), rm)), patterns=[T.sl(h, jj)])}
    return {'shape': z3.And(T.d0(h) == T.rows(rm), T.d1(h) == T.d1(g), T.d2(h) == T.d2(g)),
            'unfolding': T.unfR(h) == T.mm(rm, T.unfR(g)),
            'slices': z3.ForAll([jj], z3.Implies(z3.And(0 <= jj, jj < T.d1(g)), T.sl(h, jj) == T.mm(rm, T.sl(g, jj))), patterns=[T.sl(h, jj)])}


def core_dot_pre(g, rm, ltr):
    return z3.And(T.d0(g) >= 1, T.d1(g) >= 1, T.d2(g) >= 1, T.cols(rm) >= 1, T.rows(rm) >= 1, (T.rows(rm) == T.d2(g)) if ltr else (T.cols(rm) == T.d0(g)))


def _core_dot_unit(U, ltr, number):
    fn = U.func('core', 'core_dot')
    ex = U.executor(fn, axioms=AXC)
    ex.mode = 'ematch'
    ex.core_ops = True
    st = U.state()
    G, g = S.core_param('G')
    if number:
        c = z3.Real('c')
        Rv, rm = c, T.sc(c)
        pre = [T.d0(g) >= 1, T.d1(g) >= 1, T.d2(g) >= 1, (T.d2(g) if ltr else T.d0(g)) == 1]
    else:
        Rv, rm = S.mat_param('R')
        pre = [core_dot_pre(g, rm, ltr)]
    st.vars.update(G=G, R=Rv, ltr=ltr)
    res = U.run(ex, st, pre=pre)
    U.cover('precondition-satisfiable', U.pre, axioms=AXC)
    for p, o in res:
        if o.kind != 'return':
            U.post('no-exception', p, False, axioms=AXC, mode='ematch')
            continue
        H = p.deref(o.value)
        ok = isinstance(H, VArr) and H.ndim == 3 and H.tag == 'core' and H.t is not None
        U.post('returns-a-3-D-array-with-a-denotation', p, z3.BoolVal(ok))
        if not ok:
            continue
        U.post('arguments-untouched-and-result-is-a-new-array', p, z3.BoolVal((number or p.vars['R'] is Rv) and H is not G and not H.t.eq(g)))
        post = core_dot_post(g, rm, H.t, ltr)
        U.post('shape: the contracted bond is replaced by the free dimension of R', p, post['shape'], axioms=AXC, mode='ematch')
        U.post('unfolding-is-the-product-with-R', p, post['unfolding'], axioms=AXC, mode='ematch')
        U.post('every-mode-slice-is-multiplied-by-R', list(p.pc) + [0 <= jj, jj < T.d1(g)],
               T.sl(H.t, jj) == (T.mm(T.sl(g, jj), rm) if ltr else T.mm(rm, T.sl(g, jj))), axioms=AXC, mode='ematch')
        if number:
            U.post('a-number-scales-every-slice', list(p.pc) + [0 <= jj, jj < T.d1(g), T.rows(T.sl(g, jj)) == T.d0(g), T.cols(T.sl(g, jj)) == T.d2(g)],
                   z3.Implies(c == 1, T.sl(H.t, jj) == T.sl(g, jj)), axioms=AXC, mode='ematch')
        U.canary('canary-slices-unchanged', list(p.pc) + [0 <= jj, jj < T.d1(g)], T.sl(H.t, jj) == T.sl(g, jj), axioms=AXC)


for _ltr in (True, False):
    for _num in (False, True):
        def _mk(ltr=_ltr, num=_num):
            @unit('core.core_dot.' + ('ltr' if ltr else 'rtl') + ('.number' if num else ''), props=('C04', 'C09'))
            def u(U):
                _core_dot_unit(U, ltr, num)
        _mk()


def call_core_dot(ex, st, args, kwargs, node):
    """core_dot(G, R, ltr) with a matrix R and a literal ltr: postcondition of the units core.core_dot.ltr / .rtl."""
    Gv, Rv = st.deref(args[0]), st.deref(args[1]) if len(args) > 1 else None
    ltr = args[2] if len(args) > 2 else kwargs.get('ltr', True)
    if not isinstance(ltr, bool) or not (isinstance(Gv, VArr) and Gv.tag == 'core' and Gv.t is not None) \
            or not (isinstance(Rv, VArr) and Rv.tag == 'mat' and Rv.t is not None):
        raise M.Unsupported('core_dot: only core_dot(<core>, <matrix>, <literal ltr>) has a call-site contract')
    ex.oblige(st, 'call-pre', 'core_dot: positive dimensions and matching bond', core_dot_pre(Gv.t, Rv.t, ltr), node)
    h = ex.fresh('Hdot', T.Core)
    for f in core_dot_post(Gv.t, Rv.t, h, ltr).values():
        st.assume(f)
    st.ghost.setdefault('core_dot_calls', []).append(dict(G=Gv.t, R=Rv.t, ltr=ltr, H=h))
    return M.mk_core(h)


M.CALLEES['core.core_dot'] = call_core_dot


# ----------------------------------------------------------------------------------------------
# core.core_dot_inv(G, R, ltr=True): the core times the INVERSE of a square matrix on its right / left bond
#
#   ltr:      result has the shape of G and  unfL(result) @ R = unfL(G),   result[:, j, :] @ R = G[:, j, :]
#   not ltr:  result has the shape of G and  R @ unfR(result) = unfR(G),   R @ result[:, j, :] = G[:, j, :]
# i.e. core_dot(core_dot_inv(G, R), R) = G - the defining equation of the solve; no inverse is formed.
# Precondition: R square of the size of the bond and non-singular (np.linalg.solve raises LinAlgError otherwise).
# Not covered: conditioning / rounding of the solve (A-LAPACK).

def _core_dot_inv_unit(U, ltr):
    fn = U.func('core', 'core_dot_inv')
    ex = U.executor(fn, axioms=AXC)
    ex.mode = 'ematch'
    ex.core_ops = True
    st = U.state()
    G, g = S.core_param('G')
    Rv, rm = S.mat_param('R')
    bond = T.d2(g) if ltr else T.d0(g)
    st.vars.update(G=G, R=Rv, ltr=ltr)
    res = U.run(ex, st, pre=[T.d0(g) >= 1, T.d1(g) >= 1, T.d2(g) >= 1, T.rows(rm) == bond, T.cols(rm) == bond, X.nonsing(rm)])
    U.cover('precondition-satisfiable', U.pre, axioms=AXC)
    for p, o in res:
        if o.kind != 'return':
            U.post('no-exception', p, False, axioms=AXC, mode='ematch')
            continue
        H = p.deref(o.value)
        ok = isinstance(H, VArr) and H.ndim == 3 and H.tag == 'core' and H.t is not None
        U.post('returns-a-3-D-array-with-a-denotation', p, z3.BoolVal(ok))
        if not ok:
            continue
        h = H.t
        hint = [T.tr(T.tr(rm)) == rm]                     # instance of 'trtr'
        U.post('shape-of-the-argument', p, z3.And(T.d0(h) == T.d0(g), T.d1(h) == T.d1(g), T.d2(h) == T.d2(g)), axioms=AXC, mode='ematch')
        U.post('unfolding-times-R-is-the-unfolding-of-the-argument', p,
               (T.mm(T.unfL(h), rm) == T.unfL(g)) if ltr else (T.mm(rm, T.unfR(h)) == T.unfR(g)), axioms=AXC, mode='ematch', extra=hint)
        # instance of 'unfold' (a block of rows / a stride of columns of a product) at the unfolding of the result
        if ltr:
            blk = z3.Implies(T.cols(T.unfL(h)) == T.rows(rm), T.rowblk(T.mm(T.unfL(h), rm), jj, T.d0(g)) == T.mm(T.rowblk(T.unfL(h), jj, T.d0(g)), rm))
        else:
            blk = z3.Implies(T.cols(rm) == T.rows(T.unfR(h)), T.colsel(T.mm(rm, T.unfR(h)), jj, T.d1(g)) == T.mm(rm, T.colsel(T.unfR(h), jj, T.d1(g))))
        U.post('every-mode-slice-times-R-is-the-slice-of-the-argument', list(p.pc) + [0 <= jj, jj < T.d1(g)],
               (T.mm(T.sl(h, jj), rm) == T.sl(g, jj)) if ltr else (T.mm(rm, T.sl(h, jj)) == T.sl(g, jj)), axioms=AXC, mode='ematch', extra=hint + [blk])
        U.post('one-linear-solve-with-R (transposed system for ltr)', p,
               z3.BoolVal(len(p.ghost.get('solves', [])) == 1 and p.ghost['solves'][0][0].eq(T.tr(rm) if ltr else rm)))
        U.post('arguments-untouched', p, z3.BoolVal(p.vars['R'] is Rv))
        U.canary('canary-result-is-the-argument', list(p.pc) + [0 <= jj, jj < T.d1(g)], T.sl(h, jj) == T.sl(g, jj), axioms=AXC)


@unit('core.core_dot_inv.ltr', props=('C04', 'C09'))
def u_core_dot_inv_l(U):
    _core_dot_inv_unit(U, True)


@unit('core.core_dot_inv.rtl', props=('C04', 'C09'))
def u_core_dot_inv_r(U):
    _core_dot_inv_unit(U, False)


# ----------------------------------------------------------------------------------------------
# core.core_dot_maxvol(G, R, ind=None, ltr=True): H = core_dot(G, R, ltr), then the maxvol rows of the other unfolding
#
#   ltr:      A = unfR(H) (r1 x n*q, q = cols R);  ind = _maxvol(A^T)[0] unless given;  returns (A[:, ind], ind)
#   not ltr:  A = unfL(H) (q*n x r2, q = rows R);  ind = _maxvol(A)[0]  unless given;   returns (A[ind, :], ind)
# Postconditions (shape / data-flow level; H by the contract of core_dot: every slice of G multiplied by R):
#   the returned matrix is the selection of the columns (rows) `ind` of that unfolding, in that order, of shape r1 x len(ind)
#   (len(ind) x r2); without a given ind exactly one call of _maxvol on the (transposed) unfolding supplies it: valid positions,
#   min(n*q, r1) (min(q*n, r2)) of them; a given ind is handed back as it is and _maxvol is not called.
# Precondition: as core_dot; a given ind has entries within the unfolding (NumPy raises IndexError otherwise).
# Not covered: WHICH rows maxvol picks (C08), values of the selected matrix beyond "columns of unfR(H)".

AXV = T.axioms('shape', 'mulI', 'unfold')


def _core_dot_maxvol_unit(U, ltr, given):
    fn = U.func('core', 'core_dot_maxvol')
    st = U.state()
    G, g = S.core_param('G')
    Rv, rm = S.mat_param('R')
    mv_calls = []

    def c_maxvol(ex, s, a, kw, node):
        out = M.CALLEES['utils._maxvol'](ex, s, a, kw, node)
        s.ghost['mv_calls'] = s.ghost.get('mv_calls', []) + [(s.deref(a[0]), len(a), dict(kw), out)]
        return out

    ex = U.executor(fn, axioms=AXV, callees={'utils._maxvol': c_maxvol})
    ex.mode = 'ematch'
    ex.core_ops = True
    pre = [core_dot_pre(g, rm, ltr)]
    q = T.cols(rm) if ltr else T.rows(rm)
    long_dim = T.mulI(T.d1(g), q)                # n*q: the number of columns (rows) of the unfolding that is searched
    if given:
        iarr, ilen = z3.Const('ind', IA_), z3.Int('nind')
        ind = VArr((ilen,), iarr, 'ivec', 'i')
        pre += [ilen >= 0, z3.ForAll([k_], z3.Implies(z3.And(0 <= k_, k_ < ilen), z3.And(0 <= iarr[k_], iarr[k_] < long_dim)), patterns=[iarr[k_]])]
    else:
        ind = NONE
    st.vars.update(G=G, R=Rv, ind=ind, ltr=ltr)
    res = U.run(ex, st, pre=pre)
    U.assumed += ['core.core_dot (units core.core_dot.ltr / .rtl)', 'utils._maxvol (unit utils._maxvol)']
    U.cover('precondition-satisfiable', U.pre, axioms=AXV)
    for p, o in res:
        if o.kind != 'return':
            U.post('no-exception', p, False, axioms=AXV, mode='ematch')
            continue
        ok = isinstance(o.value, VTuple) and len(o.value.items) == 2 and isinstance(p.deref(o.value.items[0]), VArr) and isinstance(p.deref(o.value.items[1]), VArr)
        U.post('returns-(matrix, index-vector)', p, z3.BoolVal(ok))
        if not ok:
            continue
        Mx, iv = [p.deref(x) for x in o.value.items]
        dots, mvs = p.ghost.get('core_dot_calls', []), p.ghost.get('mv_calls', [])
        ok = len(dots) == 1 and dots[0]['G'].eq(g) and dots[0]['R'].eq(rm) and dots[0]['ltr'] is ltr
        U.post('one-call-of-core_dot-with-the-arguments-and-the-direction', p, z3.BoolVal(ok))
        if not ok:
            continue
        h = dots[0]['H']
        unf = T.unfR(h) if ltr else T.unfL(h)
        src = _src(Mx)
        U.post('matrix-is-the-selection-of-the-columns(ltr)/rows-ind-of-the-other-unfolding-of-core_dot(G,R)', p,
               z3.BoolVal(bool(src) and src[0] == ('cols' if ltr else 'rows') and src[1].t is not None and src[1].t.eq(unf) and src[2] is iv))
        free = T.d0(g) if ltr else T.d2(g)
        U.post('matrix-shape', p, z3.And(Z(Mx.shape[0 if ltr else 1]) == free, Z(Mx.shape[1 if ltr else 0]) == Z(iv.shape[0])), axioms=AXV, mode='ematch')
        if given:
            U.post('given-index-vector-is-handed-back-and-maxvol-is-not-called', p, z3.BoolVal(iv is ind and not mvs))
        else:
            ok = len(mvs) == 1 and mvs[0][1] == 1 and not mvs[0][2] and mvs[0][0].t is not None and mvs[0][0].t.eq(T.tr(unf) if ltr else unf) \
                and iv is p.deref(mvs[0][3].items[0])
            U.post('index-vector-comes-from-one-default-call-of-_maxvol-on-the-unfolding (transposed for ltr)', p, z3.BoolVal(ok))
            hyp = list(p.pc) + [0 <= kk, kk < Z(iv.shape[0])]
            U.post('positions-are-valid', hyp, z3.And(0 <= iv.t[kk], iv.t[kk] < long_dim), axioms=AXV, mode='ematch')
            U.post('number-of-positions-is-min(long, free)', p, Z(iv.shape[0]) == z3.If(long_dim <= free, long_dim, free), axioms=AXV, mode='ematch')
        U.post('arguments-untouched', p, z3.BoolVal(p.vars['R'] is Rv))
        U.canary('canary-no-position-is-selected', p, Z(iv.shape[0]) == 0, axioms=AXV)


for _ltr in (True, False):
    for _gv in (False, True):
        def _mk(ltr=_ltr, gv=_gv):
            @unit('core.core_dot_maxvol.' + ('ltr' if ltr else 'rtl') + ('.ind' if gv else ''), props=('C04', 'C09'))
            def u(U):
                _core_dot_maxvol_unit(U, ltr, gv)
        _mk()


# ----------------------------------------------------------------------------------------------
# core.core_qr_rand(G, m, ltr=True, seed=None): append m random columns to the unfolding and return the Q factor as a core
#
#   ltr:      Q, R = qr([unfL(G) | N]),  N an (r1*n) x m normal draw;  result = Q folded to (r1, n, k),  k = min(r1*n, r2 + m);
#             unfL(result) has orthonormal columns and  unfL(result) @ R = [unfL(G) | N]
#   not ltr:  Q, R = qr([unfR(G)^T | N]),  N an (n*r2) x m draw;  result = Q^T folded to (k, n, r2),  k = min(n*r2, r1 + m);
#             unfR(result) has orthonormal rows and  R^T @ unfR(result) = [unfR(G)^T | N]^T  (stated as (unfR(result))^T @ R = [..])
# C10: the seed goes through _rand exactly once, a Generator object is used as it is, and the ONLY draw is that one normal matrix,
# taken from that generator.  Precondition: dimensions >= 1, m >= 0 integer.
# Not covered: the distribution of the draw; rank deficiency of the stacked matrix (QR is still defined: A-LAPACK).

AXQ = T.axioms('shape', 'mulI', 'unfold', 'trtr')


def _core_qr_rand_unit(U, ltr, skind):
    from contracts.transformation import orthL, orthR, _factors
    from contracts.misc import logging_rand
    from ttvc import rnd as RN
    fn = U.func('core', 'core_qr_rand')
    ex = U.executor(fn, axioms=AXQ, callees={'utils._rand': logging_rand})
    ex.mode = 'ematch'
    ex.core_ops = True
    st = U.state()
    G, g = S.core_param('G')
    m = z3.Int('m')
    seed = {'int': z3.Int('seed'), 'none': NONE, 'generator': RN.VGen('caller')}[skind]
    st.vars.update(G=G, m=m, ltr=ltr, seed=seed)
    res = U.run(ex, st, pre=[T.d0(g) >= 1, T.d1(g) >= 1, T.d2(g) >= 1, m >= 0])
    U.assumed.append('utils._rand (unit utils._rand)')
    U.cover('precondition-satisfiable', U.pre, axioms=AXQ)
    for p, o in res:
        if o.kind != 'return':
            U.post('no-exception', p, False, axioms=AXQ, mode='ematch')
            continue
        H = p.deref(o.value)
        ok = isinstance(H, VArr) and H.ndim == 3 and H.tag == 'core' and H.t is not None
        U.post('returns-a-3-D-array-with-a-denotation', p, z3.BoolVal(ok))
        if not ok:
            continue
        h = H.t
        rc, draws = p.ghost.get('randcalls', []), p.ghost.get('core_draws', [])
        U.post('seed-goes-through-_rand-exactly-once', p, z3.BoolVal(len(rc) == 1 and rc[0][0] is seed))
        U.post('exactly-one-draw-and-no-other-use-of-randomness', p, z3.BoolVal(len(draws) == 1 and p.ghost.get('draws', 0) == 0 and not p.ghost.get('drawlog')))
        if len(rc) != 1 or len(draws) != 1:
            continue
        gen, shp, noise = draws[0]
        U.post('the-draw-comes-from-the-generator-returned-by-_rand', p, z3.BoolVal(gen is rc[0][1]))
        if skind == 'generator':
            U.post('a-generator-object-is-used-as-it-is', p, z3.BoolVal(gen is seed))
        long_dim = T.mulI(T.d0(g), T.d1(g)) if ltr else T.mulI(T.d1(g), T.d2(g))
        other = T.d2(g) if ltr else T.d0(g)
        U.post('the-draw-has-one-row-per-row-of-the-unfolding-and-m-columns', p, z3.And(Z(shp[0]) == long_dim, Z(shp[1]) == m), axioms=AXQ, mode='ematch')
        k = z3.If(long_dim <= other + m, long_dim, other + m)
        if ltr:
            U.post('shape: (r1, n, min(r1*n, r2+m))', p, z3.And(T.d0(h) == T.d0(g), T.d1(h) == T.d1(g), T.d2(h) == k), axioms=AXQ, mode='ematch')
            U.post('left-unfolding-has-orthonormal-columns', p, orthL(h), axioms=AXQ, mode='ematch')
        else:
            U.post('shape: (min(n*r2, r1+m), n, r2)', p, z3.And(T.d0(h) == k, T.d1(h) == T.d1(g), T.d2(h) == T.d2(g)), axioms=AXQ, mode='ematch')
            U.post('right-unfolding-has-orthonormal-rows', p, orthR(h), axioms=AXQ, mode='ematch')
        qn, rn = _factors(p)
        if qn is None or rn is None:
            raise M.ContractMismatch('core_qr_rand(): no QR factorisation on this path')
        stacked = T.hcat(T.unfL(g) if ltr else T.tr(T.unfR(g)), noise)
        U.post('unfolding-of-the-result-times-R-is-the-unfolding-of-G-with-the-noise-columns-appended', p,
               T.mm(T.unfL(h) if ltr else T.tr(T.unfR(h)), rn) == stacked, axioms=AXQ, mode='ematch')
        U.canary('canary-rank-unchanged', p, (T.d2(h) if ltr else T.d0(h)) == other, axioms=AXQ)


for _ltr in (True, False):
    for _sk in ('int', 'none', 'generator'):
        def _mk(ltr=_ltr, sk=_sk):
            @unit('core.core_qr_rand.' + ('ltr' if ltr else 'rtl') + '.seed_' + sk, props=('C04', 'C10'))
            def u(U):
                _core_qr_rand_unit(U, ltr, sk)
        _mk()


# ----------------------------------------------------------------------------------------------
# data.cache_to_data(cache={}): the cache of cross() as data arrays
#
# For a dict with m entries whose keys are tuples of w integers (insertion order s = 0..m-1) the function returns (I_data, y_data):
#   m >= 1:  I_data is the (m, w) integer matrix with row s = key s;  y_data the float vector with y_data[s] = value of key s
#            (same length, same order: row s of I_data belongs to y_data[s]);
#   m = 0:   two empty 1-D arrays (np.array([], dtype=int) has shape (0,), not (0, w)).
# The dict is not modified (C10: the DEFAULT dict `{}` is one object shared by all calls - case .default runs the function on the
# default expression itself: it is still empty afterwards, so nothing is carried over to the next call); the arrays are new objects.
# Not covered: keys of different lengths (NumPy builds a ragged / object array: outside the data model of the cache), non-numeric values.

def _cache_unit(U, default):
    fn = U.func('data', 'cache_to_data')
    ex = U.executor(fn)
    ex.core_cache = True
    st = U.state()
    if default:
        dref = ex.ev(fn.defaults['cache'], st)              # the default expression of the signature, evaluated once: `{}`
        U.post('default-is-the-empty-dict-literal', [], z3.BoolVal(isinstance(st.deref(dref), VRec) and not st.deref(dref).fields))
        st.vars.update(cache=dref)
        res = U.run(ex, st)
    else:
        K, V, m, w = z3.Const('K', X.KEYS), z3.Const('V', XA.RA), z3.Int('m'), z3.Int('w')
        dref = st.alloc(X.VDict(K, w, V, m))
        st.vars.update(cache=dref)
        res = U.run(ex, st, pre=[m >= 0, w >= 1])
        U.cover('precondition-satisfiable', U.pre)
    seen = set()
    s0 = z3.Int('s0')
    for p, o in res:
        if o.kind != 'return':
            U.post('no-exception', p, False)
            continue
        ok = isinstance(o.value, VTuple) and len(o.value.items) == 2 and all(isinstance(p.deref(x), VArr) for x in o.value.items)
        U.post('returns-a-pair-of-arrays', p, z3.BoolVal(ok))
        if not ok:
            continue
        Iv, yv = [p.deref(x) for x in o.value.items]
        d_ = p.deref(dref)
        if default:
            U.post('both-arrays-are-empty-1-D-arrays', p, z3.And(z3.BoolVal(Iv.ndim == 1 and yv.ndim == 1 and Iv.dtype == 'i'), Z(Iv.shape[0]) == 0, Z(yv.shape[0]) == 0))
            U.post('default-dict-is-still-empty-and-was-never-written-to', p,
                   z3.BoolVal(isinstance(d_, VRec) and not d_.fields and not p.ghost.get('dict_mutations')))
            continue
        U.post('dict-not-modified', p, z3.BoolVal(d_.writes == 0 and d_.keys is K and d_.vals is V and d_.n is m))
        if Iv.ndim == 1:
            seen.add('empty')
            U.raise_iff('1-D-index-array-only-for-the-empty-dict', p, m == 0)
            U.post('empty-dict-gives-two-empty-arrays', p, z3.And(Z(Iv.shape[0]) == 0, Z(yv.shape[0]) == 0, z3.BoolVal(Iv.dtype == 'i' and yv.ndim == 1)))
            continue
        seen.add('rows')
        U.raise_iff('index-matrix-only-for-a-non-empty-dict', p, m >= 1)
        ok = Iv.tag == 'idxbatch' and Iv.dtype == 'i' and yv.ndim == 1 and yv.tag == 'rvec' and yv.t is not None
        U.post('integer-matrix-and-float-vector-with-known-entries', p, z3.BoolVal(ok))
        if not ok:
            continue
        U.post('one-row-per-entry-one-column-per-index-and-one-value-per-entry', p, z3.And(Z(Iv.shape[0]) == m, Z(Iv.shape[1]) == w, Z(yv.shape[0]) == m))
        U.post('row-s-is-key-s-and-y[s]-is-its-value (same order)', list(p.pc) + [0 <= s0, s0 < m], z3.And(Iv.t[s0] == K[s0], yv.t[s0] == V[s0]))
        U.canary('canary-all-values-zero', list(p.pc) + [0 <= s0, s0 < m], yv.t[s0] == 0)
    if not default:
        U.post('both-cases-reached (empty / non-empty)', [], z3.BoolVal(seen == {'empty', 'rows'}))


@unit('data.cache_to_data', props=('C10', 'C09'))
def u_cache_to_data(U):
    _cache_unit(U, False)


@unit('data.cache_to_data.default', props=('C10',))
def u_cache_to_data_default(U):
    _cache_unit(U, True)


# ----------------------------------------------------------------------------------------------
# Hand-made mutants (MUT_BASE=/tmp/base tools/mut.sh <file> '<sed>' <units>) and the named obligation that reports each.
# R(f, g) abbreviates the sed address '/^def f/,/^def g/' that restricts the edit to the function.
#
# act_one.interface.*          (act_one.py, inside R(interface, mean); unit suffixes: P-/Pm/Ps = no / per-mode / shared weights, i = index)
#   s/phi\[k\] = Q @ phi\[k+1\]/phi[k] = Q @ phi[k]/                      safety array-operand-not-None, call-pre matmul-inner-dims-agree, inv-keep loop0.written-entries-are-scaled-partial-chains
#   s/            Q = Q.T/            pass/                               (.ltr) call-pre matmul-inner-dims-agree, inv-keep loop0.written-entries-...
#   s/            i = i\[::-1\]/            pass/                         (P-i / Pmi .ltr) safety mode-index-in-range, inv-keep loop0.written-entries-...
#   s/P = P\[::-1\]/pass/                                                 (Pm-.ltr) call-pre einsum-contracted-dimensions-agree, inv-keep written-entries-...; (Pmi.ltr) safety array-index-in-range; Ps: quiet (a shared vector is not reversed)
#   s/not isinstance(P\[0\], (int, float)):/True:/                        (Ps-.ltr / Psi.ltr) inv-keep loop0.written-entries-... (a shared weight vector would be reversed)
#   s/Q = np.sum(Y\[k\], axis=1)/Q = np.sum(Y[k], axis=1) * 2/            (P--) inv-keep loop0.written-entries-...
#   s/Q = Y\[k\]\[:, i\[k\], :\] \* p\[i\[k\]\]/Q = Y[k][:, i[k], :] * p[k]/   (Psi / Pmi) safety array-index-in-range, inv-keep loop0.written-entries-...
#   s/phi\[k\] \/= np.linalg.norm(phi\[k\])/phi[k] \/= -np.linalg.norm(phi[k])/    (.linalg) inv-keep loop0.scale-factors-positive
#   s/phi\[k\] \/= Y\[k\].shape\[1\]/phi[k] \/= Y[k].shape[0]/           (.natural) inv-keep loop0.natural: each pass divides the scale by the mode size of its core
#   s/if norm.startswith('n')/if norm.startswith('l')/                    (.natural) inv-keep loop0.natural: ...;  s/startswith('l')/startswith('n')/  (.linalg) inv-keep loop0.linalg: every written vector but the start has 2-norm 1
#   s/        phi = phi\[::-1\]/        pass/                             (.ltr) post vector-k-is-the-scaled-partial-chain, vector-k-has-length-r_k, start-of-the-sweep-is-exactly-[1]
#   s/range(d-1, -1, -1)/range(d-1, 0, -1)/                               post no-entry-is-None, vector-k-is-the-scaled-partial-chain, scale-is-1, vector-k-has-length-r_k
#   s/phi = \[None\] \* (d+1)/phi = [None] * d/                           inv-init loop0.list-of-d+1-entries, loop0.written-entries-...
#   undecided: np.ones(1) * 2, np.dot(Q, phi[k+1]), reversed(range(d)), [None for _ in range(d+1)], np.sqrt(phi[k] @ phi[k]), Y[k].sum(axis=1)
#   (Unsupported / ContractMismatch);  quiet (equivalent): phi[k] = phi[k] / np.linalg.norm(phi[k])
# act_one.get_and_grad         (act_one.py, inside R(get_and_grad, get_many))
#   s/phi_l\[:-1\], phi_r\[1:\]/phi_l[1:], phi_r[1:]/                     call-pre slice-assignment-shapes-agree, inv-keep loop0.processed-arrays-carry-the-outer-product-in-their-slice
#   s/np.outer(p_l, p_r)/np.outer(p_r, p_l)/                              the same two
#   s/value = phi_r\[0\].item()/value = phi_r[-1].item()/                 post value-is-the-chained-entry
#   s/Q\[:, k, :\] = /Q[:, 0, :] = /                                      inv-keep loop0.processed-arrays-carry-...
#   s/norm=None, ltr=True/norm=None, ltr=False/                           inv-keep loop0.processed-arrays-carry-..., post two-interface-sweeps-over-the-arguments
#   s/np.zeros(G.shape)/np.ones(G.shape)/                                 inv-init loop0.other-arrays-still-zero
#   undecided: interface(Y, i=i, ltr=False) without norm=None (no call-site contract);  quiet (harmless): return value, [G for G in grad]
# svd.svd_matrix               (svd.py, inside R(svd_matrix, svd_incomplete))
#   s/np.hstack((ind1, ind2))/np.hstack((ind2, ind1))/                    post permutation: prm[2k] = k and prm[2k+1] = q + k, permutation (position form)
#   s/ind2 = np.arange(q, 2\*q)/ind2 = np.arange(q, 2*q-1)/               call-pre hstack-rows-agree
#   s/Z_full = Z_full.transpose(prm)/pass/                                post svd-receives: F-reshape to q modes <- transpose(prm) <- ...
#   s/return svd(Z_full, e, r)/return svd(Z_full, r, e)/                  post thresholds-of-the-caller-are-handed-on
#   s/reshape(\[4\]\*q, order='F')/reshape([4]*q)/                         post svd-receives: ...
#   s/q = int(np.log2(Y_full.shape\[0\]))/... + 1/                        post q-is-the-exponent-of-the-matrix-size (refuted)
# transformation.full_matrix   (transformation.py, inside R(full_matrix, orthogonalize))
#   s/prm = np.arange(2\*q).reshape(2, -1, order='F').reshape(-1)/prm = np.arange(2*q)/   post permutation: prm'[k] = 2k ..., permutation (position form)
#   s/reshape(2\*\*q, 2\*\*q, order='F')/reshape(2**q, 2**q, order=order)/   post order=C: result: F-reshape to a matrix <- ...
#   s/Z.reshape(\[2, 2\]\*q, order=order)/Z.reshape([2, 2]*q, order='C')/   post order=F: result: ... <- reshape(order) to 2q axes <- full(Y)
#   s/reshape(2\*\*q, 2\*\*q, order='F')/reshape(2**q, 2*q, order='F')/     post result-is-a-2^q-x-2^q-matrix
#   undecided: reshape(-1, 2).reshape(-1) (Unsupported)
# core.core_dot.*              (core.py, inside R(core_dot(, core_dot_inv))
#   s/G = G @ R if ltr else R @ G/G = G @ R.T if ltr else R @ G/          (.ltr) call-pre matmul-inner-dims-agree, post unfolding-is-the-product-with-R, every-mode-slice-is-multiplied-by-R
#   s/G = G @ R if ltr else R @ G/G = R @ G if ltr else G @ R/            call-pre matmul-inner-dims-agree, reshape-preserves-size
#   s/R = np.array(\[\[R\]\]) if/R = np.array([[2*R]]) if/                (.number) post unfolding-is-the-product-with-R, every-mode-slice-..., a-number-scales-every-slice
#   s/(r1\*n, r2) if ltr else (r1, n\*r2)/(r1, n*r2) if ltr else (r1*n, r2)/   call-pre matmul-inner-dims-agree, reshape-preserves-size
#   s/(r1, n, G.shape\[1\]) if ltr else/(r1, n, G.shape[1]) if not ltr else/   call-pre reshape-preserves-size
# core.core_dot_inv.*          (core.py, inside R(core_dot_inv, core_dot_maxvol))
#   s/np.linalg.solve(R.T, G.T).T if ltr/np.linalg.solve(R, G.T).T if ltr/    (.ltr) post unfolding-times-R-..., every-mode-slice-times-R-..., one-linear-solve-with-R
#   s/else np.linalg.solve(R, G)/else np.linalg.solve(R.T, G)/            (.rtl) the same three
#   s/_reshape(G, (r1, n, r2))/_reshape(G, (r1, r2, n))/                  (.rtl) post shape-of-the-argument, every-mode-slice-times-R-...
#   s/(r1\*n, r2) if ltr else (r1, n\*r2)/(r1*n, r2) if not ltr else (r1, n*r2)/   (.ltr) call-pre solve-right-hand-side-rows-agree, post unfolding-times-R-...
#   undecided: solve(R.T, G.T) without the final .T (a size-preserving reshape outside the unfolding patterns: Unsupported)
# core.core_dot_maxvol.*       (core.py, inside R(core_dot_maxvol, core_qr_rand))
#   s/_maxvol(G.T if ltr else G)\[0\]/_maxvol(G if ltr else G.T)[0]/      safety selection-indices-in-range, post index-vector-comes-from-one-default-call-of-_maxvol-...
#   s/G\[:, ind\] if ltr else G\[ind, :\]/G[ind, :] if ltr else G[:, ind]/   safety selection-indices-in-range, post matrix-is-the-selection-..., matrix-shape
#   s/core_dot(G, R, ltr)/core_dot(G, R, not ltr)/                        call-pre core_dot: positive dimensions and matching bond, post one-call-of-core_dot-...
#   s/if ind is None else ind/if ind is not None else ind/                safety operand-not-None; (.ind) post given-index-vector-is-handed-back-and-maxvol-is-not-called
#   s/(r1, n\*G.shape\[-1\]) if ltr else (G.shape\[0\]\*n, r2)/(r1*n, G.shape[-1]) if ltr else (G.shape[0], n*r2)/   post matrix-is-the-selection-..., matrix-shape, number-of-positions-...
#   s/    return G, ind/    return G, None/                               post returns-(matrix, index-vector)
# core.core_qr_rand.*          (core.py, inside R(core_qr_rand, core_qtt_to_tt))
#   s/teneva._rand(seed)/teneva._rand(None)/                              post seed-goes-through-_rand-exactly-once, a-generator-object-is-used-as-it-is
#   s/rand.normal(size=/np.random.normal(size=/                           post the-draw-comes-from-the-generator-returned-by-_rand (draw logged with generator "global")
#   s/(r1\*n if ltr else n\*r2, m)/(r1*n if ltr else n*r2, m+1)/           post the-draw-has-one-row-per-row-of-the-unfolding-and-m-columns, shape: ...
#   s/np.hstack((G, rnd))/np.hstack((rnd, G))/                            post unfolding-of-the-result-times-R-is-the-unfolding-of-G-with-the-noise-columns-appended
#   s/G, _ = np.linalg.qr(G)/_, G = np.linalg.qr(G)/                      call-pre reshape-preserves-size
# data.cache_to_data[.default] (data.py, from '/^def cache_to_data/' to the end)
#   s/return I_data, y_data/return y_data, I_data/                        raise-iff 1-D-index-array-only-for-the-empty-dict, post empty-dict-gives-two-empty-arrays
#   s/    return I_data, y_data/    cache.clear()\n    return I_data, y_data/     post dict-not-modified; (.default) post default-dict-is-still-empty-and-was-never-written-to
#   s/    return I_data, y_data/    cache['n'] = len(y_data)\n    return .../      the same two
#   s/\[y for y in cache.values()\]/[y for y in cache.values()][::-1]/    post row-s-is-key-s-and-y[s]-is-its-value (same order)
#   s/\[y for y in cache.values()\]/[y for y in cache.values()][1:]/      safety slice-in-range, post one-row-per-entry-..., row-s-is-key-s-...
#   s/np.array(\[y for y in cache.values()\])/np.array([y for y in cache.keys()])/   post integer-matrix-and-float-vector-with-known-entries
#   undecided: keys built from cache.values() with dtype=int (Unsupported)
