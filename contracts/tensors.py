"""Sidecar contracts for the explicit constructors (C19): tensors.delta, tensors.const (without zero list),
vectors.vector_delta - element values by induction along the chain of rank-one cores."""
import z3
from ttvc.units import unit
from ttvc.symex import VOpt, VStr, VRec, VSeq, VArr, VFunc, VTuple, VRef, VList, VSym, NONE, Z
from ttvc import models as M, theory as T
from contracts import spec as S
from contracts.utils import bit, SHR_DEF, shr

IA = z3.ArraySort(z3.IntSort(), z3.IntSort())
AXE = T.axioms('shape', 'core', 'smul', 'chain', 'elem')
k_, k2_ = z3.Ints('k!c k2!c')


def chain_scalar_lemma(U, name, ctx, R, ix, d, entry, axioms, extra_last=None):
    """Induction along the chain of rank-one cores: if sl(R[k], ix[k]) = sc(entry(k)) for every k, then
    chain(R, ix, k) = sc(prod(k)) with prod(0) = entry(0), prod(k) = prod(k-1) * entry(k).
    Returns (prod, facts) - the product function and its defining axioms."""
    prod = z3.Function('prod_' + name, z3.IntSort(), z3.RealSort())
    pdef = [prod(0) == entry(z3.IntVal(0)),
            z3.ForAll([k_, k2_], z3.Implies(z3.And(k_ >= 0, k2_ == k_ + 1, k2_ < d), prod(k2_) == T.rmul(prod(k_), entry(k2_))),
                      patterns=[z3.MultiPattern(prod(k_), prod(k2_))])]
    kk = z3.Int('kk')
    # step 1: every slice that the chain multiplies is the 1 x 1 matrix [[entry(k)]]   (a statement about the cores alone)
    U.lemma(f'slices-are-1x1-with-the-expected-entry({name})', ctx + [kk >= 0, kk < d], T.sl(R[kk], ix[kk]) == T.sc(entry(kk)),
            axioms=axioms, mode='ematch', kind='lemma')
    slices = z3.ForAll([kk], z3.Implies(z3.And(0 <= kk, kk < d), T.sl(R[kk], ix[kk]) == T.sc(entry(kk))), patterns=[T.sl(R[kk], ix[kk])])
    # step 2: induction along the chain, using only the slice values, the chain recursion and mm(sc x, sc y) = sc(x y)
    small = T.axioms('chain', 'elem')
    U.lemma(f'chain-is-the-running-product({name}).base', [slices, d >= 1] + pdef, T.chain(R, ix, 0) == T.sc(prod(0)), axioms=small,
            mode='ematch', kind='lemma-base')
    U.lemma(f'chain-is-the-running-product({name}).step', [slices] + pdef + [kk >= 1, kk < d, T.chain(R, ix, kk - 1) == T.sc(prod(kk - 1))],
            T.chain(R, ix, kk) == T.sc(prod(kk)), axioms=small, mode='ematch', kind='lemma-step')
    return prod, pdef + [z3.ForAll([kk], z3.Implies(z3.And(0 <= kk, kk < d), T.chain(R, ix, kk) == T.sc(prod(kk))),
                                   patterns=[T.chain(R, ix, kk)])]


def _run_constructor(U, module, fname, setvars, loops=None, hints=None, axioms=AXE, callees=None):
    fn = U.func(module, fname)
    ex = U.executor(fn, loops=loops or {}, axioms=axioms, type_hints=hints or {}, callees=callees or {})
    ex.mode = 'ematch'
    st = U.state()
    pre = setvars(ex, st)
    res = U.run(ex, st, pre=pre)
    U.cover('precondition-satisfiable', U.pre, axioms=axioms)
    return ex, st, res


def _sign_and_root(p, d, v):
    """The two branches of `s = abs(v) / v if abs(v) > 1e-16 else v; v = abs(v) ** (1. / d) if ... else 1.`"""
    return p.vars['s'], p.vars['v']


@unit('tensors.delta', props=('C19',))
def u_delta(U):
    """delta(n, i, v): the tensor equals v at the multi-index i and 0 elsewhere (every position, every d >= 2)."""
    d = z3.Int('d')
    narr, iarr = z3.Const('n', IA), z3.Const('i', IA)
    v0 = z3.Real('v')
    ix = z3.Const('ix', T.IDX)
    t = z3.Int('t!d')

    def inv(ex, s, j):
        Ys = s.deref(s.vars['Y'])
        w = Z(s.vars['v'])
        return [('length', Ys.n == d),
                ('filled-cores-are-unit-cores', z3.ForAll([t], z3.Implies(z3.And(0 <= t, t < j), Ys.arr[t] == T.cset(T.zc(1, narr[t], 1), iarr[t], w)),
                                                          patterns=[Ys.arr[t]])),
                ('other-cores-still-zero', z3.ForAll([t], z3.Implies(z3.And(j <= t, t < d), Ys.arr[t] == T.zc(1, narr[t], 1)), patterns=[Ys.arr[t]]))]

    def setvars(ex, st):
        st.vars.update(n=st.alloc(VSeq(narr, d, lambda x: x, tag='int')), i=st.alloc(VSeq(iarr, d, lambda x: x, tag='int')), v=v0)
        return [d >= 2, z3.ForAll([t], z3.Implies(z3.And(0 <= t, t < d), z3.And(narr[t] >= 1, 0 <= iarr[t], iarr[t] < narr[t])),
                                  patterns=[narr[t]])]

    ex, st, res = _run_constructor(U, 'tensors', 'delta', setvars, loops={0: {'inv': inv}})
    for p, o in res:
        if o.kind != 'return':
            U.post('no-exception', p, False, axioms=AXE, mode='ematch')
            continue
        Ys = p.deref(o.value)
        R = Ys.arr
        s_, w = Z(p.vars['s']), Z(p.vars['v'])
        ctx = list(p.pc) + [z3.ForAll([t], z3.Implies(z3.And(0 <= t, t < d), z3.And(0 <= ix[t], ix[t] < narr[t])), patterns=[ix[t]])]
        U.post('d-cores', p, Ys.n == d, axioms=AXE, mode='ematch')
        tt = z3.Int('tt')
        U.post('rank-one-cores-of-the-requested-mode-sizes', p,
               z3.Implies(z3.And(0 <= tt, tt < d), z3.And(T.d0(R[tt]) == 1, T.d1(R[tt]) == narr[tt], T.d2(R[tt]) == 1)), axioms=AXE, mode='ematch')
        hit = lambda k: z3.If(ix[k] == iarr[k], w, 0)
        entry = lambda k: z3.If(k == d - 1, T.rmul(s_, hit(k)), hit(k))
        prod, facts = chain_scalar_lemma(U, 'delta', ctx, R, ix, d, entry, AXE)
        # match(k): the multi-index agrees with the position on modes 0..k ;  wpow(k) = w^(k+1)
        match = z3.Function('match', z3.IntSort(), z3.BoolSort())
        wpow = z3.Function('wpow', z3.IntSort(), z3.RealSort())
        mdef = [match(0) == (ix[0] == iarr[0]), wpow(0) == w,
                z3.ForAll([k_, k2_], z3.Implies(z3.And(k_ >= 0, k2_ == k_ + 1, k2_ < d),
                                               z3.And(match(k2_) == z3.And(match(k_), ix[k2_] == iarr[k2_]), wpow(k2_) == T.rmul(wpow(k_), w))),
                          patterns=[z3.MultiPattern(match(k_), match(k2_)), z3.MultiPattern(wpow(k_), wpow(k2_))])]
        kk = z3.Int('kk')
        Q = lambda k: prod(k) == z3.If(k == d - 1, T.rmul(s_, z3.If(match(k), wpow(k), 0)), z3.If(match(k), wpow(k), 0))
        U.lemma('product-is-w^(k+1)-on-the-matching-prefix-else-0.base', ctx + facts + mdef, Q(z3.IntVal(0)), axioms=AXE, kind='lemma-base')
        lc = [T.rmul(wpow(kk - 1), T.rmul(s_, w)) == T.rmul(s_, T.rmul(wpow(kk - 1), w))]    # a (s b) = s (a b), one instance
        U.lemma('product-is-w^(k+1)-on-the-matching-prefix-else-0.step', ctx + facts + mdef + [kk >= 1, kk < d, Q(kk - 1)] + lc, Q(kk),
                axioms=AXE, kind='lemma-step')
        U.lemmas.append('instance of left-commutativity of the real product: a*(s*b) = s*(a*b)')
        # value: s * w^d at the position, 0 elsewhere; and s * w^d = v by the root / sign definitions
        root = p.ghost.get('root', [])
        if root:
            (absv, dd, wr), = root
            U.post('root-taken-of-|v|-with-exponent-1/d', p, z3.And(dd == z3.ToReal(d), absv == z3.If(v0 >= 0, v0, -v0), wr == w), axioms=AXE)
            powfact = [wpow(d - 1) == absv]          # w^d = |v|: defining property of the d-th root (A-REAL), w = |v| ** (1/d)
            U.lemmas.append('L-ROOT: (x ** (1/d)) ** d = x for x >= 0 (used as wpow(d-1) = |v|)')
        else:
            # tiny / zero v: the code uses w = 1, so every power of w is 1 (induction) and the sign factor carries the value
            U.post('tiny-values-are-carried-by-the-last-core-alone', p, z3.And(w == 1, s_ == v0), axioms=AXE)
            U.lemma('powers-of-one.base', ctx + mdef + [w == 1], wpow(0) == 1, axioms=AXE, kind='lemma-base')
            U.lemma('powers-of-one.step', ctx + mdef + [w == 1, kk >= 1, kk < d, wpow(kk - 1) == 1], wpow(kk) == 1, axioms=AXE, kind='lemma-step')
            absv = z3.RealVal(1)
            powfact = [wpow(d - 1) == 1]
        # two steps: (1) equational: the entry is rmul(s, |v|) at the position and 0 elsewhere; (2) arithmetic: s * |v| = v
        U.post('value-is-s*w^d-at-the-position-and-0-elsewhere', ctx + facts + mdef + [Q(d - 1)] + powfact,
               T.ent(T.chain(R, ix, d - 1), 0, 0) == z3.If(match(d - 1), T.rmul(s_, absv), 0), axioms=AXE, mode='ematch')
        U.post('sign-times-modulus-is-v', list(p.pc), s_ * absv == v0, qf=True)
        U.lemmas.append('rmul(x, y) = x * y (the abstract product of the element theory is the real product)')
        U.canary('canary-everywhere-v', ctx + facts + mdef + [Q(d - 1)] + powfact, T.ent(T.chain(R, ix, d - 1), 0, 0) == T.rmul(s_, absv), axioms=AXE)


@unit('tensors.const.plain', props=('C19', 'C01', 'C02'))
def u_const(U):
    """const(n, v) without a zero list: every entry of the tensor equals v (all shapes, all v incl. negative, tiny, zero)."""
    d = z3.Int('d')
    narr = z3.Const('n', IA)
    v0 = z3.Real('v')
    ix = z3.Const('ix', T.IDX)
    t = z3.Int('t!c')

    def setvars(ex, st):
        st.vars.update(n=st.alloc(VSeq(narr, d, lambda x: x, tag='int')), v=v0, I_zero=NONE, i_non_zero=NONE)
        return [d >= 2, z3.ForAll([t], z3.Implies(z3.And(0 <= t, t < d), narr[t] >= 1), patterns=[narr[t]])]

    ex, st, res = _run_constructor(U, 'tensors', 'const', setvars, axioms=AXE + T.axioms('cscale'))
    AX = ex.axioms
    for p, o in res:
        if o.kind != 'return':
            U.post('no-exception', p, False, axioms=AX, mode='ematch')
            continue
        Ys = p.deref(o.value)
        R = Ys.arr
        s_, w = Z(p.vars['s']), Z(p.vars['v'])
        ctx = list(p.pc) + [z3.ForAll([t], z3.Implies(z3.And(0 <= t, t < d), z3.And(0 <= ix[t], ix[t] < narr[t])), patterns=[ix[t]])]
        tt, kk = z3.Int('tt'), z3.Int('kk')
        U.post('d-cores', p, Ys.n == d, axioms=AX, mode='ematch')
        U.post('rank-one-cores-of-the-requested-mode-sizes', p,
               z3.Implies(z3.And(0 <= tt, tt < d), z3.And(T.d0(R[tt]) == 1, T.d1(R[tt]) == narr[tt], T.d2(R[tt]) == 1)), axioms=AX, mode='ematch')
        entry = lambda k: z3.If(k == d - 1, T.rmul(s_, T.rmul(w, 1)), T.rmul(w, 1))
        prod, facts = chain_scalar_lemma(U, 'const', ctx, R, ix, d, entry, AX)
        wpow = z3.Function('wpow', z3.IntSort(), z3.RealSort())
        mdef = [wpow(0) == w, z3.ForAll([k_, k2_], z3.Implies(z3.And(k_ >= 0, k2_ == k_ + 1, k2_ < d), wpow(k2_) == T.rmul(wpow(k_), w)),
                                        patterns=[z3.MultiPattern(wpow(k_), wpow(k2_))])]
        Q = lambda k: prod(k) == z3.If(k == d - 1, T.rmul(s_, wpow(k)), wpow(k))
        lc = [T.rmul(wpow(kk - 1), T.rmul(s_, w)) == T.rmul(s_, T.rmul(wpow(kk - 1), w))]
        U.lemma('product-is-w^(k+1).base', ctx + facts + mdef, Q(z3.IntVal(0)), axioms=AX, kind='lemma-base')
        U.lemma('product-is-w^(k+1).step', ctx + facts + mdef + [kk >= 1, kk < d, Q(kk - 1)] + lc, Q(kk), axioms=AX, kind='lemma-step')
        root = p.ghost.get('root', [])
        if root:
            (absv, dd, wr), = root
            U.post('root-taken-of-|v|-with-exponent-1/d', p, z3.And(dd == z3.ToReal(d), absv == z3.If(v0 >= 0, v0, -v0), wr == w), axioms=AX)
            powfact = [wpow(d - 1) == absv]
            U.lemmas.append('L-ROOT: (x ** (1/d)) ** d = x for x >= 0 (used as wpow(d-1) = |v|)')
        else:
            U.post('tiny-values-are-carried-by-the-last-core-alone', p, z3.And(w == 1, s_ == v0), axioms=AX)
            U.lemma('powers-of-one.base', ctx + mdef + [w == 1], wpow(0) == 1, axioms=AX, kind='lemma-base')
            U.lemma('powers-of-one.step', ctx + mdef + [w == 1, kk >= 1, kk < d, wpow(kk - 1) == 1], wpow(kk) == 1, axioms=AX, kind='lemma-step')
            absv = z3.RealVal(1)
            powfact = [wpow(d - 1) == 1]
        U.post('every-entry-is-s*w^d', ctx + facts + mdef + [Q(d - 1)] + powfact,
               T.ent(T.chain(R, ix, d - 1), 0, 0) == T.rmul(s_, absv), axioms=AX, mode='ematch')
        U.post('sign-times-modulus-is-v', list(p.pc), s_ * absv == v0, qf=True)
        U.lemmas.append('rmul(x, y) = x * y (the abstract product of the element theory is the real product)')
        U.canary('canary-every-entry-is-w', ctx + facts + mdef + [Q(d - 1)] + powfact, T.ent(T.chain(R, ix, d - 1), 0, 0) == w, axioms=AX)


@unit('vectors.vector_delta', props=('C19',))
def u_vector_delta(U):
    """vector_delta(q, i, v): the QTT vector is v at position i (negative positions counted from the end) and 0 elsewhere;
    the entry at the bit string ix is val(Y, ix)."""
    AXV = AXE + T.axioms('pow2') + SHR_DEF
    q, i0 = z3.Int('q'), z3.Int('i')
    v0 = z3.Real('v')
    ix = z3.Const('ix', T.IDX)
    t = z3.Int('t!v')
    pos = z3.If(i0 >= 0, i0, T.pow2(q) + i0)

    def inv(ex, s, j):
        Ys = s.deref(s.vars['Y'])
        ind = s.deref(s.vars['ind'])
        return [('length', Ys.n == j),
                ('unit-cores-at-the-bits', z3.ForAll([t], z3.Implies(z3.And(0 <= t, t < j), Ys.arr[t] == T.cset(T.zc(1, 2, 1), ind.arr[t], 1)),
                                                     patterns=[Ys.arr[t]]))]

    def setvars(ex, st):
        st.vars.update(q=q, i=i0, v=v0)
        return [q >= 1, i0 < T.pow2(q), i0 >= -T.pow2(q)]

    ex, st, res = _run_constructor(U, 'vectors', 'vector_delta', setvars, loops={0: {'inv': inv}}, hints={'Y': 'tt'}, axioms=AXV)
    for p, o in res:
        if o.kind != 'return':
            U.post('no-exception', p, False, axioms=AXV, mode='ematch')
            continue
        Ys = p.deref(o.value)
        R = Ys.arr
        ind = p.deref(p.vars['ind'])
        ctx = list(p.pc) + [z3.ForAll([t], z3.Implies(z3.And(0 <= t, t < q), z3.And(0 <= ix[t], ix[t] < 2)), patterns=[ix[t]])]
        tt, kk = z3.Int('tt'), z3.Int('kk')
        U.post('q-cores', p, Ys.n == q, axioms=AXV, mode='ematch')
        U.post('rank-one-cores-of-mode-size-2', p,
               z3.Implies(z3.And(0 <= tt, tt < q), z3.And(T.d0(R[tt]) == 1, T.d1(R[tt]) == 2, T.d2(R[tt]) == 1)), axioms=AXV, mode='ematch')
        U.post('position-bits-are-those-of-the-normalised-index', p,
               z3.Implies(z3.And(0 <= tt, tt < q), ind.arr[tt] == bit(pos, tt)), axioms=AXV, mode='ematch')
        entry = lambda k: z3.If(ix[k] == ind.arr[k], z3.If(k == q - 1, v0, 1), 0)
        prod, facts = chain_scalar_lemma(U, 'vdelta', ctx, R, ix, q, entry, AXV)
        match = z3.Function('match', z3.IntSort(), z3.BoolSort())
        mdef = [match(0) == (ix[0] == ind.arr[0]),
                z3.ForAll([k_, k2_], z3.Implies(z3.And(k_ >= 0, k2_ == k_ + 1, k2_ < q), match(k2_) == z3.And(match(k_), ix[k2_] == ind.arr[k2_])),
                          patterns=[z3.MultiPattern(match(k_), match(k2_))])]
        Q = lambda k: prod(k) == z3.If(match(k), z3.If(k == q - 1, v0, 1), 0)
        U.lemma('product-is-1-on-the-matching-prefix-(v-at-the-end)-else-0.base', ctx + facts + mdef, Q(z3.IntVal(0)), axioms=AXV, kind='lemma-base')
        U.lemma('product-is-1-on-the-matching-prefix-(v-at-the-end)-else-0.step', ctx + facts + mdef + [kk >= 1, kk < q, Q(kk - 1)], Q(kk),
                axioms=AXV, kind='lemma-step')
        U.post('entry-is-v-at-the-bit-string-of-the-position-and-0-elsewhere', ctx + facts + mdef + [Q(q - 1)],
               T.ent(T.chain(R, ix, q - 1), 0, 0) == z3.If(match(q - 1), v0, 0), axioms=AXV, mode='ematch')
        U.canary('canary-everywhere-v', ctx + facts + mdef + [Q(q - 1)], T.ent(T.chain(R, ix, q - 1), 0, 0) == v0, axioms=AXV)
