"""Declared frame / effect contracts of every function of teneva (properties C09, C10; DESIGN.md Appendix A).

DEFAULT (nothing written below):  modifies = {}  /  result aliases no argument  /  no random draw, no global
generator  /  no dict key read before written  /  no module state  /  no file I/O.

Everything that deviates from the default is spelled out here, per contract CASE (parameter kinds and literal
flag values); the `licence` quotes the words of property C09 / C10 (or of the documentation) that allow it.
Deviations of PRIVATE helpers (names starting with `_`, class methods) are internal conventions: their callers
are checked against them, and the public surface stays within Appendix A.

Type descriptors (frames/domain.py):  tt = list of >= 2 three-dimensional ndarrays;  arrN = ndarray of rank N;
likeN = array-like (ndarray / list / tuple) of rank N;  `~p` = may be the object passed as p or a view of it;
`~p[]` = may be a view of an element of p.
"""
try:
    from ttvc.units import unit
except Exception:                                   # stand-alone use of the checker (no z3 needed)
    def unit(name, props=()):
        return lambda f: f

from frames.contract import Contract, case

INFO = 'dict(num|str|none|bool)'

# ----------------------------------------------------------------------------------------------------------------
# parameter kinds by conventional name (a contract case may override them)
DEFAULT_PARAM_TYPES = {
    # TT-tensors
    'Y': 'tt', 'Y0': 'tt', 'Y1': 'tt', 'Y2': 'tt', 'A0': 'tt',
    # data sets
    'I': 'like2', 'I_trn': 'like2', 'I_vld': 'like2|none', 'I_data': 'like2|none',
    'X_trn': 'like2', 'X_vld': 'like2|none',
    'y_trn': 'like1', 'y_vld': 'like1|none', 'y_data': 'like1|none',
    # cores / matrices
    'G': 'arr3', 'R': 'arr2',
    # numbers
    'e': 'num|none', 'r': 'num|none', 'k': 'num', 'm': 'num|none', 'd': 'num|none', 'q': 'num', 'i': 'num', 'j': 'num',
    'tau': 'num', 'tau0': 'num', 'k0': 'num', 'dr_min': 'num', 'dr_max': 'num|none', 'nswp': 'num|none',
    'e_vld': 'num|none', 'lamb': 'num|none', 'thr_pow': 'num', 'noise': 'num', 'v': 'num', 'z': 'num', 'p0': 'num',
    'thr': 'num', 'power': 'num', 'scale': 'num', 'r_add': 'num', 'e_adap': 'num', 'swap_tol': 'num',
    'm_fact': 'num', 'max_rep': 'num', 'unsert': 'num', 'dr': 'num', 'dr2': 'num|none', 'rcond': 'num', 'eps': 'num|none',
    'rmax': 'num', 'k_loc': 'num|none', 'trunc_freq': 'num', 'm_cache_scale': 'num', 'alpha': 'num', 's': 'num',
    'e0': 'num', 'n_max': 'num|none', 'e_trunc': 'num|none', 'rel_noise': 'num|none', 'order': 'num|str',
    'a': 'num|like1|none', 'b': 'num|like1|none', 'n': 'num|like1|none', 'reps': 'num|none', 'p': 'num|none',
    't': 'num', 'swp': 'num', 'r1': 'num', 'r2': 'num', 'xi': 'num|none',
    # flags
    'ltr': 'bool', 'log': 'bool', 'use_stab': 'bool', 'inplace': 'bool', 'is_eigh': 'bool', 'orth': 'bool',
    'rel': 'bool', 'hermitian': 'bool', 'ret_all': 'bool', 'l2r': 'bool', 'to_orth': 'bool', 'unique': 'bool',
    'only_near': 'bool', 'with_square': 'bool', 'save_all': 'bool', 'transpose': 'bool', 'is_qr': 'bool',
    'is_dz': 'bool', 'z_rand': 'bool', 'cheb': 'bool', 'take_abs': 'bool', 'ret_vals': 'bool',
    'skip_out': 'bool|none', 'allow_skip_cores': 'bool', 'check_phi': 'bool', 'compile': 'bool',
    'cores_are_prepared': 'bool', '_to_item': 'bool',
    # strings
    'kind': 'str', 'how': 'str', 'use': 'str', 'give_to': 'str', 'select': 'str', 'fpath': 'str|none',
    # randomness
    'seed': 'seed', 'rand': 'gen',
    # dictionaries
    'info': INFO, 'cache': 'dict(num)|none',
    # callbacks (A-CB)
    'f': 'cb', 'cb': 'cb|none', 'func': 'cb|none', 'basis_func': 'cb', 'fh': 'cb|list(cb)|none', 'ones_func': 'cb',
    'funcs': 'cb|list(cb)|none', 'minmax': 'cb', 'H': 'cb',
}

# attribute types of the two classes (what `self.<attr>` holds)
CLASS_ATTRS = {
    'anova.ANOVA': {
        'rand': 'gen', 'order': 'num', 'dtype': 'type', 'y_max': 'num', 'y_min': 'num', 'd': 'num', 'f0': 'num',
        'domain': 'list(arr1)', 'shapes': 'arr1', 'f1': 'list(dict(num))', 'f2': 'list(dict(num))',
        '_f1_arr': 'list(arr1)', '_f2_arr': 'list(arr1)',
    },
    'anova_func.ANOVA_func': {
        'X_trn': 'arr2', 'y_trn': 'arr1', 'lamb': 'num|none', '_cfs': 'list(num|arr1)|none', 'd': 'num', 'n': 'num',
    },
}

CONTRACTS = {}


def C(key, **kw):
    CONTRACTS[key] = Contract(key, **kw)


L_INPLACE = 'C09: "the in-place flag of the single-step orthogonalisations"'
L_INFO = 'C09: "the info / cache dictionaries that are filled on purpose"'
L_GRID = 'C09: "small pass-through helpers (grid option normalisation ...) that may hand back their argument unchanged"'
L_STAB = 'C09: "core rescaling below its threshold ... may hand back their argument unchanged"'
L_PRIV = 'private helper: internal convention, every caller is checked against it'

# ---------------------------------------------------------------------------------------------------------- utils
C('utils._info_appr', params={'info': INFO, 't': 'num'}, clock_params=('t',), returns='num|str|none|bool',
  modifies={'info': 'cont'}, licence=L_INFO + ' (helper of cross / als / als_func)',
  cases=[case('log=False', flags={'log': False}, dict_reads={'info': ('stop', 'e_vld', 'e', 'nswp')})],
  excluded_flags={'log': True},
  note='log=True only adds a print of text built from info (DESIGN 1.1: log branches are dropped)')
C('utils._is_num', cases=[case('number', params={'A': 'num'}, returns='bool=True'),
                          case('other', params={'A': 'arr|list|tuple|none|dict|str'}, returns='bool=False')])
C('utils._maxvol', params={'A': 'arr2'}, returns='tuple(arr,arr)')
C('utils._ones', params={'k': 'num', 'm': 'num'}, returns='arr2')
C('utils._rand', returns='gen~seed', note='int / None -> default_rng(seed) (derived from the seed); anything else is returned as is')
C('utils._range', params={'n': 'num'}, returns='arr2')
C('utils._reshape', params={'A': 'arr', 'n': 'num|tuple|list', 'order': 'str'}, returns='arr~A', ndim_from='n',
  licence=L_PRIV + ': reshape may return a view')
C('utils._vector_index_expand', returns='list(num)')
C('utils._vector_index_prepare', returns='num')

# -------------------------------------------------------------------------------------------------------- act_one
C('act_one.copy', cases=[
    case('TT', params={'Y': 'tt'}, returns='tt'),
    case('ndarray', params={'Y': 'arr'}, returns='arr'),
    case('number', params={'Y': 'num|none'}, returns='~Y', licence='numbers / None are immutable (DESIGN App. A)')])
C('act_one.get', params={'i': 'like1'}, cases=[
    case('_to_item=True', flags={'_to_item': True}, params={'i': 'like1'}, returns='num'),
    case('_to_item=True,many', flags={'_to_item': True}, params={'i': 'like2'}, returns='arr'),
    case('_to_item=False', flags={'_to_item': False}, params={'i': 'like1'}, returns='arr~Y[]', service=True,
         licence='undocumented service flag, excluded from the exported surface (App. A); used by svd_incomplete')],
  excluded_flags={'_to_item': False})
C('act_one.get_and_grad', params={'i': 'like1'}, flags={'check_phi': False}, returns='tuple(num,list(arr3))',
  excluded_flags={'check_phi': True})
C('act_one.get_many', params={'I': 'like2'}, cases=[
    case('_to_item=True', flags={'_to_item': True}, returns='arr'),
    case('_to_item=False', flags={'_to_item': False}, returns='arr', service=True)],
  excluded_flags={'_to_item': False})
C('act_one.getter', excluded='needs numba (not installed); listed as unverified in DESIGN 1.1 / App. A')
C('act_one.interface', params={'P': 'like1|list(arr1)|none', 'i': 'like1|none', 'norm': 'str|none'}, returns='list(arr1)')
C('act_one.mean', params={'P': 'list(arr1)|none', 'norm': 'bool'}, returns='num')
C('act_one.norm', cases=[case('use_stab=False', flags={'use_stab': False}, returns='num'),
                         case('use_stab=True', flags={'use_stab': True}, returns='tuple(num,num)')])
C('act_one.qtt_to_tt', returns='list(arr3)')
C('act_one.sum', returns='num')
C('act_one.tt_to_qtt', returns='list(arr3)')

# -------------------------------------------------------------------------------------------------------- act_two
C('act_two.accuracy', cases=[case('TT', params={'Y1': 'tt', 'Y2': 'tt'}, returns='num'),
                             case('ndarray', params={'Y1': 'arr', 'Y2': 'arr'}, returns='num')])
_NUMTT = [case('TT,TT', params={'Y1': 'tt', 'Y2': 'tt'}, returns='tt'),
          case('number,TT', params={'Y1': 'num', 'Y2': 'tt'}, returns='tt'),
          case('TT,number', params={'Y1': 'tt', 'Y2': 'num'}, returns='tt'),
          case('number,number', params={'Y1': 'num', 'Y2': 'num'}, returns='num')]
C('act_two.add', cases=_NUMTT)
C('act_two.mul', cases=_NUMTT)
C('act_two.sub', cases=_NUMTT)
C('act_two.mul_scalar', cases=[case('use_stab=False', flags={'use_stab': False}, returns='num'),
                               case('use_stab=True', flags={'use_stab': True}, returns='tuple(num,num)')])
C('act_two.outer', returns='tt')

# ------------------------------------------------------------------------------------------------------- act_many
C('act_many.add_many', params={'Y_many': 'list(tt)'}, returns='tt')
C('act_many.outer_many', params={'Y_many': 'list(tt)'}, returns='tt|none')

# ------------------------------------------------------------------------------------------------- transformation
C('transformation.full', returns='arr')
C('transformation.full_matrix', params={'order': 'str'}, returns='arr2')
C('transformation.orthogonalize', params={'k': 'num|none'}, cases=[
    case('use_stab=False', flags={'use_stab': False}, returns='tt'),
    case('use_stab=True', flags={'use_stab': True}, returns='tuple(tt,num)')])
for _f in ('orthogonalize_left', 'orthogonalize_right'):
    C('transformation.' + _f, params={'i': 'num'}, cases=[
        case('inplace=False', flags={'inplace': False}, returns='tt'),
        case('inplace=True', flags={'inplace': True}, returns='~Y', modifies={'Y': 'cont'}, stores={'Y': 'arr3'},
             licence=L_INPLACE + ': replaces Y[i], Y[i+-1] and returns Y')])
C('transformation.truncate', returns='tt')

# ----------------------------------------------------------------------------------------------------------- core
C('core.core_dot', params={'R': 'arr2|num'}, returns='arr3')
C('core.core_dot_inv', returns='arr3')
C('core.core_dot_maxvol', cases=[
    case('ind=None', params={'ind': 'none'}, returns='tuple(arr,arr)'),
    case('ind given', params={'ind': 'arr1'}, returns='tuple(arr,~ind)',
         licence='App. A: hands back the index vector it was given (an index vector, not a tensor)')])
C('core.core_qr_rand', params={'m': 'num'}, seeded=True, returns='arr3')
C('core.core_qtt_to_tt', params={'Q_list': 'list(arr3)'}, returns='arr3')
C('core.core_stab', params={'G': 'arr'}, returns='tuple(arr~G,num)', licence=L_STAB)
C('core.core_tt_to_qtt', returns='list(arr3)')

# ---------------------------------------------------------------------------------------------------------- props
C('props.erank', returns='num')
C('props.ranks', returns='arr1')
C('props.shape', returns='arr1')
C('props.size', returns='num')

# ------------------------------------------------------------------------------------------------------------ svd
C('svd.matrix_skeleton', params={'A': 'arr2'}, returns='tuple(arr2,arr2)')
C('svd.matrix_svd', params={'A': 'arr2'}, returns='tuple(arr2,arr2)')
C('svd.svd', params={'Y_full': 'arr'}, returns='list(arr3)')
C('svd.svd_matrix', params={'Y_full': 'arr2'}, returns='list(arr3)')
C('svd.svd_incomplete', params={'I': 'arr2', 'Y': 'arr1', 'idx': 'arr1', 'idx_many': 'arr1'}, returns='list(arr3)')

# ----------------------------------------------------------------------------------------------------------- grid
C('grid.grid_flat', params={'n': 'num|like1'}, returns='arr')
C('grid.grid_prep_opt', params={'opt': 'num|like|none', 'kind': 'cb'}, returns='arr~opt|none', licence=L_GRID)
C('grid.grid_prep_opts', returns='tuple(arr~a|none,arr~b|none,arr~n|none)', licence=L_GRID)
C('grid.ind_qtt_to_tt', params={'I_qtt': 'like'}, returns='arr')
C('grid.ind_to_poi', params={'I': 'like'}, returns='arr')
C('grid.ind_tt_to_qtt', params={'I': 'like', 'n': 'num'}, returns='arr')
C('grid.poi_scale', params={'X': 'like', 'kind': 'str|tuple'}, returns='arr')
C('grid.poi_to_ind', params={'X': 'like'}, returns='arr')

# ------------------------------------------------------------------------------------- matrices / vectors / vis
C('matrices.matrix_delta', returns='list(arr4)')
C('vectors.vector_delta', returns='list(arr3)')
C('vis.show', returns='none')

# --------------------------------------------------------------------------------------------------------- maxvol
C('maxvol.maxvol', params={'A': 'arr2'}, returns='tuple(arr1,arr)')
C('maxvol.maxvol_rect', params={'A': 'arr2'}, returns='tuple(arr,arr)')

# -------------------------------------------------------------------------------------------------------- tensors
C('tensors.const', params={'n': 'like1', 'I_zero': 'like2|none', 'i_non_zero': 'like1|none'}, returns='list(arr3)')
C('tensors.delta', params={'n': 'like1', 'i': 'like1'}, returns='list(arr3)')
C('tensors.poly', params={'n': 'like1', 'shift': 'num|like1'}, returns='list(arr3)')
C('tensors.rand', params={'n': 'like1', 'r': 'num|like1'}, seeded=True, returns='list(arr3)')
C('tensors.rand_custom', params={'n': 'like1', 'r': 'num|like1'}, returns='list(arr3)', rng=('global-default:f',),
  licence='App. A: draws from the caller\'s f; its documented default is the global numpy.random.randn')
C('tensors.rand_norm', params={'n': 'like1', 'r': 'num|like1', 'm': 'num', 's': 'num'}, seeded=True, returns='list(arr3)')
C('tensors.rand_stab', params={'n': 'like1', 'r': 'num|like1'}, seeded=True, returns='list(arr3)')

# --------------------------------------------------------------------------------------------------------- sample
C('sample.sample', params={'m': 'num'}, seeded=True, returns='arr2')
C('sample.sample_lhs', params={'n': 'like1', 'm': 'num'}, seeded=True, returns='arr2')
C('sample.sample_rand', params={'n': 'like1', 'm': 'num'}, seeded=True, returns='arr2')
C('sample.sample_rand_poi', params={'a': 'like1', 'b': 'like1', 'm': 'num'}, seeded=True, returns='arr2')
C('sample.sample_square', params={'m': 'num'}, flags={'float_cf': None}, seeded=True, returns='arr',
  excluded_flags={'float_cf': '<not None>'})
C('sample.sample_tt', params={'n': 'like1', 'r': 'num'}, seeded=True, returns='tuple(arr,arr1,arr1)')
C('sample._extend_core', params={'n': 'num'}, returns='arr3')
C('sample._sample_core_first', params={'Q': 'arr2', 'I': 'arr2', 'm': 'num'}, rng=('param',), returns='tuple(arr2,arr2)')

# ---------------------------------------------------------------------------------------------------- sample_func
C('sample_func.sample_func', params={'A': 'tt'}, flags={'cores_are_prepared': False}, seeded=True, returns='arr1',
  excluded_flags={'cores_are_prepared': True})
C('sample_func._cheb_my_poly', params={'X': 'like|num', 'n': 'num'}, returns='arr')
C('sample_func._sample_poly_1', params={'p2': 'obj:numpy.poly'}, rng=('param',), returns='num|arr')

# ---------------------------------------------------------------------------------------------------- optima_func
C('optima_func.optima_func_tt_beam', params={'A': 'tt'}, returns='arr')
C('optima_func._cheb_my_poly', params={'X': 'like|num', 'n': 'num'}, returns='arr')
C('optima_func._find_poly_max', params={'p': 'like1', 'clip': 'list(num)', 'k_max': 'num|none'},
  returns='tuple(arr|num,arr|num)|arr|num')
C('optima_func._step_top_k', params={'X_prev': 'arr2|none', 'G_prev': 'arr2'}, returns='tuple(arr2,arr2)')

# --------------------------------------------------------------------------------------------------------- optima
C('optima.optima_qtt', returns='tuple(arr,num|arr1,arr,num|arr1)')
C('optima.optima_tt', returns='tuple(arr,num|arr1,arr,num|arr1)')
C('optima.optima_tt_beam', flags={'to_orth': True}, returns='arr',
  excluded_flags={'to_orth': False})
C('optima.optima_tt_max', returns='tuple(arr,num|arr1)')
C('optima.optima_tt_maxvol', flags={'use': 'mv'}, returns='tuple(any,num,any,num)', excluded_flags={'use': 'k_means'})
C('optima._k_means_spere', excluded="use='k_means' path (needs sklearn SpectralClustering, not imported); excluded by precondition (App. A)")
C('optima._select_maxvol', params={'vecs': 'arr2', 'core': 'arr3'}, flags={'use': 'mv'}, returns='tuple(arr,arr)')
C('optima._select_top_k_l2r', flags={'use': 'mv'}, returns='tuple(any,any)')
C('optima._select_top_k_r2l', flags={'use': 'mv'}, cases=[
    case('other=None', params={'other': 'none'}, returns='tuple(any,any)'),
    case('other given', params={'other': 'tuple(list(arr2),list(arr2))'}, returns='tuple(any,num,any,num)')])

# ----------------------------------------------------------------------------------------------------------- stat
C('stat.cdf_confidence', params={'x': 'like1'}, returns='tuple(arr1,arr1)')
C('stat.cdf_getter', params={'x': 'like1'}, returns='func')

# ----------------------------------------------------------------------------------------------------------- data
C('data.accuracy_on_data', returns='num')
C('data.cache_to_data', params={'cache': 'dict(num)'}, dict_reads={'cache': ('*',)}, returns='tuple(arr,arr1)',
  licence='reads the dictionary it is given; its own default {} is never written, so it stays empty')

# ----------------------------------------------------------------------------------------------------------- func
C('func.func_basis', params={'X': 'arr', 'm': 'num'})
C('func.func_diff_matrix', params={'a': 'num', 'b': 'num', 'n': 'num', 'm': 'num'}, returns='arr2|list(arr2)')
C('func.func_diff_matrix_apply', params={'A': 'tt', 'D': 'arr2'}, returns='list(arr)')
C('func.func_get', params={'X': 'like', 'A': 'tt'}, returns='arr1|num')
C('func.func_get_spectral', params={'X': 'like1'}, returns='num|arr')
C('func.func_gets', params={'A': 'tt', 'm': 'num|like1|none'}, returns='list(arr3)')
C('func.func_int', returns='list(arr3)')
C('func.func_int_general', params={'X': 'like'}, returns='list(arr3)')
C('func.func_sum', params={'A': 'tt'}, returns='num')

# ------------------------------------------------------------------------------------------------------ func_full
C('func_full.func_get_full', params={'X': 'arr2', 'A': 'arr', 'skip_out': 'bool'}, returns='arr1')
C('func_full.func_gets_full', params={'A': 'arr', 'm': 'num|like1|none'}, returns='arr')
C('func_full.func_int_full', params={'Y': 'arr'}, returns='arr')
C('func_full.func_sum_full', params={'A': 'arr'}, returns='num|arr')

# ---------------------------------------------------------------------------------------------------------- cross
C('cross.cross', params={'m': 'num|none'}, returns='tt',
  modifies={'info': 'cont', 'cache': 'cont'}, dict_reads={'cache': ('*',)},
  licence=L_INFO + '; a user-supplied cache is meant to carry evaluations over; Y, info, opts are handed to cb / func',
  cases=[case('plain', flags={'func': None, 'log': False}), case('custom-func', flags={'log': False}, params={'func': 'cb'})],
  excluded_flags={'log': True})
C('cross._func', params={'Ig': 'arr2', 'Ir': 'arr2|none', 'Ic': 'arr2|none'}, returns='arr3|none',
  modifies={'info': 'cont', 'cache': 'cont'}, dict_reads={'info': ('m_max', 'm', 'm_cache'), 'cache': ('*',)},
  licence=L_INFO + ' (helper of cross)')
C('cross._func_eval', params={'I': 'arr2'}, returns='arr1|none',
  modifies={'info': 'cont', 'cache': 'cont'}, dict_reads={'info': ('m_max', 'm', 'm_cache'), 'cache': ('*',)},
  licence=L_INFO + ' (helper of cross)')
C('cross._iter', params={'Z': 'arr3', 'Ig': 'arr2', 'I': 'arr2|none'}, returns='tuple(arr3,arr,arr)')

# ------------------------------------------------------------------------------------------------------ cross_act
C('cross_act.cross_act', params={'X_list': 'list(tt)', 'e': 'num', 'nswp': 'num', 'r': 'num'}, seeded=True, returns='tt')
C('cross_act._amen', params={'U1': 'arr2', 'U2': 'arr2'}, returns='tuple(arr2,arr)')
C('cross_act._amen_z', params={'dG': 'arr3', 'R1': 'arr2', 'R2': 'arr2', 'rand': 'gen|none'}, rng=('param',),
  returns='arr3')
C('cross_act._func', params={'G': 'objarr(arr3)|arr3', 'R1': 'objarr(arr2)|arr2|list(arr2)', 'R2': 'objarr(arr2)|arr2|list(arr2)'},
  returns='arr3')
C('cross_act._inter_build', params={'d': 'num', 'D': 'num|none'}, returns='objarr(arr)')
C('cross_act._inter_update',
  params={'Gx': 'objarr(arr3)', 'Gy': 'arr3', 'Gz': 'arr3|none', 'Rx': 'objarr(arr2)', 'Ry': 'arr2', 'Rz': 'arr2',
          'Rxz': 'objarr(arr2)', 'Ryz': 'arr2'}, rng=('param',),
  returns='tuple(list(arr),arr,arr~Rz,list(arr)|~Rxz,arr~Ryz)',
  licence=L_PRIV + ': without an error tensor (Gz is None) the z-interfaces are passed through unchanged')
C('cross_act._log', params={'e': 'num'}, returns='none')
C('cross_act._matrix_to_core', params={'M': 'arr2', 'n': 'num'}, returns='arr3~M',
  licence=L_PRIV + ': reshape of the matrix it is given')
C('cross_act._rank_trunc', params={'s': 'arr1', 'eps': 'num'}, returns='num')
C('cross_act._svd', params={'d': 'num', 'eps': 'num|none'}, returns='tuple(arr3,arr2,arr2)')

# ------------------------------------------------------------------------------------------------------------ als
C('als.als', params={'w': 'arr1|none'}, returns='tt',
  modifies={'info': 'cont'}, licence=L_INFO + '; Y, info, opts are handed to cb',
  cases=[case('plain', flags={'allow_swap': False, 'update_sol': None, 'log': False, 'use_stab': False}),
         case('swap', flags={'allow_swap': True, 'update_sol': None, 'log': False, 'use_stab': False}, params={'r': 'num'}),
         case('stab', flags={'allow_swap': False, 'update_sol': None, 'log': False, 'use_stab': True}, params={'r': 'none'}),
         case('update_sol', flags={'allow_swap': False, 'update_sol': True, 'log': False, 'use_stab': False}, params={'r': 'none'})],
  excluded_flags={'log': True},
  note='als(use_stab=True) with r given assigns the (Z, p) tuple of orthogonalize to Y and fails later: outside C09/C10')
C('als._lstsq', params={'A': 'arr2', 'y': 'arr1', 'w': 'arr1|none', 'overwrite_a': 'bool', 'update_sol': 'arr1|none'},
  modifies={'A': 'buf', 'y': 'buf'}, returns='tuple(arr,arr|num,num,arr1|none)',
  licence=L_PRIV + ': solves in place (LAPACK overwrite flags); callers pass fresh arrays')
C('als._optimize_core', params={'Q': 'arr3', 'i': 'arr1', 'y_trn': 'arr1', 'Yl': 'arr2', 'Yr': 'arr2', 'w': 'arr1|none',
                                'update_sol': 'bool|none'}, returns='arr3')
C('als._optimize_core_adaptive',
  params={'Q1': 'arr3', 'Q2': 'arr3', 'i1': 'arr1', 'i2': 'arr1', 'y_trn': 'arr1', 'Yl': 'arr2', 'Yr': 'arr2',
          'w': 'arr1|none', 'allow_swap': 'dict|none', 'cache': 'dict|none', 'e': 'num', 'r': 'num'},
  modifies={'cache': 'cont', 'allow_swap': 'cont'}, dict_reads={'cache': ('i1', 'i2')}, returns='tuple(arr3,arr3)',
  licence=L_PRIV + ': fills the index cache / swap record dictionaries its caller creates for it')
C('als._quality_of_decomp', params={'Q': 'arr2', 'V1': 'arr2', 'V2': 'arr2'}, returns='num')

# ------------------------------------------------------------------------------------------------------- als_func
C('als_func.als_func', params={'a': 'num|like1', 'b': 'num|like1'},
  returns='tt', modifies={'info': 'cont'}, licence=L_INFO,
  cases=[case('plain', flags={'update_sol': None, 'log': False}), case('update_sol', flags={'update_sol': True, 'log': False})],
  excluded_flags={'log': True})
C('als_func._optimize_core',
  params={'Q': 'arr3', 'y_trn': 'arr1', 'Yl': 'arr2', 'Yr': 'arr2', 'Hk': 'arr2', 'n_max': 'num|none',
          'update_sol': 'bool|none'},
  modifies={'Q': 'buf'}, returns='num',
  licence=L_PRIV + ': writes the optimised core into the slice of the working copy it is given')

# ---------------------------------------------------------------------------------------------------------- anova
_AN = 'anova.ANOVA.'
C(_AN + '__init__', params={'order': 'num', 'I_trn': 'like2|none', 'y_trn': 'like1|none'}, seeded=True, modifies={'self': 'cont'}, io=True, returns='none',
  licence='constructor; fpath loads a pickled model (documented)')
C(_AN + '__call__', params={'I': 'like'}, returns='num|arr1')
C(_AN + '__getitem__', params={'I': 'like'}, returns='num|arr1')
C(_AN + 'f1_arr', modifies={'self': 'cont'}, returns='list(arr1)~self._f1_arr', licence=L_PRIV + ': cached property (fills and returns its cache)')
C(_AN + 'f2_arr', modifies={'self': 'cont'}, returns='list(arr1)~self._f2_arr', licence=L_PRIV + ': cached property (fills and returns its cache)')
for _m in ('build', 'build_0', 'build_1', 'build_2'):
    C(_AN + _m, modifies={'self': 'cont'}, returns='none', licence=L_PRIV + ': builds the model stored on the instance')
C(_AN + 'calc', params={'i': 'like1'}, returns='num')
C(_AN + 'calc_0', returns='num')
C(_AN + 'calc_1', params={'x': 'like1'}, returns='num')
C(_AN + 'calc_2', params={'x': 'like1'}, returns='num')
C(_AN + 'cores', params={'r': 'num', 'noise': 'num'}, rng=('self',), modifies={'self': 'cont'}, returns='list(arr3)',
  licence='fills the cached f1_arr / f2_arr of the instance')
C(_AN + 'cores_1', params={'r': 'num', 'noise': 'num'}, rng=('self',), modifies={'self': 'cont'}, returns='list(arr3)',
  licence='fills the cached f1_arr of the instance')
C(_AN + 'cores_2', params={'r': 'num'}, modifies={'self': 'cont'}, returns='list(list(arr3))',
  licence='fills the cached f2_arr of the instance')
C(_AN + 'load', modifies={'self': 'cont'}, io=True, returns='none', licence='documented fpath feature')
C(_AN + 'max', returns='tuple(num,list(num|none))')
C(_AN + 'pair_num_to_num', params={'x1': 'num', 'x2': 'num'}, returns='num')
C(_AN + 'sample', params={'xi': 'num|none', 'eps': 'num'}, rng=('self',), returns='list(num)')
C(_AN + 'save', io=True, returns='none', licence='documented fpath feature')
C('anova.anova', params={'r': 'num', 'order': 'num', 'I_trn': 'like2|none', 'y_trn': 'like1|none'}, seeded=True, io=True, returns='list(arr3)')
C('anova._core_one', params={'n': 'num', 'r': 'num'}, returns='arr')
C('anova._second_order_2_tt', params={'A': 'arr2', 'i': 'num', 'j': 'num', 'shapes': 'arr1'}, returns='list(arr3)')

# ----------------------------------------------------------------------------------------------------- anova_func
_AF = 'anova_func.ANOVA_func.'
C(_AF + '__init__', params={'n': 'num', 'a': 'num|like1', 'b': 'num|like1'}, modifies={'self': 'cont'},
  retains=('y_trn',), returns='none',
  licence='App. A: constructors keep references to (never write) their training arrays')
C(_AF + 'coeffs', modifies={'self': 'cont'}, returns='list(num|arr1)~self._cfs|none', licence=L_PRIV + ': cached property (fills and returns its cache)')
C(_AF + 'cores', params={'e': 'num|none'}, modifies={'self': 'cont'}, returns='list(arr3)',
  licence='fills the cached coefficients of the instance')
C('anova_func.anova_func', params={'n': 'num', 'a': 'num|like1', 'b': 'num|like1', 'e': 'num|none'}, returns='list(arr3)')


# ----------------------------------------------------------------------------------------------------------------
# units picked up by `./check C09 quick` / `./check C10 quick`  (ttvc.units.load_all imports this module)

@unit('frames.C09', props=('C09',))
def u_c09(U):
    from frames import analysis
    analysis.run(U, 'C09')


@unit('frames.C10', props=('C10',))
def u_c10(U):
    from frames import analysis
    analysis.run(U, 'C10')
