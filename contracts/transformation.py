"""Sidecar contracts for teneva/transformation.py (C04, C02, C11, C16) and core.core_stab (C16)."""
import z3
from ttvc.units import unit
from ttvc.symex import VOpt, VStr, VRec, VSeq, VArr, VFunc, VTuple, VRef, NONE, Z
from ttvc import models as M, theory as T
from contracts import spec as S

AX = T.axioms('shape', 'mulI', 'unfold')


def orthL(G):
    return T.mm(T.tr(T.unfL(G)), T.unfL(G)) == T.eye(T.d2(G))


def orthR(G):
    return T.mm(T.unfR(G), T.tr(T.unfR(G))) == T.eye(T.d0(G))


def imin(a, b):
    return z3.If(a <= b, a, b)


# ----------------------------------------------------------------------------------------------
# act_one.copy (call-site contract; its own unit is in contracts/act_one.py)

def call_copy(ex, st, args, kwargs, node):
    v = st.deref(args[0])
    if isinstance(v, VSeq):
        return st.alloc(VSeq(v.arr, v.n, v.wrap, v.tag))      # fresh list, equal elements (fresh buffers)
    if isinstance(v, M.VList):
        return st.alloc(M.VList(list(v.items)))
    return args[0]


M.CALLEES.setdefault('act_one.copy', call_copy)


# ----------------------------------------------------------------------------------------------
# single-step orthogonalisation

def step_post(arr, new, d, i, left):
    """Postcondition of orthogonalize_left (left=True: cores i, i+1) / orthogonalize_right (cores i, i-1) relating
    the element array before (arr) and after (new).  From the statement of C04: same tensor (local preservation
    of the product of the two adjacent slices), orthonormal unfolding of core i, no rank increases, ranks cut to
    what a core can carry, only the two adjacent cores change."""
    k, a, b = z3.Ints('k!p a!p b!p')
    o = i + 1 if left else i - 1
    lo, hi = (i, o) if left else (o, i)
    G, Gn = arr[i], new[i]
    H, Hn = arr[o], new[o]
    carry = T.mulI(T.d0(G), T.d1(G)) if left else T.mulI(T.d1(G), T.d2(G))
    newrank = imin(carry, T.d2(G) if left else T.d0(G))
    post = {
        'only-two-adjacent-cores-change': z3.ForAll([k], z3.Implies(z3.And(k != i, k != o), new[k] == arr[k]),
                                                    patterns=[new[k]]),
        'mode-sizes-kept': z3.And(T.d1(Gn) == T.d1(G), T.d1(Hn) == T.d1(H)),
        'outer-ranks-kept': z3.And(T.d0(new[lo]) == T.d0(arr[lo]), T.d2(new[hi]) == T.d2(arr[hi])),
        'bond-matches': T.d2(new[lo]) == T.d0(new[hi]),
        'new-rank-is-min-of-old-rank-and-what-the-core-can-carry': T.d2(new[lo]) == newrank,
        'orthonormal-unfolding': orthL(Gn) if left else orthR(Gn),
        'product-of-adjacent-slices-preserved': z3.ForAll(
            [a, b], z3.Implies(z3.And(0 <= a, a < T.d1(arr[lo]), 0 <= b, b < T.d1(arr[hi])),
                               T.mm(T.sl(new[lo], a), T.sl(new[hi], b)) == T.mm(T.sl(arr[lo], a), T.sl(arr[hi], b))),
            patterns=[T.mm(T.sl(new[lo], a), T.sl(new[hi], b))]),
        'denoted-tensor-preserved': tensor_preserved(arr, new, d),
    }
    return post


_ixq = z3.Const('ix!tp', T.IDX)


def tensor_preserved(arr, new, d):
    """Every entry of the tensor is unchanged: chain(new, i, d-1) = chain(arr, i, d-1) for every multi-index i inside the mode
    sizes (first sentence of C04: "orthogonalisation changes the representation, not the tensor")."""
    return z3.ForAll([_ixq], z3.Implies(T.index_ok(_ixq, arr, d), T.chain(new, _ixq, d - 1) == T.chain(arr, _ixq, d - 1)),
                     patterns=[T.chain(new, _ixq, d - 1)])


def local_replacement_lemma(U, p, arr, new, d, lo, axioms):
    """Lemma (induction over the chain): if only the adjacent cores lo, lo+1 change, the mode sizes stay and the product of
    their slices is preserved, then every partial chain from lo+1 on - in particular the tensor entry - is unchanged."""
    hi = lo + 1
    ix = z3.Const('ix', T.IDX)
    kk = z3.Int('kk')
    a, b, k = z3.Ints('a!l b!l k!l')
    AXL = list(axioms) + T.axioms('chain')
    ctx = list(p.pc) + [
        T.index_ok(ix, arr, d), 0 <= lo, hi < d,
        z3.ForAll([k], z3.Implies(z3.And(k != lo, k != hi), new[k] == arr[k]), patterns=[new[k]]),
        T.d1(new[lo]) == T.d1(arr[lo]), T.d1(new[hi]) == T.d1(arr[hi]),
        z3.ForAll([a, b], z3.Implies(z3.And(0 <= a, a < T.d1(arr[lo]), 0 <= b, b < T.d1(arr[hi])),
                                     T.mm(T.sl(new[lo], a), T.sl(new[hi], b)) == T.mm(T.sl(arr[lo], a), T.sl(arr[hi], b))),
                  patterns=[T.mm(T.sl(new[lo], a), T.sl(new[hi], b))])]
    # (1) the prefix before the changed pair is untouched
    P = lambda t: T.chain(new, ix, t) == T.chain(arr, ix, t)
    U.lemma('prefix-chains-unchanged.base', ctx + [lo >= 1], P(z3.IntVal(0)), axioms=AXL, mode='ematch', kind='lemma-base')
    U.lemma('prefix-chains-unchanged.step', ctx + [kk >= 1, kk < lo, P(kk - 1)], P(kk), axioms=AXL, mode='ematch', kind='lemma-step')
    prefix = z3.ForAll([kk], z3.Implies(z3.And(0 <= kk, kk < lo), P(kk)), patterns=[T.chain(new, ix, kk)])
    # (2) across the pair: associativity instances  (X S1) S2 = X (S1 S2)  for the old and the new slices (TTAlg.lean: mm_assoc)
    X_new, X_old = T.chain(new, ix, lo - 1), T.chain(arr, ix, lo - 1)
    s1n, s2n = T.sl(new[lo], ix[lo]), T.sl(new[hi], ix[hi])
    s1o, s2o = T.sl(arr[lo], ix[lo]), T.sl(arr[hi], ix[hi])
    assoc = [T.mm(T.mm(X_new, s1n), s2n) == T.mm(X_new, T.mm(s1n, s2n)), T.mm(T.mm(X_old, s1o), s2o) == T.mm(X_old, T.mm(s1o, s2o))]
    U.lemma('chain-across-the-changed-pair-unchanged', ctx + [prefix] + assoc, P(hi), axioms=AXL, mode='ematch', kind='lemma-base')
    # (3) behind the pair
    U.lemma('suffix-chains-unchanged.step', ctx + [kk > hi, kk < d, P(kk - 1)], P(kk), axioms=AXL, mode='ematch', kind='lemma-step')
    U.lemmas.append('associativity of the matrix product (instances given as hints; proved in lemmas/TTAlg.lean)')
    return ctx, z3.ForAll([kk], z3.Implies(z3.And(hi <= kk, kk < d), P(kk)), patterns=[T.chain(new, ix, kk)]), ix


def _step_unit(U, name, left, inplace):
    fn = U.func('transformation', name)
    ex = U.executor(fn, axioms=AX)
    ex.mode = 'ematch'
    st = U.state()
    Y, arr, d = S.tt_param(st, 'Y')
    i = S.opt_int('i')
    st.vars.update(Y=Y, i=i, inplace=inplace)
    res = U.run(ex, st, pre=[T.wf(arr, d)])
    U.cover('precondition-satisfiable', U.pre, axioms=AX)
    iv = i.val
    bad = z3.Or(i.isnone, iv < 0, iv >= d - 1) if left else z3.Or(i.isnone, iv <= 0, iv > d - 1)
    a, b = z3.Ints('a b')
    for p, o in res:
        if o.kind == 'raise':
            U.raise_iff('raises-only-for-invalid-mode-number', p, bad, axioms=AX)
            U.raise_iff('raises-ValueError', p, o.exc == 'ValueError')
            U.post('argument-untouched-when-raising', p, z3.BoolVal(p.heap[Y.oid].arr is arr))
            continue
        U.raise_iff('returns-only-for-valid-mode-number', p, z3.Not(bad), axioms=AX)
        rv = o.value
        new = p.deref(rv)
        if inplace:
            U.post('inplace-returns-the-argument-list', p, z3.BoolVal(isinstance(rv, VRef) and rv.oid == Y.oid))
        else:
            U.post('argument-untouched', p, z3.BoolVal(p.heap[Y.oid].arr is arr and rv.oid != Y.oid))
        U.post('length-kept', p, new.n == d, axioms=AX, mode='ematch')
        oi = iv + 1 if left else iv - 1
        lo, hi = (iv, oi) if left else (oi, iv)
        hint = []
        post = step_post(arr, new.arr, d, iv, left)
        for lbl, g in post.items():
            if lbl == 'product-of-adjacent-slices-preserved':
                # instantiate the universally quantified claim at generic a, b; associativity instance as a hint
                qn, rn = _factors(p)
                if left:
                    hint = [T.mm(T.mm(T.rowblk(qn, a, T.d0(arr[lo])), rn), T.colsel(T.unfR(arr[hi]), b, T.d1(arr[hi])))
                            == T.mm(T.rowblk(qn, a, T.d0(arr[lo])), T.mm(rn, T.colsel(T.unfR(arr[hi]), b, T.d1(arr[hi]))))]
                else:
                    hint = [T.mm(T.mm(T.rowblk(T.unfL(arr[lo]), a, T.d0(arr[lo])), rn), T.colsel(qn, b, T.d1(arr[hi])))
                            == T.mm(T.rowblk(T.unfL(arr[lo]), a, T.d0(arr[lo])), T.mm(rn, T.colsel(qn, b, T.d1(arr[hi]))))]
                g = z3.Implies(z3.And(0 <= a, a < T.d1(arr[lo]), 0 <= b, b < T.d1(arr[hi])),
                               T.mm(T.sl(new.arr[lo], a), T.sl(new.arr[hi], b)) == T.mm(T.sl(arr[lo], a), T.sl(arr[hi], b)))
                U.post(lbl, p, g, axioms=AX, mode='ematch', extra=hint)
                U.lemmas.append('associativity instance mm(mm(X,R),S) = mm(X,mm(R,S)) given as a hint (matrix product '
                                'associativity, proved in lemmas/TTAlg.lean)')
            elif lbl == 'denoted-tensor-preserved':
                ctx, lem, ix = local_replacement_lemma(U, p, arr, new.arr, d, lo, AX)
                U.post(lbl, ctx + [lem], T.chain(new.arr, ix, d - 1) == T.chain(arr, ix, d - 1), axioms=AX + T.axioms('chain'), mode='ematch')
                U.canary('canary-lemma-context-contradictory', ctx + [lem], z3.BoolVal(False), axioms=AX + T.axioms('chain'))
            else:
                U.post(lbl, p, g, axioms=AX, mode='ematch')
        U.post('well-formed-result', p, T.wf(new.arr, new.n), axioms=AX, mode='ematch')
        U.canary('canary-core-unchanged', p, new.arr[iv] == arr[iv], axioms=AX)


def _factors(p):
    """The Q and R constants introduced by the qr / rq model on this path (by name)."""
    q = r = None
    for f in p.pc:
        for t in _subterms(f):
            if z3.is_const(t) and t.sort() == T.Mat:
                nm = t.decl().name()
                if nm.startswith('Q!'):
                    q = t
                if nm.startswith('R!'):
                    r = t
    return q, r


def _subterms(f, seen=None):
    seen = set() if seen is None else seen
    stack = [f]
    while stack:
        t = stack.pop()
        if t.get_id() in seen:
            continue
        seen.add(t.get_id())
        yield t
        if z3.is_app(t):
            stack.extend(t.children())


@unit('transformation.orthogonalize_left', props=('C04',))
def u_left(U):
    _step_unit(U, 'orthogonalize_left', True, False)


@unit('transformation.orthogonalize_left.inplace', props=('C04', 'C09'))
def u_left_in(U):
    _step_unit(U, 'orthogonalize_left', True, True)


@unit('transformation.orthogonalize_right', props=('C04',))
def u_right(U):
    _step_unit(U, 'orthogonalize_right', False, False)


@unit('transformation.orthogonalize_right.inplace', props=('C04', 'C09'))
def u_right_in(U):
    _step_unit(U, 'orthogonalize_right', False, True)


def _call_step(left):
    def h(ex, st, args, kwargs, node):
        Zr = args[0]
        Zs = st.deref(Zr)
        i = Z(ex.need_num(st, args[1], node))
        inplace = kwargs.get('inplace', args[2] if len(args) > 2 else False)
        if inplace is not True:
            raise M.Unsupported('call of single-step orthogonalisation with inplace other than literal True')
        ok = z3.And(i >= 0, i < Zs.n - 1) if left else z3.And(i > 0, i <= Zs.n - 1)
        ex.oblige(st, 'call-pre', ('orthogonalize_left' if left else 'orthogonalize_right') + ': valid mode number', ok, node)
        new = ex.fresh('Zstep', T.TT)
        for lbl, g in step_post(Zs.arr, new, Zs.n, i, left).items():
            st.assume(g)
        Zs.arr = new
        st.ghost['last_step_arr'] = new
        return Zr
    return h


M.CALLEES['transformation.orthogonalize_left'] = _call_step(True)
M.CALLEES['transformation.orthogonalize_right'] = _call_step(False)


# ----------------------------------------------------------------------------------------------
# core.core_stab

AXS = T.axioms('shape', 'pow2r', 'cscale')


def stab_post(G, p0, thr, Q, p, vmax):
    """(Q, p) = core_stab(G, p0): below the threshold unchanged; otherwise G = 2^(p-p0) Q with p-p0 an integer and
    max|Q| = max|G| / 2^(p-p0) in [1, 2).  G is a core or (mul_scalar) a matrix."""
    e = p - p0
    c = T.pow2r(z3.ToReal(e))
    if G.sort() == T.Mat:
        scaled, shape = T.smul(c, Q), z3.And(T.rows(Q) == T.rows(G), T.cols(Q) == T.cols(G))
    else:
        scaled, shape = T.cscale(c, Q), z3.And(T.d0(Q) == T.d0(G), T.d1(Q) == T.d1(G), T.d2(Q) == T.d2(G))
    return {
        'below-threshold-unchanged': z3.Implies(vmax <= thr, z3.And(Q == G, p == p0)),
        'input-is-2^p-times-mantissa': z3.Implies(vmax > thr, scaled == G),
        'mantissa-max-modulus-in-[1,2)': z3.Implies(vmax > thr, z3.And(vmax / c >= 1, vmax / c < 2)),
        'shape-kept': shape,
    }


def _core_stab_unit(U, matrix):
    fn = U.func('core', 'core_stab')
    ex = U.executor(fn, axioms=AXS)
    st = U.state()
    G, g = S.mat_param('G') if matrix else S.core_param('G')
    p0, thr = z3.Int('p0'), z3.Real('thr')
    st.vars.update(G=G, p0=p0, thr=thr)
    res = U.run(ex, st, pre=[thr > 0])
    U.cover('precondition-satisfiable', U.pre, axioms=AXS)
    for p, o in res:
        if o.kind != 'return':
            U.post('no-exception', p, False)
            continue
        Q, pe = o.value.items
        vmax = p.ghost['maxabs'][0][1]
        U.post('exponent-is-an-integer', p, z3.BoolVal(M.is_intsort(pe)))
        hints = []
        for arg, fl in p.ghost.get('floor', []):
            # instances of the pow2r / log2 axioms at the exponent computed by the code
            r0, r1 = z3.ToReal(fl), z3.ToReal(fl + 1)
            hints += [T.pow2r(r0) > 0, T.pow2r(r0 + 1) == 2 * T.pow2r(r0), r1 == r0 + 1,
                      z3.Implies(vmax > 0, (r0 <= T.log2(vmax)) == (T.pow2r(r0) <= vmax)),
                      z3.Implies(vmax > 0, (r1 <= T.log2(vmax)) == (T.pow2r(r1) <= vmax))]
        for lbl, f in stab_post(g, p0, thr, Q.t, Z(pe), vmax).items():
            if lbl.startswith('mantissa'):
                U.post(lbl, p, f, extra=hints)
            elif lbl.startswith('input-is'):
                # only the scaling laws: c * ((1/c) * G) = (c * (1/c)) * G = G   (the full axiom set drowns the instance)
                U.post(lbl, p, f, axioms=T.axioms('smul') if matrix else AXS)
            else:
                U.post(lbl, p, f, axioms=AXS)
    U.canary('canary-always-rescaled', U.pre, False, axioms=AXS)


@unit('core.core_stab', props=('C16', 'C04'))
def u_core_stab(U):
    _core_stab_unit(U, False)


@unit('core.core_stab.matrix', props=('C16',))
def u_core_stab_matrix(U):
    _core_stab_unit(U, True)


def call_core_stab(ex, st, args, kwargs, node):
    G = st.deref(args[0])
    p0 = Z(ex.need_num(st, args[1], node)) if len(args) > 1 else z3.IntVal(0)
    is_core = isinstance(G, VArr) and G.ndim == 3 and G.t is not None and G.tag == 'core'
    is_mat = isinstance(G, VArr) and G.ndim == 2 and G.t is not None and G.tag == 'mat'
    if not (is_core or is_mat):
        raise M.Unsupported('core_stab on a value that is neither a core nor a matrix')
    if not M.is_intsort(p0):
        ex.oblige(st, 'call-pre', 'core_stab: integer exponent', False, node)
    vmax = ex.fresh_real('vmax')
    st.assume(vmax >= 0)
    thr = z3.RealVal('1e-100')
    # the two cases of the postcondition are followed as separate paths (keeps `G = c * Q` out of the path where Q is G itself)
    if ex.decide(st, vmax <= thr, node):
        st.ghost.setdefault('stab', []).append((G.t, G.t, p0, p0))
        return VTuple([G, p0])
    q, p = ex.fresh('Qstab', T.Core if is_core else T.Mat), ex.fresh_int('pstab')
    for lbl, f in stab_post(G.t, p0, thr, q, p, vmax).items():
        st.assume(f)
    st.ghost.setdefault('stab', []).append((G.t, q, p0, p))
    return VTuple([M.mk_core(q) if is_core else M.mk_mat(q), p])


M.CALLEES['core.core_stab'] = call_core_stab


# ----------------------------------------------------------------------------------------------
# orthogonalize

def _orth_unit(U, use_stab):
    fn = U.func('transformation', 'orthogonalize')
    AXO = AX + T.axioms('pow2r', 'cscale')
    st = U.state()
    Y, arr, d = S.tt_param(st, 'Y')
    kp = S.opt_int('k')
    kk = z3.If(kp.isnone, d - 1, kp.val)        # the effective pivot
    t = z3.Int('t!o')

    def common(ex, s, lo_done, hi_done):
        Zs = s.deref(s.vars['Z'])
        out = [('length', Zs.n == d),
               ('well-formed', T.wf(Zs.arr, d)),
               ('mode-sizes', z3.ForAll([t], z3.Implies(z3.And(0 <= t, t < d), T.d1(Zs.arr[t]) == T.d1(arr[t])),
                                        patterns=[Zs.arr[t]])),
               ('no-rank-increases', z3.ForAll([t], z3.Implies(z3.And(0 <= t, t < d), T.d2(Zs.arr[t]) <= T.d2(arr[t])),
                                               patterns=[Zs.arr[t]])),
               ('left-cores-orthonormal', z3.ForAll([t], z3.Implies(z3.And(0 <= t, t < lo_done), orthL(Zs.arr[t])),
                                                    patterns=[Zs.arr[t]])),
               ('right-cores-orthonormal', z3.ForAll([t], z3.Implies(z3.And(hi_done < t, t < d), orthR(Zs.arr[t])),
                                                     patterns=[Zs.arr[t]])),
               ('argument-untouched', z3.BoolVal(s.heap[Y.oid].arr is arr))]
        if use_stab:
            out.append(('exponent-is-integer', z3.BoolVal(M.is_intsort(s.vars['p']))))
            if M.is_intsort(s.vars['p']):
                out.append(('2^p-times-the-result-denotes-the-same-tensor', scaled_tensor(Zs.arr, Z(s.vars['p']))))
        else:
            out.append(('denotes-the-same-tensor', tensor_preserved(arr, Zs.arr, d)))
        return out

    ixs = z3.Const('ix!st', T.IDX)

    def scaled_tensor(Zarr, pexp):
        """C16 / C04: "a mantissa tensor and a power-of-two exponent whose product is the true value", entry by entry."""
        return z3.ForAll([ixs], z3.Implies(T.index_ok(ixs, arr, d),
                                           T.smul(T.pow2r(z3.ToReal(pexp)), T.chain(Zarr, ixs, d - 1)) == T.chain(arr, ixs, d - 1)),
                         patterns=[T.chain(Zarr, ixs, d - 1)])

    def inv0(ex, s, j):
        return common(ex, s, j, d - 1) + [('pivot', s.vars['k'] == kk)] if False else common(ex, s, j, d - 1)

    def inv1(ex, s, j):
        return common(ex, s, kk, d - 1 - j)

    # Lemma schema (proved once, for arbitrary constants, in a minimal context): if A[m] = c * q then with R = A[m := q]
    #     chain(A, ix, k) = c * chain(R, ix, k)  for k >= m   (and = chain(R, ix, k) for k < m).
    AXL = T.axioms('smulr', 'chain', 'core')
    A_l, q_l, c_l, m_l, ix_l, k_l = z3.Const('A!l', T.TT), z3.Const('q!l', T.Core), z3.Real('c!l'), z3.Int('m!l'), z3.Const('ix!l', T.IDX), z3.Int('k!l')
    R_l = z3.Store(A_l, m_l, q_l)
    P_l = lambda k: T.chain(A_l, ix_l, k) == z3.If(k >= m_l, T.smul(c_l, T.chain(R_l, ix_l, k)), T.chain(R_l, ix_l, k))
    hyp_l = [A_l[m_l] == T.cscale(c_l, q_l), 0 <= m_l, m_l < d]
    if use_stab:
        U.lemma('rescaling-one-core-rescales-the-chain.base', hyp_l, P_l(z3.IntVal(0)), axioms=AXL, mode='ematch', kind='lemma-base')
        U.lemma('rescaling-one-core-rescales-the-chain.step', hyp_l + [k_l >= 1, k_l < d, P_l(k_l - 1)], P_l(k_l), axioms=AXL, mode='ematch',
                kind='lemma-step')

    def rescale_instance(Amid, R, m, q, c):
        """Instance of the lemma schema at the arrays of one sweep step (conclusion at k = d - 1 >= m, for every multi-index);
        R is the list after the rescaling, R = Amid[m := q]."""
        return z3.Implies(z3.And(Amid[m] == T.cscale(c, q), 0 <= m, m < d, R == z3.Store(Amid, m, q)),
                          z3.ForAll([ixs], T.chain(Amid, ixs, d - 1) == T.smul(c, T.chain(R, ixs, d - 1)),
                                    patterns=[T.chain(R, ixs, d - 1)]))

    def body_end(offset):
        """Stabilised sweep: after `Z[m], p = core_stab(Z[m], p)` (m = i + offset) the list differs from the list after the
        orthogonalisation step in core m only, and that core was c = 2^(p - p_before) times the stored one."""
        def f(ex_, s_, o_, j_):
            if not use_stab or o_.kind not in ('normal', 'continue'):
                return
            calls = s_.ghost.get('stab', [])
            Amid = s_.ghost.get('last_step_arr')
            if not calls or Amid is None:
                raise M.ContractMismatch('orthogonalize(use_stab=True): expected one orthogonalisation step and one core_stab call per pass')
            G, q, p0, p1 = calls[-1]
            if q is G:                    # below the threshold: the core and the exponent are unchanged, nothing to show
                return
            m = Z(s_.vars['i']) + offset
            c = T.pow2r(z3.ToReal(p1 - p0))
            ex_.oblige(s_, 'post', 'rescaled-core-is-the-neighbour-that-received-the-weight', z3.And(G == Amid[m], 0 <= m, m < d), None)
            ex_.oblige(s_, 'post', 'core-before-rescaling-is-2^(p-p0)-times-the-stored-core', Amid[m] == T.cscale(c, q), None)
            R = s_.deref(s_.vars['Z']).arr
            ex_.oblige(s_, 'post', 'list-after-the-rescaling-differs-in-that-core-only', R == z3.Store(Amid, m, q), None)
            s_.assume(rescale_instance(Amid, R, m, q, c))
            # instance of 2^(x+y) = 2^x 2^y at the exponents of this step
            s_.assume(z3.Implies(z3.ToReal(p1) == z3.ToReal(p0) + z3.ToReal(p1 - p0),
                                 T.pow2r(z3.ToReal(p1)) == T.rmul(T.pow2r(z3.ToReal(p0)), c)))
        return f

    if use_stab:
        AXO = AXO + T.axioms('smulr', 'chain', 'core')
    ex = U.executor(fn, loops={0: {'inv': inv0, 'body_end': body_end(1)}, 1: {'inv': inv1, 'body_end': body_end(-1)}}, axioms=AXO)
    ex.mode = 'ematch'
    st.vars.update(Y=Y, k=kp, use_stab=use_stab)
    res = U.run(ex, st, pre=[T.wf(arr, d)])
    U.cover('precondition-satisfiable', U.pre, axioms=AXO)
    bad = z3.And(z3.Not(kp.isnone), z3.Or(kp.val < 0, kp.val > d - 1))
    for p, o in res:
        if o.kind == 'raise':
            U.raise_iff('raises-only-for-out-of-range-pivot', p, bad, axioms=AXO)
            U.raise_iff('raises-ValueError', p, o.exc == 'ValueError')
            U.post('rejected-before-any-work', p, z3.BoolVal('Z' not in p.vars))
            continue
        U.raise_iff('returns-only-for-valid-pivot', p, z3.Not(bad), axioms=AXO)
        rv = o.value
        if use_stab:
            U.post('returns-pair-with-integer-exponent', p,
                   z3.BoolVal(isinstance(rv, VTuple) and len(rv.items) == 2 and M.is_intsort(rv.items[1])))
            rv = rv.items[0]
        Zs = p.deref(rv)
        U.post('fresh-result', p, z3.BoolVal(isinstance(rv, VRef) and rv.oid != Y.oid and p.heap[Y.oid].arr is arr))
        for lbl, g in common(ex, p, kk, kk):
            U.post(lbl, p, g, axioms=AXO, mode='ematch')
        U.canary('canary-pivot-core-orthonormal', p, orthL(Zs.arr[kk]), axioms=AXO)


@unit('transformation.orthogonalize', props=('C04', 'C02', 'C11'))
def u_orth(U):
    _orth_unit(U, False)


@unit('transformation.orthogonalize.stab', props=('C04', 'C16'))
def u_orth_stab(U):
    _orth_unit(U, True)


# ----------------------------------------------------------------------------------------------
# call-site contract of orthogonalize (proved by the units transformation.orthogonalize[.stab])

def call_orthogonalize(ex, st, args, kwargs, node):
    Ys = st.deref(args[0])
    if not (isinstance(Ys, VSeq) and Ys.tag == 'core'):
        raise M.Unsupported('orthogonalize of a non-TT value')
    d = Ys.n
    k = args[1] if len(args) > 1 else kwargs.get('k', NONE)
    use_stab = args[2] if len(args) > 2 else kwargs.get('use_stab', False)
    if not isinstance(use_stab, bool):
        raise M.Unsupported('orthogonalize: use_stab must be a literal at the call site')
    kk = d - 1 if k is NONE else Z(ex.need_num(st, k, node))
    ex.oblige(st, 'call-pre', 'orthogonalize: well-formed tensor and pivot in range', z3.And(T.wf(Ys.arr, d), kk >= 0, kk <= d - 1), node)
    new = ex.fresh('Zorth', T.TT)
    t = z3.Int('t!oc')
    st.assume(T.wf(new, d),
              z3.ForAll([t], z3.Implies(z3.And(0 <= t, t < d), z3.And(T.d1(new[t]) == T.d1(Ys.arr[t]), T.d2(new[t]) <= T.d2(Ys.arr[t]))),
                        patterns=[new[t]]),
              z3.ForAll([t], z3.Implies(z3.And(0 <= t, t < kk), orthL(new[t])), patterns=[new[t]]),
              z3.ForAll([t], z3.Implies(z3.And(kk < t, t < d), orthR(new[t])), patterns=[new[t]]))
    res = st.alloc(VSeq(new, d, M.mk_core, 'core'))
    st.ghost['orth_result'] = new
    if use_stab:
        return VTuple([res, ex.fresh_int('pstab')])
    return res


M.CALLEES['transformation.orthogonalize'] = call_orthogonalize


# ----------------------------------------------------------------------------------------------
# truncate

AXT = T.axioms('shape', 'mulI', 'unfold', 'pow2r', 'cscale')


def _truncate_unit(U, is_eigh, use_stab):
    fn = U.func('transformation', 'truncate')
    st = U.state()
    Y, arr, d = S.tt_param(st, 'Y')
    e0, r0 = z3.Real('e'), z3.Real('r')
    cap = z3.ToInt(r0)
    capf = z3.If(cap >= 1, cap, 1)
    t = z3.Int('t!tr')

    def shapes(Zs):
        return [('length', Zs.n == d), ('well-formed', T.wf(Zs.arr, d)),
                ('mode-sizes', z3.ForAll([t], z3.Implies(z3.And(0 <= t, t < d), T.d1(Zs.arr[t]) == T.d1(arr[t])), patterns=[Zs.arr[t]])),
                ('ranks-at-most-input-ranks', z3.ForAll([t], z3.Implies(z3.And(0 <= t, t < d), T.d2(Zs.arr[t]) <= T.d2(arr[t])),
                                                        patterns=[Zs.arr[t]]))]

    def inv0(ex, s, j):            # right-to-left sweep, k = d-1-j is the next core to be processed
        Zs = s.deref(s.vars['Z'])
        k = d - 1 - j
        return shapes(Zs) + [
            ('processed-bonds-within-cap', z3.ForAll([t], z3.Implies(z3.And(k < t, t < d), T.d0(Zs.arr[t]) <= capf), patterns=[Zs.arr[t]])),
            ('kept-factors-have-orthonormal-rows', z3.ForAll([t], z3.Implies(z3.And(k < t, t < d), orthR(Zs.arr[t])), patterns=[Zs.arr[t]])),
            ('argument-untouched', z3.BoolVal(s.heap[Y.oid].arr is arr))]

    def inv1(ex, s, j):            # redistribution of the exponent: shapes only
        Zs = s.deref(s.vars['Z'])
        if 'Zpre' not in s.ghost:
            s.ghost['Zpre'] = Zs.arr
        pre_ = s.ghost['Zpre']
        return [('length', Zs.n == d),
                ('shapes-kept', z3.ForAll([t], z3.Implies(z3.And(0 <= t, t < d), z3.And(T.d0(Zs.arr[t]) == T.d0(pre_[t]), T.d1(Zs.arr[t]) == T.d1(pre_[t]),
                                                                                      T.d2(Zs.arr[t]) == T.d2(pre_[t]))), patterns=[Zs.arr[t]])),
                ('argument-untouched', z3.BoolVal(s.heap[Y.oid].arr is arr))]

    def body_end0(ex_, s_, o_, j_):
        # C02: the threshold handed to every factorisation is e * ||Z_orth[d-1]||_F / sqrt(d-1), the cap is r
        calls = s_.ghost.get('fact_calls', [])
        sq = [x for x in s_.ghost.get('sqrt', []) if True]
        if len(calls) != 1 or len(sq) != 1 or 'orth_result' not in s_.ghost:
            ex_.oblige(s_, 'post', 'exactly-one-factorisation-per-bond', False, None, assume=False)
            return
        c = calls[0]
        arg, root = sq[0]
        ex_.oblige(s_, 'post', 'sqrt-is-of-d-1', arg == z3.ToReal(d - 1), None, assume=False)
        ex_.oblige(s_, 'post', 'threshold-is-e-times-norm-over-sqrt(d-1)',
                   M.to_real(c['e']) * root == e0 * T.fro(s_.ghost['orth_result'][d - 1]), None, assume=False)
        ex_.oblige(s_, 'post', 'cap-is-r', M.to_real(c['r']) == r0, None, assume=False)
        ex_.oblige(s_, 'post', 'factorisation-keeps-an-orthonormal-right-factor', z3.BoolVal(c['give'] == 'l' and not c['rel']), None,
                   assume=False)

    ex = U.executor(fn, loops={0: {'inv': inv0, 'body_end': body_end0}, 1: {'inv': inv1}}, axioms=AXT)
    ex.mode = 'ematch'
    st.vars.update(Y=Y, e=e0, r=r0, orth=True, use_stab=use_stab, is_eigh=is_eigh)
    res = U.run(ex, st, pre=[T.wf(arr, d), e0 >= 0, r0 >= 0])
    U.cover('precondition-satisfiable', U.pre, axioms=AXT)
    for p, o in res:
        if o.kind != 'return':
            U.post('no-exception', p, False, axioms=AXT, mode='ematch')
            continue
        Zs = p.deref(o.value)
        U.post('fresh-result', p, z3.BoolVal(isinstance(o.value, VRef) and o.value.oid != Y.oid and p.heap[Y.oid].arr is arr))
        if use_stab:
            pre_ = p.ghost.get('Zpre')
            hyp_shape = [] if pre_ is None else []
            U.post('length', p, Zs.n == d, axioms=AXT, mode='ematch')
            tt = z3.Int('tt')
            U.post('mode-sizes', p, z3.Implies(z3.And(0 <= tt, tt < d), T.d1(Zs.arr[tt]) == T.d1(arr[tt])), axioms=AXT, mode='ematch')
            U.post('ranks-at-most-input-ranks', p, z3.Implies(z3.And(0 <= tt, tt < d), T.d2(Zs.arr[tt]) <= T.d2(arr[tt])), axioms=AXT, mode='ematch')
            U.post('ranks-at-most-cap', p, z3.Implies(z3.And(1 <= tt, tt < d), T.d0(Zs.arr[tt]) <= capf), axioms=AXT, mode='ematch')
            U.post('well-formed', p, T.wf(Zs.arr, d), axioms=AXT, mode='ematch')
        else:
            for lbl, g in shapes(Zs):
                U.post(lbl, p, g, axioms=AXT, mode='ematch')
            tt = z3.Int('tt')
            U.post('ranks-at-most-cap', p, z3.Implies(z3.And(1 <= tt, tt < d), T.d0(Zs.arr[tt]) <= capf), axioms=AXT, mode='ematch')
            U.post('kept-factors-have-orthonormal-rows (hypothesis of L-ROUND)', p,
                   z3.Implies(z3.And(1 <= tt, tt < d), orthR(Zs.arr[tt])), axioms=AXT, mode='ematch')


def _mk_trunc(is_eigh, use_stab):
    name = f'transformation.truncate.{"eigh" if is_eigh else "svd"}' + ('.stab' if use_stab else '')

    @unit(name, props=('C02', 'C11') + (('C16',) if use_stab else ()))
    def u(U):
        _truncate_unit(U, is_eigh, use_stab)


for _e in (True, False):
    for _s in (False, True):
        _mk_trunc(_e, _s)
