"""T3 — bounded run-time contract executor (DESIGN 1.6).  Labelled *bounded*; never counted as proved.

A suite module `rtc/suites/Cxx.py` defines clauses with the decorator below and a generator

    def cases(tier, seed):  yield (clause_id, params)        # params: JSON-able dict

A clause is a function of its params that exercises the REAL teneva functions (imported from /repo)
against an independent oracle and returns one of PASS / TRIVIAL(reason) / SKIP(reason) / FAIL(detail)
(an uncaught exception is a failure).  The params alone must determine the case (explicit seeds), so
that `./check replay <file>` re-executes exactly the failing input on the current tree.
"""
import importlib, json, os, signal, sys, time, traceback, multiprocessing as mp

CLAUSES = {}


class Clause:
    def __init__(self, cid, fn, funcs, doc):
        self.cid, self.fn, self.funcs, self.doc = cid, fn, tuple(funcs), doc


REPLAY_ONLY = set()


def clause(cid, funcs=(), replay_only=False):
    """Register a run-time contract clause.  `funcs`: the teneva functions (qualified, e.g.
    'act_two.add') whose contract this clause evaluates — used to pair T3 failures with failed T1
    obligations of the same function (the falsifier role).  `replay_only`: the clause states something OUTSIDE the
    property (an observation about an undocumented / unquantified option); it is kept so that a recorded case can be replayed
    but no case is generated for it and it is exempt from the "every clause gets a case" guard."""
    def deco(fn):
        if cid in CLAUSES and CLAUSES[cid].fn.__code__ is not fn.__code__:
            raise RuntimeError('duplicate clause id ' + cid)
        CLAUSES[cid] = Clause(cid, fn, funcs, (fn.__doc__ or '').strip())
        if replay_only:
            REPLAY_ONLY.add(cid)
        return fn
    return deco


PASS = ('pass', '')


def TRIVIAL(reason=''):
    return ('trivial', str(reason))


def SKIP(reason=''):
    return ('skip', str(reason))


def FAIL(detail=''):
    return ('fail', str(detail)[:2000])


def check(cond, detail=''):
    """Helper: PASS if cond else FAIL(detail)."""
    return PASS if cond else FAIL(detail)


class _Timeout(Exception):
    pass


def _alarm(signum, frame):
    raise _Timeout()


def load_suite(prop):
    return importlib.import_module(f'rtc.suites.{prop}')


def run_case(prop, cid, params, timeout=60):
    """Execute one case in this process.  Returns (status, detail, seconds)."""
    load_suite(prop)
    cl = CLAUSES[cid]
    t0 = time.time()
    old = signal.signal(signal.SIGALRM, _alarm)
    signal.alarm(int(timeout))
    try:
        import warnings
        with warnings.catch_warnings():
            warnings.simplefilter('ignore')
            r = cl.fn(**params)
        if r is None or r is True:
            r = PASS
        elif r is False:
            r = FAIL('clause returned False')
        status, detail = r
    except _Timeout:
        status, detail = 'timeout', f'case exceeded {timeout}s'
    except Exception as e:
        status, detail = 'fail', 'exception: ' + ''.join(traceback.format_exception_only(type(e), e)).strip()[:600] \
            + ' @ ' + ' <- '.join(f'{f.name}:{f.lineno}' for f in traceback.extract_tb(e.__traceback__)[-4:])
    finally:
        signal.alarm(0)
        signal.signal(signal.SIGALRM, old)
    return status, detail, time.time() - t0


def _worker(job):
    prop, cid, params, timeout = job
    try:
        return (cid, params) + run_case(prop, cid, params, timeout)
    except BaseException as e:  # the worker must never die silently
        return (cid, params, 'error', repr(e)[:500], 0.0)


def run_suite(prop, tier, seed, budget_s, case_timeout=60, procs=None):
    """Run all cases of a suite on a process pool under a wall-clock guard.
    Returns (results, info) with results = list of (cid, params, status, detail, seconds)."""
    suite = load_suite(prop)
    seen, jobs = set(), []
    for cid, params in suite.cases(tier, seed):
        if cid not in CLAUSES:
            raise RuntimeError(f'suite {prop} yields unknown clause {cid}')
        key = cid + json.dumps(params, sort_keys=True, default=str)
        if key in seen:
            continue
        seen.add(key)
        jobs.append((prop, cid, params, case_timeout))
    t0 = time.time()
    results, dropped = [], 0
    procs = procs or min(16, os.cpu_count() or 4)
    ctx = mp.get_context('fork')
    with ctx.Pool(procs, maxtasksperchild=200) as pool:
        it = pool.imap_unordered(_worker, jobs, chunksize=1)
        for _ in range(len(jobs)):
            remaining = budget_s - (time.time() - t0)
            if remaining <= 0:
                dropped = len(jobs) - len(results)
                pool.terminate()
                break
            try:
                results.append(it.next(timeout=max(1.0, remaining)))
            except mp.TimeoutError:
                dropped = len(jobs) - len(results)
                pool.terminate()
                break
    info = {'generated': len(jobs), 'executed': len(results), 'dropped_by_wall_clock_guard': dropped,
            'budget_s': budget_s, 'wall_s': round(time.time() - t0, 2)}
    return results, info
