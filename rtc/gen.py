"""Input generators and independent oracles for the bounded run-time contract suites (T3).

Nothing here calls a teneva function: oracles are written directly against NumPy (dense einsum
evaluation) or exact Python integers, so that they are independent of the code under check.
"""
import itertools, math
import numpy as np


def rng(*keys):
    """Deterministic generator from a tuple of ints/strings (explicit seeds make cases replayable)."""
    h = 1469598103934665603
    for k in keys:
        for ch in str(k):
            h = ((h ^ ord(ch)) * 1099511628211) % (1 << 64)
        h = ((h ^ 0xff) * 1099511628211) % (1 << 64)
    return np.random.default_rng(h)


def tt(n, r, seed, kind='int', scale=1.0, order='C'):
    """A TT-tensor (list of 3-D float arrays) with mode sizes n (list) and ranks r
    (list of length d+1 with r[0] = r[d] = 1, or an int for all inner bonds).
    kind: 'int' small integers in [-3, 3]; 'pos' integers in [0, 3]; 'gauss'; 'unif' in [-1, 1];
          'zero' exactly zero; 'ones'.
    order: memory layout of the cores ('C', 'F', or 'V' = non-contiguous views)."""
    d = len(n)
    if isinstance(r, int):
        r = [1] + [r] * (d - 1) + [1]
    g = rng('tt', n, r, seed, kind)
    Y = []
    for k in range(d):
        shp = (r[k], n[k], r[k + 1])
        if kind == 'int':
            G = g.integers(-3, 4, size=shp).astype(float)
        elif kind == 'pos':
            G = g.integers(0, 4, size=shp).astype(float)
        elif kind == 'gauss':
            G = g.normal(size=shp)
        elif kind == 'unif':
            G = g.uniform(-1, 1, size=shp)
        elif kind == 'zero':
            G = np.zeros(shp)
        elif kind == 'ones':
            G = np.ones(shp)
        else:
            raise ValueError(kind)
        G = G * scale if scale != 1.0 else G
        if order == 'F':
            G = np.asfortranarray(G)
        elif order == 'V':
            big = np.zeros((shp[0] * 2, shp[1] * 2, shp[2] * 2))
            big[::2, ::2, ::2] = G
            G = big[::2, ::2, ::2]
        Y.append(G)
    return Y


def dense(Y):
    """Independent dense evaluation of a TT-tensor: chain of slices, result has shape n_1 x ... x n_d."""
    Z = np.asarray(Y[0])
    assert Z.ndim == 3 and Z.shape[0] == 1
    Z = Z[0]                       # (n0, r1)
    for G in Y[1:]:
        G = np.asarray(G)
        Z = np.einsum('...a,abc->...bc', Z, G)
    assert Z.shape[-1] == 1
    return Z[..., 0]


def dense_exact(Y):
    """Exact dense evaluation for integer-valued cores using Python integers (object arrays)."""
    cores = []
    for G in Y:
        G = np.asarray(G)
        if not np.all(G == np.rint(G)):
            raise ValueError('not integer valued')
        cores.append(np.vectorize(int, otypes=[object])(G) if G.size else G.astype(object))
    shape = [G.shape[1] for G in cores]
    out = np.empty(shape, dtype=object)
    for idx in itertools.product(*[range(k) for k in shape]):
        v = cores[0][:, idx[0], :]
        for k in range(1, len(cores)):
            v = v.dot(cores[k][:, idx[k], :])
        out[idx] = v[0, 0]
    return out


def wf(Y, shape=None):
    """Structural well-formedness of a TT-tensor; returns None or a message."""
    if not isinstance(Y, list) or len(Y) < 1:
        return 'not a non-empty list'
    for k, G in enumerate(Y):
        if not isinstance(G, np.ndarray):
            return f'core {k} is {type(G).__name__}'
        if G.ndim != 3:
            return f'core {k} has ndim {G.ndim}'
        if G.dtype.kind != 'f':
            return f'core {k} has dtype {G.dtype}'
        if min(G.shape) < 1:
            return f'core {k} has empty shape {G.shape}'
    if Y[0].shape[0] != 1 or Y[-1].shape[2] != 1:
        return f'boundary ranks {Y[0].shape[0]}, {Y[-1].shape[2]}'
    for k in range(len(Y) - 1):
        if Y[k].shape[2] != Y[k + 1].shape[0]:
            return f'bond {k}: {Y[k].shape[2]} != {Y[k + 1].shape[0]}'
    if shape is not None:
        got = [G.shape[1] for G in Y]
        if list(got) != [int(s) for s in shape]:
            return f'mode sizes {got} != {list(shape)}'
    return None


def finite(Y):
    return all(np.all(np.isfinite(G)) for G in Y)


def all_indices(n):
    return np.array(list(itertools.product(*[range(k) for k in n])), dtype=int).reshape(-1, len(n))


def shapes(dmax=4, nmax=4, include_one=True):
    """Small systematic list of mode-size vectors."""
    out = []
    for d in range(2, dmax + 1):
        out.append([2] * d)
        out.append([nmax] + [2] * (d - 2) + [3])
        out.append(list(range(2, 2 + d)))
        if include_one:
            out.append([1] * d)
            out.append([3] + [1] * (d - 2) + [2])
            out.append([1] + [3] * (d - 1))
    return [[min(k, nmax) for k in s] for s in out]


def rank_profiles(n, rmax=4):
    """Rank profiles for a shape: rank 1, uniform, ragged, over-ranked (larger than a core can carry)."""
    d = len(n)
    ps = [[1] * (d + 1), [1] + [2] * (d - 1) + [1], [1] + [rmax] * (d - 1) + [1]]
    ps.append([1] + [1 + (k % rmax) for k in range(d - 1)] + [1])
    ps.append([1] + [max(1, rmax - k) for k in range(d - 1)] + [1])
    uniq = []
    for p in ps:
        if p not in uniq:
            uniq.append(p)
    return uniq


def close(a, b, scale, c=64.0):
    """Scale-aware comparison: |a-b| <= c * eps * scale  (scale = sum of |terms| of the computation).
    Non-finite a or b never compare close (also not against an infinite scale)."""
    a, b, scale = np.asarray(a, dtype=float), np.asarray(b, dtype=float), np.asarray(scale, dtype=float)
    if not (np.all(np.isfinite(a)) and np.all(np.isfinite(b))):
        return False
    return bool(np.all(np.abs(a - b) <= c * np.finfo(float).eps * scale + 1e-300))


def absdense(Y):
    """Dense tensor of the chain of |cores| — the natural scale of the rounding error of val(Y, i)."""
    return dense([np.abs(G) for G in Y])


def snapshot(x):
    """Byte snapshot of an argument (arrays, lists of arrays, numbers, None) for mutation detection."""
    if isinstance(x, np.ndarray):
        return ('a', x.shape, x.dtype.str, x.tobytes(), x.strides if False else None)
    if isinstance(x, (list, tuple)):
        return ('l', type(x).__name__, tuple(snapshot(e) for e in x))
    if isinstance(x, dict):
        return ('d', tuple((repr(k), snapshot(v)) for k, v in x.items()))
    return ('o', repr(x))


def shares(a, b):
    """May arrays reachable from a and b share memory?"""
    def leaves(x):
        if isinstance(x, np.ndarray):
            yield x
        elif isinstance(x, (list, tuple)):
            for e in x:
                yield from leaves(e)
        elif isinstance(x, dict):
            for e in x.values():
                yield from leaves(e)
    for u in leaves(a):
        for v in leaves(b):
            if u.size and v.size and np.shares_memory(u, v):
                return True
    return False


# ----------------------------------------------------------------------------- repeated objects / repeated calls

def alias_groups(n, r):
    """Groups (lists of positions, each of length >= 2) of cores of a TT-tensor with mode sizes n and ranks r (list of
    length d+1) that have the same shape - the positions at which ONE array object can stand several times."""
    d = len(n)
    by = {}
    for k in range(d):
        by.setdefault((int(r[k]), int(n[k]), int(r[k + 1])), []).append(k)
    return [g for g in by.values() if len(g) >= 2]


def tt_aliased(n, r, seed, kind='int', scale=1.0, order='C', which='all'):
    """Like tt(), but the list of cores holds the SAME array object at several positions (a well-formed TT-tensor all
    the same: e.g. the symmetric rank-1 tensor [g, g, g, g], or [A, G, G, G, B]).  which: 'all' - every group of
    equal-shaped cores is one object; 'first' - only the positions that can share the object of core 0 do; 'rest' -
    every group except the one of core 0.  Without two cores of equal shape the result is a plain tt()."""
    d = len(n)
    if isinstance(r, int):
        r = [1] + [r] * (d - 1) + [1]
    Y = tt(n, r, seed, kind, scale=scale, order=order)
    for grp in alias_groups(n, r):
        if (which == 'first' and grp[0] != 0) or (which == 'rest' and grp[0] == 0):
            continue
        for k in grp[1:]:
            Y[k] = Y[grp[0]]
    return Y


def alias_rank_profiles(n, rmax=3):
    """Rank profiles for the mode sizes n under which at least two cores have the same shape (rank 1 everywhere, a
    uniform inner rank, alternating 1 / rmax-1 bonds, a rank-1 bond in the middle)."""
    d = len(n)
    cand = [[1] * (d + 1), [1] + [2] * (d - 1) + [1], [1] + [rmax] * (d - 1) + [1],
            [1] + [(2 if k % 2 else 1) for k in range(1, d)] + [1], [1] + [(1 if k % 2 else 2) for k in range(1, d)] + [1],
            [1] + [(1 if k == d // 2 else 2) for k in range(1, d)] + [1]]
    out = []
    for p in cand:
        if p not in out and alias_groups(n, p):
            out.append(p)
    return out


def fresh(x):
    """Deep copy of an argument structure (arrays, nested lists / tuples / dicts of them, scalars): equal values, dtypes
    and memory layout, but NEW objects throughout - the reference twin of arguments that are going to be reused."""
    if isinstance(x, np.ndarray):
        y = np.empty_like(x)              # keeps dtype and (C / F) layout
        y[...] = x
        return y
    if isinstance(x, list):
        return [fresh(e) for e in x]
    if isinstance(x, tuple):
        return tuple(fresh(e) for e in x)
    if isinstance(x, dict):
        return {k: fresh(v) for k, v in x.items()}
    return x


def repeat_calls(fn, args, kwargs=None, times=3, what=''):
    """Call fn(*args, **kwargs) `times` times WITH THE SAME ARGUMENT OBJECTS and compare with one call on fresh twins of
    the arguments (made before anything ran).  Returns (reference result, message); message is None if every call left
    every argument bit-identical, returned the bit-identical answer of the reference call, and no earlier result was
    changed by a later call; otherwise it names the first deviation.  fn must be deterministic."""
    kwargs = kwargs or {}
    ref = fn(*fresh(list(args)), **fresh(kwargs))
    sref = snapshot(ref) if not callable(ref) else None
    before = snapshot([list(args), kwargs])
    kept = []
    for j in range(times):
        out = fn(*args, **kwargs)
        if snapshot([list(args), kwargs]) != before:
            now = snapshot([list(args), kwargs])
            bad = [i for i, (u, v) in enumerate(zip(before[2][0][2], now[2][0][2])) if u != v]
            return ref, f'{what}: call #{j + 1} changed its argument(s) {bad if bad else "(keyword)"}'
        if sref is not None and snapshot(out) != sref:
            return ref, (f'{what}: call #{j + 1} with the same argument objects returned {out!r}, a call with equal '
                         f'fresh arguments returned {ref!r}')
        kept.append((out, snapshot(out) if not callable(out) else None))
        for i, (o, s) in enumerate(kept[:-1]):
            if s is not None and snapshot(o) != s:
                return ref, f'{what}: the result of call #{i + 1} was changed by call #{j + 1}'
    return ref, None


# ----------------------------------------------------------------------------- prescribed unfolding spectra / input forms

def tt_spectrum(n, s, seed, at=0, hide=True):
    """TT-tensor with mode sizes n (every n[k] >= len(s)) whose d-1 unfoldings ALL have exactly the singular values s (up
    to rounding; s non-negative, any order of magnitude, ties / clusters / zeros allowed): the orthogonally decomposable
    tensor sum_a s[a] u_1^a x u_2^a x ... x u_d^a with orthonormal u_k^a for every k, written with TT-ranks len(s); the
    weights s sit in core `at`.  hide=True rotates every bond by a random orthogonal matrix (the cores are dense then, the
    tensor and its spectra stay the same and nothing ill-conditioned is introduced)."""
    s = np.asarray(s, dtype=float)
    q, d = len(s), len(n)
    if any(int(k) < q for k in n):
        raise ValueError('mode sizes must be >= len(s)')
    g = rng('tt_spectrum', list(n), list(s), seed, at)
    Y = []
    for k in range(d):
        Q, _ = np.linalg.qr(g.normal(size=(int(n[k]), q)))          # columns u_k^a
        G = np.zeros((q, int(n[k]), q))
        for a in range(q):
            G[a, :, a] = Q[:, a] * (s[a] if k == at else 1.0)
        Y.append(G)
    Y[0] = Y[0].sum(axis=0, keepdims=True)                          # (1, n, q): row a of the diagonal structure
    Y[-1] = Y[-1].sum(axis=2, keepdims=True)                        # (q, n, 1)
    if hide:
        for k in range(d - 1):
            R, _ = np.linalg.qr(g.normal(size=(q, q)))
            Y[k] = np.einsum('anb,bc->anc', Y[k], R)
            Y[k + 1] = np.einsum('cb,cnd->bnd', R, Y[k + 1])       # R^T G
    return Y


def call_form(fn, names, values, defaults, form):
    """Call fn with the argument values `values`, listed in the DOCUMENTED order `names` of its parameters, in one of
    the call forms a user may write; defaults[k] is the documented default of parameter k (call_form.REQ: required).
      'pos'    every argument positionally, in the documented order;
      'kw'     every argument by keyword;
      'mix:k'  the first k arguments positionally, the others by keyword;
      'min'    positionally, trailing arguments that equal their documented default are left out;
      'kwmin'  required arguments positionally, optional ones by keyword and only if they differ from the default.
    The suite states names / defaults from the documentation, so that a re-ordered or re-defaulted signature shows up as
    a wrong RESULT against the suite's independent oracle."""
    names, values, defaults = list(names), list(values), list(defaults)
    if not (len(names) == len(values) == len(defaults)):
        raise ValueError('names / values / defaults differ in length')

    def is_default(k):
        dv, v = defaults[k], values[k]
        if dv is call_form.REQ or isinstance(v, (np.ndarray, list, tuple, dict)):
            return False
        return type(v) is type(dv) and v == dv
    if form == 'pos':
        return fn(*values)
    if form == 'kw':
        return fn(**dict(zip(names, values)))
    if form.startswith('mix:'):
        k = int(form[4:])
        return fn(*values[:k], **dict(zip(names[k:], values[k:])))
    if form == 'min':
        k = len(values)
        while k > 0 and is_default(k - 1):
            k -= 1
        return fn(*values[:k])
    if form == 'kwmin':
        k = 0
        while k < len(values) and defaults[k] is call_form.REQ:
            k += 1
        return fn(*values[:k], **{names[j]: values[j] for j in range(k, len(values)) if not is_default(j)})
    raise ValueError(form)


call_form.REQ = object()


def typed_int_array(A, dtype):
    """The integer-valued float array A as an array of the (integer / bool / float32 ...) dtype `dtype`, or None if the
    values do not fit: unsigned and bool targets get A - min(A) (bool: parity of that), nothing is ever wrapped round."""
    A = np.asarray(A, dtype=float)
    if not np.all(A == np.rint(A)):
        raise ValueError('not integer valued')
    dt = np.dtype(dtype)
    if dt.kind == 'b':
        return (np.rint(A - A.min()).astype(np.int64) & 1).astype(bool)
    if dt.kind == 'u':
        A = A - A.min()
    if dt.kind in 'iu':
        info = np.iinfo(dt)
        if A.size and (A.min() < info.min or A.max() > info.max):
            return None
        return np.rint(A).astype(dt)
    B = A.astype(dt)
    if not np.array_equal(B.astype(float), A):
        return None
    return B


# ----------------------------------------------------------------------------- results modified by the caller / input dtypes

def scribble(x, _seen=None):
    """The caller does what it likes with ITS result: overwrite every writeable array reachable from x (lists, tuples, dicts)
    in place with values it never held (floats: -|v| - 7.25e77, integers: bitwise complement, booleans: negation), then empty
    every list and dict of the tree.  Returns the number of arrays overwritten plus containers emptied.  Afterwards an
    independent computation must not be able to tell that x ever existed (memoised / module-level results would)."""
    _seen = set() if _seen is None else _seen
    if id(x) in _seen:
        return 0
    _seen.add(id(x))
    cnt = 0
    if isinstance(x, np.ndarray):
        if x.size and x.flags.writeable:
            if x.dtype.kind in 'fc':
                with np.errstate(all='ignore'):
                    x[...] = -np.abs(np.nan_to_num(x.real if x.dtype.kind == 'c' else x, nan=1.0, posinf=1.0, neginf=1.0)) - 7.25e77
                cnt = 1
            elif x.dtype.kind in 'iu':
                x[...] = ~x
                cnt = 1
            elif x.dtype.kind == 'b':
                x[...] = ~x
                cnt = 1
        return cnt
    if isinstance(x, (list, tuple)):
        for e in x:
            cnt += scribble(e, _seen)
        if isinstance(x, list) and x:
            x.clear()
            cnt += 1
        return cnt
    if isinstance(x, dict):
        for e in x.values():
            cnt += scribble(e, _seen)
        if x:
            x.clear()
            cnt += 1
        return cnt
    return 0


def call_scribble_call(make, run, same_objects=True, args_of=None):
    """Generic history clause "call, scribble over the whole result tree, call again".  make() builds a FRESH, equal argument
    bundle on every call, run(bundle) performs the call and returns the result tree.  Sequence: r0 = run(make()) (snapshot
    kept: the reference obtained BEFORE anything was modified); r1 = run(b1); scribble(r1); r2 = run(make()) with equal fresh
    arguments; and, if same_objects and nothing reachable from r1 shared memory with the arguments b1 (documented pass-through
    results excepted by the caller), r3 = run(b1) with the very same argument objects (a cache keyed on object identity).
    Returns None if r0 was not changed by the scribbling of r1 and r2 (r3) are bit-identical to the reference, else a message."""
    r0 = run(make())
    s0 = snapshot(r0)
    b1 = make()
    args_of = args_of or (lambda b: b)          # the part of the bundle that must be untouched for the same-objects call
    sb = snapshot(args_of(b1)) if same_objects else None
    r1 = run(b1)
    if snapshot(r1) != s0:
        return 'second call with equal fresh arguments differs from the first (before any modification)'
    n = scribble(r1)
    if snapshot(r0) != s0:
        return 'overwriting the result of one call changed the result of an EARLIER call (the two results share objects)'
    r2 = run(make())
    if snapshot(r2) != s0:
        return (f'call, overwrite the returned arrays / empty the returned lists ({n} objects), call again with equal fresh '
                f'arguments: the repeated call does not return the original result (it hands out the modified object of '
                f'the earlier call or depends on it)')
    if same_objects and snapshot(args_of(b1)) == sb:
        r3 = run(b1)
        if snapshot(r3) != s0:
            return (f'call, overwrite the result, call again with the SAME argument objects: the repeated call does not '
                    f'return the original result')
    return None


# ----------------------------------------------------------------------------- f2-forms: input FORMS of TT-tensors / numbers / index and value arrays

def tt_form(Y, form):
    """The TT-tensor Y (list of float64 cores) in another input FORM; returns (Yform, Yimage), Yimage = fresh C-ordered float64
    cores holding exactly the values that were passed (the float64 image - the reference of every check).  form: '+'-joined
    tokens out of  'f32' (every core float32; the values are rounded to float32 first), 'mixed' (cores 0, 2, 4, ... float32, the
    others float64), 'mixed1' (cores 1, 3, ... float32), 'i64' / 'i32' (integer dtype; cores must be integer-valued, else
    ValueError), 'imixed' (even cores int64, odd ones float64; integer-valued cores), 'F' (Fortran order), 'V' (non-contiguous
    views), 'ro' (read-only arrays), 'tuple' (the core list as tuple), '' / 'C' (unchanged)."""
    toks = [t for t in str(form or '').split('+') if t and t != 'C']
    out = [np.array(G, dtype=float) for G in Y]
    for t in toks:
        if t in ('f32', 'mixed', 'mixed1'):
            out = [G.astype(np.float32) if (t == 'f32' or k % 2 == (1 if t == 'mixed1' else 0)) else G for k, G in enumerate(out)]
        elif t in ('i64', 'i32', 'imixed'):
            if not all(np.all(G == np.rint(G)) and np.all(np.abs(G) < 2 ** 31) for G in out):
                raise ValueError('not integer valued')
            out = [np.rint(G).astype(np.int32 if t == 'i32' else np.int64) if (t != 'imixed' or k % 2 == 0) else G
                   for k, G in enumerate(out)]
    image = [np.array(G, dtype=float, order='C') for G in out]
    for t in toks:
        if t == 'F':
            out = [np.asfortranarray(G) for G in out]
        elif t == 'V':
            big = [np.full((2 * G.shape[0], 2 * G.shape[1] + 1, 2 * G.shape[2]), 3, dtype=G.dtype) for G in out]
            for B, G in zip(big, out):
                B[1::2, 1::2, ::2] = G
            out = [B[1::2, 1::2, ::2] for B in big]
        elif t not in ('f32', 'mixed', 'mixed1', 'i64', 'i32', 'imixed', 'ro', 'tuple'):
            raise ValueError(form)
    if 'ro' in toks:
        out = [G.copy(order='K') if G.base is None else G for G in out]
        for G in out:
            G.flags.writeable = False
    return (tuple(out) if 'tuple' in toks else out), image


def num_form(x, form):
    """The Python number x in another FORM with the same value: 'np64' (np.int64 / np.float64), 'np32' (np.int32 / np.float32 -
    a float must be representable in float32, else ValueError), '0d' (0-d array), 'float' (int -> float, for arguments
    documented as "(int, float)"), 'npfloat' (int -> np.float64), '' / 'py' (unchanged).  None and bool pass through."""
    if x is None or isinstance(x, (bool, np.bool_)) or not form or form == 'py':
        return x
    isint = isinstance(x, (int, np.integer))
    if form == 'np64':
        return np.int64(x) if isint else np.float64(x)
    if form == 'np32':
        if isint:
            return np.int32(x)
        if float(np.float32(x)) != float(x):
            raise ValueError(f'{x!r} is not a float32 value')
        return np.float32(x)
    if form == '0d':
        return np.array(x)
    if form == 'float':
        return float(x) if isint else x
    if form == 'npfloat':
        return np.float64(x)
    raise ValueError(form)


def idx_form(I, form):
    """The multi-index array I (2-D, integer, non-negative) in another FORM with the same entries: 'list' (nested lists),
    'tuple' (tuple of tuples), 'i32' / 'i64' / 'u8' / 'i8' / 'u16' (dtype; ValueError if the values do not fit), 'F' (Fortran
    order), 'V' (non-contiguous view), 'ro' (read-only); '+'-joined tokens are applied from left to right."""
    out = np.array(I, dtype=np.int64)
    for t in [t for t in str(form or '').split('+') if t]:
        if t in ('list', 'tuple'):
            rows = np.asarray(out).tolist()
            return rows if t == 'list' else tuple(tuple(r) for r in rows)
        if t in ('i32', 'i64', 'u8', 'i8', 'u16'):
            dt = np.dtype({'i32': np.int32, 'i64': np.int64, 'u8': np.uint8, 'i8': np.int8, 'u16': np.uint16}[t])
            if out.size and (out.min() < np.iinfo(dt).min or out.max() > np.iinfo(dt).max):
                raise ValueError('values do not fit ' + t)
            out = out.astype(dt)
        elif t == 'F':
            out = np.asfortranarray(out)
        elif t == 'V':
            big = np.full((2 * out.shape[0] + 1, 2 * out.shape[1]), 1, dtype=out.dtype)
            big[1::2, ::2] = out
            out = big[1::2, ::2]
        elif t == 'ro':
            out = out.copy(order='K') if out.base is None else out
            out.flags.writeable = False
        else:
            raise ValueError(form)
    return out


def val_form(y, form):
    """The value vector y in another FORM; returns (yform, yimage) with yimage the float64 image of what is passed: 'list' (Python
    floats), 'f32' (rounded to float32), 'int' / 'intlist' (int64 array / list of Python ints; y must be integer-valued), 'V'
    (non-contiguous view), 'ro' (read-only), '' (unchanged float64 array)."""
    out = np.array(y, dtype=float)
    for t in [t for t in str(form or '').split('+') if t]:
        if t == 'f32':
            out = out.astype(np.float32)
        elif t in ('int', 'intlist'):
            if not np.all(out == np.rint(out)):
                raise ValueError('not integer valued')
            out = np.rint(out).astype(np.int64)
        elif t == 'V':
            big = np.full(2 * len(out) + 1, 7, dtype=out.dtype)
            big[1::2] = out
            out = big[1::2]
        elif t == 'ro':
            out = out.copy() if out.base is None else out
            out.flags.writeable = False
        elif t != 'list':
            raise ValueError(form)
    image = np.array(out, dtype=float)
    toks = str(form or '').split('+')
    if 'list' in toks or 'intlist' in toks:
        out = out.tolist()
    return out, image


def num_kwargs(kw, form, names):
    """Copy of the keyword dictionary kw with the Python numbers under `names` converted by num_form(., form); a value that does
    not fit the 32-bit form (large int, float that is no float32 value) is passed in the 64-bit form instead."""
    out = dict(kw)
    for key in names:
        v = out.get(key)
        if v is None or isinstance(v, (bool, np.ndarray, np.generic)) or not isinstance(v, (int, float)):
            continue
        try:
            if form == 'np32' and isinstance(v, int) and not -2 ** 31 <= v < 2 ** 31:
                raise ValueError
            out[key] = num_form(v, form)
        except ValueError:
            out[key] = num_form(v, 'np64')
    return out


# ----------------------------------------------------------------------------- f1-forms: input forms of TT-tensors / numbers

TT_FORMS1 = ('f32', 'i64', 'i32', 'mix_fi', 'mix_if', 'mix_f32a', 'mix_f32b', 'ro', 'ro_view', 'tuple', 'tuple_f32_ro')


def tt_form1(Y, form):
    """The TT-tensor Y (float64 cores) as the SAME tensor in another input form; raises ValueError if a value does not
    survive the dtype (so the float64 image of the result is always Y itself).  'f32' float32 cores; 'i64' / 'i32' integer
    dtypes; 'mix_fi' float64 core 0 and int64 at the odd positions, 'mix_if' the other way round; 'mix_f32a' / 'mix_f32b'
    float32 at the even / odd positions; 'ro' read-only cores; 'ro_view' read-only non-contiguous views; 'tuple' a tuple of
    the cores; 'tuple_f32_ro' all three at once."""
    def conv(G, dt):
        H = G.astype(dt)
        if not np.array_equal(H.astype(float), G):
            raise ValueError('values do not fit the dtype ' + str(np.dtype(dt)))
        return H
    if form in ('f32', 'i64', 'i32'):
        return [conv(G, {'f32': np.float32, 'i64': np.int64, 'i32': np.int32}[form]) for G in Y]
    if form in ('mix_fi', 'mix_if', 'mix_f32a', 'mix_f32b'):
        dt = np.int64 if form in ('mix_fi', 'mix_if') else np.float32
        par = 1 if form in ('mix_fi', 'mix_f32b') else 0
        return [conv(G, dt) if k % 2 == par else G for k, G in enumerate(Y)]
    if form in ('ro', 'ro_view', 'tuple_f32_ro'):
        Z = []
        for G in Y:
            if form == 'ro_view':
                big = np.zeros((2 * G.shape[0], 2 * G.shape[1], 2 * G.shape[2]))
                big[1::2, ::2, 1::2] = G
                H = big[1::2, ::2, 1::2]
            else:
                H = G.copy() if form == 'ro' else conv(G, np.float32)
            H.flags.writeable = False
            Z.append(H)
        return tuple(Z) if form == 'tuple_f32_ro' else Z
    if form == 'tuple':
        return tuple(Y)
    raise ValueError(form)


def tt_form1_values(Y, form):
    """Y (float64 cores, any values) with the values adjusted so that tt_form1(., form) can hold them: every core rounded to
    float32 values for the float32 forms, the cores that get an integer dtype in 'mix_fi' / 'mix_if' rounded to integers
    (rint(2 G)); unchanged for the other forms ('i64' / 'i32' need integer-valued cores from the start)."""
    if form in ('f32', 'mix_f32a', 'mix_f32b', 'tuple_f32_ro'):
        return [np.asarray(G, dtype=float).astype(np.float32).astype(float) for G in Y]
    if form in ('mix_fi', 'mix_if'):
        return [np.rint(2 * G) if k % 2 == (form == 'mix_fi') else np.asarray(G, dtype=float) for k, G in enumerate(Y)]
    return list(Y)


def tt_image1(Y):
    """float64 image (a list of fresh C-ordered arrays) of a TT-tensor given in any form."""
    return [np.array(G, dtype=float, order='C') for G in Y]


def num_form1(v, form):
    """The number v in another form: None / 'py' as it is, 'f64' numpy.float64, 'f32' numpy.float32 (value rounded!),
    'i64' / 'i32' numpy integers (integral v only), 'a0' 0-d float64 array, 'a0i' 0-d int64 array, 'pyfloat' float(v).
    The float64 image of the result is float(result)."""
    if form in (None, 'py'):
        return v
    if form == 'pyfloat':
        return float(v)
    if form in ('i64', 'i32', 'a0i'):
        if float(v) != int(v):
            raise ValueError('not integral')
        return {'i64': np.int64, 'i32': np.int32, 'a0i': lambda x: np.array(x, dtype=np.int64)}[form](int(v))
    return {'f64': np.float64, 'f32': np.float32, 'a0': lambda x: np.array(x, dtype=float)}[form](v)
