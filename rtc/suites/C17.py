"""C17 (bounded, T3): QTT conversion and index maps are mutually inverse and value-preserving.

Reference example of a suite: every clause exercises the real functions from /repo against an
independent oracle; params are JSON-able and fully determine the case.
"""
import itertools
import numpy as np
import teneva
from rtc.api import clause, PASS, FAIL, TRIVIAL, SKIP, check
from rtc import gen


BUDGET = (120, 900)     # wall-clock guard in seconds (quick, thorough)
BOUNDS = ('index maps exhaustive for q*d <= 10 (quick) / 12 (thorough), sampled + boundary indices for q = 7..16; conversions d<=3, q<=3, '
          'r<=5, 4 (e, cap) settings; sums of K <= 3 exponentials (exact QTT rank K) with caps K..K+2, q <= 5')


def _bits(i, q):
    return [(i >> j) & 1 for j in range(q)]


@clause('C17.ind.exhaustive', funcs=('grid.ind_tt_to_qtt', 'grid.ind_qtt_to_tt'))
def ind_exhaustive(d, q):
    """Every multi-index of [2^q]^d: bits are the little-endian expansion, the maps are inverse both ways,
    a single index gives the same answer as a batch of one."""
    n = 2 ** q
    I = gen.all_indices([n] * d)
    want = np.array([[b for i in row for b in _bits(int(i), q)] for row in I], dtype=int).reshape(len(I), d * q)
    got = teneva.ind_tt_to_qtt(I, n)
    if got.shape != want.shape or not np.array_equal(got, want):
        return FAIL(f'batch expansion differs, first bad row {int(np.argmax((got != want).any(axis=1)))}')
    if got.dtype.kind not in 'iu':
        return FAIL(f'dtype {got.dtype}')
    back = teneva.ind_qtt_to_tt(got, q)
    if not np.array_equal(back, I):
        return FAIL('qtt_to_tt(tt_to_qtt(I)) != I')
    # all bit strings -> indices -> bit strings
    Q = gen.all_indices([2] * (d * q))
    J = teneva.ind_qtt_to_tt(Q, q)
    wantJ = np.array([[sum(int(row[q * k + j]) << j for j in range(q)) for k in range(d)] for row in Q])
    if not np.array_equal(J, wantJ.reshape(len(Q), d)):
        return FAIL('ind_qtt_to_tt differs from sum of bits * 2^j')
    if not np.array_equal(teneva.ind_tt_to_qtt(J, n), Q):
        return FAIL('tt_to_qtt(qtt_to_tt(Q)) != Q')
    for row, w in list(zip(I, want))[:: max(1, len(I) // 16)]:
        one = teneva.ind_tt_to_qtt(row, n)
        if one.shape != (d * q,) or not np.array_equal(one, w):
            return FAIL(f'single index {row.tolist()} differs from batch')
        b1 = teneva.ind_qtt_to_tt(w, q)
        if b1.shape != (d,) or not np.array_equal(b1, row):
            return FAIL(f'single qtt index {w.tolist()} differs from batch')
    return PASS


@clause('C17.ind.raise', funcs=('grid.ind_tt_to_qtt', 'core.core_tt_to_qtt'))
def ind_raise(n):
    """Non-power-of-two mode sizes are rejected with ValueError; powers of two are accepted."""
    pow2 = n >= 1 and (n & (n - 1)) == 0
    for what in ('ind', 'core'):
        try:
            if what == 'ind':
                teneva.ind_tt_to_qtt(np.zeros((1, 2), dtype=int), n)
            else:
                teneva.core_tt_to_qtt(np.ones((2, n, 2)))
            raised = False
        except ValueError:
            raised = True
        if n >= 2 and raised == pow2:
            return FAIL(f'{what}: n={n} raised={raised}')
    return PASS


@clause('C17.tt_qtt.roundtrip', funcs=('act_one.tt_to_qtt', 'act_one.qtt_to_tt', 'core.core_tt_to_qtt',
                                       'core.core_qtt_to_tt'))
def tt_qtt_roundtrip(d, q, r, seed, kind, e, cap):
    """tt -> qtt -> tt denotes the same tensor (within e), QTT entry at the bits of i equals TT entry at i,
    bonds between modes keep the TT ranks, inner bonds <= max(1, cap)."""
    n = 2 ** q
    Y = gen.tt([n] * d, r, seed, kind)
    A = gen.dense(Y)
    Z = teneva.tt_to_qtt(Y, e, cap)
    msg = gen.wf(Z, [2] * (d * q))
    if msg:
        return FAIL('qtt not well-formed: ' + msg)
    for k in range(d * q - 1):
        bond = Z[k].shape[2]
        if (k + 1) % q == 0:
            if bond != Y[(k + 1) // q - 1].shape[2]:
                return FAIL(f'bond between modes {k}: {bond} != {Y[(k + 1) // q - 1].shape[2]}')
        elif bond > max(1, int(cap)):
            return FAIL(f'inner bond {k}: {bond} > cap {cap}')
    B = gen.dense(Z)
    I = gen.all_indices([n] * d)
    Iq = np.array([[b for i in row for b in _bits(int(i), q)] for row in I]).reshape(len(I), d * q)
    vq = B[tuple(Iq.T)]
    vt = A[tuple(I.T)]
    nrm = np.linalg.norm(A)
    tol = (e * np.sqrt(max(1, d * q)) * 4 + 1e-10) * max(nrm, 1e-300) if cap >= 10 ** 6 else None
    if tol is not None and not np.linalg.norm(vq - vt) <= tol:
        return FAIL(f'QTT[bits(i)] != TT[i]: err {np.linalg.norm(vq - vt):.3e} tol {tol:.3e}')
    W = teneva.qtt_to_tt(Z, q)
    msg = gen.wf(W, [n] * d)
    if msg:
        return FAIL('back-converted tt not well-formed: ' + msg)
    C = gen.dense(W)
    if not np.allclose(C[tuple(I.T)], vq, rtol=0, atol=1e-12 * max(1.0, np.abs(B).max()) * 2 ** q):
        return FAIL('qtt_to_tt changes the denoted tensor')
    return PASS if nrm > 0 else TRIVIAL('zero tensor')


@clause('C17.ind.large_modes', funcs=('grid.ind_tt_to_qtt', 'grid.ind_qtt_to_tt'))
def ind_large_modes(d, q, seed):
    """Mode sizes up to 2^16 (beyond what an exhaustive sweep can visit): boundary indices (0, 2^j - 1, 2^j, n - 1) and
    random ones against the little-endian bit expansion, both directions, single index = batch of one."""
    n = 2 ** q
    g = gen.rng('C17.large', seed)
    special = sorted({0, n - 1} | {2 ** j for j in range(q)} | {2 ** j - 1 for j in range(1, q + 1)})
    cols = [np.concatenate([g.permutation(special), g.integers(0, n, size=40)]) for _ in range(d)]
    I = np.stack(cols, axis=1).astype(int)
    want = np.array([[b for i in row for b in _bits(int(i), q)] for row in I], dtype=int).reshape(len(I), d * q)
    got = teneva.ind_tt_to_qtt(I, n)
    if got.shape != want.shape or not np.array_equal(got, want):
        bad = int(np.argmax((np.asarray(got).reshape(want.shape) != want).any(axis=1))) if np.shape(got) == want.shape else -1
        return FAIL(f'bit expansion differs (first bad row {bad}: index {I[bad].tolist() if bad >= 0 else None})')
    back = teneva.ind_qtt_to_tt(want, q)
    if np.shape(back) != I.shape or not np.array_equal(back, I):
        bad = int(np.argmax((np.asarray(back) != I).any(axis=1))) if np.shape(back) == I.shape else -1
        return FAIL(f'ind_qtt_to_tt differs from sum of bits * 2^j (first bad row {bad}: expected {I[bad].tolist() if bad >= 0 else None}, '
                    f'got {np.asarray(back)[bad].tolist() if bad >= 0 else np.shape(back)})')
    for row, w in list(zip(I, want))[::7]:
        if not np.array_equal(teneva.ind_tt_to_qtt(row, n), w) or not np.array_equal(teneva.ind_qtt_to_tt(w, q), row):
            return FAIL(f'single index {row.tolist()} differs from batch')
    return PASS


@clause('C17.tt_qtt.capped_exact_rank', funcs=('act_one.tt_to_qtt', 'core.core_tt_to_qtt', 'svd.matrix_svd'))
def tt_qtt_capped(d, q, K, cap_extra, redundant, seed):
    """Sums of K separable exponentials have exact QTT rank <= K inside every mode: with a cap >= K (also a cap below the
    size of the unfoldings, and a TT bond stored with redundant columns) the conversion is exact up to e, the inner bonds
    obey the cap and the bonds between modes keep the stored TT ranks."""
    n = 2 ** q
    g = gen.rng('C17.exp', seed)
    i = np.arange(n)
    bases = [g.uniform(0.6, 1.1, size=K) * g.choice([-1.0, 1.0], size=K) for _ in range(d)]
    V = [b[None, :] ** i[:, None] for b in bases]                       # n x K each
    if d == 2:
        if redundant:
            P, Q = g.normal(size=(K, K)), g.normal(size=(K, K))
            Y = [np.hstack([V[0], V[0] @ P]).reshape(1, n, 2 * K), np.vstack([V[1].T, Q @ V[1].T]).reshape(2 * K, n, 1)]
        else:
            Y = [V[0].reshape(1, n, K), V[1].T.reshape(K, n, 1)]
    else:
        mid = np.zeros((K, n, K))
        for k in range(K):
            mid[k, :, k] = V[1][:, k]
        Y = [V[0].reshape(1, n, K), mid, V[2].T.reshape(K, n, 1)]
    A = gen.dense(Y)
    cap = K + cap_extra
    Z = teneva.tt_to_qtt(Y, 1e-10, cap)
    msg = gen.wf(Z, [2] * (d * q))
    if msg:
        return FAIL('qtt not well-formed: ' + msg)
    for k in range(d * q - 1):
        bond = Z[k].shape[2]
        if (k + 1) % q == 0:
            if bond != Y[(k + 1) // q - 1].shape[2]:
                return FAIL(f'bond between modes {k}: {bond} != stored TT rank {Y[(k + 1) // q - 1].shape[2]}')
        elif bond > cap:
            return FAIL(f'inner bond {k}: {bond} > cap {cap}')
    B = gen.dense(Z)
    I = gen.all_indices([n] * d)
    Iq = np.array([[b for ii in row for b in _bits(int(ii), q)] for row in I]).reshape(len(I), d * q)
    err = np.linalg.norm(B[tuple(Iq.T)] - A[tuple(I.T)])
    if not err <= 1e-7 * np.linalg.norm(A):
        return FAIL(f'QTT[bits(i)] != TT[i] although the cap {cap} is >= the exact rank {K}: rel. err {err / np.linalg.norm(A):.3e}, '
                    f'ranks {[G.shape[2] for G in Z]}')
    W = teneva.qtt_to_tt(Z, q)
    msg = gen.wf(W, [n] * d)
    if msg:
        return FAIL('back-converted tt not well-formed: ' + msg)
    if not np.linalg.norm(gen.dense(W) - A) <= 1e-7 * np.linalg.norm(A):
        return FAIL('round trip TT -> QTT -> TT changed the tensor')
    return PASS


def cases(tier, seed):
    big = tier == 'thorough'
    lim = 12 if big else 10
    for d in range(1, 5):
        for q in range(1, 7):
            if d * q <= lim:
                yield 'C17.ind.exhaustive', dict(d=d, q=q)
    for n in range(2, 70 if big else 40):
        yield 'C17.ind.raise', dict(n=n)
    for d in (1, 2, 3):
        for q in range(7, 17):
            for s_ in range(2 if big else 1):
                yield 'C17.ind.large_modes', dict(d=d, q=q, seed=s_)
    for d, qs in ((2, (3, 4, 5)), (3, (3, 4))):
        for q in qs:
            for K in (1, 2, 3):
                for cap_extra in (0, 1, 2):
                    for redundant in ((False, True) if d == 2 else (False,)):
                        for s_ in range(2 if big else 1):
                            yield 'C17.tt_qtt.capped_exact_rank', dict(d=d, q=q, K=K, cap_extra=cap_extra, redundant=redundant, seed=s_)
    g = gen.rng('C17', seed)
    for d in (2, 3):
        for q in (1, 2, 3):
            for r in (1, 2, 3, 5):
                for kind in ('gauss', 'int'):
                    for e, cap in ((1e-12, 10 ** 12), (1e-2, 10 ** 12), (1e-12, 2), (0.0, 1)):
                        for rep in range(3 if big else 1):
                            yield 'C17.tt_qtt.roundtrip', dict(d=d, q=q, r=r, seed=int(g.integers(1 << 30)),
                                                               kind=kind, e=e, cap=cap)
