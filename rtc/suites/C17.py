"""C17 (bounded, T3): QTT conversion and index maps are mutually inverse and value-preserving.

Reference example of a suite: every clause exercises the real functions from /repo against an
independent oracle; params are JSON-able and fully determine the case.

Clauses added by the parameter-coverage audit:
  C17.core.direct      core_tt_to_qtt / core_qtt_to_tt called directly on one core (r1, 2^q, r2): defaults (e = 0, r = 1e12),
                       e = erel ||G|| in {0, 1e-12, 1e-10, 1e-6, 1e-3, 0.1} (e is ABSOLUTE), caps int / float / binding (1, 2),
                       core scales 2^+-40, 2^+-300; own little-endian contraction of the returned list
  C17.qtt_to_tt.direct qtt_to_tt on arbitrary QTT tensors (random ranks), q = 1..6, d = 1..4, exact for integer cores
  C17.tt_qtt.large_q   mode sizes 512 .. 4096 (d = 1, 2): exact-rank exponential sums under caps K, K+1, 100. and the
                       defaults of tt_to_qtt; Gaussian cores with a non-binding and a binding cap; every entry compared
  C17.tt_qtt.scaled    d = 1..3 at overall scales 2^-600 .. 2^600 with e scaled along, rigorous error budget
                       sum_k (q e + floor ||G_k||) prod_{j != k} ||G_j||; defaults of tt_to_qtt
  C17.ind.forms        lists / tuples / 1-D list / int8..uint64 arrays / NumPy scalars for n and q
  C17.input_form.convert  input FORMS: tt_to_qtt / qtt_to_tt / core_tt_to_qtt / core_qtt_to_tt on float32 / int64 / int32 / mixed-dtype
                       cores, Fortran order, non-contiguous views, read-only arrays, tuple of cores (gen.tt_form); e / r / q as np.float64 /
                       np.float32 / np.int64 / np.int32 / 0-d arrays / float caps; positional, keyword and mixed calls; reference: float64
                       image of what is passed (matrix_svd converts to float64, so the float64 budget holds for every dtype)
  C17.ind.array_forms  index arrays Fortran-ordered / non-contiguous / read-only / tuple of tuples; BIT arrays of ind_qtt_to_tt in int8 /
                       uint8 / uint16 / int32 for q up to 40 (the bits fit the dtype, the result does not); single index; keyword calls
  (C17.ind.large_modes now also q = 20 .. 62 - values beyond int32 and 2^53 - and d = 63 .. 1000 (3000) modes;
   C17.ind.raise also n up to 2^18 +- 1)
"""
import itertools
import numpy as np
import teneva
from rtc.api import clause, PASS, FAIL, TRIVIAL, SKIP, check
from rtc import gen


BUDGET = (120, 900)     # wall-clock guard in seconds (quick, thorough)
BOUNDS = ('index maps exhaustive for q*d <= 10 (quick) / 12 (thorough), sampled + boundary indices for q = 7..62 and d up to 1000 (3000), '
          '10 input forms; conversions d<=3, q<=4, r<=5, 6 (e, cap) settings, scales 2^-600..2^600, defaults; direct core calls r1, r2 <= 4 (8), '
          'q <= 5 (9), 10 (e, cap) settings; arbitrary QTT tensors d*q <= 12 (14); sums of K <= 3 exponentials (exact QTT rank K) with caps '
          'K..K+2, q <= 5, and q = 9, 10 (7..12) for d = 1, 2; input forms: 15 core forms x 6 number forms x 4 call forms on 4 (7) (d, q), '
          '12 index-array forms x single / batch on 6 (10) (d, q) with q <= 40 (52)')


def _bits(i, q):
    return [(i >> j) & 1 for j in range(q)]


@clause('C17.ind.exhaustive', funcs=('grid.ind_tt_to_qtt', 'grid.ind_qtt_to_tt'))
def ind_exhaustive(d, q):
    """Every multi-index of [2^q]^d: bits are the little-endian expansion, the maps are inverse both ways,
    a single index gives the same answer as a batch of one."""
    n = 2 ** q
    I = gen.all_indices([n] * d)
    want = np.array([[b for i in row for b in _bits(int(i), q)] for row in I], dtype=int).reshape(len(I), d * q)
    got = teneva.ind_tt_to_qtt(I, n)
    if got.shape != want.shape or not np.array_equal(got, want):
        return FAIL(f'batch expansion differs, first bad row {int(np.argmax((got != want).any(axis=1)))}')
    if got.dtype.kind not in 'iu':
        return FAIL(f'dtype {got.dtype}')
    back = teneva.ind_qtt_to_tt(got, q)
    if not np.array_equal(back, I):
        return FAIL('qtt_to_tt(tt_to_qtt(I)) != I')
    # all bit strings -> indices -> bit strings
    Q = gen.all_indices([2] * (d * q))
    J = teneva.ind_qtt_to_tt(Q, q)
    wantJ = np.array([[sum(int(row[q * k + j]) << j for j in range(q)) for k in range(d)] for row in Q])
    if not np.array_equal(J, wantJ.reshape(len(Q), d)):
        return FAIL('ind_qtt_to_tt differs from sum of bits * 2^j')
    if not np.array_equal(teneva.ind_tt_to_qtt(J, n), Q):
        return FAIL('tt_to_qtt(qtt_to_tt(Q)) != Q')
    for row, w in list(zip(I, want))[:: max(1, len(I) // 16)]:
        one = teneva.ind_tt_to_qtt(row, n)
        if one.shape != (d * q,) or not np.array_equal(one, w):
            return FAIL(f'single index {row.tolist()} differs from batch')
        b1 = teneva.ind_qtt_to_tt(w, q)
        if b1.shape != (d,) or not np.array_equal(b1, row):
            return FAIL(f'single qtt index {w.tolist()} differs from batch')
    return PASS


@clause('C17.ind.raise', funcs=('grid.ind_tt_to_qtt', 'core.core_tt_to_qtt'))
def ind_raise(n):
    """Non-power-of-two mode sizes are rejected with ValueError; powers of two are accepted."""
    pow2 = n >= 1 and (n & (n - 1)) == 0
    for what in (('ind', 'core') if n <= 2 ** 18 else ('ind',)):        # (a core of mode size 2^30 is not built)
        try:
            if what == 'ind':
                teneva.ind_tt_to_qtt(np.zeros((1, 2), dtype=int), n)
            else:
                teneva.core_tt_to_qtt(np.ones((2, n, 2)))
            raised = False
        except ValueError:
            raised = True
        if n >= 2 and raised == pow2:
            return FAIL(f'{what}: n={n} raised={raised}')
    return PASS


@clause('C17.tt_qtt.roundtrip', funcs=('act_one.tt_to_qtt', 'act_one.qtt_to_tt', 'core.core_tt_to_qtt',
                                       'core.core_qtt_to_tt'))
def tt_qtt_roundtrip(d, q, r, seed, kind, e, cap):
    """tt -> qtt -> tt denotes the same tensor (within e), QTT entry at the bits of i equals TT entry at i,
    bonds between modes keep the TT ranks, inner bonds <= max(1, cap)."""
    n = 2 ** q
    Y = gen.tt([n] * d, r, seed, kind)
    A = gen.dense(Y)
    Z = teneva.tt_to_qtt(Y, e, cap)
    msg = gen.wf(Z, [2] * (d * q))
    if msg:
        return FAIL('qtt not well-formed: ' + msg)
    for k in range(d * q - 1):
        bond = Z[k].shape[2]
        if (k + 1) % q == 0:
            if bond != Y[(k + 1) // q - 1].shape[2]:
                return FAIL(f'bond between modes {k}: {bond} != {Y[(k + 1) // q - 1].shape[2]}')
        elif bond > max(1, int(cap)):
            return FAIL(f'inner bond {k}: {bond} > cap {cap}')
    B = gen.dense(Z)
    I = gen.all_indices([n] * d)
    Iq = np.array([[b for i in row for b in _bits(int(i), q)] for row in I]).reshape(len(I), d * q)
    vq = B[tuple(Iq.T)]
    vt = A[tuple(I.T)]
    nrm = np.linalg.norm(A)
    tol = (e * np.sqrt(max(1, d * q)) * 4 + 1e-10) * max(nrm, 1e-300) if cap >= 10 ** 6 else None
    if tol is not None and not np.linalg.norm(vq - vt) <= tol:
        return FAIL(f'QTT[bits(i)] != TT[i]: err {np.linalg.norm(vq - vt):.3e} tol {tol:.3e}')
    W = teneva.qtt_to_tt(Z, q)
    msg = gen.wf(W, [n] * d)
    if msg:
        return FAIL('back-converted tt not well-formed: ' + msg)
    C = gen.dense(W)
    if not np.allclose(C[tuple(I.T)], vq, rtol=0, atol=1e-12 * max(1.0, np.abs(B).max()) * 2 ** q):
        return FAIL('qtt_to_tt changes the denoted tensor')
    return PASS if nrm > 0 else TRIVIAL('zero tensor')


@clause('C17.ind.large_modes', funcs=('grid.ind_tt_to_qtt', 'grid.ind_qtt_to_tt'))
def ind_large_modes(d, q, seed):
    """Mode sizes up to 2^16 (beyond what an exhaustive sweep can visit): boundary indices (0, 2^j - 1, 2^j, n - 1) and
    random ones against the little-endian bit expansion, both directions, single index = batch of one."""
    n = 2 ** q
    g = gen.rng('C17.large', seed)
    special = sorted({0, n - 1} | {2 ** j for j in range(q)} | {2 ** j - 1 for j in range(1, q + 1)})
    cols = [np.concatenate([g.permutation(special), g.integers(0, n, size=40)]) for _ in range(d)]
    I = np.stack(cols, axis=1).astype(int)
    want = np.array([[b for i in row for b in _bits(int(i), q)] for row in I], dtype=int).reshape(len(I), d * q)
    got = teneva.ind_tt_to_qtt(I, n)
    if got.shape != want.shape or not np.array_equal(got, want):
        bad = int(np.argmax((np.asarray(got).reshape(want.shape) != want).any(axis=1))) if np.shape(got) == want.shape else -1
        return FAIL(f'bit expansion differs (first bad row {bad}: index {I[bad].tolist() if bad >= 0 else None})')
    back = teneva.ind_qtt_to_tt(want, q)
    if np.shape(back) != I.shape or not np.array_equal(back, I):
        bad = int(np.argmax((np.asarray(back) != I).any(axis=1))) if np.shape(back) == I.shape else -1
        return FAIL(f'ind_qtt_to_tt differs from sum of bits * 2^j (first bad row {bad}: expected {I[bad].tolist() if bad >= 0 else None}, '
                    f'got {np.asarray(back)[bad].tolist() if bad >= 0 else np.shape(back)})')
    for row, w in list(zip(I, want))[::7]:
        if not np.array_equal(teneva.ind_tt_to_qtt(row, n), w) or not np.array_equal(teneva.ind_qtt_to_tt(w, q), row):
            return FAIL(f'single index {row.tolist()} differs from batch')
    return PASS


@clause('C17.tt_qtt.capped_exact_rank', funcs=('act_one.tt_to_qtt', 'core.core_tt_to_qtt', 'svd.matrix_svd'))
def tt_qtt_capped(d, q, K, cap_extra, redundant, seed):
    """Sums of K separable exponentials have exact QTT rank <= K inside every mode: with a cap >= K (also a cap below the
    size of the unfoldings, and a TT bond stored with redundant columns) the conversion is exact up to e, the inner bonds
    obey the cap and the bonds between modes keep the stored TT ranks."""
    n = 2 ** q
    g = gen.rng('C17.exp', seed)
    i = np.arange(n)
    bases = [g.uniform(0.6, 1.1, size=K) * g.choice([-1.0, 1.0], size=K) for _ in range(d)]
    V = [b[None, :] ** i[:, None] for b in bases]                       # n x K each
    if d == 2:
        if redundant:
            P, Q = g.normal(size=(K, K)), g.normal(size=(K, K))
            Y = [np.hstack([V[0], V[0] @ P]).reshape(1, n, 2 * K), np.vstack([V[1].T, Q @ V[1].T]).reshape(2 * K, n, 1)]
        else:
            Y = [V[0].reshape(1, n, K), V[1].T.reshape(K, n, 1)]
    else:
        mid = np.zeros((K, n, K))
        for k in range(K):
            mid[k, :, k] = V[1][:, k]
        Y = [V[0].reshape(1, n, K), mid, V[2].T.reshape(K, n, 1)]
    A = gen.dense(Y)
    cap = K + cap_extra
    Z = teneva.tt_to_qtt(Y, 1e-10, cap)
    msg = gen.wf(Z, [2] * (d * q))
    if msg:
        return FAIL('qtt not well-formed: ' + msg)
    for k in range(d * q - 1):
        bond = Z[k].shape[2]
        if (k + 1) % q == 0:
            if bond != Y[(k + 1) // q - 1].shape[2]:
                return FAIL(f'bond between modes {k}: {bond} != stored TT rank {Y[(k + 1) // q - 1].shape[2]}')
        elif bond > cap:
            return FAIL(f'inner bond {k}: {bond} > cap {cap}')
    B = gen.dense(Z)
    I = gen.all_indices([n] * d)
    Iq = np.array([[b for ii in row for b in _bits(int(ii), q)] for row in I]).reshape(len(I), d * q)
    err = np.linalg.norm(B[tuple(Iq.T)] - A[tuple(I.T)])
    if not err <= 1e-7 * np.linalg.norm(A):
        return FAIL(f'QTT[bits(i)] != TT[i] although the cap {cap} is >= the exact rank {K}: rel. err {err / np.linalg.norm(A):.3e}, '
                    f'ranks {[G.shape[2] for G in Z]}')
    W = teneva.qtt_to_tt(Z, q)
    msg = gen.wf(W, [n] * d)
    if msg:
        return FAIL('back-converted tt not well-formed: ' + msg)
    if not np.linalg.norm(gen.dense(W) - A) <= 1e-7 * np.linalg.norm(A):
        return FAIL('round trip TT -> QTT -> TT changed the tensor')
    return PASS


# ----------------------------------------------------------------------------- parameter / regime coverage (audit)

EPS = np.finfo(float).eps
FLOOR = 4.0 * np.sqrt(EPS)       # matrix_svd works on the Gram matrix: singular values below sqrt(eps) ||A|| are noise


def _scaled(Y, mag):
    """Y * 2^mag exactly, the exponent spread over the cores (remainder on core 0)."""
    if not mag:
        return Y
    d = len(Y)
    per = int(mag / d)
    Z = [G * 2.0 ** per for G in Y]
    Z[0] = Z[0] * 2.0 ** (mag - per * d)
    return Z


def _fro(X):
    """Frobenius norm without under- / overflow of the squares."""
    X = np.asarray(X, dtype=float)
    m = float(np.abs(X).max()) if X.size else 0.0
    if not np.isfinite(m) or m == 0.0:
        return m
    return m * float(np.linalg.norm(X / m))


def _le_merge(B, d, q):
    """Dense QTT tensor of shape [2]*(d*q) -> dense TT tensor [2^q]*d, QTT mode q*k+j = bit j (little-endian) of i_k."""
    return np.reshape(B, [2 ** q] * d, order='F')


def _chain_core(L):
    """Own contraction of a list of cores (a_j, 2, a_j+1) to an array (a_0, 2, ..., 2, a_q)."""
    H = np.asarray(L[0])
    for Q in L[1:]:
        H = np.einsum('...a,abc->...bc', H, np.asarray(Q))
    return H


def _kw(e, cap):
    kw = {}
    if e is not None:
        kw['e'] = e
    if cap is not None:
        kw['r'] = cap
    return kw


def _core(r1, q, r2, kind, seed):
    g = gen.rng('C17.core', r1, q, r2, kind, seed)
    n = 2 ** q
    if kind == 'int':
        return g.integers(-3, 4, size=(r1, n, r2)).astype(float)
    if kind == 'gauss':
        return g.normal(size=(r1, n, r2))
    if kind == 'exp2':                 # every (a, b) fibre a sum of 2 exponentials in i: exact inner QTT rank <= 2 r1 / 2 r2 ...
        i = np.arange(n)
        G = np.zeros((r1, n, r2))
        for a in range(r1):
            for b in range(r2):
                for _ in range(2):
                    G[a, :, b] += g.normal() * np.exp(g.uniform(-3.0, 1.0) * i / n) * (g.choice([-1.0, 1.0]) ** i)
        return G
    if kind == 'zero':
        return np.zeros((r1, n, r2))
    raise ValueError(kind)


@clause('C17.core.direct', funcs=('core.core_tt_to_qtt', 'core.core_qtt_to_tt', 'svd.matrix_svd'))
def core_direct(r1, q, r2, kind, seed, erel, cap, mag):
    """core_tt_to_qtt called directly on one core (r1, 2^q, r2) (defaults e = 0, r = 1e12 when erel / cap are None; e is
    an ABSOLUTE accuracy, given here as erel * ||G||_F): q cores (a_j, 2, a_j+1) with a_0 = r1, a_q = r2, inner bonds
    <= cap; if the cap does not bind, the chain contracted with little-endian bits reproduces G within q*e (+ the
    sqrt(eps) floor of the Gram-matrix SVD); core_qtt_to_tt of the list is that chain (exactly for integer cores);
    the argument is left unchanged."""
    n = 2 ** q
    G = _core(r1, q, r2, kind, seed) * 2.0 ** mag
    nrm = _fro(G)
    e = None if erel is None else erel * nrm
    snap = gen.snapshot(G)
    L = teneva.core_tt_to_qtt(G, **_kw(e, cap))
    if gen.snapshot(G) != snap:
        return FAIL('core_tt_to_qtt changed its argument')
    if not isinstance(L, list) or len(L) != q:
        return FAIL(f'{type(L).__name__} of length {len(L) if hasattr(L, "__len__") else "?"}, expected a list of {q} cores')
    for j, Q in enumerate(L):
        if not isinstance(Q, np.ndarray) or Q.ndim != 3 or Q.shape[1] != 2 or min(Q.shape) < 1 or not np.all(np.isfinite(Q)):
            return FAIL(f'QTT core {j}: shape {getattr(Q, "shape", None)} / non-finite')
        if j and Q.shape[0] != L[j - 1].shape[2]:
            return FAIL(f'bond {j}: {L[j - 1].shape[2]} != {Q.shape[0]}')
    if L[0].shape[0] != r1 or L[-1].shape[2] != r2:
        return FAIL(f'outer ranks ({L[0].shape[0]}, {L[-1].shape[2]}) != ({r1}, {r2})')
    capi = 10 ** 12 if cap is None else max(1, int(cap))
    inner = [Q.shape[2] for Q in L[:-1]]
    if any(b > capi for b in inner):
        return FAIL(f'inner bonds {inner} exceed the cap {cap}')
    C = _chain_core(L)                                                                # (r1, 2, ..., 2, r2)
    H = np.stack([np.stack([np.reshape(C[a, ..., b], n, order='F') for b in range(r2)], axis=-1) for a in range(r1)], axis=0)
    # exact unfolding ranks decide whether the cap binds: bond j separates (r1, bits < j) from (bits >= j, r2); j = q is
    # the unfolding towards the next mode - the routine caps that factorisation as well (the bond keeps its size r2)
    binding = False
    if cap is not None and nrm > 0:
        T = np.stack([np.stack([np.reshape(G[a, :, b], [2] * q, order='F') for b in range(r2)], axis=-1) for a in range(r1)], axis=0)
        for j in range(1, q + 1):
            M = T.reshape(r1 * 2 ** j, -1)
            sv = np.linalg.svd(M, compute_uv=False)
            if int(np.sum(sv > 1e-9 * sv[0])) > capi:
                binding = True
    W = teneva.core_qtt_to_tt(L)
    if not isinstance(W, np.ndarray) or W.shape != (r1, n, r2):
        return FAIL(f'core_qtt_to_tt: shape {getattr(W, "shape", None)} != {(r1, n, r2)}')
    if not np.abs(W - H).max() <= 64 * EPS * q * max(1e-300, float(np.abs(_chain_core([np.abs(Q) for Q in L])).max())):
        return FAIL('core_qtt_to_tt differs from the own little-endian contraction of the list')
    if binding:
        return TRIVIAL('rank cap binds: structure only')
    err = _fro(H - G)
    tol = q * (0.0 if e is None else e) + FLOOR * q * nrm
    if not err <= tol:
        return FAIL(f'chain of the QTT cores differs from the core: ||.|| = {err:.3e} > q e + floor = {tol:.3e} (||G|| = {nrm:.3e}, '
                    f'inner bonds {inner})')
    return PASS if nrm > 0 else TRIVIAL('zero core')


@clause('C17.qtt_to_tt.direct', funcs=('act_one.qtt_to_tt', 'core.core_qtt_to_tt'))
def qtt_to_tt_direct(d, q, r, kind, seed, mag):
    """qtt_to_tt on an arbitrary QTT tensor (random ranks, not produced by tt_to_qtt): well-formed TT of shape [2^q]^d
    whose bonds are the QTT bonds between the modes and whose entry at i is the QTT entry at the little-endian bits of
    i - exactly for integer cores; q = 1 returns equal cores; the argument is left unchanged."""
    g = gen.rng('C17.qtt', d, q, r, kind, seed)
    rr = [1] + [int(g.integers(1, r + 1)) for _ in range(d * q - 1)] + [1]
    Z = _scaled(gen.tt([2] * (d * q), rr, seed, kind), mag)
    snap = gen.snapshot(Z)
    W = teneva.qtt_to_tt(Z, q)
    if gen.snapshot(Z) != snap:
        return FAIL('qtt_to_tt changed its argument')
    msg = gen.wf(W, [2 ** q] * d)
    if msg:
        return FAIL('not well-formed: ' + msg)
    for k in range(d - 1):
        if W[k].shape[2] != rr[(k + 1) * q]:
            return FAIL(f'TT bond {k}: {W[k].shape[2]} != QTT bond {rr[(k + 1) * q]} between the modes')
    want = _le_merge(gen.dense(Z), d, q)
    got = gen.dense(W)
    if kind == 'int':
        if not np.array_equal(got, want):
            return FAIL(f'entries differ (exact integer tensor), first at {np.argwhere(got != want)[0].tolist()}')
    elif not gen.close(got, want, _le_merge(gen.absdense(Z), d, q), c=64.0 * d * q):
        return FAIL(f'entries differ by up to {np.abs(got - want).max():.3e}')
    if q == 1 and not all(np.array_equal(A, B) for A, B in zip(W, Z)):
        return FAIL('q = 1: cores changed')
    return PASS


def _bits_vec(I, q):
    """(m, d) integer array -> (m, d*q) little-endian bits (vectorised own expansion)."""
    I = np.asarray(I, dtype=np.int64)
    return ((I[:, :, None] >> np.arange(q, dtype=np.int64)[None, None, :]) & 1).reshape(I.shape[0], -1)


@clause('C17.tt_qtt.large_q', funcs=('act_one.tt_to_qtt', 'act_one.qtt_to_tt', 'core.core_tt_to_qtt', 'core.core_qtt_to_tt'))
def tt_qtt_large_q(d, q, K, kind, seed, cap, defaults):
    """Mode sizes 2^q up to 4096 (d = 1, 2): TT cores that are sums of K separable exponentials (exact inner QTT rank <= K)
    or Gaussian cores (cap None); tt_to_qtt with the cap (>= K) or with its defaults (e = 1e-12, r = 100): well-formed,
    inner bonds <= cap, bonds between modes kept, the QTT entry at the bits of i equals the TT entry at i for EVERY i,
    qtt_to_tt returns the tensor."""
    n = 2 ** q
    g = gen.rng('C17.large_q', d, q, K, kind, seed)
    i = np.arange(n)
    if kind == 'exp':
        V = [np.exp(g.uniform(-3.0, 1.0, size=K)[None, :] * i[:, None] / n) * (g.choice([-1.0, 1.0], size=K)[None, :] ** i[:, None])
             for _ in range(d)]
        Y = [V[0].sum(axis=1).reshape(1, n, 1)] if d == 1 else [V[0].reshape(1, n, K), V[1].T.reshape(K, n, 1)]
    else:
        Y = gen.tt([n] * d, K, seed, 'gauss')
    A = gen.dense(Y)
    Z = teneva.tt_to_qtt(Y) if defaults else teneva.tt_to_qtt(Y, 1e-10 * float(min(np.linalg.norm(G) for G in Y)), cap)
    msg = gen.wf(Z, [2] * (d * q))
    if msg:
        return FAIL('qtt not well-formed: ' + msg)
    capi = 100 if defaults else int(cap)
    for k in range(d * q - 1):
        bond = Z[k].shape[2]
        if (k + 1) % q == 0:
            if bond != Y[(k + 1) // q - 1].shape[2]:
                return FAIL(f'bond between modes {k}: {bond} != stored TT rank {Y[(k + 1) // q - 1].shape[2]}')
        elif bond > capi:
            return FAIL(f'inner bond {k}: {bond} > cap {capi}')
    B = _le_merge(gen.dense(Z), d, q)
    nrm = float(np.linalg.norm(A))
    if kind == 'exp' or capi >= n:
        err = float(np.linalg.norm(B - A))
        if not err <= 1e-6 * nrm:
            return FAIL(f'QTT[bits(i)] != TT[i]: rel. err {err / nrm:.3e}, ranks {[G.shape[2] for G in Z]}')
    # spot check through the index map (independent of the reshape above)
    I = np.stack([g.integers(0, n, size=64) for _ in range(d)], axis=1)
    Iq = _bits_vec(I, q)
    vq = gen.dense(Z)[tuple(Iq.T)]
    if not np.array_equal(vq, B[tuple(I.T)]):
        return FAIL('internal: bit expansion and Fortran merge disagree')
    W = teneva.qtt_to_tt(Z, q)
    msg = gen.wf(W, [n] * d)
    if msg:
        return FAIL('back-converted tt not well-formed: ' + msg)
    if not np.linalg.norm(gen.dense(W) - B) <= 1e-10 * max(1e-300, float(np.linalg.norm(B))) * q:
        return FAIL('qtt_to_tt changes the denoted tensor')
    return PASS


@clause('C17.tt_qtt.scaled', funcs=('act_one.tt_to_qtt', 'act_one.qtt_to_tt', 'core.core_tt_to_qtt', 'svd.matrix_svd'))
def tt_qtt_scaled(d, q, r, kind, seed, mag, erel, cap):
    """The tensor times 2^mag (d = 1..3): the accuracy e is ABSOLUTE per core and is passed as erel * min_k ||G_k||_F, so
    the statement is scale-free: QTT[bits(i)] = TT[i] within sum_k (q e + floor ||G_k||) prod_{j != k} ||G_j||_F, the
    bonds between modes are kept, inner bonds <= cap, the round trip returns the tensor.  erel = None: defaults of
    tt_to_qtt (e = 1e-12, r = 100; only for scales where 1e-12 is far below the cores)."""
    n = 2 ** q
    Y = _scaled(gen.tt([n] * d, r, seed, kind), mag)
    A = gen.dense(Y)
    nk = [_fro(G) for G in Y]
    if min(nk) == 0:
        return SKIP('a zero core')
    snap = gen.snapshot(Y)
    if erel is None:
        e, capi = 1e-12, 100
        Z = teneva.tt_to_qtt(Y)
    else:
        e, capi = erel * min(nk), max(1, int(cap))
        Z = teneva.tt_to_qtt(Y, e, cap)
    if gen.snapshot(Y) != snap:
        return FAIL('tt_to_qtt changed its argument')
    msg = gen.wf(Z, [2] * (d * q))
    if msg:
        return FAIL('qtt not well-formed: ' + msg)
    if not gen.finite(Z):
        return FAIL('non-finite QTT cores')
    for k in range(d * q - 1):
        bond = Z[k].shape[2]
        if (k + 1) % q == 0:
            if bond != Y[(k + 1) // q - 1].shape[2]:
                return FAIL(f'bond between modes {k}: {bond} != {Y[(k + 1) // q - 1].shape[2]}')
        elif bond > capi:
            return FAIL(f'inner bond {k}: {bond} > cap {capi}')
    B = _le_merge(gen.dense(Z), d, q)
    W = teneva.qtt_to_tt(Z, q)
    msg = gen.wf(W, [n] * d)
    if msg:
        return FAIL('back-converted tt not well-formed: ' + msg)
    if not _fro(gen.dense(W) - B) <= 1e-12 * q * _fro(B):
        return FAIL('qtt_to_tt changes the denoted tensor')
    if capi < 2 ** (q // 2) * r:
        return TRIVIAL('rank cap may bind: structure only')
    lg = [np.log2(x) for x in nk]
    tol = sum((q * e + FLOOR * q * nk[k]) * 2.0 ** (sum(lg) - lg[k]) for k in range(d))
    err = _fro(B - A)
    if not err <= tol:
        return FAIL(f'QTT[bits(i)] != TT[i]: ||.|| = {err:.3e} > {tol:.3e} (||A|| = {_fro(A):.3e}, e = {e:.3e})')
    return PASS


@clause('C17.ind.forms', funcs=('grid.ind_tt_to_qtt', 'grid.ind_qtt_to_tt'))
def ind_forms(d, q, seed, form):
    """Input forms of the index maps: list of lists, 1-D list, tuple rows, int32 / int16 / uint8 / uint64 arrays, n and q as
    NumPy integers: the same little-endian expansion / its inverse, integer result that holds values up to 2^q - 1."""
    n = 2 ** q
    g = gen.rng('C17.forms', d, q, seed)
    I = np.stack([np.concatenate([[0, n - 1, n // 2], g.integers(0, n, size=9)]) for _ in range(d)], axis=1).astype(np.int64)
    want = _bits_vec(I, q)
    nn, qq = n, q
    if form == 'lists':
        a, b = I.tolist(), want.tolist()
    elif form == 'tuples':
        a, b = [tuple(r_) for r_ in I.tolist()], [tuple(r_) for r_ in want.tolist()]
    elif form == 'single_list':
        a, b = I[1].tolist(), want[1].tolist()
    elif form == 'np_scalars':
        a, b, nn, qq = I, want, np.int64(n), np.int64(q)
    elif form == 'np_int32_scalars':
        a, b, nn, qq = I, want, np.int32(n), np.int32(q)
    elif form in ('int32', 'int16', 'uint8', 'uint64', 'int8'):
        dt = np.dtype(form)
        if n - 1 > np.iinfo(dt).max:
            return SKIP('index does not fit the dtype')
        a, b = I.astype(dt), want.astype(dt)
    else:
        raise ValueError(form)
    got = teneva.ind_tt_to_qtt(a, nn)
    back = teneva.ind_qtt_to_tt(b, qq)
    if form == 'single_list':
        if np.shape(got) != (d * q,) or not np.array_equal(got, want[1]):
            return FAIL(f'1-D list: expansion {np.asarray(got).tolist()} != {want[1].tolist()}')
        if np.shape(back) != (d,) or not np.array_equal(back, I[1]):
            return FAIL(f'1-D list: inverse {np.asarray(back).tolist()} != {I[1].tolist()}')
        return PASS
    if np.shape(got) != want.shape or not np.array_equal(got, want):
        return FAIL(f'{form}: bit expansion differs')
    if np.shape(back) != I.shape or not np.array_equal(np.asarray(back).astype(object), I.astype(object)):
        return FAIL(f'{form}: inverse differs: {np.asarray(back)[:3].tolist()} vs {I[:3].tolist()}')
    if np.asarray(back).dtype.kind not in 'iu' or np.asarray(got).dtype.kind not in 'iu':
        return FAIL(f'{form}: result dtypes {np.asarray(got).dtype}, {np.asarray(back).dtype}')
    return PASS


# ----------------------------------------------------------------------------- input FORMS (f4-forms)

CORE_FORMS = ('f32', 'i64', 'i32', 'imixed', 'mixed', 'mixed1', 'F', 'V', 'ro', 'tuple', 'f32+F', 'i64+V+tuple', 'F+ro', 'mixed+F', 'mixed1+V+tuple')


def _cap_form(cap, nform):
    """(e-form, cap-form, q-form) of the numbers: r is documented as int (tt_to_qtt) / (int, float) (optima_qtt, matrix_svd)."""
    if nform == 'np32':
        return np.float32, np.int32(cap), np.int32
    if nform == 'np64':
        return np.float64, np.int64(cap), np.int64
    if nform == '0d':
        return (lambda x: np.array(float(x))), np.array(int(cap)), (lambda x: np.array(int(x)))
    if nform == 'rfloat':
        return float, float(cap), int
    if nform == 'rf32':
        return np.float64, np.float32(cap), np.uint8
    return float, int(cap), int


@clause('C17.input_form.convert', funcs=('act_one.tt_to_qtt', 'act_one.qtt_to_tt', 'core.core_tt_to_qtt', 'core.core_qtt_to_tt',
                                         'svd.matrix_svd'))
def input_form_convert(d, q, r, seed, form, nform, cap, call):
    """tt_to_qtt / qtt_to_tt / core_tt_to_qtt / core_qtt_to_tt on tensors passed in another input FORM (gen.tt_form: float32,
    int64, int32, mixed dtypes between cores, Fortran order, non-contiguous views, read-only arrays, tuple of cores) with e / r / q
    as NumPy numbers, positional or keyword call.  Reference: the float64 image of what is passed (the unchanged library converts
    to float64 inside matrix_svd, so the float64 budget of C17.tt_qtt.scaled applies to every dtype).
    (a) integer-valued TT tensor on [2^q]^d -> QTT: well-formed float cores, bonds between modes kept, inner bonds <= cap,
        QTT[bits(i)] = TT[i] within sum_k (q e + floor ||G_k||) prod_{j != k} ||G_j|| when the cap cannot bind;
    (b) an arbitrary QTT tensor (random ranks; first core integer-valued, the others Gaussian for the mixed forms, all
        integer-valued for the pure float32 / integer forms) -> TT: entry at i = QTT entry at the little-endian bits of i,
        exactly for integer values; bonds between the modes kept;
    (c) the same through core_tt_to_qtt / core_qtt_to_tt on the first core / the first q QTT cores.
    The arguments are left unchanged."""
    n = 2 ** q
    ef, capf, qf = _cap_form(cap, nform)
    toks = form.split('+')
    ints = toks[0] in ('i64', 'i32', 'imixed', 'f32')
    # (a) TT -> QTT
    Y0 = gen.tt([n] * d, r, seed, 'int')
    Z, Yi = gen.tt_form(Y0, form)
    A = gen.dense(Yi)
    nk = [_fro(G) for G in Yi]
    if min(nk) == 0:
        return SKIP('a zero core')
    e0 = 1e-12 * min(nk)
    snap = gen.snapshot(list(Z))
    Q = gen.call_form(teneva.tt_to_qtt, ('Y', 'e', 'r'), (Z, ef(e0), capf), (gen.call_form.REQ, 1e-12, 100), call)
    if gen.snapshot(list(Z)) != snap:
        return FAIL('tt_to_qtt changed its argument')
    msg = gen.wf(Q, [2] * (d * q))
    if msg:
        return FAIL('qtt not well-formed: ' + msg)
    if not gen.finite(Q):
        return FAIL('non-finite QTT cores')
    for k in range(d * q - 1):
        bond = Q[k].shape[2]
        if (k + 1) % q == 0:
            if bond != Yi[(k + 1) // q - 1].shape[2]:
                return FAIL(f'bond between modes {k}: {bond} != {Yi[(k + 1) // q - 1].shape[2]}')
        elif bond > max(1, int(cap)):
            return FAIL(f'inner bond {k}: {bond} > cap {cap}')
    binding = int(cap) < 2 ** (q // 2) * r
    if not binding:
        lg = [np.log2(x) for x in nk]
        tol = sum((q * float(np.float32(e0) if nform == 'np32' else e0) * 1.0001 + FLOOR * q * nk[k]) * 2.0 ** (sum(lg) - lg[k]) for k in range(d))
        err = _fro(_le_merge(gen.dense(Q), d, q) - A)
        if not err <= tol:
            return FAIL(f'QTT[bits(i)] != TT[i]: ||.|| = {err:.3e} > {tol:.3e} (||A|| = {_fro(A):.3e})')
    # (c1) one core directly
    G = Z[0]
    L = gen.call_form(teneva.core_tt_to_qtt, ('G', 'e', 'r'), (G, ef(e0), capf), (gen.call_form.REQ, 0., 1.E+12), call)
    if not isinstance(L, list) or len(L) != q or any(not isinstance(X, np.ndarray) or X.ndim != 3 or X.shape[1] != 2 for X in L):
        return FAIL('core_tt_to_qtt: not a list of q cores (a, 2, b)')
    if L[0].shape[0] != 1 or L[-1].shape[2] != Yi[0].shape[2] or any(X.shape[2] > max(1, int(cap)) for X in L[:-1]):
        return FAIL(f'core_tt_to_qtt: bonds {[X.shape for X in L]} (cap {cap})')
    if not binding:
        C = _chain_core(L)
        H = np.stack([np.reshape(C[0, ..., b], n, order='F') for b in range(Yi[0].shape[2])], axis=-1)[None]
        if not _fro(H - Yi[0]) <= q * e0 * 1.0001 + FLOOR * q * nk[0]:
            return FAIL(f'core_tt_to_qtt: chain differs from the core by {_fro(H - Yi[0]):.3e}')
    # (b) arbitrary QTT -> TT
    g = gen.rng('C17.form.qtt', d, q, r, seed)
    rr = [1] + [int(g.integers(1, r + 1)) for _ in range(d * q - 1)] + [1]
    W0 = gen.tt([2] * (d * q), rr, seed, 'int')
    if not ints:
        W0 = [W0[0]] + [X + np.round(g.normal(size=X.shape), 3) for X in W0[1:]]
    if not ints and toks[0] in ('mixed', 'mixed1'):
        # dtype pattern int64 / float32 / float64 ...: the first core integer, then alternating float32 / float64 (core by core,
        # each with the layout tokens of the form)
        lay = [t for t in toks[1:] if t != 'tuple']
        Wz, Wi = [], []
        for k, X in enumerate(W0):
            dt = ['i64'] if k == 0 else (['f32'] if (k + (toks[0] == 'mixed1')) % 2 else [])
            Xf, Xi = gen.tt_form([X], '+'.join(dt + lay))
            Wz.append(Xf[0])
            Wi.append(Xi[0])
        Wz = tuple(Wz) if 'tuple' in toks else Wz
    else:
        Wz, Wi = gen.tt_form(W0, form)
    snap = gen.snapshot(list(Wz))
    T = teneva.qtt_to_tt(Wz, qf(q)) if call in ('pos', 'min') else teneva.qtt_to_tt(Y=Wz, q=qf(q))
    if gen.snapshot(list(Wz)) != snap:
        return FAIL('qtt_to_tt changed its argument')
    if not isinstance(T, list) or len(T) != d or any(not isinstance(X, np.ndarray) or X.ndim != 3 for X in T):
        return FAIL('qtt_to_tt: not a list of d 3-D cores')
    if [X.shape[1] for X in T] != [n] * d or T[0].shape[0] != 1 or T[-1].shape[2] != 1:
        return FAIL(f'qtt_to_tt: shapes {[X.shape for X in T]}')
    for k in range(d - 1):
        if T[k].shape[2] != rr[(k + 1) * q] or T[k + 1].shape[0] != rr[(k + 1) * q]:
            return FAIL(f'TT bond {k}: {T[k].shape[2]} != QTT bond {rr[(k + 1) * q]} between the modes')
    want = _le_merge(gen.dense(Wi), d, q)
    got = gen.dense([np.asarray(X, dtype=float) for X in T])
    if ints:
        if not np.array_equal(got, want):
            return FAIL(f'qtt_to_tt: entries differ (exact integer tensor), first at {np.argwhere(got != want)[0].tolist()}: '
                        f'{got[tuple(np.argwhere(got != want)[0])]!r} vs {want[tuple(np.argwhere(got != want)[0])]!r}')
    elif not gen.close(got, want, _le_merge(gen.absdense(Wi), d, q), c=64.0 * d * q):
        return FAIL(f'qtt_to_tt: entries differ by up to {np.abs(got - want).max():.3e}')
    # (c2) core_qtt_to_tt on the first mode
    Lq = list(Wz[:q])
    Hc = teneva.core_qtt_to_tt(Lq)
    Cw = _chain_core(Wi[:q])
    Hw = np.stack([np.reshape(Cw[0, ..., b], n, order='F') for b in range(rr[q])], axis=-1)[None]
    if not isinstance(Hc, np.ndarray) or Hc.shape != Hw.shape:
        return FAIL(f'core_qtt_to_tt: shape {getattr(Hc, "shape", None)} != {Hw.shape}')
    sc = float(np.abs(_chain_core([np.abs(X) for X in Wi[:q]])).max())
    if not (np.array_equal(np.asarray(Hc, dtype=float), Hw) if ints else np.abs(np.asarray(Hc, dtype=float) - Hw).max() <= 64 * EPS * q * max(1e-300, sc)):
        return FAIL('core_qtt_to_tt differs from the own little-endian contraction of the list')
    if q == 1 and np.shares_memory(Hc, Lq[0]):
        return FAIL('core_qtt_to_tt: q = 1 returns a view of its argument')
    return PASS


@clause('C17.ind.array_forms', funcs=('grid.ind_tt_to_qtt', 'grid.ind_qtt_to_tt'))
def ind_array_forms(d, q, seed, form, single, call):
    """Index maps on index arrays in further forms (gen.idx_form): Fortran order, non-contiguous views, read-only arrays, tuple
    of tuples, and - for the BIT arrays of ind_qtt_to_tt, whose entries 0 / 1 fit every dtype although the result 2^q - 1 does
    not - int8 / uint8 / uint16 / int32 bit arrays for q up to 40; single index (1-D array / tuple) or batch; keyword or
    positional call, n / q as np.int64.  Same little-endian expansion / inverse, integer results, arguments unchanged."""
    n = 2 ** q
    g = gen.rng('C17.aforms', d, q, seed)
    I = np.stack([np.concatenate([[n - 1, 0, n // 2, max(0, n - 2)], g.integers(0, n, size=6)]) for _ in range(d)], axis=1).astype(np.int64)
    want = _bits_vec(I, q)
    small = [t for t in form.split('+') if t in ('u8', 'i8', 'u16', 'i32')]
    fits = not small or all(n - 1 <= np.iinfo({'u8': np.uint8, 'i8': np.int8, 'u16': np.uint16, 'i32': np.int32}[t]).max for t in small)
    b = gen.idx_form(want, form)
    a = gen.idx_form(I, form) if fits else gen.idx_form(I, '+'.join(t for t in form.split('+') if t not in small))
    if single:
        a = a[1] if isinstance(a, (np.ndarray, list, tuple)) else a
        b = b[1]
        I, want = I[1], want[1]
    sa, sb = gen.snapshot(a), gen.snapshot(b)
    if call == 'kw':
        got = teneva.ind_tt_to_qtt(I=a, n=np.int64(n))
        back = teneva.ind_qtt_to_tt(I_qtt=b, q=np.int64(q))
    else:
        got = teneva.ind_tt_to_qtt(a, n)
        back = teneva.ind_qtt_to_tt(b, q)
    if gen.snapshot(a) != sa or gen.snapshot(b) != sb:
        return FAIL('an index argument was changed')
    if not isinstance(got, np.ndarray) or got.dtype.kind not in 'iu' or got.shape != want.shape or not np.array_equal(got, want):
        return FAIL(f'{form}: bit expansion differs ({getattr(got, "dtype", None)}, {np.shape(got)})')
    if not isinstance(back, np.ndarray) or back.dtype.kind not in 'iu' or back.shape != I.shape \
            or not np.array_equal(back.astype(object), I.astype(object)):
        return FAIL(f'{form}: inverse differs: {np.asarray(back).reshape(-1)[:4].tolist()} vs {I.reshape(-1)[:4].tolist()} (dtype {getattr(back, "dtype", None)})')
    return PASS


def cases(tier, seed):
    big = tier == 'thorough'
    lim = 12 if big else 10
    for d in range(1, 5):
        for q in range(1, 7):
            if d * q <= lim:
                yield 'C17.ind.exhaustive', dict(d=d, q=q)
    for n in range(2, 70 if big else 40):
        yield 'C17.ind.raise', dict(n=n)
    for d in (1, 2, 3):
        for q in range(7, 17):
            for s_ in range(2 if big else 1):
                yield 'C17.ind.large_modes', dict(d=d, q=q, seed=s_)
    for d, qs in ((2, (3, 4, 5)), (3, (3, 4))):
        for q in qs:
            for K in (1, 2, 3):
                for cap_extra in (0, 1, 2):
                    for redundant in ((False, True) if d == 2 else (False,)):
                        for s_ in range(2 if big else 1):
                            yield 'C17.tt_qtt.capped_exact_rank', dict(d=d, q=q, K=K, cap_extra=cap_extra, redundant=redundant, seed=s_)
    # ---- parameter / regime coverage (audit) ----
    for n in (64, 100, 255, 256, 257, 511, 512, 513, 1000, 1024, 1025, 4095, 4096, 2 ** 16, 2 ** 16 + 1, 2 ** 18, 2 ** 18 - 1, 3 * 2 ** 10):
        yield 'C17.ind.raise', dict(n=n)
    # sizes RELATIVELY close to a large power of two (a tolerance-based test would accept them) and exact large powers
    for q in (17, 18, 20, 24, 30, 40, 50, 52, 53, 60, 62):
        for k in (0, 1, 3, -1, 2 ** (q - 17)):
            yield 'C17.ind.raise', dict(n=2 ** q + k)
    for d, q in ((1, 20), (2, 31), (1, 32), (2, 33), (1, 40), (3, 48), (1, 53), (2, 54), (1, 62), (2, 62),     # q*d bits, 2^q beyond int32 / 2^53
                 (63, 1), (64, 2), (70, 3), (200, 1), (200, 5), (1000, 2)) + (((5, 62), (500, 8), (3000, 1)) if big else ()):
        yield 'C17.ind.large_modes', dict(d=d, q=q, seed=0)
    for d, q in ((1, 1), (1, 3), (2, 1), (2, 4), (3, 2), (2, 7), (1, 8), (2, 9), (1, 15), (2, 16), (70, 2)):
        for form in ('lists', 'tuples', 'single_list', 'np_scalars', 'np_int32_scalars', 'int32', 'int16', 'int8', 'uint8', 'uint64'):
            yield 'C17.ind.forms', dict(d=d, q=q, seed=d + q, form=form)
    # core functions called directly: defaults, e (absolute, given relative to ||G||), caps (int / float / binding), scale
    for (r1, r2) in ((1, 1), (1, 3), (3, 1), (2, 2), (4, 3)) + (((5, 5), (1, 8)) if big else ()):
        for q in ((1, 2, 3, 4, 6, 9) if big else (1, 2, 3, 5)):
            for kind in ('gauss', 'int', 'exp2', 'zero'):
                for (erel, cap) in ((None, None), (0.0, 1e12), (1e-12, None), (1e-3, None), (0.1, 10 ** 12), (None, 2), (1e-6, 4.0), (None, 1),
                                    (1e-10, 2 * max(r1, r2)), (None, 100)):
                    if kind == 'zero' and (erel, cap) not in ((None, None), (1e-3, None)):
                        continue
                    if not big and kind != 'gauss' and (q + r1 + r2 + int(cap or 0)) % 2:
                        continue
                    for mag in ((0, -300, -40, 40, 300) if (big or (erel, cap) in ((None, None), (1e-3, None))) else (0,)):
                        yield 'C17.core.direct', dict(r1=r1, q=q, r2=r2, kind=kind, seed=q + r1, erel=erel, cap=cap, mag=mag)
    for d in (1, 2, 3, 4):
        for q in (1, 2, 3, 4, 6):
            if d * q > (14 if big else 12):
                continue
            for r in (1, 2, 4):
                for kind in ('int', 'gauss'):
                    for mag in ((0, -600, 600) if kind == 'gauss' else (0, 40)):
                        for sd in range(3 if big else 1):
                            yield 'C17.qtt_to_tt.direct', dict(d=d, q=q, r=r, kind=kind, seed=sd, mag=mag)
    for d in (1, 2):
        for q in ((7, 9, 10, 11, 12) if big else (9, 10)):
            if d * q > (22 if big else 18):
                continue
            for K in (1, 2, 3):
                for cap in (K, K + 1, 100.0):
                    yield 'C17.tt_qtt.large_q', dict(d=d, q=q, K=K, kind='exp', seed=q + K, cap=cap, defaults=False)
                yield 'C17.tt_qtt.large_q', dict(d=d, q=q, K=K, kind='exp', seed=q + K, cap=0, defaults=True)
                yield 'C17.tt_qtt.large_q', dict(d=d, q=q, K=K, kind='gauss', seed=q + K, cap=2 ** q, defaults=False)
                yield 'C17.tt_qtt.large_q', dict(d=d, q=q, K=K, kind='gauss', seed=q + K, cap=3, defaults=False)     # structure only
    for d in (1, 2, 3):
        for q in (1, 2, 3) + ((4,) if d < 3 else ()):
            for r in (1, 2, 3, 5):
                for kind in ('gauss', 'int'):
                    for (erel, cap) in ((1e-12, 10 ** 12), (1e-3, 10 ** 12), (0.05, 1e12), (1e-12, 2), (None, None), (0.0, 64)):
                        for mag in ((0, -600, -54, 54, 600) if big else (0, -600, 54) if erel in (1e-3, 1e-12) and cap == 10 ** 12 else (0,)):
                            if erel is None and mag < 0:
                                continue                          # default e = 1e-12 is absolute: keep clear of it
                            if d == 1:
                                mag = mag // 2                    # per-core scale within 2^+-300 (see DOUBTFUL below)
                            yield 'C17.tt_qtt.scaled', dict(d=d, q=q, r=r, kind=kind, seed=d + q + r, mag=mag, erel=erel, cap=cap)
    # ---- input FORMS (f4-forms)
    j = 0
    for d, q in ((1, 3), (2, 2), (2, 1), (3, 2)) + (((1, 5), (2, 3), (3, 1)) if big else ()):
        for form in CORE_FORMS:
            for nform in ('py', 'np64', 'np32', '0d', 'rfloat', 'rf32'):
                j += 1
                if not big and j % 3:
                    continue
                yield 'C17.input_form.convert', dict(d=d, q=q, r=(2, 3)[j % 2], seed=j % 4, form=form, nform=nform,
                                                     cap=(64, 2, 100, 1)[(j // 3) % 4], call=('pos', 'kw', 'mix:1', 'mix:2')[(j // 3) % 4])
    j = 0
    for d, q in ((1, 3), (2, 9), (3, 2), (2, 16), (1, 31), (2, 40)) + (((1, 1), (70, 2), (2, 12), (1, 52)) if big else ()):
        for form in ('F', 'V', 'ro', 'tuple', 'u8', 'i8', 'u16', 'i32', 'i32+F', 'u8+V', 'i8+ro', 'F+ro'):
            for single in (False, True):
                j += 1
                if single and j % 3 and not big:
                    continue
                yield 'C17.ind.array_forms', dict(d=d, q=q, seed=j % 3, form=form, single=single, call=('pos', 'kw')[j % 2])
    g = gen.rng('C17', seed)
    for d in (2, 3):
        for q in (1, 2, 3):
            for r in (1, 2, 3, 5):
                for kind in ('gauss', 'int'):
                    for e, cap in ((1e-12, 10 ** 12), (1e-2, 10 ** 12), (1e-12, 2), (0.0, 1)):
                        for rep in range(3 if big else 1):
                            yield 'C17.tt_qtt.roundtrip', dict(d=d, q=q, r=r, seed=int(g.integers(1 << 30)),
                                                               kind=kind, e=e, cap=cap)
    # DOUBTFUL (disabled): a core whose entries are below about 1e-154 (or above 1e154) is lost, because matrix_svd forms
    # the Gram matrix A A^T whose entries under- / overflow: tt_to_qtt of a vector of magnitude 2^-600 returns zero cores.
    # The entries are ordinary doubles, but squares of the data leave the range - recorded, not counted.
    # yield 'C17.tt_qtt.scaled', dict(d=1, q=2, r=1, kind='gauss', seed=4, mag=-600, erel=1e-12, cap=10 ** 12)
