"""C17 (bounded, T3): QTT conversion and index maps are mutually inverse and value-preserving.

Reference example of a suite: every clause exercises the real functions from /repo against an
independent oracle; params are JSON-able and fully determine the case.
"""
import itertools
import numpy as np
import teneva
from rtc.api import clause, PASS, FAIL, TRIVIAL, SKIP, check
from rtc import gen


BUDGET = (120, 900)     # wall-clock guard in seconds (quick, thorough)
BOUNDS = 'index maps exhaustive for q*d <= 10 (quick) / 12 (thorough); conversions d<=3, q<=3, r<=5, 4 (e, cap) settings'


def _bits(i, q):
    return [(i >> j) & 1 for j in range(q)]


@clause('C17.ind.exhaustive', funcs=('grid.ind_tt_to_qtt', 'grid.ind_qtt_to_tt'))
def ind_exhaustive(d, q):
    """Every multi-index of [2^q]^d: bits are the little-endian expansion, the maps are inverse both ways,
    a single index gives the same answer as a batch of one."""
    n = 2 ** q
    I = gen.all_indices([n] * d)
    want = np.array([[b for i in row for b in _bits(int(i), q)] for row in I], dtype=int).reshape(len(I), d * q)
    got = teneva.ind_tt_to_qtt(I, n)
    if got.shape != want.shape or not np.array_equal(got, want):
        return FAIL(f'batch expansion differs, first bad row {int(np.argmax((got != want).any(axis=1)))}')
    if got.dtype.kind not in 'iu':
        return FAIL(f'dtype {got.dtype}')
    back = teneva.ind_qtt_to_tt(got, q)
    if not np.array_equal(back, I):
        return FAIL('qtt_to_tt(tt_to_qtt(I)) != I')
    # all bit strings -> indices -> bit strings
    Q = gen.all_indices([2] * (d * q))
    J = teneva.ind_qtt_to_tt(Q, q)
    wantJ = np.array([[sum(int(row[q * k + j]) << j for j in range(q)) for k in range(d)] for row in Q])
    if not np.array_equal(J, wantJ.reshape(len(Q), d)):
        return FAIL('ind_qtt_to_tt differs from sum of bits * 2^j')
    if not np.array_equal(teneva.ind_tt_to_qtt(J, n), Q):
        return FAIL('tt_to_qtt(qtt_to_tt(Q)) != Q')
    for row, w in list(zip(I, want))[:: max(1, len(I) // 16)]:
        one = teneva.ind_tt_to_qtt(row, n)
        if one.shape != (d * q,) or not np.array_equal(one, w):
            return FAIL(f'single index {row.tolist()} differs from batch')
        b1 = teneva.ind_qtt_to_tt(w, q)
        if b1.shape != (d,) or not np.array_equal(b1, row):
            return FAIL(f'single qtt index {w.tolist()} differs from batch')
    return PASS


@clause('C17.ind.raise', funcs=('grid.ind_tt_to_qtt', 'core.core_tt_to_qtt'))
def ind_raise(n):
    """Non-power-of-two mode sizes are rejected with ValueError; powers of two are accepted."""
    pow2 = n >= 1 and (n & (n - 1)) == 0
    for what in ('ind', 'core'):
        try:
            if what == 'ind':
                teneva.ind_tt_to_qtt(np.zeros((1, 2), dtype=int), n)
            else:
                teneva.core_tt_to_qtt(np.ones((2, n, 2)))
            raised = False
        except ValueError:
            raised = True
        if n >= 2 and raised == pow2:
            return FAIL(f'{what}: n={n} raised={raised}')
    return PASS


@clause('C17.tt_qtt.roundtrip', funcs=('act_one.tt_to_qtt', 'act_one.qtt_to_tt', 'core.core_tt_to_qtt',
                                       'core.core_qtt_to_tt'))
def tt_qtt_roundtrip(d, q, r, seed, kind, e, cap):
    """tt -> qtt -> tt denotes the same tensor (within e), QTT entry at the bits of i equals TT entry at i,
    bonds between modes keep the TT ranks, inner bonds <= max(1, cap)."""
    n = 2 ** q
    Y = gen.tt([n] * d, r, seed, kind)
    A = gen.dense(Y)
    Z = teneva.tt_to_qtt(Y, e, cap)
    msg = gen.wf(Z, [2] * (d * q))
    if msg:
        return FAIL('qtt not well-formed: ' + msg)
    for k in range(d * q - 1):
        bond = Z[k].shape[2]
        if (k + 1) % q == 0:
            if bond != Y[(k + 1) // q - 1].shape[2]:
                return FAIL(f'bond between modes {k}: {bond} != {Y[(k + 1) // q - 1].shape[2]}')
        elif bond > max(1, int(cap)):
            return FAIL(f'inner bond {k}: {bond} > cap {cap}')
    B = gen.dense(Z)
    I = gen.all_indices([n] * d)
    Iq = np.array([[b for i in row for b in _bits(int(i), q)] for row in I]).reshape(len(I), d * q)
    vq = B[tuple(Iq.T)]
    vt = A[tuple(I.T)]
    nrm = np.linalg.norm(A)
    tol = (e * np.sqrt(max(1, d * q)) * 4 + 1e-10) * max(nrm, 1e-300) if cap >= 10 ** 6 else None
    if tol is not None and not np.linalg.norm(vq - vt) <= tol:
        return FAIL(f'QTT[bits(i)] != TT[i]: err {np.linalg.norm(vq - vt):.3e} tol {tol:.3e}')
    W = teneva.qtt_to_tt(Z, q)
    msg = gen.wf(W, [n] * d)
    if msg:
        return FAIL('back-converted tt not well-formed: ' + msg)
    C = gen.dense(W)
    if not np.allclose(C[tuple(I.T)], vq, rtol=0, atol=1e-12 * max(1.0, np.abs(B).max()) * 2 ** q):
        return FAIL('qtt_to_tt changes the denoted tensor')
    return PASS if nrm > 0 else TRIVIAL('zero tensor')


def cases(tier, seed):
    big = tier == 'thorough'
    lim = 12 if big else 10
    for d in range(1, 5):
        for q in range(1, 7):
            if d * q <= lim:
                yield 'C17.ind.exhaustive', dict(d=d, q=q)
    for n in range(2, 70 if big else 40):
        yield 'C17.ind.raise', dict(n=n)
    g = gen.rng('C17', seed)
    for d in (2, 3):
        for q in (1, 2, 3):
            for r in (1, 2, 3, 5):
                for kind in ('gauss', 'int'):
                    for e, cap in ((1e-12, 10 ** 12), (1e-2, 10 ** 12), (1e-12, 2), (0.0, 1)):
                        for rep in range(3 if big else 1):
                            yield 'C17.tt_qtt.roundtrip', dict(d=d, q=q, r=r, seed=int(g.integers(1 << 30)),
                                                               kind=kind, e=e, cap=cap)
